/-
C08 — in-circuit Merkle (MMCS) opening verification agrees with native.

Models: `P3R.Model.MmcsNative` (p3-merkle-tree `verify_batch`, any arity) and
`P3R.Model.MmcsCircuit` (the gadget + the runner semantics of the rows it emits).

The circuit model is parametric in `Checks` (which build-time shape checks the gadget has:
height gate = fixes/C08-3, row-width check = fixes/C08-2, cap-bits check = fixes/C08-4);
`Checks.none` is the gadget before these repairs. `bin/checks_c08.py` tells the driver which gadget
/repo is declared to contain (status of F-C08-3 / F-C08-2 / F9p in known_findings.json).

FULL STATEMENT (the property as given): for every permutation, every dimension vector,
cap height, index, opening,
    `verifyBatch … = ok  ↔  verifyCircuit{2,4} chk … = ok`.
  * arity 4: FALSE for every `chk` — with a cap and a binary bridge level the gadget's path
    schedule stops early and an honest opening is rejected
    (`Witness.arity4_cap_bridge_disagree`, `Witness.mmcs_agree_arity4_false`; finding F-C08-1);
  * arity 2, `chk.widths = false`: false (`Witness.shifted_row_boundary_disagree`, F-C08-2);
  * arity 2, `chk.heights = false`: false (`Witness.height_off_ladder_disagree`, F-C08-3).
The last two witnesses are records of the unrepaired gadget only.

PROVED HERE (arity 2, every permutation, every dimension vector, every cap height, every index
and opening; no bound on sizes):
  * `sponge_overwrite_eq`   the circuit's overwrite-mode sponge rows = native `PaddingFreeSponge`
  * `cap_select_eq`         `select_cap_entry` on the remaining index bits = `cap[index >> depth]`
  * `index_bits_eq`         little-endian bits `(index >> k) & 1` = native `index % 2`, `index / 2`
  * `height_grouping_eq`    under the geometry gate the native injection group at `logical_next`
                            is the gadget's "rounds up to the level's power of two" group
  * `circuit_path_eq`       inject-before-compress row chain = native compress-then-inject fold
  * `mmcs_agree_arity2_core`     native verdict ⇔ runner verdict for any `chk` when gate and widths hold
  * `mmcs_agree_arity2_partial`  the same where gate / widths are hypotheses only if the gadget lacks
                            the corresponding check (otherwise proved: both sides reject)
  * `mmcs_agree_arity2_checked`  the repaired gadget (heights + widths): no hypothesis on heights or
                            on the widths of the opened rows
  * `cap_taller_than_index` a cap taller than the index is never accepted: build error with the
                            cap-bits check, panic without
Still assumed by `_partial` / `_checked`: positive widths, `index < max_height` (no range check in
the gadget), opening shape = circuit shape, cap length = 2^effective cap height (C15).
Missing for the full statement: arity 4 (defect F-C08-1; model + correspondence only).
-/
import P3R.Lemmas.MmcsSchedule
import P3R.Lemmas.MmcsCap

namespace P3R.C08
open P3R P3R.Mmcs

variable {K : Type} [CommRing K] [Nontrivial K] [DecidableEq K]

/-- The direction bits the verifier hands to the gadget for `index`: `(index >> k) & 1`. -/
def bitsOf (index L : Nat) : List K := (List.range L).map fun k => if (index >>> k) % 2 = 1 then 1 else 0

theorem bitsOf_eq (index L : Nat) : (bitsOf index L : List K) = (idxBits index L).map bitK := by
  unfold bitsOf
  rw [idxBits_eq_shift, List.map_map]
  apply List.map_congr_left
  intro k _
  simp only [Function.comp, bitK, beq_iff_eq]

theorem log2Strict?_pow (e : Nat) : log2Strict? (2 ^ e) = some e := by
  unfold log2Strict?
  simp [Nat.log2_two_pow]

theorem capHeight_decode (n e : Nat) (h : n = 2 ^ e) :
    (if n = 1 then some 0 else log2Strict? n) = some e := by
  subst h
  split
  · rename_i h1
    have : e = 0 := by
      rcases Nat.eq_zero_or_pos e with h0 | h0
      · exact h0
      · have : 2 ≤ 2 ^ e := by
          calc 2 = 2 ^ 1 := by norm_num
          _ ≤ 2 ^ e := Nat.pow_le_pow_right (by norm_num) h0
        omega
    rw [this]
  · exact log2Strict?_pow e

theorem range_targets (L P : Nat) (h : P ≤ L) :
    (List.range (P + 1)).map (fun i => 1 <<< (L - i)) = 2 ^ L :: targets L P := by
  rw [List.range_succ_eq_map]
  simp only [List.map_cons, List.map_map, Nat.sub_zero, Nat.one_shiftLeft, targets]
  congr 1
  apply List.map_congr_left
  intro i hi
  simp only [Function.comp, Nat.one_shiftLeft]
  congr 1
  omega

omit [CommRing K] [Nontrivial K] [DecidableEq K] in
/-- Width check + positive widths ⇒ every listed stream is non-empty. -/
theorem streamsNonempty_of_widths (dims : List Dim) (opened : List (List K))
    (hbatch : dims.length = opened.length)
    (hwidth : (dims.zip opened).all (fun x => x.2.length == x.1.width) = true)
    (hpos : ∀ d ∈ dims, 0 < d.width) :
    StreamsNonempty opened (tallestFirst dims) := by
  intro x hx
  unfold tallestFirst at hx
  rw [mem_sortDesc] at hx
  obtain ⟨hlt, hget⟩ := mem_enum hx
  have hlt' : x.1 < opened.length := by omega
  have hz : x.1 < (dims.zip opened).length := by simp; omega
  rw [List.all_eq_true] at hwidth
  have := hwidth ((dims.zip opened)[x.1]) (List.getElem_mem hz)
  rw [List.getElem_zip] at this
  simp only [beq_iff_eq] at this
  have hd : dims[x.1] ∈ dims := List.getElem_mem hlt
  have hp := hpos _ hd
  rw [List.getD_eq_getElem?_getD, List.getElem?_eq_getElem hlt']
  simp only [Option.getD_some]
  intro hnil
  rw [hnil] at this
  simp at this
  omega

theorem foldl_max_mem (l : List Nat) (a : Nat) : l.foldl max a = a ∨ l.foldl max a ∈ l := by
  induction l generalizing a with
  | nil => simp
  | cons b l ih =>
    simp only [List.foldl_cons, List.mem_cons]
    rcases ih (max a b) with h | h
    · rw [h]
      rcases Nat.le_total a b with hab | hab
      · right; left; exact Nat.max_eq_right hab
      · left; exact Nat.max_eq_left hab
    · right; right; exact h

/-- The head of the tallest-first list has the maximal height `mx`. -/
theorem head_height (dims : List Dim) (mx : Nat) (hgate : validateHeights (dims.map (·.height)) = .ok mx) :
    ∃ x rest, tallestFirst dims = x :: rest ∧ x.2.height = mx := by
  obtain ⟨hpos, hle, _, hmx⟩ := validateHeights_ok hgate
  have hmem : mx ∈ dims.map (·.height) := by
    rcases foldl_max_mem (dims.map (·.height)) 0 with h | h
    · omega
    · rw [hmx]; exact h
  obtain ⟨d, hd, hdh⟩ := List.mem_map.mp hmem
  obtain ⟨i, hi, hdi⟩ := List.mem_iff_getElem.mp hd
  have hin : (i, d) ∈ tallestFirst dims := by
    unfold tallestFirst
    rw [mem_sortDesc]
    unfold enum
    apply List.mem_iff_getElem.mpr
    refine ⟨i, by simp [hi], ?_⟩
    simp [List.getElem_zip, hdi]
  cases hs : tallestFirst dims with
  | nil => rw [hs] at hin; simp at hin
  | cons x rest =>
    refine ⟨x, rest, rfl, ?_⟩
    have hmaxhead := head_max_sortDesc (enum dims) x (i, d) (by unfold tallestFirst at hin; exact hin)
    have hx' : (sortDesc (enum dims)).headD x = x := by
      unfold tallestFirst at hs; rw [hs]; rfl
    rw [hx'] at hmaxhead
    have hxin : x ∈ tallestFirst dims := by rw [hs]; simp
    unfold tallestFirst at hxin
    rw [mem_sortDesc] at hxin
    obtain ⟨hxl, hxg⟩ := mem_enum hxin
    have hxh : x.2.height ≤ mx := by
      apply hle
      apply List.mem_map.mpr
      refine ⟨x.2, ?_, rfl⟩
      rw [List.getElem?_eq_getElem hxl] at hxg
      injection hxg with hxg
      rw [← hxg]; exact List.getElem_mem hxl
    simp only at hmaxhead
    omega

omit [CommRing K] [Nontrivial K] [DecidableEq K] in
theorem uniq_tallestFirst (dims : List Dim) (mx : Nat)
    (hgate : validateHeights (dims.map (·.height)) = .ok mx) : UniqBuckets (tallestFirst dims) := by
  obtain ⟨_, _, hu, _⟩ := validateHeights_ok hgate
  have hm : ∀ a ∈ tallestFirst dims, a.2.height ∈ dims.map (·.height) := by
    intro a ha
    unfold tallestFirst at ha
    rw [mem_sortDesc] at ha
    obtain ⟨hl, hg⟩ := mem_enum ha
    rw [List.getElem?_eq_getElem hl] at hg
    injection hg with hg
    exact List.mem_map.mpr ⟨dims[a.1], List.getElem_mem hl, by rw [hg]⟩
  intro a ha b hb hab
  exact hu _ (hm a ha) _ (hm b hb) hab


omit [Nontrivial K] in
theorem levelSpec_lengths (perm : List K → List K) (c : Cfg)
    (hperm : ∀ x, x.length = c.W → (perm x).length = c.W) (hr : c.rate ≤ c.W) (hdw : c.dig ≤ c.W)
    (streams : List (List K)) (ts : List Nat) (sorted : List (Nat × Dim)) :
    ∀ g ∈ levelSpec perm c streams ts sorted, g = [] ∨ g.length = c.dig := by
  intro g hg
  unfold levelSpec at hg
  obtain ⟨grp, _, rfl⟩ := List.mem_map.mp hg
  unfold levelDigest
  split
  · left; rfl
  · right; exact sponge_length perm c hperm hr hdw _

/-- **C08, arity 2** (`_partial`: the hypotheses marked ⟨unchecked⟩ are conjuncts of the native
verdict that the gadget does not check; they are necessary — see `P3R/Witness/C08.lean`).

For every permutation `perm` on width-`W` states (`W = 2·dig`, `rate = dig`, as in every
arity-2 configuration of the repository), every dimension vector, configured cap height,
index, opened rows and sibling digests: the native `verify_batch` accepts iff the runner
accepts the circuit emitted by `verify_batch_circuit` on the same data with direction bits
`(index >> k) & 1`, `k < log2_ceil(max_height)`. No bound on the number or sizes of matrices. -/
theorem mmcs_agree_arity2_core (chk : Checks) (perm : List K → List K) (c : Cfg)
    (hN : c.N = 2) (hW : c.W = 2 * c.dig) (hr : c.rate = c.dig) (hdig : 0 < c.dig)
    (hperm : ∀ x, x.length = c.W → (perm x).length = c.W)
    (capHeight : Nat) (cap : List (List K)) (dims : List Dim) (index : Nat)
    (opened proof : List (List K)) (mx : Nat)
    -- ⟨unchecked⟩ geometry gate: heights lie on the ladder ⌈max / 2^k⌉
    (hgate : validateHeights (dims.map (·.height)) = .ok mx)
    (hbatch : dims.length = opened.length)
    -- ⟨unchecked⟩ every opened row has its matrix's width; widths are positive
    (hwidth : (dims.zip opened).all (fun x => x.2.length == x.1.width) = true)
    (hpos : ∀ d ∈ dims, 0 < d.width)
    -- ⟨unchecked⟩ index bound
    (hidx : index < mx)
    -- the opening has the shape the circuit is built for
    (hproof : proof.length = log2Ceil mx - min capHeight (log2Ceil mx))
    (hsib : ∀ s ∈ proof, s.length = c.dig)
    -- the commitment is a cap of the configured (effective) height
    (hcap : cap.length = 2 ^ min capHeight (log2Ceil mx))
    (hcapd : ∀ e ∈ cap, e.length = c.dig) :
    verifyBatch perm c capHeight cap dims index opened proof = .ok () ↔
      (verifyCircuit2 chk perm ⟨c.W, c.rate, c.dig, false⟩ cap dims (bitsOf index (log2Ceil mx)) opened proof).1 = .ok := by
  obtain ⟨W, rate, dig, N⟩ := c
  simp only at hN hW hr hdig hperm hsib hcapd ⊢
  subst hr hN
  set c : Cfg := ⟨W, rate, rate, 2⟩ with hc
  have hN : c.N = 2 := rfl
  have hr : c.rate = c.dig := rfl
  set L := log2Ceil mx with hL
  set ech := min capHeight L with hech
  have hechL : ech ≤ L := Nat.min_le_right _ _
  set P := L - ech with hP
  obtain ⟨hmxpos, hle, _, _⟩ := validateHeights_ok hgate
  have hrw : c.rate ≤ c.W := by show rate ≤ W; omega
  have hdw : c.dig ≤ c.W := by show rate ≤ W; omega
  have hmxL : mx ≤ 2 ^ L := le_pow_log2Ceil mx
  -- shared data
  obtain ⟨x0, rest0, hsorted, hx0⟩ := head_height dims mx hgate
  have hu := uniq_tallestFirst dims mx hgate
  have hsn : StreamsNonempty opened (tallestFirst dims) := streamsNonempty_of_widths dims opened hbatch hwidth hpos
  have hnptmx : npt mx = 2 ^ L := rfl
  set leaf := ((tallestFirst dims).span (fun x => npt x.2.height == 2 ^ L)).1 with hleaf
  set rem0 := ((tallestFirst dims).span (fun x => npt x.2.height == 2 ^ L)).2 with hrem0
  have hleaf_ne : leaf.isEmpty = false := by
    rw [hleaf, span_eq_tw_dw, hsorted]
    simp [List.takeWhile_cons, hx0, hnptmx]
  have hsn_leaf : StreamsNonempty opened leaf := by
    intro x hx
    rw [hleaf, span_eq_tw_dw] at hx
    exact hsn x ((List.takeWhile_sublist _).mem hx)
  have hsn_rem : StreamsNonempty opened rem0 := by
    intro x hx
    rw [hrem0, span_eq_tw_dw] at hx
    exact hsn x ((List.dropWhile_sublist _).mem hx)
  have hu_rem : UniqBuckets rem0 := uniq_of_suffix _ hu
  have hdata_ne : (groupData opened leaf).isEmpty = false := by rw [groupData_isEmpty _ _ hsn_leaf]; exact hleaf_ne
  set g0 := sponge perm c (groupData opened leaf) with hg0
  have hg0len : g0.length = c.dig := sponge_length perm c hperm hrw hdw _
  set gs := levelSpec perm c opened (targets L P) rem0 with hgs
  set bs := idxBits index P with hbs
  set ci := index / 2 ^ P with hci
  have hpow : 2 ^ L = 2 ^ P * 2 ^ ech := by rw [← pow_add]; congr 1; omega
  have hci_lt : ci < 2 ^ ech := by
    rw [hci]
    apply Nat.div_lt_of_lt_mul
    calc index < mx := hidx
      _ ≤ 2 ^ L := hmxL
      _ = 2 ^ P * 2 ^ ech := hpow
  -- native side
  have hnative : verifyBatch perm c capHeight cap dims index opened proof = .ok () ↔
      cap.getD ci [] = pathSpec perm c.dig g0 bs proof gs := by
    unfold verifyBatch
    rw [if_neg (by simpa using hbatch), hgate]
    simp only [hN]
    rw [proofAritySchedule_two capHeight mx dims hmxpos]
    simp only
    have hsum : (List.map (fun x => x - 1) (List.replicate P 2)).sum = P := by simp
    rw [← hL, ← hech, ← hP, hsum, if_neg (by rw [hproof]; simp), hwidth]
    simp only [Bool.not_true, Bool.false_eq_true, if_false]
    rw [if_neg (by omega)]
    rw [hnptmx]
    have hwalk := walk_spec perm c hN hdig hperm hrw hdw opened P L mx proof g0 index rem0 (by omega)
      (fun h1 => by
        have hmx1 : 1 < mx := by
          by_contra hcon
          have : log2Ceil mx = 0 := log2Ceil_le_one (by omega)
          omega
        obtain ⟨_, hlo, hhi⟩ := max_bounds hmx1
        exact ⟨hlo, hhi⟩)
      (by omega) hu_rem hsn_rem
    rw [← hleaf, ← hrem0]
    show (match walk perm c opened (List.replicate P 2) proof g0 index (paddedLen mx 2) rem0 with
      | (digest, capIndex) => if capIndex < cap.length ∧ cap.getD capIndex [] = digest then Except.ok () else Except.error NErr.capMismatch) = Except.ok () ↔ _
    rw [hwalk]
    simp only
    rw [hcap]
    constructor
    · intro h
      by_contra hne
      rw [if_neg (fun hc => hne hc.2)] at h
      cases h
    · intro h
      rw [if_pos ⟨hci_lt, h⟩]
  -- circuit side
  have hcircuit : (verifyCircuit2 chk perm ⟨c.W, c.rate, c.dig, false⟩ cap dims (bitsOf index L) opened proof).1 = .ok ↔
      pathSpec perm c.dig g0 bs proof gs = cap.getD ci [] := by
    unfold verifyCircuit2
    have hcne : cap.isEmpty = false := by
      cases cap with
      | nil => simp at hcap; exact absurd hcap (by positivity)
      | cons a l => rfl
    rw [if_neg (by simpa using hbatch)]
    have hwok : widthsOk dims opened = true := hwidth
    have hhok : heightsOk dims = true := by unfold heightsOk; rw [hgate]
    simp only [hwok, hhok, Bool.not_true, Bool.and_false, hcne, Bool.false_eq_true, if_false]
    rw [capHeight_decode cap.length ech hcap]
    have hblen : (bitsOf index L : List K).length = L := by simp [bitsOf]
    simp only [hblen]
    rw [if_neg (by omega)]
    rw [← hP]
    obtain ⟨st1, hld, _⟩ := levelDigests_spec perm ⟨c.W, c.rate, c.dig, false⟩ c rfl rfl rfl hr.symm
      hperm hrw L opened (List.range (P + 1)) (tallestFirst dims) ExecSt.init
    rw [hld]
    simp only
    rw [range_targets L P (by omega), levelSpec, levelGroups]
    simp only [List.map_cons]
    rw [← hleaf, ← hrem0]
    have hlev0 : levelDigest perm c opened leaf = g0 := by
      unfold levelDigest; rw [hdata_ne]; simp [hg0]
    rw [hlev0]
    have hbits_take : (bitsOf index L : List K).take P = bs.map bitK := by
      rw [bitsOf_eq, ← List.map_take, idxBits_take index L P (by omega)]
    have hbits_drop : (bitsOf index L : List K).drop P = (idxBits ci ech).map bitK := by
      rw [bitsOf_eq, ← List.map_drop, idxBits_drop index L P (by omega)]
      congr 2
      omega
    rw [hbits_take, hbits_drop, cap_select_eq c.dig ech cap ci hcap hcapd hci_lt]
    have hroot : (cap.getD ci []).length = c.dig := by
      have hlt : ci < cap.length := by rw [hcap]; exact hci_lt
      rw [List.getD_eq_getElem?_getD, List.getElem?_eq_getElem hlt]
      exact hcapd _ (List.getElem_mem hlt)
    have := mmcsVerify_spec perm ⟨c.W, c.rate, c.dig, false⟩ rfl (by show W = rate + rate; omega) hr.symm hperm
      (bs.map bitK) bs (by rw [List.map_map]; apply List.map_congr_left; intro b _; exact toBool?_bitK b)
      g0 (List.map (levelDigest perm c opened) (levelGroups (targets L P) rem0)) proof (cap.getD ci []) st1
      hg0len (fun g hg => levelSpec_lengths perm c hperm hrw hdw opened (targets L P) rem0 g hg)
      (fun s hs => hsib s hs)
      (by simp [hbs, idxBits_length]; omega)
      hroot
    exact this
  rw [hnative, hcircuit]
  exact eq_comm


/-- Tallest claimed height (0 for an empty batch). -/
def maxH (dims : List Dim) : Nat := (dims.map (·.height)).foldl max 0

theorem heightsOk_iff (dims : List Dim) :
    heightsOk dims = true ↔ validateHeights (dims.map (·.height)) = .ok (maxH dims) := by
  unfold heightsOk
  constructor
  · intro h
    cases hv : validateHeights (dims.map (·.height)) with
    | error e => rw [hv] at h; cases h
    | ok mx => rw [(validateHeights_ok hv).2.2.2]; rfl
  · intro h; rw [h]

omit [Nontrivial K] in
/-- The native verifier accepts only batches that pass the width check and the geometry gate. -/
theorem verifyBatch_ok_shape (perm : List K → List K) (c : Cfg) (capHeight : Nat) (cap : List (List K))
    (dims : List Dim) (index : Nat) (opened proof : List (List K))
    (h : verifyBatch perm c capHeight cap dims index opened proof = .ok ()) :
    widthsOk dims opened = true ∧ heightsOk dims = true := by
  unfold verifyBatch at h
  split at h
  · cases h
  · split at h
    · cases h
    · rename_i mx hv
      split at h
      · cases h
      · split at h
        · cases h
        · split at h
          · cases h
          · rename_i hw
            refine ⟨?_, by unfold heightsOk; rw [hv]⟩
            unfold widthsOk
            simpa using hw

omit [Nontrivial K] in
/-- A gadget with the width check / height gate refuses to build when the check fails. -/
theorem verifyCircuit2_shape_err (chk : Checks) (perm : List K → List K) (pc : PermCfg) (cap : List (List K))
    (dims : List Dim) (bits : List K) (streams sibs : List (List K))
    (h : (chk.widths = true ∧ widthsOk dims streams = false) ∨ (chk.heights = true ∧ heightsOk dims = false)) :
    (verifyCircuit2 chk perm pc cap dims bits streams sibs).1 ≠ .ok := by
  unfold verifyCircuit2
  simp only
  split
  · simp
  · split
    · simp
    · rename_i hw
      split
      · simp
      · rename_i hh
        rcases h with ⟨h1, h2⟩ | ⟨h1, h2⟩
        · simp [h1, h2] at hw
        · simp [h1, h2] at hh

/-- **C08, arity 2** (`_partial`: see the list of remaining hypotheses below).

For every permutation `perm` on width-`W` states (`W = 2·dig`, `rate = dig`, as in every arity-2
configuration of the repository), every dimension vector, configured cap height, index, opened
rows and sibling digests: the native `verify_batch` accepts iff the runner accepts the circuit
emitted by `verify_batch_circuit` (with the build-time checks `chk`) on the same data with
direction bits `(index >> k) & 1`, `k < log2_ceil(max_height)`. No bound on sizes.

The geometry gate and the row-width check are hypotheses only for a gadget that lacks them
(`chk.heights = false` / `chk.widths = false`, i.e. before fixes/C08-3 / fixes/C08-2); for a gadget
that has them they are proved facts (both sides reject). What remains assumed:
  * positive widths (a width-0 matrix is injected natively as the hash of nothing and skipped by
    the gadget);
  * `index < max_height` — the gadget has no range check on the index; necessary for a statement
    over every permutation (droppable only under collision resistance, which is not modelled);
  * the opening has the shape the circuit is built for, and the commitment is a cap of the
    configured effective height (malformed commitments: C15). -/
theorem mmcs_agree_arity2_partial (chk : Checks) (perm : List K → List K) (c : Cfg)
    (hN : c.N = 2) (hW : c.W = 2 * c.dig) (hr : c.rate = c.dig) (hdig : 0 < c.dig)
    (hperm : ∀ x, x.length = c.W → (perm x).length = c.W)
    (capHeight : Nat) (cap : List (List K)) (dims : List Dim) (index : Nat)
    (opened proof : List (List K))
    (hgate : chk.heights = true ∨ heightsOk dims = true)
    (hbatch : dims.length = opened.length)
    (hwidth : chk.widths = true ∨ widthsOk dims opened = true)
    (hpos : ∀ d ∈ dims, 0 < d.width)
    (hidx : index < maxH dims)
    (hproof : proof.length = log2Ceil (maxH dims) - min capHeight (log2Ceil (maxH dims)))
    (hsib : ∀ s ∈ proof, s.length = c.dig)
    (hcap : cap.length = 2 ^ min capHeight (log2Ceil (maxH dims)))
    (hcapd : ∀ e ∈ cap, e.length = c.dig) :
    verifyBatch perm c capHeight cap dims index opened proof = .ok () ↔
      (verifyCircuit2 chk perm ⟨c.W, c.rate, c.dig, false⟩ cap dims
        (bitsOf index (log2Ceil (maxH dims))) opened proof).1 = .ok := by
  by_cases hg : heightsOk dims = true
  · by_cases hw : widthsOk dims opened = true
    · exact mmcs_agree_arity2_core chk perm c hN hW hr hdig hperm capHeight cap dims index opened proof
        (maxH dims) ((heightsOk_iff dims).mp hg) hbatch hw hpos hidx hproof hsib hcap hcapd
    · have hw' : widthsOk dims opened = false := by simpa using hw
      have hcw : chk.widths = true := by
        rcases hwidth with h | h
        · exact h
        · exact absurd h hw
      constructor
      · intro h; exact absurd (verifyBatch_ok_shape perm c capHeight cap dims index opened proof h).1 hw
      · intro h
        exact absurd h (verifyCircuit2_shape_err chk perm _ cap dims _ opened proof (Or.inl ⟨hcw, hw'⟩))
  · have hg' : heightsOk dims = false := by simpa using hg
    have hch : chk.heights = true := by
      rcases hgate with h | h
      · exact h
      · exact absurd h hg
    constructor
    · intro h; exact absurd (verifyBatch_ok_shape perm c capHeight cap dims index opened proof h).2 hg
    · intro h
      exact absurd h (verifyCircuit2_shape_err chk perm _ cap dims _ opened proof (Or.inr ⟨hch, hg'⟩))

/-- **After fixes/C08-2 and fixes/C08-3**: for the gadget with the width check and the height
gate, agreement needs no hypothesis on heights or on the widths of the opened rows. -/
theorem mmcs_agree_arity2_checked (chk : Checks) (hh : chk.heights = true) (hwc : chk.widths = true)
    (perm : List K → List K) (c : Cfg)
    (hN : c.N = 2) (hW : c.W = 2 * c.dig) (hr : c.rate = c.dig) (hdig : 0 < c.dig)
    (hperm : ∀ x, x.length = c.W → (perm x).length = c.W)
    (capHeight : Nat) (cap : List (List K)) (dims : List Dim) (index : Nat)
    (opened proof : List (List K))
    (hbatch : dims.length = opened.length)
    (hpos : ∀ d ∈ dims, 0 < d.width)
    (hidx : index < maxH dims)
    (hproof : proof.length = log2Ceil (maxH dims) - min capHeight (log2Ceil (maxH dims)))
    (hsib : ∀ s ∈ proof, s.length = c.dig)
    (hcap : cap.length = 2 ^ min capHeight (log2Ceil (maxH dims)))
    (hcapd : ∀ e ∈ cap, e.length = c.dig) :
    verifyBatch perm c capHeight cap dims index opened proof = .ok () ↔
      (verifyCircuit2 chk perm ⟨c.W, c.rate, c.dig, false⟩ cap dims
        (bitsOf index (log2Ceil (maxH dims))) opened proof).1 = .ok :=
  mmcs_agree_arity2_partial chk perm c hN hW hr hdig hperm capHeight cap dims index opened proof
    (Or.inl hh) hbatch (Or.inl hwc) hpos hidx hproof hsib hcap hcapd

/-- With the cap-bits check (fixes/C08-4) a cap taller than the index is a build error; without
it the gadget panics (`index_bits.len() - cap_height` underflows). Never accepted either way. -/
theorem cap_taller_than_index (chk : Checks) (perm : List K → List K) (pc : PermCfg) (cap : List (List K))
    (dims : List Dim) (bits : List K) (streams sibs : List (List K)) (e : Nat)
    (hcap : cap.length = 2 ^ e) (he : bits.length < e)
    (hb : dims.length = streams.length) (hw : widthsOk dims streams = true) (hh : heightsOk dims = true) :
    (verifyCircuit2 chk perm pc cap dims bits streams sibs).1 = (if chk.capBits then .buildErr else .panic) := by
  unfold verifyCircuit2
  have hcne : cap.isEmpty = false := by
    cases cap with
    | nil => simp at hcap; exact absurd hcap (by positivity)
    | cons a l => rfl
  simp only [hb, ne_eq, not_true_eq_false, if_false, hw, hh, Bool.not_true, Bool.and_false,
    Bool.false_eq_true, hcne]
  rw [capHeight_decode cap.length e hcap]
  simp only [he, if_true]

/-! ### the sub-lemmas of DESIGN §4/C08 under their design names -/

/-- `sponge_overwrite_eq`: for every permutation, rate, width and non-empty coefficient stream
the gadget's sponge rows (chunks of `rate`, partial last chunk inheriting the previous output,
first row on a zero state) produce the native `PaddingFreeSponge` digest. -/
theorem sponge_overwrite_eq (perm : List K → List K) (pc : PermCfg) (c : Cfg) (h4 : pc.arity4 = false)
    (hW : c.W = pc.W) (hr : c.rate = pc.rate) (hd : c.dig = pc.rate)
    (hperm : ∀ x, x.length = pc.W → (perm x).length = pc.W) (hrate : pc.rate ≤ pc.W)
    (st : ExecSt K) (inp : List K) (hne : inp ≠ []) :
    (hashStream perm pc false st inp).map (·.2) = some (sponge perm c inp) := by
  obtain ⟨st', h, _⟩ := Mmcs.sponge_overwrite_eq perm pc c h4 hW hr hd hperm hrate st inp hne
  rw [h]; rfl

/-- `cap_select_eq`: the multiplexer tree over the `c` remaining index bits of `i` selects
`cap[i]` from a cap of `2^c` digests. -/
theorem cap_select_eq (d c : Nat) (cap : List (List K)) (i : Nat) (h : cap.length = 2 ^ c)
    (hd : ∀ e ∈ cap, e.length = d) (hi : i < 2 ^ c) :
    selectCapEntry cap ((idxBits i c).map bitK) = cap.getD i [] :=
  Mmcs.cap_select_eq d c cap i h hd hi

/-- `index_bits_eq`: the bits `(index >> k) & 1` given to the gadget are the native walk's
successive `index % 2` after `index /= 2`; the first `P` drive the path, the rest select the
cap entry `index / 2^P`. -/
theorem index_bits_eq (index L P : Nat) (h : P ≤ L) :
    (bitsOf index L : List K) = (idxBits index L).map bitK ∧
    (bitsOf index L : List K).take P = (idxBits index P).map bitK ∧
    (bitsOf index L : List K).drop P = (idxBits (index / 2 ^ P) (L - P)).map bitK := by
  refine ⟨bitsOf_eq index L, ?_, ?_⟩
  · rw [bitsOf_eq, ← List.map_take, idxBits_take index L P h]
  · rw [bitsOf_eq, ← List.map_drop, idxBits_drop index L P h]

omit [CommRing K] [Nontrivial K] [DecidableEq K] in
/-- `height_grouping_eq`: under the geometry gate, at a layer of logical height `m`
(`2^(j-1) < m ≤ 2^j`) the native injection group at `logical_next = ⌈m/2⌉` is exactly the
gadget's group "height rounds up to `2^(j-1)`" of the not yet injected matrices. -/
theorem height_grouping_eq (dims : List Dim) (mx : Nat)
    (hgate : validateHeights (dims.map (·.height)) = .ok mx) (p : Nat × Dim → Bool)
    (j m : Nat) (hj : 1 ≤ j) (hlo : 2 ^ (j - 1) < m) (hhi : m ≤ 2 ^ j) :
    takeInjection (paddedLen m 2 / 2) ((tallestFirst dims).span p).2
      = ((tallestFirst dims).span p).2.span (fun x => npt x.2.height == 2 ^ (j - 1)) := by
  have hm2 : 2 ≤ m := by
    have : 1 ≤ 2 ^ (j - 1) := Nat.one_le_two_pow
    omega
  rw [paddedLen_two_half hm2, takeInjection_eq_span _ _ (uniq_of_suffix p (uniq_tallestFirst dims mx hgate)),
    (half_bounds hj hlo hhi).1]

/-- `circuit_path_eq`: the row chain of `add_mmcs_verify` (inject the level digest *before* the
level's compression row, tail digest after the last one) is accepted by the runner iff the
native-order fold (compress with the sibling, *then* inject the next level) equals the root. -/
theorem circuit_path_eq (perm : List K → List K) (pc : PermCfg) (h4 : pc.arity4 = false)
    (hW : pc.W = pc.rate + pc.capw) (hrc : pc.capw = pc.rate)
    (hperm : ∀ x, x.length = pc.W → (perm x).length = pc.W)
    (bs : List Bool) (g0 : List K) (gs sibs : List (List K)) (root : List K) (st : ExecSt K)
    (hg0 : g0.length = pc.rate) (hgs : ∀ g ∈ gs, g = [] ∨ g.length = pc.rate)
    (hs : ∀ s ∈ sibs, s.length = pc.capw) (hlen : bs.length ≤ sibs.length)
    (hroot : root.length = pc.rate) :
    (mmcsVerify perm pc (g0 :: gs) (bs.map bitK) sibs root st).1 = .ok ↔
      pathSpec perm pc.rate g0 bs sibs gs = root :=
  mmcsVerify_spec perm pc h4 hW hrc hperm (bs.map bitK) bs
    (by rw [List.map_map]; apply List.map_congr_left; intro b _; exact toBool?_bitK b)
    g0 gs sibs root st hg0 hgs hs (by simpa using hlen) hroot

/-- The native arity-2 schedule is `log2_ceil(max) − min(cap_height, log2_ceil(max))` binary
steps, for every dimension vector. -/
theorem native_schedule_arity2 (capHeight mx : Nat) (dims : List Dim) (hmx : 0 < mx) :
    proofAritySchedule 2 capHeight mx dims
      = some (List.replicate (log2Ceil mx - min capHeight (log2Ceil mx)) 2) :=
  proofAritySchedule_two capHeight mx dims hmx

end P3R.C08

#print axioms P3R.C08.mmcs_agree_arity2_partial
#print axioms P3R.C08.mmcs_agree_arity2_checked
#print axioms P3R.C08.cap_taller_than_index
#print axioms P3R.C08.sponge_overwrite_eq
#print axioms P3R.C08.cap_select_eq
#print axioms P3R.C08.index_bits_eq
#print axioms P3R.C08.height_grouping_eq
#print axioms P3R.C08.circuit_path_eq
#print axioms P3R.C08.native_schedule_arity2
