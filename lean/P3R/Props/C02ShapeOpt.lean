/-
C02, second clause — the optimiser keeps the shape run (`optKeepsShape` for every lowering).

* `dedup_keeps_shape` — list level, for every op list whose `MulAdd` rows carry no product slot
  (`ioOk`; what the lowering emits, `lower_io`): if the shape run of `ops` from `t0` succeeds with final
  table `t`, then the rewrite map `ρ` of `dedup ops` is a bounded forest and the run of the de-duplicated
  list from every table that simulates `t0` along `ρ` succeeds with a table that simulates `t` along `ρ`
  (`sim_step` for the kept rows; a removed duplicate only writes slots whose images the kept twin has
  already set: `run_written`, `key_eq`); `postpass_ok` — the rewrite post-pass then sets every removed slot.
* `fuse_keeps_shape` — list level, for every op list with `FuseIn` (the run succeeds; `ioOk`; `dshape`;
  the initially set slots are private or public; `PubAt`: at every ALU row every public slot is private
  or the `out` of an earlier row): the run of the fused list succeeds with a larger table.
  `surgery_keeps_run` is the position-by-position simulation from `RunFacts` (mul before add, the mul ran
  forward, the addend is set at the mul position or is the `out` of an earlier fused row);
  `chosen_run_facts` derives `RunFacts` for the model's pass from `RSim` — the run-time analogue of
  `C09F.Sim`: every set slot is private / public / has a `scan_defs` entry, every `Const` entry is set,
  entries are backed by writer counts — plus `ge_scan` (a slot set since position `k` has its last
  definition at or after `k`), `tryFuse`'s tests, `filterValid_addend_before_mul`, `cands_mul_inj`.
  `PubAt` is necessary at list level (`Witness.C02ShapeOpt.pubsFirst_needed`).
* `optKeeps_of_struct`, `optKeepsShape_total` — `optKeepsShape l` for every lowering with `pubsFirst l`
  (decidable, syntactic; proved for lowerings in Props/C02ShapeOptLower.lean).
-/
import P3R.Props.C02ShapeTotal
import P3R.Props.C09Fuse
import P3R.Props.C18Dedup
import P3R.Props.C03LowerShape

namespace P3R.C02O
open P3R P3R.C02S P3R.C09O

variable {K : Type}

/-! ### What an ALU row writes -/

/-- A `MulAdd` row of the input carries no product slot (`intermediate_out`); only the fusion pass
creates those. -/
def ioOk : Op K → Bool
  | .alu .mulAdd _ _ _ _ (some _) => false
  | _ => true

theorem ioOk_rewrite (rw : Rewrite) (op : Op K) (h : ioOk op = true) : ioOk (op.rewrite rw) = true := by
  cases op with
  | alu k a b c out io =>
    cases k <;> cases io <;> simp [ioOk, P3R.Op.rewrite] at h ⊢
  | _ => rfl

theorem exec_alu_cases {t t1 : Array Bool} {k : AluKind} {a b : Nat} {c : Option Nat} {out : Nat}
    {io : Option Nat} (h : execOpShape t (.alu k a b c out io : Op K) = some t1)
    (hio : ioOk (.alu k a b c out io : Op K) = true) :
    getS t a = true ∧ out < t.size ∧
    ((t1 = t.setIfInBounds out true ∧ (k ≠ .boolCheck → getS t b = true)) ∨
     (isAM k = true ∧ getS t b = false ∧ getS t out = true ∧ b < t.size ∧
       t1 = t.setIfInBounds b true)) := by
  simp only [execOpShape] at h
  have am : (if !getS t a then none else if getS t b then setS t out
        else if !getS t out then none else setS t b) = some t1 → isAM k = true →
      getS t a = true ∧ out < t.size ∧
      ((t1 = t.setIfInBounds out true ∧ (k ≠ .boolCheck → getS t b = true)) ∨
       (isAM k = true ∧ getS t b = false ∧ getS t out = true ∧ b < t.size ∧
         t1 = t.setIfInBounds b true)) := by
    intro h hk
    split at h
    · cases h
    · rename_i hga
      have ha : getS t a = true := by simpa using hga
      split at h
      · rename_i hgb
        obtain ⟨hlt, rfl⟩ := setS_some h
        exact ⟨ha, hlt, Or.inl ⟨rfl, fun _ => hgb⟩⟩
      · rename_i hgb
        split at h
        · cases h
        · rename_i hgo
          have ho : getS t out = true := by simpa using hgo
          obtain ⟨hlt, rfl⟩ := setS_some h
          exact ⟨ha, getS_lt ho, Or.inr ⟨hk, by simpa using hgb, ho, hlt, rfl⟩⟩
  cases k with
  | add => exact am h rfl
  | mul => exact am h rfl
  | boolCheck =>
    simp only [execAluShape] at h
    split at h
    · cases h
    · rename_i hga
      obtain ⟨hlt, rfl⟩ := setS_some h
      exact ⟨by simpa using hga, hlt, Or.inl ⟨rfl, fun hne => absurd rfl hne⟩⟩
  | horner =>
    simp only [execAluShape] at h
    match io, c, h with
    | some acc, some cId, h =>
      simp only at h
      split at h
      · cases h
      · rename_i hg
        simp only [Bool.or_eq_true, Bool.not_eq_true', not_or, Bool.not_eq_false] at hg
        obtain ⟨hlt, rfl⟩ := setS_some h
        exact ⟨hg.1.1.2, hlt, Or.inl ⟨rfl, fun _ => hg.1.2⟩⟩
    | none, _, h => simp at h
    | some _, none, h => simp at h
  | mulAdd =>
    cases io with
    | some i => simp [ioOk] at hio
    | none =>
      simp only [execAluShape] at h
      split at h
      · cases h
      · rename_i hg
        simp only [Bool.or_eq_true, Bool.not_eq_true', not_or, Bool.not_eq_false] at hg
        cases c with
        | none =>
          simp only at h
          obtain ⟨hlt, rfl⟩ := setS_some h
          exact ⟨hg.1, hlt, Or.inl ⟨rfl, fun _ => hg.2⟩⟩
        | some ci =>
          simp only at h
          split at h
          · cases h
          · obtain ⟨hlt, rfl⟩ := setS_some h
            exact ⟨hg.1, hlt, Or.inl ⟨rfl, fun _ => hg.2⟩⟩

/-- After an ALU row ran, its `out`, `a` and (except for `BoolCheck`) `b` are set. -/
theorem exec_written {t t1 : Array Bool} {k : AluKind} {a b : Nat} {c : Option Nat} {out : Nat}
    {io : Option Nat} (h : execOpShape t (.alu k a b c out io : Op K) = some t1)
    (hio : ioOk (.alu k a b c out io : Op K) = true) :
    getS t1 out = true ∧ getS t1 a = true ∧ (k ≠ .boolCheck → getS t1 b = true) := by
  obtain ⟨ha, hlt, hc⟩ := exec_alu_cases h hio
  rcases hc with ⟨rfl, hb⟩ | ⟨_, _, ho, hblt, rfl⟩
  · exact ⟨(getS_set _ _ _).mpr (Or.inr ⟨rfl, hlt⟩), (getS_set _ _ _).mpr (Or.inl ha),
      fun hk => (getS_set _ _ _).mpr (Or.inl (hb hk))⟩
  · exact ⟨(getS_set _ _ _).mpr (Or.inl ho), (getS_set _ _ _).mpr (Or.inl ha),
      fun _ => (getS_set _ _ _).mpr (Or.inr ⟨rfl, hblt⟩)⟩

/-- **`run_written`**: after a successful run every ALU row's `out`, `a` and (except for `BoolCheck`)
`b` are set. -/
theorem run_written {ops : List (Op K)} {t t1 : Array Bool} (h : runOps t ops = some t1)
    (hio : ∀ op ∈ ops, ioOk op = true) {k : AluKind} {a b : Nat} {c : Option Nat} {out : Nat}
    {io : Option Nat} (hm : (.alu k a b c out io : Op K) ∈ ops) :
    getS t1 out = true ∧ getS t1 a = true ∧ (k ≠ .boolCheck → getS t1 b = true) := by
  induction ops generalizing t with
  | nil => cases hm
  | cons op ops ih =>
    rw [runOps_cons] at h
    cases hs : execOpShape t op with
    | none => rw [hs] at h; cases h
    | some t2 =>
      rw [hs] at h
      simp only [Option.bind_some] at h
      rcases List.mem_cons.mp hm with heq | hm'
      · subst heq
        obtain ⟨h1, h2, h3⟩ := exec_written hs (hio _ List.mem_cons_self)
        have hr := run_sub ops h
        exact ⟨hr.2 _ h1, hr.2 _ h2, fun hk => hr.2 _ (h3 hk)⟩
      · exact ih h (fun o ho => hio o (List.mem_cons_of_mem _ ho)) hm'

/-! ### Bounded rewrite maps -/

def Bnd (n : Nat) (rw : Rewrite) : Prop := ∀ p ∈ rw, p.1 < n ∧ p.2 < n

theorem resolveFuel_lt {rw : Rewrite} {n : Nat} (hb : Bnd n rw) :
    ∀ fuel w t, w < n → resolveFuel rw fuel w = some t → t < n := by
  intro fuel
  induction fuel with
  | zero => intro w t _ h; simp [resolveFuel] at h
  | succ fuel ih =>
    intro w t hw h
    unfold resolveFuel at h
    cases hl : rw.lookup w with
    | none => simp only [hl] at h; cases h; exact hw
    | some w' =>
      simp only [hl] at h
      exact ih w' t (hb _ (C03.lookup_mem _ _ _ hl)).2 h

theorem resolve_lt {rw : Rewrite} {n : Nat} (hb : Bnd n rw) {w : Nat} (hw : w < n) : resolve rw w < n := by
  unfold resolve
  cases h : resolveFuel rw (rw.length + 1) w with
  | none => simpa using hw
  | some t => simpa using resolveFuel_lt hb _ w t hw h

theorem Bnd.cons {rw : Rewrite} {n a b : Nat} (h : Bnd n rw) (ha : a < n) (hb : b < n) :
    Bnd n ((a, b) :: rw) := by
  intro p hp
  rcases List.mem_cons.mp hp with rfl | hp
  · exact ⟨ha, hb⟩
  · exact h p hp

/-! ### The invariant of `dedup`'s fold -/

structure DS (n : Nat) (t0 : Array Bool) (s : DedupState K) (t : Array Bool) : Prop where
  term : Terminates s.rw
  seen : SeenH s
  bnd : Bnd n s.rw
  outb : ∀ k a b c o io, (Op.alu k a b c o io : Op K) ∈ s.out.toList → o < n
  io : ∀ op ∈ s.out.toList, ioOk op = true
  sz : t.size = n
  sim : ∀ rwF, Ext s.rw rwF → Bnd n rwF → ∀ u0, Rel (resolve rwF) t0 u0 →
    ∃ u, runOps u0 (s.out.toList.map (Op.rewrite rwF)) = some u ∧ Rel (resolve rwF) t u

theorem kept_DS {n : Nat} {t0 t t' : Array Bool} {s s' : DedupState K} {op : Op K}
    (h : DS n t0 s t) (hio : ioOk op = true) (hex : execOpShape t op = some t')
    (hrw : s'.rw = s.rw) (hout : s'.out = s.out.push (op.rewrite s.rw)) (hseen : SeenH s') :
    DS n t0 s' t' := by
  have hsz' : t'.size = n := by rw [(step_sub op hex).1]; exact h.sz
  refine ⟨by rw [hrw]; exact h.term, hseen, by rw [hrw]; exact h.bnd, ?_, ?_, hsz', ?_⟩
  · intro k a b c o io hm
    rw [hout, Array.toList_push, List.mem_append, List.mem_singleton] at hm
    rcases hm with hm | hm
    · exact h.outb k a b c o io hm
    · obtain ⟨a0, b0, c0, out0, io0, rfl, _, _, _, rfl, _⟩ := rewrite_alu_inv hm.symm
      have := (exec_alu_cases hex hio).2.1
      rw [h.sz] at this
      exact resolve_lt h.bnd this
  · intro o ho
    rw [hout, Array.toList_push, List.mem_append, List.mem_singleton] at ho
    rcases ho with ho | rfl
    · exact h.io o ho
    · exact ioOk_rewrite _ _ hio
  · intro rwF hext hb u0 hR
    rw [hrw] at hext
    obtain ⟨u, hu, hRu⟩ := h.sim rwF hext hb u0 hR
    obtain ⟨u1, e1, r1, _⟩ := sim_step hRu
      (fun i hi => by rw [h.sz] at hi ⊢; exact resolve_lt hb hi) op hex
    refine ⟨u1, ?_, r1⟩
    rw [hout, Array.toList_push, List.map_append, List.map_singleton, rewrite_comp h.term hext,
      runOps_append, hu]
    simp only [Option.bind_some]
    rw [runOps_cons, rewrite_eq_mapOp, e1]
    rfl

theorem step_DS {n : Nat} {t0 t t' : Array Bool} {s : DedupState K} {op : Op K}
    (h : DS n t0 s t) (hio : ioOk op = true) (hex : execOpShape t op = some t') :
    DS n t0 (s.step op) t' := by
  have ht := h.term
  have hs := h.seen
  unfold DedupState.step
  cases hop : op.rewrite s.rw with
  | const out v => exact kept_DS h hio hex rfl (by rw [hop]) (seen_push s _ hs)
  | pub out pos => exact kept_DS h hio hex rfl (by rw [hop]) (seen_push s _ hs)
  | hint ins outs kd => exact kept_DS h hio hex rfl (by rw [hop]) (seen_push s _ hs)
  | npo ins outs id kd => exact kept_DS h hio hex rfl (by rw [hop]) (seen_push s _ hs)
  | alu k a b c out io =>
    obtain ⟨a0, b0, c0, out0, io0, rfl, rfl, rfl, rfl, rfl, rfl⟩ := rewrite_alu_inv hop
    have hkey : aluKey k (resolve s.rw (resolve s.rw a0)) (resolve s.rw (resolve s.rw b0))
        ((c0.map (resolve s.rw)).map (resolve s.rw)) ((io0.map (resolve s.rw)).map (resolve s.rw)) =
        aluKey k (resolve s.rw a0) (resolve s.rw b0) (c0.map (resolve s.rw)) (io0.map (resolve s.rw)) := by
      rw [resolve_idem ht, resolve_idem ht, map_resolve_idem ht, map_resolve_idem ht]
    simp only []
    rw [hkey]
    obtain ⟨hA, hOlt, hcase⟩ := exec_alu_cases hex hio
    rw [h.sz] at hOlt
    split
    · -- duplicate: dropped
      rename_i cano hl
      obtain ⟨k', a', b', c', io', hm, hk⟩ := hs _ cano hl
      obtain ⟨hkk, hab⟩ := key_eq hk
      subst hkk
      have hcl : cano < n := h.outb _ _ _ _ _ _ hm
      have hsz' : t'.size = n := by rw [(step_sub _ hex).1]; exact h.sz
      have hOut : ∀ (p : Prop) [Decidable p], (if p then
          ({ s with rw := (resolve s.rw out0, resolve s.rw cano) :: s.rw } : DedupState K) else s).out = s.out := by
        intro p _; split <;> rfl
      refine ⟨?_, ?_, ?_, ?_, ?_, hsz', ?_⟩
      · split
        · rename_i hne
          exact terminates_cons ht (resolve_terminal ht out0) (resolve_terminal ht cano) hne
        · exact ht
      · split <;> exact hs
      · split
        · exact h.bnd.cons (resolve_lt h.bnd hOlt) (resolve_lt h.bnd hcl)
        · exact h.bnd
      · rw [hOut]; exact h.outb
      · rw [hOut]; exact h.io
      · intro rwF hext hb u0 hR
        have hext' : Ext s.rw rwF := by
          split at hext
          · rename_i hne
            exact (Ext.step (Ext.refl _) (resolve_terminal ht out0) (resolve_terminal ht cano) hne).trans hext
          · exact hext
        rw [hOut]
        obtain ⟨u, hu, hRu⟩ := h.sim rwF hext' hb u0 hR
        refine ⟨u, hu, ?_⟩
        have hout : resolve rwF out0 = resolve rwF cano := by
          by_cases hne : resolve s.rw out0 ≠ resolve s.rw cano
          · rw [if_pos hne] at hext
            have hS : Terminates ((resolve s.rw out0, resolve s.rw cano) :: s.rw) :=
              terminates_cons ht (resolve_terminal ht out0) (resolve_terminal ht cano) hne
            have e1 := hext.resolve_comp hS (resolve s.rw out0)
            have e2 := hext.resolve_comp hS cano
            rw [resolve_cons_eq ht (resolve_terminal ht out0) (resolve_terminal ht cano) hne,
              resolve_idem ht] at e1
            rw [resolve_cons_eq ht (resolve_terminal ht out0) (resolve_terminal ht cano) hne] at e2
            simp only [if_true] at e1
            have hne' : ¬ resolve s.rw cano = resolve s.rw out0 := fun h => hne h.symm
            simp only [hne', if_false] at e2
            rw [← hext'.resolve_comp ht out0, ← e1, e2]
          · have heq : resolve s.rw out0 = resolve s.rw cano := not_not.mp hne
            rw [← hext'.resolve_comp ht out0, heq, hext'.resolve_comp ht]
        have hmF : (Op.alu k' (resolve rwF a') (resolve rwF b') (c'.map (resolve rwF)) (resolve rwF cano)
            (io'.map (resolve rwF)) : Op K) ∈ s.out.toList.map (Op.rewrite rwF) :=
          List.mem_map.mpr ⟨_, hm, rfl⟩
        have hioF : ∀ o ∈ s.out.toList.map (Op.rewrite rwF), ioOk o = true := by
          intro o ho
          obtain ⟨o', ho', rfl⟩ := List.mem_map.mp ho
          exact ioOk_rewrite _ _ (h.io o' ho')
        obtain ⟨wO, wA, wB⟩ := run_written hu hioF hmF
        rcases hcase with ⟨rfl, _⟩ | ⟨hk, _, _, _, rfl⟩
        · exact hRu.setLeft out0 (by rw [hout]; exact wO)
        · apply hRu.setLeft b0
          have hkb : k' ≠ .boolCheck := by intro e; rw [e] at hk; cases hk
          rw [← hext'.resolve_comp ht b0]
          rcases hab with ⟨_, hb'⟩ | ⟨_, hb', _⟩
          · rw [← hb']; exact wB hkb
          · rw [← hb']; exact wA
    · -- new key: kept
      rename_i hl
      refine kept_DS (op := Op.alu k a0 b0 c0 out0 io0) h hio hex rfl (by simp [P3R.Op.rewrite]) ?_
      intro key cano hlk
      simp only [List.lookup] at hlk
      split at hlk
      · cases hlk
        rename_i heq
        have : key = aluKey k (resolve s.rw a0) (resolve s.rw b0) (c0.map (resolve s.rw)) (io0.map (resolve s.rw)) := by
          simpa using heq
        exact ⟨k, _, _, _, _, by simp, this.symm⟩
      · obtain ⟨k2, a2, b2, c2, io2, hm, hk⟩ := hs key cano hlk
        exact ⟨k2, a2, b2, c2, io2, by simp [hm], hk⟩

theorem fold_DS {n : Nat} {t0 : Array Bool} :
    ∀ (ops : List (Op K)) (s : DedupState K) (t tfin : Array Bool), DS n t0 s t →
      (∀ op ∈ ops, ioOk op = true) → runOps t ops = some tfin →
      DS n t0 (ops.foldl DedupState.step s) tfin := by
  intro ops
  induction ops with
  | nil => intro s t tfin h _ hr; cases hr; exact h
  | cons op ops ih =>
    intro s t tfin h hio hr
    rw [runOps_cons] at hr
    cases hs : execOpShape t op with
    | none => rw [hs] at hr; cases hr
    | some t2 =>
      rw [hs] at hr
      simp only [Option.bind_some] at hr
      exact ih _ _ _ (step_DS h (hio _ List.mem_cons_self) hs)
        (fun o ho => hio o (List.mem_cons_of_mem _ ho)) hr

/-- **C02 / `dedup_keeps_shape`** — list level. -/
theorem dedup_keeps_shape (ops : Array (Op K)) (t0 tfin : Array Bool)
    (hio : ∀ op ∈ ops.toList, ioOk op = true) (hrun : runOps t0 ops.toList = some tfin) :
    Terminates (dedup ops).2 ∧ Bnd t0.size (dedup ops).2 ∧
    (∀ op ∈ (dedup ops).1.toList, ioOk op = true) ∧
    ∀ u0, Rel (resolve (dedup ops).2) t0 u0 →
      ∃ u, runOps u0 (dedup ops).1.toList = some u ∧ Rel (resolve (dedup ops).2) tfin u := by
  have h0 : DS t0.size t0 ({ rw := [], seen := [], out := #[] } : DedupState K) t0 := by
    refine ⟨terminates_nil, ?_, ?_, ?_, ?_, rfl, ?_⟩
    · intro key cano hl; simp [List.lookup] at hl
    · intro p hp; cases hp
    · intro k a b c o io hm; simp at hm
    · intro o ho; simp at ho
    · intro rwF _ _ u0 hR
      exact ⟨u0, rfl, hR⟩
  have hF := fold_DS ops.toList _ _ _ h0 hio hrun
  unfold dedup
  simp only
  rw [← Array.foldl_toList]
  refine ⟨hF.term, hF.bnd, ?_, ?_⟩
  · intro o ho
    rw [Array.toList_map] at ho
    obtain ⟨o', ho', rfl⟩ := List.mem_map.mp ho
    exact ioOk_rewrite _ _ (hF.io o' ho')
  · intro u0 hR
    obtain ⟨u, hu, hRu⟩ := hF.sim _ (Ext.refl _) hF.bnd u0 hR
    exact ⟨u, by rw [Array.toList_map]; exact hu, hRu⟩

/-! ### The rewrite post-pass -/

theorem postpass_ok (rw : Rewrite) (_hT : Terminates rw) {n : Nat} (hb : Bnd n rw) (u : Array Bool)
    (hsz : u.size = n) (hset : ∀ i, i < n → getS u (resolve rw i) = true) :
    ∃ u2, rw.foldlM (fun t (dc : Nat × Nat) =>
        if getS t (resolve rw dc.2) then setS t dc.1 else some t) u = some u2 ∧
      u2.size = n ∧ ∀ i, i < n → getS u2 i = true := by
  have key : ∀ (l : List (Nat × Nat)), (∀ p ∈ l, p ∈ rw) → ∀ u', Rel id u u' →
      ∃ u2, l.foldlM (fun t (dc : Nat × Nat) =>
          if getS t (resolve rw dc.2) then setS t dc.1 else some t) u' = some u2 ∧
        Rel id u' u2 ∧ ∀ p ∈ l, getS u2 p.1 = true := by
    intro l
    induction l with
    | nil => intro _ u' _; exact ⟨u', rfl, Rel.refl _, fun p hp => by cases hp⟩
    | cons dc l ih =>
      intro hl u' hR
      have hdc := hb dc (hl dc List.mem_cons_self)
      have h1 : getS u' (resolve rw dc.2) = true := hR.2 _ (hset _ hdc.2)
      simp only [List.foldlM_cons, h1, if_true]
      have hlt : dc.1 < u'.size := by rw [hR.1, hsz]; exact hdc.1
      rw [setS_of_lt hlt]
      simp only [Option.bind_eq_bind, Option.bind_some]
      obtain ⟨u2, e2, r2, s2⟩ := ih (fun p hp => hl p (List.mem_cons_of_mem _ hp))
        (u'.setIfInBounds dc.1 true) (hR.set _)
      refine ⟨u2, e2, (grow_set u' _).trans_id r2, ?_⟩
      intro p hp
      rcases List.mem_cons.mp hp with rfl | hp
      · exact r2.2 _ ((getS_set _ _ _).mpr (Or.inr ⟨rfl, hlt⟩))
      · exact s2 p hp
  obtain ⟨u2, e2, r2, s2⟩ := key rw (fun _ h => h) u (Rel.refl u)
  refine ⟨u2, e2, by rw [r2.1, hsz], ?_⟩
  intro i hi
  cases hl : rw.lookup i with
  | none =>
    have := hset i hi
    rw [resolve_of_terminal hl] at this
    exact r2.2 _ this
  | some v => exact s2 _ (C03.lookup_mem _ _ _ hl)


/-! ### Fusion: tables of the run, position by position -/

open P3R.C03 P3R.C09F P3R.C09C

/-- The table before position `j` of the run of `l` from `u0`. -/
def tab (u0 : Array Bool) (l : List (Op K)) (j : Nat) : Array Bool := (runOps u0 (l.take j)).getD #[]

theorem run_prefix {u0 ufin : Array Bool} {l : List (Op K)} (h : runOps u0 l = some ufin) (j : Nat) :
    ∃ t, runOps u0 (l.take j) = some t ∧ runOps t (l.drop j) = some ufin := by
  have e : runOps u0 (l.take j ++ l.drop j) = some ufin := by rw [List.take_append_drop]; exact h
  rw [runOps_append] at e
  cases hs : runOps u0 (l.take j) with
  | none => rw [hs] at e; cases e
  | some t => rw [hs] at e; exact ⟨t, rfl, e⟩

theorem tab_zero (u0 : Array Bool) (l : List (Op K)) : tab u0 l 0 = u0 := by
  simp [tab, runOps]

theorem tab_len {u0 ufin : Array Bool} {l : List (Op K)} (h : runOps u0 l = some ufin) :
    tab u0 l l.length = ufin := by
  simp [tab, h]

theorem tab_succ {u0 ufin : Array Bool} {l : List (Op K)} (h : runOps u0 l = some ufin) {j : Nat}
    (hlt : j < l.length) : execOpShape (tab u0 l j) l[j] = some (tab u0 l (j + 1)) := by
  obtain ⟨t1, h1, _⟩ := run_prefix h (j + 1)
  have h1' := h1
  rw [List.take_succ_eq_append_getElem hlt, runOps_append] at h1'
  cases hs : runOps u0 (l.take j) with
  | none => rw [hs] at h1'; cases h1'
  | some t =>
    rw [hs] at h1'
    simp only [Option.bind_some] at h1'
    rw [runOps_single] at h1'
    simp only [tab, hs, h1, Option.getD_some]
    exact h1'

theorem tab_size {u0 ufin : Array Bool} {l : List (Op K)} (h : runOps u0 l = some ufin) (j : Nat) :
    (tab u0 l j).size = u0.size := by
  obtain ⟨t, ht, _⟩ := run_prefix h j
  simp only [tab, ht, Option.getD_some]
  exact (run_sub _ ht).1

theorem tab_mono {u0 ufin : Array Bool} {l : List (Op K)} (h : runOps u0 l = some ufin) {a b : Nat}
    (hab : a ≤ b) (hb : b ≤ l.length) : Rel id (tab u0 l a) (tab u0 l b) := by
  induction b with
  | zero =>
    have : a = 0 := by omega
    subst this; exact Rel.refl _
  | succ b ih =>
    by_cases he : a = b + 1
    · subst he; exact Rel.refl _
    · have hlt : b < l.length := hb
      exact (ih (by omega) (Nat.le_of_lt hlt)).trans_id (step_sub _ (tab_succ h hlt))

theorem filterMap_take_succ (g : Op K × Nat → Option (Op K)) (l : List (Op K)) (j : Nat)
    (hlt : j < l.length) :
    (l.take (j + 1)).zipIdx.filterMap g = (l.take j).zipIdx.filterMap g ++ (g (l[j], j)).toList := by
  rw [List.take_succ_eq_append_getElem hlt, List.zipIdx_append, List.filterMap_append]
  simp only [List.zipIdx_cons, List.zipIdx_nil, List.filterMap_cons, List.filterMap_nil,
    Nat.zero_add, List.length_take, Nat.min_eq_left (Nat.le_of_lt hlt)]
  cases g (l[j], j) <;> rfl

/-- What the run-time argument needs of the chosen candidates. -/
structure RunFacts (u0 : Array Bool) (l : List (Op K)) (ch : List (Cand K)) : Prop where
  ok : ChosenOk l ch
  lt : ∀ c ∈ ch, c.mulIdx < c.addIdx
  fwd : ∀ c ∈ ch, ∀ ma mb m io, l[c.mulIdx]? = some (.alu .mul ma mb none m io) →
    getS (tab u0 l c.mulIdx) mb = true
  avail : ∀ c ∈ ch, getS (tab u0 l c.mulIdx) c.addend = true ∨
    ∃ c2 ∈ ch, c2.out = c.addend ∧ c2.mulIdx < c.mulIdx

/-- **The fusion surgery keeps the shape run** — for every family of chosen candidates with `RunFacts`. -/
theorem surgery_keeps_run {u0 ufin : Array Bool} {l : List (Op K)} {ch : List (Cand K)}
    (hrun : runOps u0 l = some ufin) (hio : ∀ op ∈ l, ioOk op = true) (hF : RunFacts u0 l ch) :
    ∃ v, runOps u0 (l.zipIdx.filterMap (applyF ch)) = some v ∧ Rel id ufin v := by
  have key : ∀ j, j ≤ l.length → ∃ t', runOps u0 ((l.take j).zipIdx.filterMap (applyF ch)) = some t' ∧
      Rel id (tab u0 l j) t' ∧ ∀ c ∈ ch, c.mulIdx < j → getS t' c.out = true := by
    intro j
    induction j with
    | zero =>
      intro _
      refine ⟨u0, rfl, by rw [tab_zero]; exact Rel.refl _, fun c _ h => by omega⟩
    | succ j ih =>
      intro hj
      have hlt : j < l.length := hj
      obtain ⟨t', hr, hR, hcl⟩ := ih (Nat.le_of_lt hlt)
      have hl : l[j]? = some l[j] := List.getElem?_eq_getElem hlt
      have hex := tab_succ hrun hlt
      have hiop : ioOk l[j] = true := hio _ (List.getElem_mem hlt)
      rw [filterMap_take_succ _ _ _ hlt, runOps_append, hr]
      simp only [Option.bind_some]
      rcases applyF_cases ch l[j] j with ⟨c, hc, he, hnone⟩ | ⟨c, hc, he, hsome⟩ | ⟨hno, hsame⟩
      · -- a consumed add: dropped
        rw [hnone]
        refine ⟨t', rfl, ?_, ?_⟩
        · obtain ⟨ma, mb, m, x, y, ioA, ioM, h_op, h_mul, h_add, h_or, _⟩ := (hF.ok.ok c hc).ex
          rw [he, hl] at h_add
          have hget : l[j] = .alu .add x y none c.out ioA := Option.some.inj h_add
          rw [hget] at hex hiop
          have hmlt := hF.lt c hc
          rw [he] at hmlt
          obtain ⟨_, _, hcase⟩ := exec_alu_cases hex hiop
          rcases hcase with ⟨e1, _⟩ | ⟨_, _, _, _, e1⟩
          · rw [e1]; exact hR.setLeft _ (hcl c hc hmlt)
          · rw [e1]
            apply hR.setLeft
            show getS t' y = true
            have hmulT : c.mulIdx < l.length := (List.getElem?_eq_some_iff.mp h_mul).1
            have hmex := tab_succ hrun hmulT
            have hgm : l[c.mulIdx] = .alu .mul ma mb none m ioM := by
              have := List.getElem?_eq_getElem hmulT
              rw [h_mul] at this
              exact (Option.some.inj this).symm
            rw [hgm] at hmex
            rcases h_or with ⟨_, rfl⟩ | ⟨_, rfl⟩
            · rcases hF.avail c hc with h1 | ⟨c2, hc2, ho2, hlt2⟩
              · exact hR.2 _ ((tab_mono hrun (Nat.le_of_lt hmlt) (Nat.le_of_lt hlt)).2 _ h1)
              · rw [← ho2]; exact hcl c2 hc2 (by omega)
            · have hw := (exec_written hmex (hio _ (List.mem_of_getElem? h_mul))).1
              exact hR.2 _ ((tab_mono hrun (show c.mulIdx + 1 ≤ j by omega) (Nat.le_of_lt hlt)).2 _ hw)
        · intro c' hc' hlt'
          by_cases hej : c'.mulIdx = j
          · exfalso
            exact no_add_at_mul hF.ok hc' hc (by rw [he, hej])
          · exact hcl c' hc' (by omega)
      · -- a fused mul: the MulAdd row
        rw [hsome]
        obtain ⟨ma, mb, m, x, y, ioA, ioM, h_op, h_mul, h_add, h_or, _⟩ := (hF.ok.ok c hc).ex
        have h_mul' := h_mul
        rw [he, hl] at h_mul
        have hget : l[j] = .alu .mul ma mb none m ioM := Option.some.inj h_mul
        rw [hget] at hex hiop
        have hmb : getS (tab u0 l j) mb = true := by
          have := hF.fwd c hc ma mb m ioM h_mul'
          rwa [he] at this
        obtain ⟨hma, hmlt, hcase⟩ := exec_alu_cases hex hiop
        have e1 : tab u0 l (j + 1) = (tab u0 l j).setIfInBounds m true := by
          rcases hcase with ⟨e1, _⟩ | ⟨_, hb, _⟩
          · exact e1
          · rw [hmb] at hb; cases hb
        have haddT : c.addIdx < l.length := (List.getElem?_eq_some_iff.mp h_add).1
        have haex := tab_succ hrun haddT
        have hga : l[c.addIdx] = .alu .add x y none c.out ioA := by
          have := List.getElem?_eq_getElem haddT
          rw [h_add] at this
          exact (Option.some.inj this).symm
        rw [hga] at haex
        have holt : c.out < u0.size := by
          have := (exec_alu_cases haex (hio _ (List.mem_of_getElem? h_add))).2.1
          rwa [tab_size hrun] at this
        have hsz : t'.size = u0.size := by rw [hR.1, tab_size hrun]
        rw [tab_size hrun] at hmlt
        have had : getS t' c.addend = true := by
          rcases hF.avail c hc with h1 | ⟨c2, hc2, ho2, hlt2⟩
          · rw [he] at h1; exact hR.2 _ h1
          · rw [← ho2]; exact hcl c2 hc2 (by omega)
        have hexec : execOpShape t' c.op =
            some ((t'.setIfInBounds m true).setIfInBounds c.out true) := by
          have hma' : getS t' ma = true := hR.2 _ hma
          have hmb' : getS t' mb = true := hR.2 _ hmb
          have hm1 : setS t' m = some (t'.setIfInBounds m true) :=
            setS_of_lt (by rw [hsz]; exact hmlt)
          have had' : getS (t'.setIfInBounds m true) c.addend = true :=
            (getS_set _ _ _).mpr (Or.inl had)
          have ho1 : setS (t'.setIfInBounds m true) c.out =
              some ((t'.setIfInBounds m true).setIfInBounds c.out true) :=
            setS_of_lt (by rw [Array.size_setIfInBounds, hsz]; exact holt)
          rw [h_op]
          simp only [execOpShape, execAluShape, hma', hmb', hm1, had', ho1, Bool.not_true, Bool.or_self,
            Bool.false_eq_true, if_false]
        refine ⟨(t'.setIfInBounds m true).setIfInBounds c.out true,
          by simp [runOps_cons, hexec, runOps_nil], ?_, ?_⟩
        · rw [e1]
          exact (hR.setBoth m (by rw [tab_size hrun]; exact hmlt)).set _
        · intro c' hc' hlt'
          by_cases hej : c'.mulIdx = j
          · have : c' = c := hF.ok.detMul c' hc' c hc (by rw [hej, he])
            subst this
            exact (getS_set _ _ _).mpr (Or.inr ⟨rfl, by simpa [hsz] using holt⟩)
          · exact (getS_set _ _ _).mpr (Or.inl ((getS_set _ _ _).mpr (Or.inl (hcl c' hc' (by omega)))))
      · -- an untouched row
        rw [hsame]
        obtain ⟨u1, e1, r1, g1⟩ := sim_step hR (fun _ h => h) l[j] hex
        rw [mapOp_id] at e1
        refine ⟨u1, by simp [runOps_cons, e1, runOps_nil], r1, ?_⟩
        intro c' hc' hlt'
        have := (hno c' hc').2
        exact g1.2 _ (hcl c' hc' (by omega))
  obtain ⟨v, hv, hR, _⟩ := key l.length (Nat.le_refl _)
  rw [List.take_length] at hv
  rw [tab_len hrun] at hR
  exact ⟨v, hv, hR⟩


/-! ### `scan_defs` against the run: the run-time analogue of `C09F.Sim` -/

theorem foldSet_bits : ∀ (outs : List Nat) (t t1 : Array Bool),
    outs.foldlM (fun t o => setS t o) t = some t1 →
    ∀ x, getS t1 x = true → getS t x = true ∨ x ∈ outs := by
  intro outs
  induction outs with
  | nil => intro t t1 h x hx; simp only [List.foldlM_nil, pure, Option.some.injEq] at h; subst h; exact Or.inl hx
  | cons o rest ih =>
    intro t t1 h x hx
    simp only [List.foldlM_cons] at h
    cases hs : setS t o with
    | none => rw [hs] at h; simp at h
    | some t2 =>
      rw [hs] at h
      obtain ⟨_, rfl⟩ := setS_some hs
      rcases ih _ _ h x hx with h1 | h1
      · rcases (getS_set _ _ _).mp h1 with h2 | ⟨rfl, _⟩
        · exact Or.inl h2
        · exact Or.inr List.mem_cons_self
      · exact Or.inr (List.mem_cons_of_mem _ h1)

/-- Slots a hint op writes. -/
def hintOuts : Op K → List Nat
  | .hint _ outs _ => outs
  | _ => []

/-- A bit set by a step that is not an ALU row: the `out` of a `Const` row or an output of a hint. -/
theorem exec_new_nonalu {t t' : Array Bool} {op : Op K} (h : execOpShape t op = some t')
    (hna : isAluOp op = false) {x : Nat} (hx : getS t' x = true) :
    getS t x = true ∨ (∃ v, op = .const x v) ∨ x ∈ hintOuts op := by
  cases op with
  | const out v =>
    obtain ⟨_, rfl⟩ := setS_some h
    rcases (getS_set _ _ _).mp hx with h1 | ⟨rfl, _⟩
    · exact Or.inl h1
    · exact Or.inr (Or.inl ⟨v, rfl⟩)
  | pub out pos =>
    simp only [execOpShape] at h
    split at h
    · cases h; exact Or.inl hx
    · cases h
  | alu _ _ _ _ _ _ => simp [isAluOp] at hna
  | npo _ _ _ _ => simp [execOpShape] at h
  | hint ins outs kd =>
    cases kd with
    | table _ => simp [execOpShape] at h
    | hintBits =>
      match ins, h with
      | [y], h =>
        simp only [execOpShape] at h
        split at h
        · cases h
        · exact (foldSet_bits outs t t' h x hx).imp id (fun h => Or.inr h)
      | [], h => simp [execOpShape] at h
      | _ :: _ :: _, h => simp [execOpShape] at h
    | hintExt =>
      match ins, outs, h with
      | [y], [o], h =>
        simp only [execOpShape] at h
        split at h
        · cases h
        · obtain ⟨_, rfl⟩ := setS_some h
          rcases (getS_set _ _ _).mp hx with h1 | ⟨rfl, _⟩
          · exact Or.inl h1
          · exact Or.inr (Or.inr (by simp [hintOuts]))
      | [], _, h => simp [execOpShape] at h
      | [_], [], h => simp [execOpShape] at h
      | [_], _ :: _ :: _, h => simp [execOpShape] at h
      | _ :: _ :: _, _, h => simp [execOpShape] at h

/-- Every definition entry is backed by a writer count. -/
def WrInv (f : Fusion K) : Prop := ∀ x, hasDef f x → 1 ≤ cnt f.writers x

theorem insertDef_wr (f : Fusion K) (w idx : Nat) (d : OpDef K) (h : WrInv f) :
    WrInv (f.insertDef w idx d) := by
  intro x hx
  rw [insertDef_writers, cnt_bump]
  by_cases hxw : x = w
  · simp [hxw]
  · have hfx : hasDef f x := by
      unfold hasDef at hx ⊢
      rcases insertDef_defs f w idx d with e | e <;> rw [e] at hx
      · exact hx
      · have : (x == w) = false := by simpa using hxw
        simpa [List.lookup, this] using hx
    have := h x hfx
    omega

theorem trackBackwards_wr (f : Fusion K) (idx out b : Nat) (h : WrInv f) :
    WrInv (f.trackBackwards idx out b) := by
  unfold Fusion.trackBackwards
  split
  · exact insertDef_wr _ _ _ _ h
  · exact h

theorem foldInsert_wr (ws : List Nat) (idx : Nat) (f : Fusion K) (h : WrInv f) :
    WrInv (ws.foldl (fun f w => f.insertDef w idx .other) f) := by
  induction ws generalizing f with
  | nil => exact h
  | cons w ws ih => exact ih _ (insertDef_wr f w idx .other h)

theorem defStep_wr (f : Fusion K) (op : Op K) (idx : Nat) (h : WrInv f) : WrInv (defStep f (op, idx)) := by
  cases op with
  | const out v =>
    intro x hx
    simp only [defStep, cnt_bump]
    by_cases hxw : x = out
    · simp [hxw]
    · have hfx : hasDef f x := by
        unfold hasDef at hx ⊢
        have : (x == out) = false := by simpa using hxw
        simpa [defStep, List.lookup, this] using hx
      have := h x hfx
      omega
  | pub out pos => exact insertDef_wr _ _ _ _ h
  | hint ins outs kind => exact foldInsert_wr outs idx f h
  | npo ins outs opId kind => exact foldInsert_wr outs.flatten idx f h
  | alu k a b c out io =>
    cases k <;> cases c <;>
      first
        | exact insertDef_wr _ _ _ _ (trackBackwards_wr _ _ _ _ h)
        | exact insertDef_wr _ _ _ _ h

/-- Fold of `insert_def … Other` over hint outputs: every output gets a definition. -/
theorem foldInsert_has (ws : List Nat) (idx : Nat) (f : Fusion K) {x : Nat} (hx : x ∈ ws) :
    hasDef (ws.foldl (fun f w => f.insertDef w idx .other) f) x := by
  induction ws generalizing f with
  | nil => cases hx
  | cons w ws ih =>
    simp only [List.foldl_cons]
    rcases List.mem_cons.mp hx with rfl | hx
    · exact hasDef_pushed (foldInsert_pushed ws idx (fun _ _ => True) _) (insertDef_has f x idx .other)
    · exact ih _ hx

/-- The simulation invariant between the first `j` steps of `scan_defs` and the table before
position `j` of the run. -/
structure RSim (P pubs : List Nat) (l : List (Op K)) (j : Nat) (t : Array Bool) (f : Fusion K) : Prop where
  inp : f.inputs = P
  lt : ∀ x e, (x, e) ∈ f.defs → e.1 < j
  cst : ∀ x i v, (x, (i, OpDef.const v)) ∈ f.defs → getS t x = true
  defd : ∀ x, getS t x = true → x ∈ P ∨ x ∈ pubs ∨ hasDef f x
  outd : ∀ i op x, i < j → l[i]? = some op → outSlot op = some x → hasDef f x
  wr : WrInv f

/-- Public slots are defined before the first ALU row (or private). -/
def PubAt (P pubs : List Nat) (l : List (Op K)) (j : Nat) : Prop :=
  ∀ x ∈ pubs, x ∈ P ∨ ∃ i op', i < j ∧ l[i]? = some op' ∧ outSlot op' = some x

theorem RSim.priv_or_def {P pubs : List Nat} {l : List (Op K)} {j : Nat} {t : Array Bool} {f : Fusion K}
    (h : RSim P pubs l j t f) (hp : PubAt P pubs l j) {x : Nat} (hx : getS t x = true) :
    x ∈ P ∨ hasDef f x := by
  rcases h.defd x hx with h1 | h1 | h1
  · exact Or.inl h1
  · rcases hp x h1 with h2 | ⟨i, op', hi, hl, ho⟩
    · exact Or.inl h2
    · exact Or.inr (h.outd i op' x hi hl ho)
  · exact Or.inr h1

theorem RSim.backwards {P pubs : List Nat} {l : List (Op K)} {j : Nat} {t : Array Bool} {f : Fusion K}
    (h : RSim P pubs l j t f) (hp : PubAt P pubs l j) {out : Nat} (ho : getS t out = true) :
    f.isBackwards j out = true := by
  unfold Fusion.isBackwards
  simp only [Bool.or_eq_true, List.contains_iff_mem]
  rcases h.priv_or_def hp ho with hp' | hd
  · left; rw [h.inp]; exact hp'
  · right
    unfold hasDef at hd
    unfold Fusion.defIdx
    cases hl : f.defs.lookup out with
    | none => rw [hl] at hd; cases hd
    | some e =>
      simp only [Option.map_some, decide_eq_true_eq]
      exact h.lt out e (lookup_mem _ _ _ hl)

theorem RSim.step {P pubs : List Nat} {l : List (Op K)} {j : Nat} {t t' : Array Bool} {f : Fusion K}
    (h : RSim P pubs l j t f) {op : Op K} (hl : l[j]? = some op) (hex : execOpShape t op = some t')
    (hio : ioOk op = true) (hds : C18L.dshape op = true)
    (hp : isAluOp op = true → PubAt P pubs l j) :
    RSim P pubs l (j + 1) t' (defStep f (op, j)) := by
  have hpush := defStep_pushed f op j
  obtain ⟨pushed, hd, hi, ha⟩ := hpush
  have hsub := step_sub op hex
  have keep : ∀ {y}, hasDef f y → hasDef (defStep f (op, j)) y :=
    fun hy => hasDef_pushed (defStep_pushed f op j) hy
  refine ⟨by rw [hi, h.inp], ?_, ?_, ?_, ?_, defStep_wr f op j h.wr⟩
  · intro x e he
    rw [hd] at he
    rcases List.mem_append.mp he with he | he
    · rw [(ha x e he).1]; exact Nat.lt_succ_self _
    · exact Nat.lt_succ_of_lt (h.lt x e he)
  · intro x i v he
    rw [hd] at he
    rcases List.mem_append.mp he with he | he
    · have := (ha x _ he).2 v rfl
      subst this
      obtain ⟨hlt, rfl⟩ := setS_some hex
      exact (getS_set _ _ _).mpr (Or.inr ⟨rfl, hlt⟩)
    · exact hsub.2 _ (h.cst x i v he)
  · intro x hx
    have old : getS t x = true → x ∈ P ∨ x ∈ pubs ∨ hasDef (defStep f (op, j)) x := fun h1 =>
      (h.defd x h1).imp id (fun h2 => h2.imp id keep)
    by_cases hna : isAluOp op = false
    · rcases exec_new_nonalu hex hna hx with h1 | ⟨v, rfl⟩ | h1
      · exact old h1
      · exact Or.inr (Or.inr (defStep_out f _ j rfl))
      · cases op with
        | hint ins outs kd => exact Or.inr (Or.inr (foldInsert_has outs j f h1))
        | _ => simp [hintOuts] at h1
    · cases op with
      | alu k a b c out io =>
        obtain ⟨_, _, hcase⟩ := exec_alu_cases hex hio
        rcases hcase with ⟨rfl, _⟩ | ⟨hk, _, ho, _, rfl⟩
        · rcases (getS_set _ _ _).mp hx with h1 | ⟨rfl, _⟩
          · exact old h1
          · exact Or.inr (Or.inr (defStep_out f _ j rfl))
        · rcases (getS_set _ _ _).mp hx with h1 | ⟨rfl, _⟩
          · exact old h1
          · have hc : c = none := by
              cases k <;> simp [isAM] at hk <;> simpa [C18L.dshape] using hds
            subst hc
            exact Or.inr (Or.inr (defStep_b f k a x out io j hk (h.backwards (hp rfl) ho)))
      | _ => simp [isAluOp] at hna
  · intro i op' x hi hl' ho
    by_cases hij : i = j
    · subst hij
      rw [hl] at hl'
      cases hl'
      exact defStep_out f _ i ho
    · exact keep (h.outd i op' x (by omega) hl' ho)


/-! ### The invariant along the whole scan -/

section scan
variable {P pubs : List Nat} {l : List (Op K)} {u0 ufin : Array Bool}

/-- Hypotheses on the input list of the fusion pass. -/
structure FuseIn (P pubs : List Nat) (l : List (Op K)) (u0 ufin : Array Bool) : Prop where
  run : runOps u0 l = some ufin
  io : ∀ op ∈ l, ioOk op = true
  ds : ∀ op ∈ l, C18L.dshape op = true
  init : ∀ x, getS u0 x = true → x ∈ P ∨ x ∈ pubs
  pub : ∀ j op, l[j]? = some op → isAluOp op = true → PubAt P pubs l j

theorem rsim_scanTo (hI : FuseIn P pubs l u0 ufin) (f0 : Fusion K) (h0 : f0.inputs = P)
    (hd0 : f0.defs = []) : ∀ j, j ≤ l.length → RSim P pubs l j (tab u0 l j) (scanTo l f0 j) := by
  intro j
  induction j with
  | zero =>
    intro _
    refine ⟨h0, ?_, ?_, ?_, ?_, ?_⟩
    · intro x e he; simp [scanTo, hd0] at he
    · intro x i v he; simp [scanTo, hd0] at he
    · intro x hx; rw [tab_zero] at hx; exact (hI.init x hx).imp id Or.inl
    · intro i op x hi; omega
    · intro x hx; simp [hasDef, scanTo, hd0] at hx
  | succ j ih =>
    intro hj
    have hlt : j < l.length := hj
    rw [scanTo_succ l f0 j hlt]
    have hl : l[j]? = some l[j] := List.getElem?_eq_getElem hlt
    have hm : l[j] ∈ l := List.getElem_mem hlt
    exact (ih (Nat.le_of_lt hlt)).step hl (tab_succ hI.run hlt) (hI.io _ hm) (hI.ds _ hm)
      (fun ha => hI.pub j _ hl ha)

theorem hasDef_scan_mono (f0 : Fusion K) {x : Nat} {a : Nat} :
    ∀ b, a ≤ b → b ≤ l.length → hasDef (scanTo l f0 a) x → hasDef (scanTo l f0 b) x := by
  intro b
  induction b with
  | zero => intro h1 _ h; have : a = 0 := by omega
            subst this; exact h
  | succ b ih =>
    intro h1 h2 h
    by_cases he : a = b + 1
    · subst he; exact h
    · have hlt : b < l.length := h2
      rw [scanTo_succ l f0 b hlt]
      exact hasDef_pushed (defStep_pushed _ _ _) (ih (by omega) (Nat.le_of_lt hlt) h)

theorem defsInv_scanTo (f0 : Fusion K) (hd0 : f0.defs = []) (j : Nat) : DefsInv l (scanTo l f0 j) := by
  unfold scanTo
  refine (foldDefStep_props l _ f0 ?_ ?_).2.2
  · intro p hp
    have := List.mem_zipIdx_iff_getElem?.mp hp
    rw [List.getElem?_take] at this
    split at this
    · exact this
    · cases this
  · intro w i a b hm; rw [hd0] at hm; cases hm

theorem writers_scan_mono (f0 : Fusion K) (hd0 : f0.defs = []) {x : Nat} {a : Nat} :
    ∀ b, a ≤ b → b ≤ l.length → cnt (scanTo l f0 a).writers x ≤ cnt (scanTo l f0 b).writers x := by
  intro b
  induction b with
  | zero => intro h1 _; have : a = 0 := by omega
            subst this; exact Nat.le_refl _
  | succ b ih =>
    intro h1 h2
    by_cases he : a = b + 1
    · subst he; exact Nat.le_refl _
    · have hlt : b < l.length := h2
      rw [scanTo_succ l f0 b hlt]
      have := (defStep_props l (scanTo l f0 b) (l[b], b) (List.getElem?_eq_getElem hlt)
        (defsInv_scanTo f0 hd0 b)).2.1 x
      have := ih (by omega) (Nat.le_of_lt hlt)
      omega

/-- A slot with writer count `1` whose `out`-writer sits at position `q` has no definition before `q`. -/
theorem no_early_def (hI : FuseIn P pubs l u0 ufin) (f0 : Fusion K) (h0 : f0.inputs = P)
    (hd0 : f0.defs = []) {q m : Nat} {op : Op K} (hq : l[q]? = some op) (ho : outSlot op = some m)
    (hw : cnt (scanTo l f0 l.length).writers m = 1) : ¬ hasDef (scanTo l f0 q) m := by
  intro hd
  have hlt : q < l.length := (List.getElem?_eq_some_iff.mp hq).1
  have h1 := (rsim_scanTo hI f0 h0 hd0 q (Nat.le_of_lt hlt)).wr m hd
  have hget : l[q] = op := by
    have := List.getElem?_eq_getElem hlt
    rw [hq] at this
    exact (Option.some.inj this).symm
  have h2 := (defStep_props l (scanTo l f0 q) (l[q], q) (List.getElem?_eq_getElem hlt)
    (defsInv_scanTo f0 hd0 q)).2.1 m
  rw [← scanTo_succ l f0 q hlt] at h2
  dsimp only at h2
  have h3 := writers_scan_mono (l := l) f0 hd0 (x := m) (a := q + 1) l.length hlt (Nat.le_refl _)
  have : wOut m l[q] = 1 := by simp [wOut, hget, ho]
  omega

end scan


/-! ### Definitions recorded at or after a position -/

/-- `x`'s current definition was recorded at position `idx`. -/
def defAt (f : Fusion K) (x idx : Nat) : Prop := ∃ e, f.defs.lookup x = some e ∧ e.1 = idx

theorem defAt_pushed {f f' : Fusion K} {idx : Nat} {isC : Nat → K → Prop} (h : Pushed f f' idx isC)
    {x : Nat} (hx : defAt f x idx) : defAt f' x idx := by
  obtain ⟨pushed, hd, _, ha⟩ := h
  obtain ⟨e, he, hje⟩ := hx
  unfold defAt
  rw [hd, List.lookup_append]
  cases hp : List.lookup x pushed with
  | none => exact ⟨e, by simpa using he, hje⟩
  | some e' => exact ⟨e', by simp, (ha x e' (lookup_mem _ _ _ hp)).1⟩

theorem defAt_defGe {f : Fusion K} {x idx k : Nat} (h : defAt f x idx) (hk : k ≤ idx) : defGe f x k := by
  obtain ⟨e, he, hje⟩ := h
  exact ⟨e, he, by omega⟩

theorem isConst_mem {g : Fusion K} {w : Nat} (h : g.isConst w = true) :
    ∃ i v, (w, (i, OpDef.const v)) ∈ g.defs := by
  obtain ⟨i, v, hl⟩ := isConst_spec h
  exact ⟨i, v, lookup_mem _ _ _ hl⟩

theorem insertDef_defAt (g : Fusion K) (w idx : Nat) (d : OpDef K) (h : g.isConst w = false) :
    defAt (g.insertDef w idx d) w idx := by
  rcases insertDef_defs' g w idx d with ⟨_, hc⟩ | ⟨hd, _⟩
  · rw [h] at hc; cases hc
  · exact ⟨(idx, d), by rw [hd]; simp [List.lookup], rfl⟩

theorem isConst_insertDef_ne (f : Fusion K) (w idx : Nat) (d : OpDef K) {x : Nat} (hx : x ≠ w) :
    (f.insertDef w idx d).isConst x = f.isConst x := by
  unfold Fusion.isConst
  have : (x == w) = false := by simpa using hx
  rcases insertDef_defs f w idx d with e | e <;> rw [e]
  simp [List.lookup, this]

theorem foldInsert_defAt (ws : List Nat) (idx : Nat) (f : Fusion K) {x : Nat} (hx : x ∈ ws)
    (hc : f.isConst x = false) : defAt (ws.foldl (fun f w => f.insertDef w idx .other) f) x idx := by
  induction ws generalizing f with
  | nil => cases hx
  | cons w ws ih =>
    simp only [List.foldl_cons]
    by_cases hxw : x = w
    · subst hxw
      exact defAt_pushed (foldInsert_pushed ws idx (fun _ _ => True) _) (insertDef_defAt f x idx .other hc)
    · rcases List.mem_cons.mp hx with h | h
      · exact absurd h hxw
      · exact ih _ h (by rw [isConst_insertDef_ne f w idx .other hxw]; exact hc)

theorem defStep_alu_form (f : Fusion K) (k : AluKind) (a b : Nat) (c : Option Nat) (out : Nat)
    (io : Option Nat) (j : Nat) :
    ∃ g d, defStep f (.alu k a b c out io, j) = g.insertDef out j d ∧ (∀ v, d ≠ .const v) ∧
      (g = f ∨ g = f.trackBackwards j out b) := by
  cases k <;> cases c <;>
    first
      | exact ⟨_, _, rfl, (fun v h => by cases h), Or.inr rfl⟩
      | exact ⟨_, _, rfl, (fun v h => by cases h), Or.inl rfl⟩

theorem trackBackwards_const (f : Fusion K) (idx out b : Nat) {w i : Nat} {v : K}
    (h : (w, (i, OpDef.const v)) ∈ (f.trackBackwards idx out b).defs) : (w, (i, OpDef.const v)) ∈ f.defs := by
  rcases trackBackwards_defs f idx out b with e | e <;> rw [e] at h
  · exact h
  · simpa using h

/-- One step of the "set since position `k` ⇒ defined at or after `k`" invariant. -/
theorem ge_step {P pubs : List Nat} {l : List (Op K)} {j : Nat} {t t' : Array Bool} {f : Fusion K}
    (h : RSim P pubs l j t f) {op : Op K} (hex : execOpShape t op = some t')
    (hio : ioOk op = true) (hds : C18L.dshape op = true)
    (hp : isAluOp op = true → PubAt P pubs l j) {k : Nat} {tk : Array Bool} (hk : k ≤ j)
    (hg : ∀ x, getS t x = true → getS tk x = true ∨ defGe f x k) :
    ∀ x, getS t' x = true → getS tk x = true ∨ defGe (defStep f (op, j)) x k := by
  intro x hx
  by_cases hxt : getS t x = true
  · exact (hg x hxt).imp id (fun h => defGe_step h op j hk)
  · right
    refine defAt_defGe ?_ hk
    have ncst : ∀ {g : Fusion K}, (∀ w i v, (w, (i, OpDef.const v)) ∈ g.defs → (w, (i, OpDef.const v)) ∈ f.defs) →
        g.isConst x = false := by
      intro g hgf
      by_contra hc
      obtain ⟨i, v, hm⟩ := isConst_mem (by simpa using hc)
      exact hxt (h.cst x i v (hgf _ _ _ hm))
    by_cases hna : isAluOp op = false
    · rcases exec_new_nonalu hex hna hx with h1 | ⟨v, rfl⟩ | h1
      · exact absurd h1 hxt
      · exact ⟨(j, .const v), by simp [defStep, List.lookup], rfl⟩
      · cases op with
        | hint ins outs kd => exact foldInsert_defAt outs j f h1 (ncst (fun _ _ _ h => h))
        | _ => simp [hintOuts] at h1
    · cases op with
      | alu kk a b c out io =>
        obtain ⟨_, _, hcase⟩ := exec_alu_cases hex hio
        obtain ⟨g, d, hform, hdn, hgf⟩ := defStep_alu_form f kk a b c out io j
        have gconst : ∀ w i v, (w, (i, OpDef.const v)) ∈ g.defs → (w, (i, OpDef.const v)) ∈ f.defs := by
          intro w i v hm
          rcases hgf with rfl | rfl
          · exact hm
          · exact trackBackwards_const _ _ _ _ hm
        rcases hcase with ⟨rfl, _⟩ | ⟨hkk, _, ho, _, rfl⟩
        · rcases (getS_set _ _ _).mp hx with h1 | ⟨rfl, _⟩
          · exact absurd h1 hxt
          · rw [hform]
            exact insertDef_defAt g x j d (ncst gconst)
        · rcases (getS_set _ _ _).mp hx with h1 | ⟨rfl, _⟩
          · exact absurd h1 hxt
          · have hc : c = none := by
              cases kk <;> simp [isAM] at hkk <;> simpa [C18L.dshape] using hds
            subst hc
            have hbw := h.backwards (hp rfl) ho
            have h1 : defAt (f.trackBackwards j out x) x j := by
              unfold Fusion.trackBackwards
              rw [if_pos hbw]
              exact insertDef_defAt _ x j .other (ncst (g := { f with backwards := (x, j) :: f.backwards })
                (fun _ _ _ h => h))
            cases kk with
            | add => exact defAt_pushed (insertDef_pushed _ out j .other (fun _ _ => True) (fun v h => by cases h)) h1
            | mul => exact defAt_pushed (insertDef_pushed _ out j (.mul a x) (fun _ _ => True) (fun v h => by cases h)) h1
            | boolCheck => cases hkk
            | mulAdd => cases hkk
            | horner => cases hkk
      | _ => simp [isAluOp] at hna

section scan2
variable {P pubs : List Nat} {l : List (Op K)} {u0 ufin : Array Bool}

theorem ge_scan (hI : FuseIn P pubs l u0 ufin) (f0 : Fusion K) (h0 : f0.inputs = P)
    (hd0 : f0.defs = []) {k : Nat} :
    ∀ j, k ≤ j → j ≤ l.length → ∀ x, getS (tab u0 l j) x = true →
      getS (tab u0 l k) x = true ∨ defGe (scanTo l f0 j) x k := by
  intro j
  induction j with
  | zero =>
    intro h1 _ x hx
    have : k = 0 := by omega
    subst this; exact Or.inl hx
  | succ j ih =>
    intro h1 h2 x hx
    by_cases he : k = j + 1
    · subst he; exact Or.inl hx
    · have hlt : j < l.length := h2
      have hl : l[j]? = some l[j] := List.getElem?_eq_getElem hlt
      have hm : l[j] ∈ l := List.getElem_mem hlt
      rw [scanTo_succ l f0 j hlt]
      exact ge_step (rsim_scanTo hI f0 h0 hd0 j (Nat.le_of_lt hlt)) (tab_succ hI.run hlt)
        (hI.io _ hm) (hI.ds _ hm) (fun ha => hI.pub j _ hl ha) (by omega)
        (ih (by omega) (Nat.le_of_lt hlt)) x hx

theorem defGe_scan_mono (f0 : Fusion K) {x k a : Nat} :
    ∀ b, a ≤ b → k ≤ a → b ≤ l.length → defGe (scanTo l f0 a) x k → defGe (scanTo l f0 b) x k := by
  intro b
  induction b with
  | zero => intro h1 _ _ h; have : a = 0 := by omega
            subst this; exact h
  | succ b ih =>
    intro h1 hk h2 h
    by_cases he : a = b + 1
    · subst he; exact h
    · have hlt : b < l.length := h2
      rw [scanTo_succ l f0 b hlt]
      exact defGe_step (ih (by omega) hk (Nat.le_of_lt hlt) h) _ _ (by omega)

end scan2


/-! ### The model's pass satisfies `RunFacts` -/

theorem cand_writer (ops : Array (Op K)) (P : List Nat) (c : Cand K) (hc : c ∈ chosenFor ops P)
    {ma mb ad o m : Nat} (hop : c.op = .alu .mulAdd ma mb (some ad) o (some m)) :
    cnt (Fusion.new ops P).writers m = 1 ∧ (Fusion.new ops P).inputs.contains m = false := by
  obtain ⟨_, _, _, x, y, ioA, _, _, _, h_add, _⟩ := ((chosenFor_ok ops P).ok c hc).ex
  rcases chosen_tryFuse ops P c hc h_add with ht | ht
  all_goals
    obtain ⟨mi, ma', mb', _, _, hw, hceq⟩ := tryFuse_some _ _ _ _ _ _ ht
    obtain ⟨mi2, ma2, mb2, hni, _, _⟩ := tryFuse_full _ _ _ _ _ _ ht
    have hop' := congrArg Cand.op hceq
    simp only [] at hop'
    rw [hop'] at hop
    simp only [Op.alu.injEq, Option.some.injEq, true_and] at hop
    have hm := hop.2.2.2.2
    rw [← hm]
    exact ⟨hw, hni⟩

theorem chosenOf_sup (valid : List (Cand K)) :
    ∀ acc : List (Cand K), (∀ c ∈ valid, ∀ d ∈ acc ++ valid, c.mulIdx = d.mulIdx → c = d) →
      (∀ c ∈ acc, c ∈ valid.foldl (fun (acc : List (Cand K)) c =>
        if acc.any (fun d => d.mulIdx = c.mulIdx) then acc else acc ++ [c]) acc) ∧
      (∀ c ∈ valid, c ∈ valid.foldl (fun (acc : List (Cand K)) c =>
        if acc.any (fun d => d.mulIdx = c.mulIdx) then acc else acc ++ [c]) acc) := by
  induction valid with
  | nil => intro acc _; exact ⟨fun c h => h, fun c h => by cases h⟩
  | cons v valid ih =>
    intro acc hinj
    simp only [List.foldl_cons]
    by_cases hany : acc.any (fun d => d.mulIdx = v.mulIdx) = true
    · rw [if_pos hany]
      obtain ⟨d, hd, he⟩ := List.any_eq_true.mp hany
      simp only [decide_eq_true_eq] at he
      have hvd : v = d := hinj v List.mem_cons_self d (List.mem_append.mpr (Or.inl hd)) he.symm
      obtain ⟨h1, h2⟩ := ih acc (fun c hc d' hd' => hinj c (List.mem_cons_of_mem _ hc) d'
        (by rcases List.mem_append.mp hd' with h | h
            · exact List.mem_append.mpr (Or.inl h)
            · exact List.mem_append.mpr (Or.inr (List.mem_cons_of_mem _ h))))
      refine ⟨h1, fun c hc => ?_⟩
      rcases List.mem_cons.mp hc with rfl | hc
      · rw [hvd]; exact h1 d hd
      · exact h2 c hc
    · rw [if_neg hany]
      obtain ⟨h1, h2⟩ := ih (acc ++ [v]) (fun c hc d' hd' => hinj c (List.mem_cons_of_mem _ hc) d'
        (by simp only [List.mem_append, List.mem_cons, List.not_mem_nil, or_false] at hd' ⊢
            tauto))
      refine ⟨fun c hc => h1 c (List.mem_append.mpr (Or.inl hc)), fun c hc => ?_⟩
      rcases List.mem_cons.mp hc with rfl | hc
      · exact h1 c (List.mem_append.mpr (Or.inr (by simp)))
      · exact h2 c hc

/-- Candidates are determined by their mul position (the product is read by one add only). -/
theorem cands_mul_inj (ops : Array (Op K)) (P : List Nat) (c d : Cand K)
    (hc : c ∈ (Fusion.new ops P).candidates ops) (hd : d ∈ (Fusion.new ops P).candidates ops)
    (he : c.mulIdx = d.mulIdx) : c = d := by
  obtain ⟨hcok, opc, hc1, hc2⟩ := candidates_ok ops P c hc
  obtain ⟨hdok, opd, hd1, hd2⟩ := candidates_ok ops P d hd
  obtain ⟨ma, mb, m, x, y, ioA, ioM, h_op, h_mul, h_add, h_or, _⟩ := hcok.ex
  obtain ⟨ma', mb', m', x', y', ioA', ioM', h_op', h_mul', h_add', h_or', _⟩ := hdok.ex
  rw [he, h_mul'] at h_mul
  simp only [Option.some.injEq, Op.alu.injEq, true_and] at h_mul
  obtain ⟨_, _, hm, _⟩ := h_mul
  subst hm
  have hidx : d.addIdx = c.addIdx := by
    apply prod_read hcok h_op h_add'
    rcases h_or' with ⟨h, _⟩ | ⟨_, h⟩
    · exact Or.inl h
    · exact Or.inr h
  rw [hidx, hc1] at hd1
  cases hd1
  rw [hidx, hc2] at hd2
  exact Option.some.inj hd2

section facts
variable {P pubs : List Nat} {u0 ufin : Array Bool}

theorem chosen_run_facts (ops : Array (Op K)) (hI : FuseIn P pubs ops.toList u0 ufin) :
    RunFacts u0 ops.toList (chosenFor ops P) := by
  have hch := chosenFor_ok ops P
  have hnew := new_eq_scanTo ops P
  have S := rsim_scanTo hI (scan0 ops P) rfl rfl
  have hinp : (Fusion.new ops P).inputs = P := by
    rw [hnew]; exact (S _ (Nat.le_refl _)).inp
  -- per candidate: no definition of the product before its mul
  have ned : ∀ c ∈ chosenFor ops P, ∀ ma mb m ioM ad o,
      c.op = .alu .mulAdd ma mb (some ad) o (some m) →
      ops.toList[c.mulIdx]? = some (.alu .mul ma mb none m ioM) →
      m ∉ P ∧ ¬ hasDef (scanTo ops.toList (scan0 ops P) c.mulIdx) m := by
    intro c hc ma mb m ioM ad o hop hmul
    obtain ⟨hw, hni⟩ := cand_writer ops P c hc hop
    refine ⟨?_, no_early_def hI (scan0 ops P) rfl rfl hmul rfl (by rw [← hnew]; exact hw)⟩
    rw [hinp] at hni
    intro hin
    simp [hin] at hni
  have hfwd : ∀ c ∈ chosenFor ops P, ∀ ma mb m io,
      ops.toList[c.mulIdx]? = some (.alu .mul ma mb none m io) →
      getS (tab u0 ops.toList c.mulIdx) mb = true := by
    intro c hc ma2 mb2 m2 io2 hmul2
    obtain ⟨ma, mb, m, x, y, ioA, ioM, h_op, h_mul, h_add, h_or, _⟩ := (hch.ok c hc).ex
    have e := h_mul
    rw [hmul2] at e
    simp only [Option.some.injEq, Op.alu.injEq, true_and] at e
    obtain ⟨rfl, rfl, rfl, rfl⟩ := e
    obtain ⟨hnp, hnd⟩ := ned c hc _ _ _ _ _ _ h_op h_mul
    have hlt : c.mulIdx < ops.toList.length := (List.getElem?_eq_some_iff.mp h_mul).1
    have hex := tab_succ hI.run hlt
    have hget : ops.toList[c.mulIdx] = .alu .mul ma2 mb2 none m2 io2 := by
      have := List.getElem?_eq_getElem hlt
      rw [h_mul] at this
      exact (Option.some.inj this).symm
    rw [hget] at hex
    obtain ⟨_, _, hcase⟩ := exec_alu_cases hex (hI.io _ (List.mem_of_getElem? h_mul))
    rcases hcase with ⟨_, hb⟩ | ⟨_, _, ho, _, _⟩
    · exact hb (by intro h; cases h)
    · exfalso
      rcases (S c.mulIdx (Nat.le_of_lt hlt)).priv_or_def (hI.pub _ _ h_mul rfl) ho with h1 | h1
      · exact hnp h1
      · exact hnd h1
  have hltF : ∀ c ∈ chosenFor ops P, c.mulIdx < c.addIdx := by
    intro c hc
    obtain ⟨ma, mb, m, x, y, ioA, ioM, h_op, h_mul, h_add, h_or, _⟩ := (hch.ok c hc).ex
    obtain ⟨hnp, hnd⟩ := ned c hc _ _ _ _ _ _ h_op h_mul
    by_contra hle
    have hne : c.addIdx ≠ c.mulIdx := no_add_at_mul hch hc hc
    have hlt' : c.addIdx < c.mulIdx := by omega
    have hmlt : c.mulIdx < ops.toList.length := (List.getElem?_eq_some_iff.mp h_mul).1
    have halt : c.addIdx < ops.toList.length := by omega
    have hex := tab_succ hI.run halt
    have hget : ops.toList[c.addIdx] = .alu .add x y none c.out ioA := by
      have := List.getElem?_eq_getElem halt
      rw [h_add] at this
      exact (Option.some.inj this).symm
    rw [hget] at hex
    have SA := S c.addIdx (Nat.le_of_lt halt)
    have hpA := hI.pub _ _ h_add rfl
    have mset : ∀ j, j ≤ c.mulIdx → hasDef (scanTo ops.toList (scan0 ops P) j) m → False := fun j hj hd =>
      hnd (hasDef_scan_mono (l := ops.toList) (scan0 ops P) c.mulIdx hj (Nat.le_of_lt hmlt) hd)
    have mtab : getS (tab u0 ops.toList c.addIdx) m = true → False := by
      intro hm
      rcases SA.priv_or_def hpA hm with h1 | h1
      · exact hnp h1
      · exact mset _ (Nat.le_of_lt hlt') h1
    obtain ⟨hA, _, hcase⟩ := exec_alu_cases hex (hI.io _ (List.mem_of_getElem? h_add))
    rcases h_or with ⟨rfl, _⟩ | ⟨_, rfl⟩
    · exact mtab hA
    · rcases hcase with ⟨_, hb⟩ | ⟨_, _, ho, _, _⟩
      · exact mtab (hb (by intro h; cases h))
      · have hbw := SA.backwards hpA ho
        have := defStep_b (scanTo ops.toList (scan0 ops P) c.addIdx) .add x y c.out ioA c.addIdx rfl hbw
        rw [← hget, ← scanTo_succ _ _ _ halt] at this
        exact mset _ hlt' this
  refine ⟨hch, hltF, hfwd, ?_⟩
  -- the addend is available at the mul position
  intro c hc
  obtain ⟨ma, mb, m, x, y, ioA, ioM, h_op, h_mul, h_add, h_or, _⟩ := (hch.ok c hc).ex
  have hml := hltF c hc
  have halt : c.addIdx < ops.toList.length := (List.getElem?_eq_some_iff.mp h_add).1
  have hex := tab_succ hI.run halt
  have hget : ops.toList[c.addIdx] = .alu .add x y none c.out ioA := by
    have := List.getElem?_eq_getElem halt
    rw [h_add] at this
    exact (Option.some.inj this).symm
  rw [hget] at hex
  have SA := S c.addIdx (Nat.le_of_lt halt)
  have hpA := hI.pub _ _ h_add rfl
  obtain ⟨hA, _, hcase⟩ := exec_alu_cases hex (hI.io _ (List.mem_of_getElem? h_add))
  -- (Q) the addend is set when the add runs
  have hQ : getS (tab u0 ops.toList c.addIdx) c.addend = true := by
    rcases chosen_tryFuse ops P c hc h_add with ht | ht
    · obtain ⟨mi, ma', mb', _, hchk, hceq⟩ := tryFuse_full _ _ _ _ _ _ ht
      have had : c.addend = y := by rw [hceq]
      rw [had]
      rcases hcase with ⟨_, hb⟩ | ⟨_, hyf, ho, _, _⟩
      · exact hb (by intro h; cases h)
      · exfalso
        have hbw := SA.backwards hpA ho
        have hge : defGe (scanTo ops.toList (scan0 ops P) (c.addIdx + 1)) y c.addIdx := by
          rw [scanTo_succ _ _ _ halt, hget]
          show defGe (((scanTo ops.toList (scan0 ops P) c.addIdx).trackBackwards c.addIdx c.out y).insertDef
            c.out c.addIdx .other) y c.addIdx
          generalize scanTo ops.toList (scan0 ops P) c.addIdx = f at SA hbw
          have h1 : defAt (f.trackBackwards c.addIdx c.out y) y c.addIdx := by
            unfold Fusion.trackBackwards
            rw [if_pos hbw]
            apply insertDef_defAt
            by_contra hcn
            obtain ⟨i, v, hm⟩ := isConst_mem (g := { f with backwards := (y, c.addIdx) :: f.backwards })
              (by simpa using hcn)
            have := SA.cst y i v hm
            rw [hyf] at this
            cases this
          exact defAt_defGe (defAt_pushed (insertDef_pushed _ c.out c.addIdx .other (fun _ _ => True)
            (fun v h => by cases h)) h1) (Nat.le_refl _)
        have hfin := defGe_scan_mono (l := ops.toList) (scan0 ops P) ops.toList.length halt (Nat.le_succ _)
          (Nat.le_refl _) hge
        rw [← hnew] at hfin
        obtain ⟨e, he, hje⟩ := hfin
        have := hchk e.1 (by unfold Fusion.defIdx; rw [he]; rfl)
        omega
    · obtain ⟨mi, ma', mb', _, _, hceq⟩ := tryFuse_full _ _ _ _ _ _ ht
      have had : c.addend = x := by rw [hceq]
      rw [had]; exact hA
  rcases ge_scan hI (scan0 ops P) rfl rfl (k := c.mulIdx) c.addIdx (Nat.le_of_lt hml) (Nat.le_of_lt halt)
    _ hQ with h1 | h1
  · exact Or.inl h1
  · right
    have hfin := defGe_scan_mono (l := ops.toList) (scan0 ops P) ops.toList.length (Nat.le_of_lt halt)
      (Nat.le_of_lt hml) (Nat.le_refl _) h1
    rw [← hnew] at hfin
    obtain ⟨e, he, hje⟩ := hfin
    -- `filter_valid`
    have hcv : c ∈ (Fusion.new ops P).filterValid (((Fusion.new ops P).candidates ops).length + 1)
        ((Fusion.new ops P).candidates ops) := by
      rcases (chosen_fold_props _ []).1 c hc with h | h
      · simp at h
      · exact h
    have hav := filterValid_addend_before_mul (Fusion.new ops P) _ c hcv
    have hsub := filterValid_sub (Fusion.new ops P) (((Fusion.new ops P).candidates ops).length + 1)
      ((Fusion.new ops P).candidates ops)
    have hchdef : chosenFor ops P = chosenOf ((Fusion.new ops P).filterValid
        (((Fusion.new ops P).candidates ops).length + 1) ((Fusion.new ops P).candidates ops)) := rfl
    generalize (Fusion.new ops P).filterValid (((Fusion.new ops P).candidates ops).length + 1)
        ((Fusion.new ops P).candidates ops) = valid at hav hcv hsub hchdef
    have hsup : ∀ c2 ∈ valid, c2 ∈ chosenFor ops P := by
      intro c2 hc2
      have := (chosenOf_sup valid [] (fun a ha b hb hab => cands_mul_inj ops P a b (hsub a ha)
        (hsub b (by simpa using hb)) hab)).2 c2 hc2
      rw [hchdef]
      exact this
    unfold availAt at hav
    simp only at hav
    cases hlk : List.lookup c.addend (List.map (fun c => (c.out, c.mulIdx)) valid).reverse with
    | none =>
      rw [hlk] at hav
      have hdi : (Fusion.new ops P).defIdx c.addend = some e.1 := by
        unfold Fusion.defIdx; rw [he]; rfl
      simp only [hdi, decide_eq_true_eq] at hav
      omega
    | some p =>
      rw [hlk] at hav
      simp only [decide_eq_true_eq] at hav
      have hmem := lookup_mem _ _ _ hlk
      rw [List.mem_reverse, List.mem_map] at hmem
      obtain ⟨c2, hc2, heq⟩ := hmem
      simp only [Prod.mk.injEq] at heq
      exact ⟨c2, hsup c2 hc2, heq.1, by rw [heq.2]; exact hav⟩

end facts


/-- **C02 / `fuse_keeps_shape`** — list level. -/
theorem fuse_keeps_shape {P pubs : List Nat} {u0 ufin : Array Bool} (ops : Array (Op K))
    (hI : FuseIn P pubs ops.toList u0 ufin) :
    ∃ v, runOps u0 (fuse ops P).toList = some v ∧ Rel id ufin v := by
  rw [fuse_eq_filterMap]
  exact surgery_keeps_run hI.run hI.io (chosen_run_facts ops hI)

/-! ### Structure of the list: inputs first -/

/-- The list starts with a block without ALU rows in which every public slot that is not a private
one is the `out` of a row (`Const` / `Public`). -/
def PreOk (P pubs : List Nat) (l : List (Op K)) : Prop :=
  ∃ pre body, l = pre ++ body ∧ (∀ op ∈ pre, isAluOp op = false) ∧
    ∀ x ∈ pubs, x ∈ P ∨ ∃ op ∈ pre, outSlot op = some x

theorem PreOk.pubAt {P pubs : List Nat} {l : List (Op K)} (h : PreOk P pubs l) :
    ∀ j op, l[j]? = some op → isAluOp op = true → PubAt P pubs l j := by
  obtain ⟨pre, body, rfl, hna, hp⟩ := h
  intro j op hj ha x hx
  have hge : pre.length ≤ j := by
    by_contra hlt
    rw [List.getElem?_append_left (by omega)] at hj
    have := hna op (List.mem_of_getElem? hj)
    rw [ha] at this; cases this
  rcases hp x hx with h1 | ⟨op', hop', ho⟩
  · exact Or.inl h1
  · obtain ⟨i, hi⟩ := List.mem_iff_getElem?.mp hop'
    have hil : i < pre.length := by
      by_contra hge'
      rw [List.getElem?_eq_none (by omega)] at hi
      cases hi
    exact Or.inr ⟨i, op', by omega, by rw [List.getElem?_append_left hil]; exact hi, ho⟩

theorem step_out (s : DedupState K) (op : Op K) :
    (s.step op).out = s.out ∨ (s.step op).out = s.out.push (op.rewrite s.rw) := by
  unfold DedupState.step
  cases hop : op.rewrite s.rw with
  | const out v => exact Or.inr rfl
  | pub out pos => exact Or.inr rfl
  | hint ins outs kd => exact Or.inr rfl
  | npo ins outs id kd => exact Or.inr rfl
  | alu k a b c out io =>
    simp only []
    split
    · split <;> exact Or.inl rfl
    · exact Or.inr rfl

theorem step_nonalu (s : DedupState K) (op : Op K) (h : isAluOp op = false) :
    (s.step op).rw = s.rw ∧ (s.step op).out = s.out.push (op.rewrite s.rw) := by
  cases op with
  | alu _ _ _ _ _ _ => simp [isAluOp] at h
  | const _ _ => exact ⟨rfl, rfl⟩
  | pub _ _ => exact ⟨rfl, rfl⟩
  | hint _ _ _ => exact ⟨rfl, rfl⟩
  | npo _ _ _ _ => exact ⟨rfl, rfl⟩

theorem fold_pre (pre : List (Op K)) (hna : ∀ op ∈ pre, isAluOp op = false) :
    ∀ s : DedupState K, (pre.foldl DedupState.step s).rw = s.rw ∧
      (pre.foldl DedupState.step s).out.toList = s.out.toList ++ pre.map (Op.rewrite s.rw) := by
  induction pre with
  | nil => intro s; simp
  | cons op pre ih =>
    intro s
    obtain ⟨h1, h2⟩ := step_nonalu s op (hna op List.mem_cons_self)
    obtain ⟨k1, k2⟩ := ih (fun o ho => hna o (List.mem_cons_of_mem _ ho)) (s.step op)
    simp only [List.foldl_cons]
    refine ⟨k1.trans h1, ?_⟩
    rw [k2, h1, h2]
    simp

theorem fold_out_prefix (body : List (Op K)) :
    ∀ s : DedupState K, ∃ rest, (body.foldl DedupState.step s).out.toList = s.out.toList ++ rest := by
  induction body with
  | nil => intro s; exact ⟨[], by simp⟩
  | cons op body ih =>
    intro s
    obtain ⟨rest, hr⟩ := ih (s.step op)
    simp only [List.foldl_cons]
    rcases step_out s op with h | h
    · exact ⟨rest, by rw [hr, h]⟩
    · exact ⟨op.rewrite s.rw :: rest, by rw [hr, h]; simp⟩

/-- Every kept op is a rewritten op of the input. -/
theorem fold_out_src (ops : List (Op K)) :
    ∀ s : DedupState K, ∀ o ∈ (ops.foldl DedupState.step s).out.toList,
      o ∈ s.out.toList ∨ ∃ op ∈ ops, ∃ r, o = op.rewrite r := by
  induction ops with
  | nil => intro s o ho; exact Or.inl ho
  | cons op ops ih =>
    intro s o ho
    simp only [List.foldl_cons] at ho
    rcases ih (s.step op) o ho with h | ⟨op', hop', r, rfl⟩
    · rcases step_out s op with e | e <;> rw [e] at h
      · exact Or.inl h
      · rw [Array.toList_push, List.mem_append, List.mem_singleton] at h
        rcases h with h | rfl
        · exact Or.inl h
        · exact Or.inr ⟨op, List.mem_cons_self, _, rfl⟩
    · exact Or.inr ⟨op', List.mem_cons_of_mem _ hop', r, rfl⟩

theorem dedup_dshape (ops : Array (Op K)) (h : ∀ op ∈ ops.toList, C18L.dshape op = true) :
    ∀ o ∈ (dedup ops).1.toList, C18L.dshape o = true := by
  intro o ho
  unfold dedup at ho
  simp only [Array.toList_map, List.mem_map] at ho
  obtain ⟨o', ho', rfl⟩ := ho
  rw [← Array.foldl_toList] at ho'
  rcases fold_out_src ops.toList _ o' ho' with h1 | ⟨op, hop, r, rfl⟩
  · simp at h1
  · exact C18L.dshape_rewrite _ _ (C18L.dshape_rewrite _ _ (h op hop))

theorem isAluOp_rewrite (r : Rewrite) (op : Op K) : isAluOp (op.rewrite r) = isAluOp op := by
  cases op <;> rfl

theorem outSlot_rewrite (r : Rewrite) (op : Op K) : outSlot (op.rewrite r) = (outSlot op).map (resolve r) := by
  cases op <;> rfl

theorem resolve_nil (x : Nat) : resolve [] x = x := by
  simp [resolve, resolveFuel, List.lookup]

theorem dedup_PreOk (P pubs : List Nat) (ops : Array (Op K)) (h : PreOk P pubs ops.toList) :
    PreOk (P.map (resolve (dedup ops).2)) (pubs.map (resolve (dedup ops).2)) (dedup ops).1.toList := by
  obtain ⟨pre, body, hl, hna, hp⟩ := h
  unfold dedup
  simp only [Array.toList_map]
  rw [← Array.foldl_toList, hl, List.foldl_append]
  obtain ⟨h1, h2⟩ := fold_pre pre hna ({ rw := [], seen := [], out := #[] } : DedupState K)
  obtain ⟨rest, hr⟩ := fold_out_prefix body (pre.foldl DedupState.step { rw := [], seen := [], out := #[] })
  generalize (body.foldl DedupState.step (pre.foldl DedupState.step
    ({ rw := [], seen := [], out := #[] } : DedupState K))) = sF at hr
  rw [hr, h2]
  simp only [List.nil_append, List.map_append, List.map_map]
  refine ⟨_, _, rfl, ?_, ?_⟩
  · intro o ho
    obtain ⟨o', ho', rfl⟩ := List.mem_map.mp ho
    simp only [Function.comp, isAluOp_rewrite]
    exact hna o' ho'
  · intro x hx
    obtain ⟨x0, hx0, rfl⟩ := List.mem_map.mp hx
    rcases hp x0 hx0 with h3 | ⟨op, hop, ho⟩
    · exact Or.inl (List.mem_map.mpr ⟨x0, h3, rfl⟩)
    · refine Or.inr ⟨_, List.mem_map.mpr ⟨op, hop, rfl⟩, ?_⟩
      simp only [Function.comp, outSlot_rewrite, ho, Option.map_some, resolve_nil]


/-! ### Composition: the optimiser keeps the shape run of a lowering -/

theorem getS_allSet_inv {n : Nat} {rows : List Nat} {w : Nat} (h : getS (allSet n rows) w = true) :
    w ∈ rows ∧ w < n := by
  unfold allSet at h
  rw [(allSet_spec rows _).2 w] at h
  rcases h with h | ⟨h1, h2⟩
  · simp [getS, Array.getD] at h
  · exact ⟨h1, by simpa using h2⟩

theorem getS_of_all {t : Array Bool} (h : t.all id = true) {i : Nat} (hi : i < t.size) : getS t i = true := by
  rw [Array.all_eq_true] at h
  have := h i hi
  unfold getS
  simpa [Array.getD, hi] using this

section compose
variable [Neg K] [Zero K] [DecidableEq K]

/-- **C02 / `optKeepsShape` from the structure of the lowered list.** -/
theorem optKeeps_of_struct (l : Lowered K) (hio : ∀ op ∈ l.ops.toList, ioOk op = true)
    (hds : ∀ op ∈ l.ops.toList, C18L.dshape op = true)
    (hpre : PreOk l.privRows.toList l.pubRows.toList l.ops.toList) : optKeepsShape l = true := by
  unfold optKeepsShape
  cases hrs : runShape l.asCircuit (allInputsSet l.asCircuit) with
  | false => rfl
  | true =>
    simp only [Bool.not_true, Bool.false_or]
    -- the run of the lowered list
    have hrun : ∃ t, runOps (allInputsSet l.asCircuit) l.ops.toList = some t ∧ t.all id = true := by
      unfold runShape at hrs
      cases hr : l.asCircuit.ops.toList.foldlM execOpShape (allInputsSet l.asCircuit) with
      | none => rw [hr] at hrs; cases hrs
      | some t1 =>
        rw [hr] at hrs
        simp only [Lowered.asCircuit, List.foldlM_nil, pure] at hrs
        exact ⟨t1, hr, hrs⟩
    obtain ⟨t, ht, hall⟩ := hrun
    have ht0 : (allInputsSet l.asCircuit).size = l.witnessCount := allSet_size _ _
    have htsz : t.size = l.witnessCount := by rw [(run_sub _ ht).1]; exact ht0
    obtain ⟨hT, hB, hioD, hsim⟩ := dedup_keeps_shape l.ops _ t hio ht
    rw [ht0] at hB
    -- the initial table of the compiled circuit simulates the one of the lowered list
    have hc1 : (compiledOf l).witnessCount = l.witnessCount := rfl
    have hc2 : (compiledOf l).pubRows.toList = l.pubRows.toList.map (resolve (dedup l.ops).2) := by
      simp [compiledOf, optimize]
    have hc3 : (compiledOf l).privRows.toList = l.privRows.toList.map (resolve (dedup l.ops).2) := by
      simp [compiledOf, optimize]
    have hc4 : (compiledOf l).ops = fuse (dedup l.ops).1 (l.privRows.toList.map (resolve (dedup l.ops).2)) := by
      simp [compiledOf, optimize]
    have hc5 : (compiledOf l).rewrite = (dedup l.ops).2 := by
      simp [compiledOf, optimize]
    have hu0 : (allInputsSet (compiledOf l)).size = l.witnessCount := allSet_size _ _
    have hRel : Rel (resolve (dedup l.ops).2) (allInputsSet l.asCircuit) (allInputsSet (compiledOf l)) := by
      refine ⟨by rw [hu0, ht0], fun i hi => ?_⟩
      obtain ⟨hm, hlt⟩ := getS_allSet_inv hi
      apply getS_allSet _ (by rw [hc1]; exact resolve_lt hB hlt)
      rw [hc2, hc3, ← List.map_append]
      exact List.mem_map.mpr ⟨i, hm, rfl⟩
    obtain ⟨u, hu, hRu⟩ := hsim _ hRel
    -- fusion
    have hI : FuseIn (l.privRows.toList.map (resolve (dedup l.ops).2))
        (l.pubRows.toList.map (resolve (dedup l.ops).2)) (dedup l.ops).1.toList
        (allInputsSet (compiledOf l)) u := by
      refine ⟨hu, hioD, dedup_dshape l.ops hds, ?_, (dedup_PreOk _ _ l.ops hpre).pubAt⟩
      intro x hx
      obtain ⟨hm, _⟩ := getS_allSet_inv hx
      rw [hc2, hc3] at hm
      rcases List.mem_append.mp hm with h | h
      · exact Or.inr h
      · exact Or.inl h
    obtain ⟨v, hv, hRv⟩ := fuse_keeps_shape (dedup l.ops).1 hI
    have hvsz : v.size = l.witnessCount := by rw [hRv.1, hRu.1, htsz]
    obtain ⟨u2, hu2, hu2sz, hu2all⟩ := postpass_ok (dedup l.ops).2 hT hB v hvsz (fun i hi =>
      hRv.2 _ (hRu.2 _ (getS_of_all hall (by rw [htsz]; exact hi))))
    unfold runShape
    have e1 : (compiledOf l).ops.toList.foldlM execOpShape (allInputsSet (compiledOf l)) = some v := by
      rw [hc4]; exact hv
    rw [e1]
    simp only [hc5, hu2]
    exact all_of_getS u2 (fun w hw => hu2all w (by rw [← hu2sz]; exact hw))

end compose


/-! ### The lowering emits `ioOk` rows (the argument of `C03.lower_shape`, for `ioOk`) -/

/-- Invariant of the lowering state. -/
def IoAll (s : LState K) : Prop := ∀ e ∈ s.ops.toList, ioOk e = true

theorem IoAll.alloc {s : LState K} (h : IoAll s) (e : Nat) : IoAll (s.allocWitness e).1 := by
  unfold IoAll; rw [allocWitness_ops]; exact h

theorem IoAll.setW {s : LState K} (h : IoAll s) (e w : Nat) : IoAll (s.setW e w) := h

theorem IoAll.push {s : LState K} (h : IoAll s) (op : Op K) (hop : ioOk op = true) :
    IoAll (s.pushOp op) := by
  intro e he
  simp only [LState.pushOp, Array.toList_push, List.mem_append, List.mem_cons, List.not_mem_nil,
    or_false] at he
  rcases he with he | rfl
  · exact h e he
  · exact hop

section
variable [Neg K]

theorem emitNpCall_io (s : LState K) (nodes : Array (Expr K)) (npOps : Array NpData) (opId : Nat)
    (s' : LState K) (hs : IoAll s) (h : s.emitNpCall nodes npOps opId = .ok s') : IoAll s' := by
  unfold LState.emitNpCall at h
  split_ifs at h
  · simp only [Except.ok.injEq] at h; subst h; exact hs
  · split at h
    · simp at h
    · dsimp only at h
      split at h
      · simp at h
      · next outs _ =>
        -- the pre-allocation fold keeps the ops
        have hpre : ∀ (l : List (Nat × Nat)) (st : LState K), IoAll st →
            IoAll (l.foldl (fun (st : LState K) (o : Nat × Nat) =>
              match st.e2w.getD o.2 none with
              | some _ => st
              | none => let (st', w) := st.allocWitness o.2; st'.setW o.2 w) st) := by
          intro l
          induction l with
          | nil => intro st h; exact h
          | cons o l ih =>
            intro st hst
            simp only [List.foldl_cons]
            apply ih
            split
            · exact hst
            · exact (hst.alloc o.2).setW _ _
        have hs1 := hpre outs _ (show IoAll { s with emitted := s.emitted.setIfInBounds opId true } from hs)
        split at h
        · split at h
          · simp at h
          · simp only [Except.ok.injEq] at h; subst h
            exact hs1.push _ rfl
        · split at h
          · split at h
            · simp at h
            · simp only [Except.ok.injEq] at h; subst h
              exact hs1.push _ rfl
          · simp at h

theorem emitNode_io (s : LState K) (nodes : Array (Expr K)) (npOps : Array NpData) (i : Nat)
    (e : Expr K) (s' : LState K) (hs : IoAll s) (h : s.emitNode nodes npOps i e = .ok s') :
    IoAll s' := by
  have ha := hs.alloc i
  unfold LState.emitNode at h
  cases e with
  | const _ => simp only [Except.ok.injEq] at h; subst h; exact hs
  | pub _ => simp only [Except.ok.injEq] at h; subst h; exact hs
  | priv _ => simp only [Except.ok.injEq] at h; subst h; exact hs
  | add l r =>
    dsimp only at h
    generalize s.allocWitness i = r0 at h ha
    obtain ⟨s1, out⟩ := r0
    dsimp only at h ha
    split at h <;> try (simp at h; done)
    simp only [Except.ok.injEq] at h; subst h
    exact (ha.push _ rfl).setW _ _
  | mul l r =>
    dsimp only at h
    generalize s.allocWitness i = r0 at h ha
    obtain ⟨s1, out⟩ := r0
    dsimp only at h ha
    split at h <;> try (simp at h; done)
    simp only [Except.ok.injEq] at h; subst h
    exact (ha.push _ rfl).setW _ _
  | div l r =>
    dsimp only at h
    generalize s.allocWitness i = r0 at h ha
    obtain ⟨s1, out⟩ := r0
    dsimp only at h ha
    split at h <;> try (simp at h; done)
    simp only [Except.ok.injEq] at h; subst h
    exact (ha.push _ rfl).setW _ _
  | horner acc alpha pz px =>
    dsimp only at h
    generalize s.allocWitness i = r0 at h ha
    obtain ⟨s1, out⟩ := r0
    dsimp only at h ha
    split at h <;> try (simp at h; done)
    simp only [Except.ok.injEq] at h; subst h
    exact (ha.push _ rfl).setW _ _
  | boolCheck v =>
    dsimp only at h
    generalize s.allocWitness i = r0 at h ha
    obtain ⟨s1, out⟩ := r0
    dsimp only at h ha
    split at h <;> try (simp at h; done)
    simp only [Except.ok.injEq] at h; subst h
    exact (ha.push _ rfl).setW _ _
  | mulAdd a b c =>
    dsimp only at h
    generalize s.allocWitness i = r0 at h ha
    obtain ⟨s1, out⟩ := r0
    dsimp only at h ha
    split at h <;> try (simp at h; done)
    simp only [Except.ok.injEq] at h; subst h
    exact (ha.push _ rfl).setW _ _
  | sub l r =>
    dsimp only at h
    generalize s.allocWitness i = r0 at h ha
    obtain ⟨s1, res⟩ := r0
    dsimp only at h ha
    split at h
    · simp at h
    · split at h
      · have hb := ha.alloc nodes.size
        generalize s1.allocWitness nodes.size = r1 at h hb
        obtain ⟨s2, nw⟩ := r1
        dsimp only at h hb
        simp only [Except.ok.injEq] at h; subst h
        exact ((hb.push _ rfl).push _ rfl).setW _ _
      · split at h
        · simp at h
        · simp only [Except.ok.injEq] at h; subst h
          exact (ha.push _ rfl).setW _ _
  | npCall op _ => exact emitNpCall_io s nodes npOps op s' hs h
  | npOut call _ =>
    dsimp only at h
    split at h
    · split at h
      · simp at h
      · next s1 hnp =>
        have h1 := emitNpCall_io s nodes npOps _ s1 hs hnp
        split at h
        · simp only [Except.ok.injEq] at h; subst h; exact h1
        · simp only [Except.ok.injEq] at h; subst h
          exact (h1.alloc i).setW _ _
    · simp at h

/-- **Lowering emits no `MulAdd` row with a product slot.** -/
theorem lower_io (b : BState K) (l : Lowered K) (h : lower b = .ok l) :
    ∀ op ∈ l.ops.toList, ioOk op = true := by
  unfold lower at h
  simp only [bind, Except.bind] at h
  split at h; · simp at h
  next s1 h1 =>
  split at h; · simp at h
  next s2 h2 =>
  split at h; · simp at h
  next s3 h3 =>
  split at h; · simp at h
  next s4 h4 =>
  have hs0 : ∀ st : LState K, st.ops = #[] → IoAll st := by
    intro st hst e he; rw [hst] at he; simp at he
  have hs1 : IoAll s1 := by
    refine forNodes_inv IoAll _ _ ?_ _ _ (hs0 _ rfl) h1
    intro st i e st' hst hstep
    split at hstep
    · simp only [Except.ok.injEq] at hstep; subst hstep
      exact ((hst.alloc i).push _ rfl).setW _ _
    · simp only [Except.ok.injEq] at hstep; subst hstep; exact hst
  have hs2 : IoAll s2 := by
    refine forNodes_inv IoAll _ _ ?_ _ _ hs1 h2
    intro st i e st' hst hstep
    split at hstep
    · simp only [Except.ok.injEq] at hstep; subst hstep
      exact ((hst.alloc i).push _ rfl)
    · simp only [Except.ok.injEq] at hstep; subst hstep; exact hst
  have hs3 : IoAll s3 := by
    refine forNodes_inv IoAll _ _ ?_ _ _ hs2 h3
    intro st i e st' hst hstep
    split at hstep
    · simp only [Except.ok.injEq] at hstep; subst hstep
      exact (hst.alloc i)
    · simp only [Except.ok.injEq] at hstep; subst hstep; exact hst
  have hs4 : IoAll s4 :=
    forNodes_inv IoAll _ _ (fun st i e st' hst hstep => emitNode_io st _ _ i e st' hst hstep) _ _ hs3 h4
  split at h; · simp at h
  have hback : ∀ (l : List Nat) (st : LState K), IoAll st →
      IoAll (l.foldl (fun (st : LState K) e =>
        if st.inConnect.getD e false then
          match st.e2w.getD e none with
          | some _ => st
          | none =>
            match st.rootW.getD (st.rep.getD e e) none with
            | some w => st.setW e w
            | none => st
        else st) st) := by
    intro l
    induction l with
    | nil => intro st h; exact h
    | cons a l ih =>
      intro st hst
      simp only [List.foldl_cons]
      apply ih
      split
      · split
        · exact hst
        · split
          · exact hst.setW _ _
          · exact hst
      · exact hst
  simp only [Except.ok.injEq] at h
  subst h
  exact hback _ s4 hs4


end

/-! ### Final composition -/

/-- The public rows of the lowering are defined in its leading block without ALU rows (decidable,
syntactic): every entry of `pubRows` is a private row or the `out` of a `Const` / `Public` row that
precedes the first ALU row. The lowering emits all `Const` and `Public` rows first
(`lower`: passes 1–2), so this is about `pubRows` having no unallocated entry. -/
def pubsFirst (l : Lowered K) : Bool :=
  l.pubRows.toList.all fun x =>
    l.privRows.toList.contains x ||
    (l.ops.toList.takeWhile fun op => !isAluOp op).any fun op => outSlot op == some x

theorem mem_takeWhile_true {α} (p : α → Bool) : ∀ (l : List α) (x : α), x ∈ l.takeWhile p → p x = true := by
  intro l
  induction l with
  | nil => intro x hx; cases hx
  | cons a l ih =>
    intro x hx
    rw [List.takeWhile_cons] at hx
    split at hx
    · rename_i hpa
      rcases List.mem_cons.mp hx with rfl | hx
      · exact hpa
      · exact ih x hx
    · cases hx

theorem preOk_of_pubsFirst (l : Lowered K) (h : pubsFirst l = true) :
    PreOk l.privRows.toList l.pubRows.toList l.ops.toList := by
  refine ⟨l.ops.toList.takeWhile (fun op => !isAluOp op), l.ops.toList.dropWhile (fun op => !isAluOp op),
    (List.takeWhile_append_dropWhile).symm, ?_, ?_⟩
  · intro op hop
    have := mem_takeWhile_true _ _ _ hop
    simpa using this
  · intro x hx
    unfold pubsFirst at h
    rw [List.all_eq_true] at h
    have := h x hx
    simp only [Bool.or_eq_true, List.contains_iff_mem, List.any_eq_true, beq_iff_eq] at this
    exact this

section final
variable [Neg K] [Zero K] [DecidableEq K]

/-- **C02 / `optKeepsShape` for every lowering of a builder state** (no run-time hypothesis): `dedup`
and `fuse` keep the shape run. `privOk` is used for the operand shape of the emitted rows
(`C18L.lower_ADef`). -/
theorem optKeepsShape_total (b : BState K) (hpo : privOk b = true) (l : Lowered K)
    (hl : lower b = .ok l) (hpf : pubsFirst l = true) : optKeepsShape l = true :=
  optKeeps_of_struct l (lower_io b l hl) (C18L.lower_ADef b hpo l hl).2 (preOk_of_pubsFirst l hpf)

/-- **C02 / `compile_shape_ok`, `pubsFirst` as hypothesis** (discharged in Props/C02ShapeOptLower.lean).
The shape run of the compiled circuit (lowering, `dedup`, `fuse`,
rewrite post-pass, final scan) of every guarded builder state succeeds from "all inputs supplied". -/
theorem compile_shape_ok_of_pubsFirst (b : BState K) (hok : b.Ok) (hpo : privOk b = true) (hpu : pubOk b = true)
    (hprim : primOk b = true) (c : Circuit K) (hc : compile b = .ok c)
    (hpf : ∀ l, lower b = .ok l → pubsFirst l = true) :
    runShape c (allInputsSet c) = true :=
  compile_shape_ok_of_optKeeps b hok hpo hpu hprim c hc
    (fun l hl => optKeepsShape_total b hpo l hl (hpf l hl))

end final

end P3R.C02O

namespace P3R.C02
open P3R P3R.C02S P3R.C02O

variable {K : Type} [Field K] [DecidableEq K]

/-- **C02 / `run_total_on_satisfying_inputs`, `pubsFirst` as hypothesis.** For every guarded builder state and its compiled
circuit, every assignment satisfying every op relation (hints agreeing, rewrite map respected) and every
table holding exactly the supplied inputs: the run succeeds and returns the assignment. The optimiser
stages are proved (`dedup_keeps_shape`, `fuse_keeps_shape`); what is left of `optKeepsShape` is the
syntactic fact `pubsFirst` about the lowered list. -/
theorem run_total_on_satisfying_inputs_of_pubsFirst (canon : K → Nat) (b : BState K) (hok : b.Ok)
    (hpo : privOk b = true) (hpu : pubOk b = true) (hprim : primOk b = true) (c : Circuit K)
    (hc : compile b = .ok c) (hpf : ∀ l, lower b = .ok l → pubsFirst l = true)
    (w0 : Array (Option K)) (w pub : Nat → K) (h0 : Agree w0 w) (hsh : shape w0 = allInputsSet c)
    (hall : ∀ op ∈ c.ops.toList, op.holds w pub ∧ RunnerWrites w op ∧ HintAgrees canon w op)
    (hrw : ∀ dc ∈ c.rewrite, w dc.1 = w (resolve c.rewrite dc.2)) :
    ∃ t, runFrom canon c w0 = .ok t ∧ ∀ j, j < t.witness.size → t.witness.getD j 0 = w j :=
  run_total_on_satisfying_inputs_of_optKeeps canon b hok hpo hpu hprim c hc
    (fun l hl => optKeepsShape_total b hpo l hl (hpf l hl)) w0 w pub h0 hsh hall hrw

end P3R.C02

#print axioms P3R.C02O.dedup_keeps_shape
#print axioms P3R.C02O.fuse_keeps_shape
#print axioms P3R.C02O.optKeeps_of_struct
#print axioms P3R.C02O.optKeepsShape_total
#print axioms P3R.C02O.compile_shape_ok_of_pubsFirst
#print axioms P3R.C02.run_total_on_satisfying_inputs_of_pubsFirst
