/-
C11 (every extension degree) — non-vacuity of the theorems of `Props/C11Gen` and `Props/C11PackedGen`
on concrete rows: `D = 4`, binomial kind `X⁴ − 3` over `F = ℤ/13`, evaluated at `α = 2 ∈ F`
(`2⁴ = 16 = 3`), i.e. `φ = id`, `L = F`.

* `kindRoot_ok` — the hypothesis `KindRoot` of the theorems holds here;
* `product_instance` — `extMulBinomial_eval` on concrete vectors, and `product_direct` the same
  identity checked by computation (both sides are `5`);
* `root_hypothesis_needed` — at `α = 1` (`1⁴ ≠ 3`) the product is NOT multiplicative: `α^D = w` cannot
  be dropped from `extMulBinomial_eval`;
* `mulAdd_row_accepted`, `mulAdd_instance` — a concrete MUL_ADD row: every lane constraint of the model
  vanishes and `laneMulAdd_ring` gives `out = a·b + c` in the ring;
* `packed5_legs_vanish`, `packed5_instance` — a packed Horner row of arity 5 (one double leg into the
  second intermediate slot, then the single trailing leg): the model's `packedLegs` all vanish and
  `packedLegs_sound_gen` gives `out = ((int₀·b + c₂ − a₂)·b + c₃ − a₃)·b + c₄ − a₄`;
  `packed5_tampered_rejected` — changing one coefficient of `out` makes a leg non-zero;
* `coeffIndep_needed` — in `L = F` (no genuine extension) coefficients do not determine the element, and
  `addRow_ring_not_coeff` shows the converse direction of `laneAdd_ring_iff` then really fails: the
  hypothesis `CoeffIndep` of the `…_ring_iff` / `…_complete_gen` theorems cannot be dropped;
* `win_accept01`, `win_accept12`, `packed3_window_instance` — three complete rows (`D = 2`, `X² − 3`,
  `α = 4`, one lane, `K_max = 3`): separator, a packed Horner row of arity 3, padding. Every constraint
  of the model's `aluConstraints` vanishes on both windows and `packed_window_sound_gen` gives
  `out = ((0·b + c₀ − a₀)·b + c₁ − a₁)·b + c₂ − a₂`; `packed3_window_value` evaluates both sides.
-/
import Mathlib.Data.ZMod.Basic
import Mathlib.Algebra.Field.ZMod
import Mathlib.Tactic.NormNum.Prime
import P3R.Props.C11WindowGen

namespace P3R.Witness.C11Gen
open P3R P3R.C11

abbrev F := ZMod 13

instance : Fact (Nat.Prime 13) := ⟨by norm_num⟩

def kd : ExtKind F := .binomial 3
def idF : F →+* F := RingHom.id F

theorem kindRoot_ok : KindRoot idF 4 kd (2 : F) := by
  show (2 : F) ^ 4 = idF 3
  decide

def x : List F := [1, 2, 3, 4]
def y : List F := [5, 6, 7, 8]

theorem product_instance :
    ev idF 2 4 (extMulBinomial 4 3 x y) = ev idF 2 4 x * ev idF 2 4 y :=
  extMulBinomial_eval idF 2 4 3 (by decide) x y

/-- the same by computation: `x(2) = 49 = 10`, `y(2) = 109 = 5`, product `50 = 11` -/
theorem product_direct :
    ev idF 2 4 (extMulBinomial 4 3 x y) = 11 ∧ ev idF 2 4 x = 10 ∧ ev idF 2 4 y = 5 := by
  decide

/-- **`α^D = w` is needed**: at `α = 1` the coefficient-wise product of `X³` and `X` is `3`, the
product of the evaluations is `1`. -/
theorem root_hypothesis_needed :
    ¬ (∀ (α : F) (u v : List F),
        ev idF α 4 (extMulBinomial 4 3 u v) = ev idF α 4 u * ev idF α 4 v) := by
  intro h
  have := h 1 [0, 0, 0, 1] [0, 1, 0, 0]
  revert this
  decide

/-! #### a MUL_ADD row -/
def a : List F := [1, 2, 3, 4]
def b : List F := [2, 0, 5, 1]
def c : List F := [5, 9, 2, 6]
/-- `a·b + c` in `F[X]/(X⁴ − 3)` -/
def o : List F := [6, 4, 12, 12]

theorem mulAdd_row_accepted : ∀ z ∈ laneMulAdd 4 1 (extMul 4 kd a b) c o, z = 0 := by decide

theorem mulAdd_instance : ev idF 2 4 o = ev idF 2 4 a * ev idF 2 4 b + ev idF 2 4 c :=
  laneMulAdd_ring idF 2 4 kd kindRoot_ok 1 (by decide) a b c o mulAdd_row_accepted

theorem mulAdd_tampered_rejected :
    ¬ ∀ z ∈ laneMulAdd 4 1 (extMul 4 kd a b) c [6, 4, 12, 0], z = 0 := by decide

/-! #### a packed Horner row of arity 5 (extra columns: `int₀ int₁ | a₁ c₁ a₂ c₂ a₃ c₃ a₄ c₄`) -/
def bSq : List F := [1, 4, 10, 4]
def out : List F := [1, 8, 11, 8]
def ml : List F :=
  [1, 2, 3, 4,  9, 4, 3, 9,
   0, 0, 0, 0,  0, 0, 0, 0,  3, 1, 4, 1,  5, 9, 2, 6,  5, 3, 5, 8,  9, 7, 9, 3,  2, 3, 8, 4,  6, 2, 6, 4]

theorem bsq_ok : ev idF 2 4 bSq = ev idF 2 4 b * ev idF 2 4 b :=
  bsq_ring idF 2 4 kd kindRoot_ok 1 (by decide) b bSq (by decide)

theorem packed5_legs_vanish :
    ∀ z ∈ packedLegs 4 5 kd ml 0 8 b bSq out 1 5 6 2 0, z = 0 := by decide

theorem packed5_instance :
    ev idF 2 4 out = hchainR (ev idF 2 4 b) (gA idF 2 4 ml 8) (gC idF 2 4 ml 8) 3 2
      (gI idF 2 4 ml 0 0) :=
  packedLegs_sound_gen idF 2 4 kd kindRoot_ok 5 ml 0 8 b bSq out 1 (by decide) bsq_ok 5 6 2 0
    (by omega) (by omega) packed5_legs_vanish

theorem packed5_tampered_rejected :
    ¬ ∀ z ∈ packedLegs 4 5 kd ml 0 8 b bSq [1, 8, 11, 9] 1 5 6 2 0, z = 0 := by decide

/-! #### power-basis independence is a real hypothesis -/
theorem coeffIndep_needed : ¬ CoeffIndep idF (2 : F) 2 := by
  intro h
  have := h (fun i => if i = 0 then 2 else 0) (fun i => if i = 1 then 1 else 0) (by decide) 0
    (by omega)
  revert this
  decide

/-- `out = [2,0]`, `a + b = [0,1]`: equal as elements at `α = 2`, but the ADD lane rejects the row. -/
theorem addRow_ring_not_coeff :
    ev idF 2 2 [2, 0] = ev idF 2 2 [0, 1] + ev idF 2 2 [0, 0] ∧
      ¬ ∀ z ∈ laneAdd 2 (1 : F) [0, 1] [0, 0] [2, 0], z = 0 := by
  decide

/-! #### a complete packed row between a separator and a padding row (`D = 2`, one lane, `K_max = 3`) -/
def kd2 : ExtKind F := .binomial 3

theorem kindRoot2_ok : KindRoot idF 2 kd2 (4 : F) := by
  show (4 : F) ^ 2 = idF 3
  decide

/-- main row: `a₀ b c₀ out | int₀ | a₁ c₁ a₂ c₂ | b²` -/
def m1 : List F := [3, 1, 2, 5, 4, 1, 5, 5, 12, 2, 5, 9, 2, 6, 5, 3, 8, 9, 1, 7]
/-- preprocessed row: `mult_a = −1`, `sel_horner = 1`, arity selector `sel_3 = 1` -/
def p1 : List F := [12, 0, 0, 0, 1, 0, 0, 0, 0, 0, 0, 0, 0, 0, 1] ++ List.replicate 12 0
def mz : List F := List.replicate 20 0
def pz : List F := List.replicate 27 0

theorem win_accept01 : ∀ z ∈ aluConstraints 2 1 3 kd2 mz m1 pz p1, z = 0 := by decide
theorem win_accept12 : ∀ z ∈ aluConstraints 2 1 3 kd2 m1 mz p1 pz, z = 0 := by decide

theorem packed3_window_instance :
    ev idF 4 2 (seg m1 (3 * 2) 2) =
      hchainR (ev idF 4 2 (seg m1 2 2))
        (rowAg idF 4 2 (ev idF 4 2 (seg m1 0 2)) m1 (wAc 2 1 3))
        (rowCg idF 4 2 (ev idF 4 2 (seg m1 (2 * 2) 2)) m1 (wAc 2 1 3)) 3 0
        (ev idF 4 2 (seg mz (3 * 2) 2)) :=
  packed_window_sound_gen 2 1 3 kd2 idF 4 kindRoot2_ok (by omega) mz m1 mz pz p1 pz
    win_accept01 win_accept12 3 (by omega) (by omega) (by decide)
    (by
      intro k' h2 h3 hne
      have : k' = 2 := by omega
      subst this
      decide)

/-- both sides computed: `out(4) = 5 + 5·4 = 12` -/
theorem packed3_window_value : ev idF 4 2 (seg m1 (3 * 2) 2) = 12 := by decide

end P3R.Witness.C11Gen
