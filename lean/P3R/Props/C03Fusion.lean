/-
C03 — mul+add fusion never drops a relation: soundness of the certificate checker
`fusionCheck` (see `P3R.Model.FusionCheck`).

`fusion_check_sound`: if the check passes for (ops, result, sites) then for every assignment
`w` satisfying `result` there is `w'`, equal to `w` outside the fused product slots, that
satisfies `ops`. No relation survives only in the honest generator: the mul `m = a·b` and the
add `out = m + addend` are both implied by the fused row once `m` is *defined* as `a·b`, and
no other relation mentions `m`.
-/
import P3R.Model.FusionCheck
import P3R.Lemmas.Sat
import Mathlib.Tactic.Ring

namespace P3R.C03
open P3R

variable {K : Type} [CommRing K] [DecidableEq K]

/-- An op's relation depends only on its `relSlots`. -/
theorem holds_congr_relSlots (w w' pub : Nat → K) (op : Op K)
    (h : ∀ x ∈ op.relSlots, w' x = w x) : op.holds w' pub ↔ op.holds w pub := by
  cases op with
  | const out v => simp [Op.holds, h out (by simp [Op.relSlots])]
  | pub out pos => simp [Op.holds, h out (by simp [Op.relSlots])]
  | hint _ _ _ => simp [Op.holds]
  | npo _ _ _ _ => simp [Op.holds]
  | alu k a b c out io =>
    cases k with
    | add => simp [Op.holds, h a (by simp [Op.relSlots]), h b (by simp [Op.relSlots]), h out (by simp [Op.relSlots])]
    | mul => simp [Op.holds, h a (by simp [Op.relSlots]), h b (by simp [Op.relSlots]), h out (by simp [Op.relSlots])]
    | boolCheck => simp [Op.holds, h a (by simp [Op.relSlots])]
    | mulAdd =>
      cases c with
      | none => simp [Op.holds, h a (by simp [Op.relSlots]), h b (by simp [Op.relSlots]), h out (by simp [Op.relSlots])]
      | some cv =>
        simp [Op.holds, h a (by simp [Op.relSlots]), h b (by simp [Op.relSlots]),
          h out (by simp [Op.relSlots]), h cv (by simp [Op.relSlots])]
    | horner =>
      cases c with
      | none => cases io <;> simp [Op.holds]
      | some cv =>
        cases io with
        | none => simp [Op.holds]
        | some acc =>
          simp [Op.holds, h a (by simp [Op.relSlots]), h b (by simp [Op.relSlots]),
            h out (by simp [Op.relSlots]), h cv (by simp [Op.relSlots]), h acc (by simp [Op.relSlots])]

/-- The repaired assignment: each fused product slot gets `a·b`. -/
def repair (w : Nat → K) (sites : List FuseSite) (x : Nat) : K :=
  match sites.find? (fun s => s.m == x) with
  | some s => w s.a * w s.b
  | none => w x

theorem repair_off (w : Nat → K) (sites : List FuseSite) (x : Nat) (h : ∀ s ∈ sites, s.m ≠ x) :
    repair w sites x = w x := by
  unfold repair
  have : sites.find? (fun s => s.m == x) = none := by
    rw [List.find?_eq_none]; intro s hs; simpa using h s hs
  simp [this]

theorem repair_on (w : Nat → K) (sites : List FuseSite) (s : FuseSite) (hs : s ∈ sites)
    (huniq : ∀ t ∈ sites, t.m = s.m → t = s) : repair w sites s.m = w s.a * w s.b := by
  unfold repair
  cases hf : sites.find? (fun t => t.m == s.m) with
  | none =>
    rw [List.find?_eq_none] at hf
    exact absurd (by simp) (hf s hs)
  | some t =>
    have ht := List.find?_some hf
    have hmem := List.mem_of_find?_eq_some hf
    have : t = s := huniq t hmem (by simpa using ht)
    subst this; rfl

/-- **C03 / fusion.** Soundness of the certificate check. -/
theorem fusion_check_sound (ops result : List (Op K)) (sites : List FuseSite)
    (hchk : fusionCheck ops result sites = true) (w pub : Nat → K) (hsat : Sat w pub result) :
    ∃ w' : Nat → K, (∀ x, (∀ s ∈ sites, s.m ≠ x) → w' x = w x) ∧ Sat w' pub ops := by
  unfold fusionCheck at hchk
  simp only [Bool.and_eq_true, List.all_eq_true, Bool.or_eq_true, List.any_eq_true,
    List.contains_iff_mem, beq_iff_eq, bne_iff_ne, ne_eq, Bool.not_eq_true',
    decide_eq_true_eq] at hchk
  obtain ⟨⟨⟨⟨h1, h2⟩, h3⟩, h4⟩, h5⟩ := hchk
  have huniq : ∀ s ∈ sites, ∀ t ∈ sites, t.m = s.m → t = s := by
    intro s hs t ht hm
    rcases h5 t ht s hs with h | h
    · exact h
    · exact absurd hm h
  refine ⟨repair w sites, fun x hx => repair_off w sites x hx, ?_⟩
  -- relations of `result` do not see the product slots
  have hres : ∀ op ∈ result, op.holds (repair w sites) pub := by
    intro op hop
    rw [holds_congr_relSlots w (repair w sites) pub op]
    · exact hsat op hop
    · intro x hx
      apply repair_off
      intro s hs hsx
      have := h4 s hs op hop
      rw [hsx] at this
      simp [hx] at this
  intro op hop
  rcases h1 op hop with hin | ⟨s, hs, hcase⟩
  · exact hres op hin
  · obtain ⟨⟨⟨hma, hmb⟩, hmc⟩, hmo⟩ := h3 s hs
    have hfused := hres _ (h2 s hs)
    simp only [FuseSite.fused, Op.holds] at hfused
    have hm := repair_on w sites s hs (huniq s hs)
    -- operands of the site are not product slots of any site
    have hoff : ∀ x ∈ (s.fused : Op K).relSlots, repair w sites x = w x := by
      intro x hx
      apply repair_off
      intro t ht htx
      have := h4 t ht _ (h2 s hs)
      rw [htx] at this
      simp [hx] at this
    have ha := hoff s.a (by simp [FuseSite.fused, Op.relSlots])
    have hb := hoff s.b (by simp [FuseSite.fused, Op.relSlots])
    have hc := hoff s.addend (by simp [FuseSite.fused, Op.relSlots])
    have ho := hoff s.out (by simp [FuseSite.fused, Op.relSlots])
    rw [ha, hb, hc, ho] at hfused
    rcases hcase with (rfl | rfl) | rfl
    · simp only [FuseSite.mulOp, Op.holds]; rw [hm, ha, hb]
    · simp only [FuseSite.addOp1, Op.holds]; rw [hm, hc, ho]; exact hfused
    · simp only [FuseSite.addOp2, Op.holds]; rw [hm, hc, ho, add_comm]; exact hfused

end P3R.C03
