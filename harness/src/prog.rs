//! Builder programs: generation, the mathematical semantics of each call (the independent
//! oracle), execution against the real `CircuitBuilder`, and the canonical text form shared
//! with the Lean driver.

use std::collections::HashMap;
use std::fmt::Write as _;

use p3_circuit::ops::Op;
use p3_circuit::{AluOpKind, Circuit, CircuitBuilder, CircuitError, ExprId, WitnessId};
use p3_field::{ExtensionField, Field, PrimeCharacteristicRing, PrimeField64};

use crate::rng::Rng;

#[derive(Clone, Debug, PartialEq, Eq)]
pub enum Call {
    Const(u64),
    Pub,
    Priv,
    Add(u32, u32),
    Sub(u32, u32),
    Mul(u32, u32),
    Div(u32, u32),
    MulAdd(u32, u32, u32),
    Horner(u32, u32, u32, u32),
    ABool(u32),
    AZero(u32),
    Conn(u32, u32),
    Sel(u32, u32, u32),
    MulMany(Vec<u32>),
    Inner(Vec<u32>, Vec<u32>),
    Exp2(u32, u32),
    Bits(u32, u32),
}

impl Call {
    pub fn line(&self) -> String {
        fn j(v: &[u32]) -> String {
            v.iter().map(|x| x.to_string()).collect::<Vec<_>>().join(" ")
        }
        match self {
            Call::Const(v) => format!("const {v}"),
            Call::Pub => "pub".into(),
            Call::Priv => "priv".into(),
            Call::Add(a, b) => format!("add {a} {b}"),
            Call::Sub(a, b) => format!("sub {a} {b}"),
            Call::Mul(a, b) => format!("mul {a} {b}"),
            Call::Div(a, b) => format!("div {a} {b}"),
            Call::MulAdd(a, b, c) => format!("muladd {a} {b} {c}"),
            Call::Horner(a, b, c, d) => format!("horner {a} {b} {c} {d}"),
            Call::ABool(a) => format!("abool {a}"),
            Call::AZero(a) => format!("azero {a}"),
            Call::Conn(a, b) => format!("conn {a} {b}"),
            Call::Sel(a, b, c) => format!("sel {a} {b} {c}"),
            Call::MulMany(v) => format!("mulmany {}", j(v)).trim_end().to_string(),
            Call::Inner(a, b) => format!("inner {} {}", j(a), j(b)).trim_end().to_string(),
            Call::Exp2(x, k) => format!("exp2 {x} {k}"),
            Call::Bits(x, n) => format!("bits {x} {n}"),
        }
    }
    pub fn kind(&self) -> &'static str {
        match self {
            Call::Const(_) => "const",
            Call::Pub => "pub",
            Call::Priv => "priv",
            Call::Add(..) => "add",
            Call::Sub(..) => "sub",
            Call::Mul(..) => "mul",
            Call::Div(..) => "div",
            Call::MulAdd(..) => "muladd",
            Call::Horner(..) => "horner",
            Call::ABool(_) => "abool",
            Call::AZero(_) => "azero",
            Call::Conn(..) => "conn",
            Call::Sel(..) => "sel",
            Call::MulMany(_) => "mulmany",
            Call::Inner(..) => "inner",
            Call::Exp2(..) => "exp2",
            Call::Bits(..) => "bits",
        }
    }
}

/// Apply one call to the real builder; returns the expression ids the call returned.
pub fn apply_real<F>(b: &mut CircuitBuilder<F>, c: &Call) -> Vec<u32>
where
    F: Field + PrimeField64 + ExtensionField<F>,
{
    let e = |x: &u32| ExprId(*x);
    match c {
        Call::Const(v) => vec![b.define_const(F::from_u64(*v)).0],
        Call::Pub => vec![b.public_input().0],
        Call::Priv => vec![b.alloc_private_input("").0],
        Call::Add(x, y) => vec![b.add(e(x), e(y)).0],
        Call::Sub(x, y) => vec![b.sub(e(x), e(y)).0],
        Call::Mul(x, y) => vec![b.mul(e(x), e(y)).0],
        Call::Div(x, y) => vec![b.div(e(x), e(y)).0],
        Call::MulAdd(x, y, z) => vec![b.mul_add(e(x), e(y), e(z)).0],
        Call::Horner(acc, al, pz, px) => vec![b.horner_acc_step(e(acc), e(al), e(pz), e(px)).0],
        Call::ABool(x) => {
            b.assert_bool(e(x));
            vec![]
        }
        Call::AZero(x) => {
            b.assert_zero(e(x));
            vec![]
        }
        Call::Conn(x, y) => {
            b.connect(e(x), e(y));
            vec![]
        }
        Call::Sel(c, t, s) => vec![b.select(e(c), e(t), e(s)).0],
        Call::MulMany(v) => {
            let ids: Vec<ExprId> = v.iter().map(e).collect();
            vec![b.mul_many(&ids).0]
        }
        Call::Inner(x, y) => {
            let xs: Vec<ExprId> = x.iter().map(e).collect();
            let ys: Vec<ExprId> = y.iter().map(e).collect();
            vec![b.inner_product(&xs, &ys).0]
        }
        Call::Exp2(x, k) => vec![b.exp_power_of_2(e(x), *k as usize).0],
        Call::Bits(x, n) => b
            .decompose_to_bits::<F>(e(x), *n as usize)
            .expect("decompose_to_bits")
            .into_iter()
            .map(|i| i.0)
            .collect(),
    }
}

#[derive(Clone, Debug)]
pub enum Rel {
    /// two expressions asserted equal (connect / assert_zero against expr 0)
    Eq(u32, u32),
    Bool(u32),
    /// decompose_to_bits(x, n): holds iff canonical(x) < 2^n
    Bits(u32, u32),
}

/// Mathematical semantics of a call list under concrete inputs, independent of the builder's
/// graph: every returned expression id gets the value the *call* denotes.
pub struct Sem<F> {
    pub pubs: Vec<F>,
    pub privs: Vec<F>,
    pub npub: usize,
    pub npriv: usize,
    /// value per expression id; `None` = undefined (zero divisor upstream)
    pub val: HashMap<u32, Option<F>>,
    pub rels: Vec<Rel>,
    pub zero_div: bool,
    /// a call returned an already-known id whose recorded value differs (builder unsound)
    pub inconsistent: Vec<(usize, u32)>,
}

impl<F: Field + PrimeField64> Sem<F> {
    pub fn new(pubs: Vec<F>, privs: Vec<F>) -> Self {
        let mut val = HashMap::new();
        val.insert(0u32, Some(F::ZERO));
        Self { pubs, privs, npub: 0, npriv: 0, val, rels: vec![], zero_div: false, inconsistent: vec![] }
    }
    pub fn v(&self, e: u32) -> Option<F> {
        self.val.get(&e).copied().flatten()
    }
    fn record(&mut self, idx: usize, id: u32, v: Option<F>) {
        match self.val.get(&id) {
            Some(old) => {
                if let (Some(o), Some(n)) = (old, v) {
                    if *o != n {
                        self.inconsistent.push((idx, id));
                    }
                }
            }
            None => {
                self.val.insert(id, v);
            }
        }
    }
    fn bin(&self, a: u32, b: u32, f: impl Fn(F, F) -> F) -> Option<F> {
        Some(f(self.v(a)?, self.v(b)?))
    }
    /// Record the effect of call `idx` which returned `rets` on the real builder.
    pub fn apply(&mut self, idx: usize, c: &Call, rets: &[u32]) {
        let r0 = rets.first().copied();
        match c {
            Call::Const(v) => self.record(idx, r0.unwrap(), Some(F::from_u64(*v))),
            Call::Pub => {
                let v = self.pubs.get(self.npub).copied();
                self.npub += 1;
                self.record(idx, r0.unwrap(), v);
            }
            Call::Priv => {
                let v = self.privs.get(self.npriv).copied();
                self.npriv += 1;
                self.record(idx, r0.unwrap(), v);
            }
            Call::Add(a, b) => self.record(idx, r0.unwrap(), self.bin(*a, *b, |x, y| x + y)),
            Call::Sub(a, b) => self.record(idx, r0.unwrap(), self.bin(*a, *b, |x, y| x - y)),
            Call::Mul(a, b) => self.record(idx, r0.unwrap(), self.bin(*a, *b, |x, y| x * y)),
            Call::Div(a, b) => {
                let v = match (self.v(*a), self.v(*b)) {
                    (Some(x), Some(y)) => {
                        if y == F::ZERO {
                            self.zero_div = true;
                            None
                        } else {
                            Some(x * y.inverse())
                        }
                    }
                    _ => None,
                };
                self.record(idx, r0.unwrap(), v);
            }
            Call::MulAdd(a, b, c) => {
                let v = (|| Some(self.v(*a)? * self.v(*b)? + self.v(*c)?))();
                self.record(idx, r0.unwrap(), v);
            }
            Call::Horner(acc, al, pz, px) => {
                let v = (|| Some(self.v(*acc)? * self.v(*al)? + self.v(*pz)? - self.v(*px)?))();
                self.record(idx, r0.unwrap(), v);
            }
            Call::ABool(x) => self.rels.push(Rel::Bool(*x)),
            Call::AZero(x) => self.rels.push(Rel::Eq(*x, 0)),
            Call::Conn(a, b) => self.rels.push(Rel::Eq(*a, *b)),
            Call::Sel(b, t, s) => {
                let v = (|| Some(self.v(*s)? + self.v(*b)? * (self.v(*t)? - self.v(*s)?)))();
                self.record(idx, r0.unwrap(), v);
            }
            Call::MulMany(xs) => {
                let v = xs.iter().try_fold(F::ONE, |acc, x| Some(acc * self.v(*x)?));
                self.record(idx, r0.unwrap(), v);
            }
            Call::Inner(xs, ys) => {
                let v = xs
                    .iter()
                    .zip(ys)
                    .try_fold(F::ZERO, |acc, (x, y)| Some(acc + self.v(*x)? * self.v(*y)?));
                self.record(idx, r0.unwrap(), v);
            }
            Call::Exp2(x, k) => {
                let v = self.v(*x).map(|mut b| {
                    for _ in 0..*k {
                        b = b * b;
                    }
                    b
                });
                self.record(idx, r0.unwrap(), v);
            }
            Call::Bits(x, n) => {
                let xv = self.v(*x);
                for (i, r) in rets.iter().enumerate() {
                    let bit = xv.map(|x| F::from_bool((x.as_canonical_u64() >> i) & 1 == 1));
                    self.record(idx, *r, bit);
                }
                self.rels.push(Rel::Bits(*x, *n));
            }
        }
    }
    /// index of the first violated relation, if any (undefined operands count as violated)
    pub fn first_violation(&self) -> Option<usize> {
        self.rels.iter().position(|r| !self.holds(r))
    }
    pub fn holds(&self, r: &Rel) -> bool {
        match r {
            Rel::Eq(a, b) => matches!((self.v(*a), self.v(*b)), (Some(x), Some(y)) if x == y),
            Rel::Bool(a) => matches!(self.v(*a), Some(x) if x == F::ZERO || x == F::ONE),
            Rel::Bits(x, n) => {
                matches!(self.v(*x), Some(x) if *n >= 64 || x.as_canonical_u64() < (1u64 << n))
            }
        }
    }
}

pub struct Program {
    pub calls: Vec<Call>,
    pub rets: Vec<Vec<u32>>,
    pub npub: usize,
    pub npriv: usize,
    /// base assignment under which the program was generated to be satisfiable
    pub pubs0: Vec<u64>,
    pub privs0: Vec<u64>,
}

pub struct GenCfg {
    pub max_calls: usize,
    pub allow_zero_div: bool,
}

/// Generate a program by driving the *real* builder (so operand ids are valid) while
/// tracking values under a base assignment, which lets the generator assert only relations
/// that hold there. Biased towards aliasing: echo inputs (a fresh public/private/constant whose
/// base value equals an existing expression's) connected to that expression, repeated
/// operands, Horner steps sharing operands, the sub-of-mul-by-const fast path.
pub fn generate<F>(rng: &mut Rng, cfg: &GenCfg) -> Option<(Program, CircuitBuilder<F>)>
where
    F: Field + PrimeField64 + ExtensionField<F>,
{
    let p = F::ORDER_U64;
    let mut b = CircuitBuilder::<F>::new();
    let mut sem = Sem::<F>::new(vec![], vec![]);
    let mut calls = vec![];
    let mut rets: Vec<Vec<u32>> = vec![];
    let mut ids: Vec<u32> = vec![0];
    let mut mirrored: Vec<u32> = vec![];
    let n = rng.range(1, cfg.max_calls);

    let small = |rng: &mut Rng| -> u64 {
        match rng.below(8) {
            0 => 0,
            1 => 1,
            2 => 2,
            3 => p - 1,
            4 => rng.below(16),
            _ => rng.below(p),
        }
    };
    let pick = |rng: &mut Rng, ids: &Vec<u32>| -> u32 {
        // bias to recent ids
        if rng.chance(1, 2) && ids.len() > 4 {
            ids[ids.len() - 1 - rng.usize(4)]
        } else {
            *rng.pick(ids)
        }
    };

    let mut i = 0;
    while i < n {
        i += 1;
        let choice = rng.below(100);
        let mut pending: Vec<Call> = vec![];
        let mut extra_pub: Option<F> = None;
        let mut extra_priv: Option<F> = None;
        let mut is_mirror = false;
        match choice {
            0..=7 => pending.push(Call::Const(small(rng))),
            8..=15 => {
                extra_pub = Some(F::from_u64(small(rng)));
                pending.push(Call::Pub);
            }
            16..=19 => {
                extra_priv = Some(F::from_u64(small(rng)));
                pending.push(Call::Priv);
            }
            20..=29 => pending.push(Call::Add(pick(rng, &ids), pick(rng, &ids))),
            30..=37 => pending.push(Call::Sub(pick(rng, &ids), pick(rng, &ids))),
            38..=47 => pending.push(Call::Mul(pick(rng, &ids), pick(rng, &ids))),
            48..=51 => {
                let l = pick(rng, &ids);
                let r = pick(rng, &ids);
                let rz = sem.v(r).map(|x| x == F::ZERO).unwrap_or(true);
                if !rz || (cfg.allow_zero_div && rng.chance(1, 10)) {
                    pending.push(Call::Div(l, r));
                }
            }
            52..=57 => pending.push(Call::MulAdd(pick(rng, &ids), pick(rng, &ids), pick(rng, &ids))),
            58..=65 => {
                if rng.chance(1, 6) {
                    // free-form steps (arbitrary accumulator): since the `HornerAccNotChained`
                    // validation these are build errors unless they happen to be chained
                    let (acc, al, pz, px) = (pick(rng, &ids), pick(rng, &ids), pick(rng, &ids), pick(rng, &ids));
                    pending.push(Call::Horner(acc, al, pz, px));
                    if rng.chance(1, 3) {
                        pending.push(Call::Horner(pick(rng, &ids), al, pz, px));
                    }
                } else {
                    // a chain: accumulator 0 (expression 0 is the zero constant), then each step
                    // takes the previous step's result (marker u32::MAX); alpha is mostly shared
                    // (packed rows need one `b`), the first step's operands are sometimes reused
                    // (de-duplication of steps, shared prefixes)
                    let len = rng.range(1, 6);
                    // sometimes alpha is a fresh private input whose first use is the chain's first
                    // step (the step then *creates* `b` on the bus; marker u32::MAX - j)
                    let fresh_alpha = rng.chance(1, 5);
                    if fresh_alpha {
                        extra_priv = Some(F::from_u64(small(rng)));
                        pending.push(Call::Priv);
                    }
                    let al = pick(rng, &ids);
                    let (pz0, px0) = (pick(rng, &ids), pick(rng, &ids));
                    for j in 0..len {
                        let alj = if fresh_alpha { u32::MAX - j as u32 } else if rng.chance(1, 8) { pick(rng, &ids) } else { al };
                        let (pz, px) = if j == 0 || rng.chance(1, 10) { (pz0, px0) } else { (pick(rng, &ids), pick(rng, &ids)) };
                        pending.push(Call::Horner(if j == 0 { 0 } else { u32::MAX }, alj, pz, px));
                    }
                }
            }
            66..=69 => pending.push(Call::Sel(pick(rng, &ids), pick(rng, &ids), pick(rng, &ids))),
            70..=71 => {
                let k = rng.range(0, 4);
                pending.push(Call::MulMany((0..k).map(|_| pick(rng, &ids)).collect()));
            }
            72..=73 => {
                let k = rng.range(0, 3);
                pending.push(Call::Inner(
                    (0..k).map(|_| pick(rng, &ids)).collect(),
                    (0..k).map(|_| pick(rng, &ids)).collect(),
                ));
            }
            74..=75 => pending.push(Call::Exp2(pick(rng, &ids), rng.range(0, 3) as u32)),
            76..=87 => {
                // echo: a fresh input / constant carrying an existing expression's base value,
                // then connected to it (aliasing between inputs, constants and computed values)
                let tgt = pick(rng, &ids);
                if let Some(v) = sem.v(tgt) {
                    let which = rng.below(10);
                    let echo = if which < 5 {
                        extra_pub = Some(v);
                        Call::Pub
                    } else if which < 7 {
                        extra_priv = Some(v);
                        Call::Priv
                    } else {
                        Call::Const(v.as_canonical_u64())
                    };
                    pending.push(echo);
                    // the connect is appended after the echo id is known (marker u32::MAX)
                    if rng.chance(1, 2) {
                        pending.push(Call::Conn(u32::MAX, tgt));
                    } else {
                        pending.push(Call::Conn(tgt, u32::MAX));
                    }
                }
            }
            88..=91 if mirrored.len() >= 2 && rng.chance(1, 3) => {
                // connect two mirrored (duplicate) results, whether or not their base values
                // agree: chains of rewrites through shared output slots
                let a = *rng.pick(&mirrored);
                let bb = *rng.pick(&mirrored);
                if a != bb {
                    pending.push(Call::Conn(a, bb));
                }
            }
            88..=91 if rng.chance(1, 12) => {
                // wild connect: any two expressions (the program may become unsatisfiable at
                // the base inputs; the oracle then expects the run to fail)
                let a = pick(rng, &ids);
                let bb = pick(rng, &ids);
                if a != bb {
                    pending.push(Call::Conn(a, bb));
                }
            }
            88..=91 => {
                // connect two existing expressions with equal base value
                let a = pick(rng, &ids);
                if let Some(va) = sem.v(a) {
                    let cands: Vec<u32> =
                        ids.iter().copied().filter(|&x| x != a && sem.v(x) == Some(va)).collect();
                    if !cands.is_empty() {
                        let bb = *rng.pick(&cands);
                        pending.push(if va == F::ZERO && rng.chance(1, 2) {
                            Call::AZero(a)
                        } else {
                            Call::Conn(a, bb)
                        });
                    }
                }
            }
            92..=94 if rng.chance(1, 2) => {
                // mirror: re-issue an earlier binary call with one operand replaced by an
                // expression connected to it -- lowers to an identical op (de-duplication),
                // often then connected to something else (aliased duplicate outputs)
                let conns: Vec<(u32, u32)> = calls
                    .iter()
                    .filter_map(|c| if let Call::Conn(a, b) = c { Some((*a, *b)) } else { None })
                    .collect();
                let alias = |x: u32, rng: &mut Rng| -> Option<u32> {
                    let c: Vec<u32> = conns
                        .iter()
                        .filter_map(|(a, b)| if *a == x { Some(*b) } else if *b == x { Some(*a) } else { None })
                        .collect();
                    if c.is_empty() { None } else { Some(*rng.pick(&c)) }
                };
                let cands: Vec<Call> = calls
                    .iter()
                    .filter(|c| matches!(c, Call::Add(..) | Call::Mul(..) | Call::MulAdd(..) | Call::Sub(..)))
                    .cloned()
                    .collect();
                if !cands.is_empty() {
                    let mut c = rng.pick(&cands).clone();
                    let done = match &mut c {
                        Call::Add(a, b) | Call::Mul(a, b) | Call::Sub(a, b) => {
                            if let Some(y) = alias(*a, rng) { *a = y; true }
                            else if let Some(y) = alias(*b, rng) { *b = y; true } else { false }
                        }
                        Call::MulAdd(a, b, cc) => {
                            if let Some(y) = alias(*a, rng) { *a = y; true }
                            else if let Some(y) = alias(*b, rng) { *b = y; true }
                            else if let Some(y) = alias(*cc, rng) { *cc = y; true } else { false }
                        }
                        _ => false,
                    };
                    if done {
                        is_mirror = true;
                        pending.push(c);
                        // tie the mirrored result to an equal-valued expression later on
                    }
                }
            }
            92..=94 if rng.chance(1, 10) => {
                // wild assert_bool / assert_zero: any expression, constants and folded constants included (the program
                // may become unsatisfiable at the base inputs — `assert_bool(const 2)` — the oracle then expects the
                // run to fail and the op list to be unsatisfiable)
                let x = pick(rng, &ids);
                pending.push(if rng.chance(2, 3) { Call::ABool(x) } else { Call::AZero(x) });
            }
            92..=94 => {
                let cands: Vec<u32> = ids
                    .iter()
                    .copied()
                    .filter(|&x| matches!(sem.v(x), Some(v) if v == F::ZERO || v == F::ONE))
                    .collect();
                if !cands.is_empty() {
                    pending.push(Call::ABool(*rng.pick(&cands)));
                }
            }
            95..=96 if rng.chance(2, 3) => {
                // fusion gadgets: mul followed by adds that consume it, with the addend defined
                // before or after the mul, chained and cascading (a candidate whose validity
                // depends on another candidate being fused or rejected)
                let (a, b2, c, d, e, f) = (pick(rng, &ids), pick(rng, &ids), pick(rng, &ids), pick(rng, &ids), pick(rng, &ids), pick(rng, &ids));
                // markers: u32::MAX - k refers to the k-th most recent id of this group
                match rng.below(5) {
                    4 => {
                        // a product with one forward-add use whose slot is ALSO read as the `out` of a
                        // backward check row: d = m - y with d tied to a public input. If the fusion
                        // pass drops m = a*b here, nothing constrains m any more.
                        if let (Some(va), Some(vb), Some(vy)) = (sem.v(a), sem.v(b2), sem.v(c)) {
                            extra_pub = Some(va * vb - vy);
                            pending.push(Call::Mul(a, b2));
                            pending.push(Call::Add(u32::MAX, d));
                            pending.push(Call::Sub(u32::MAX - 1, c));
                            pending.push(Call::Pub);
                            pending.push(Call::Conn(u32::MAX - 1, u32::MAX));
                        }
                    }
                    0 => {
                        pending.push(Call::Mul(a, b2));
                        pending.push(Call::Add(u32::MAX, c));
                    }
                    1 => {
                        pending.push(Call::Mul(a, b2));
                        pending.push(Call::Add(c, d));
                        pending.push(Call::Add(u32::MAX - 1, u32::MAX));
                    }
                    2 => {
                        pending.push(Call::Mul(a, b2));
                        pending.push(Call::Mul(e, f));
                        pending.push(Call::Add(c, d));
                        pending.push(Call::Add(u32::MAX - 2, u32::MAX));
                        pending.push(Call::Add(u32::MAX - 2, u32::MAX));
                    }
                    _ => {
                        pending.push(Call::Mul(a, b2));
                        pending.push(Call::Add(u32::MAX, c));
                        pending.push(Call::Mul(e, f));
                        pending.push(Call::Add(u32::MAX, u32::MAX - 1));
                    }
                }
            }
            95..=96 => {
                // sub of a product by a constant (lowering fast path with synthetic constant)
                let m = Call::Mul(pick(rng, &ids), pick(rng, &ids));
                pending.push(m);
                pending.push(Call::Const(small(rng)));
                pending.push(Call::Sub(u32::MAX - 1, u32::MAX));
            }
            _ => {
                let nb = rng.range(1, 6) as u32;
                let cands: Vec<u32> = ids
                    .iter()
                    .copied()
                    .filter(|&x| matches!(sem.v(x), Some(v) if v.as_canonical_u64() < (1 << nb)))
                    .collect();
                if !cands.is_empty() {
                    pending.push(Call::Bits(*rng.pick(&cands), nb));
                }
            }
        }
        let mut last: Vec<u32> = vec![];
        for mut c in pending {
            // resolve markers referring to ids returned by the previous calls of this group
            let fix = |x: &mut u32, last: &Vec<u32>| {
                if *x >= u32::MAX - 8 {
                    let k = (u32::MAX - *x) as usize;
                    if k < last.len() {
                        *x = last[last.len() - 1 - k];
                    } else {
                        *x = 0;
                    }
                }
            };
            match &mut c {
                Call::Conn(a, bb) => {
                    fix(a, &last);
                    fix(bb, &last);
                }
                Call::Sub(a, bb) | Call::Add(a, bb) | Call::Mul(a, bb) => {
                    fix(a, &last);
                    fix(bb, &last);
                }
                Call::Horner(acc, al, ..) => {
                    fix(acc, &last);
                    fix(al, &last);
                }
                _ => {}
            }
            if let Some(v) = extra_pub.take() {
                sem.pubs.push(v);
            }
            if let Some(v) = extra_priv.take() {
                sem.privs.push(v);
            }
            // a debug assertion of the builder (e.g. connecting two selects with different
            // provenance) rejects the program: the whole program is discarded
            let r = std::panic::catch_unwind(std::panic::AssertUnwindSafe(|| apply_real(&mut b, &c))).ok()?;
            sem.apply(calls.len(), &c, &r);
            for id in &r {
                if !ids.contains(id) {
                    ids.push(*id);
                }
                if is_mirror && !mirrored.contains(id) {
                    mirrored.push(*id);
                }
                last.push(*id);
            }
            calls.push(c);
            rets.push(r);
        }
    }
    let prog = Program {
        calls,
        rets,
        npub: sem.pubs.len(),
        npriv: sem.privs.len(),
        pubs0: sem.pubs.iter().map(|x| x.as_canonical_u64()).collect(),
        privs0: sem.privs.iter().map(|x| x.as_canonical_u64()).collect(),
    };
    Some((prog, b))
}

/// Re-run a fixed call list on a fresh real builder.
pub fn rebuild<F>(calls: &[Call]) -> (Vec<Vec<u32>>, CircuitBuilder<F>)
where
    F: Field + PrimeField64 + ExtensionField<F>,
{
    let mut b = CircuitBuilder::<F>::new();
    let rets = calls.iter().map(|c| apply_real(&mut b, c)).collect();
    (rets, b)
}

pub fn kind_str(k: AluOpKind) -> &'static str {
    match k {
        AluOpKind::Add => "add",
        AluOpKind::Mul => "mul",
        AluOpKind::BoolCheck => "bool",
        AluOpKind::MulAdd => "muladd",
        AluOpKind::HornerAcc => "horner",
    }
}

fn opt(w: &Option<WitnessId>) -> String {
    w.map_or("_".into(), |w| w.0.to_string())
}
fn ws(v: &[WitnessId]) -> String {
    v.iter().map(|w| w.0.to_string()).collect::<Vec<_>>().join(" ")
}

pub fn op_line<F: Field + PrimeField64>(op: &Op<F>) -> String {
    match op {
        Op::Const { out, val } => format!("C {} {}", out.0, val.as_canonical_u64()),
        Op::Public { out, public_pos } => format!("P {} {}", out.0, public_pos),
        Op::Alu { kind, a, b, c, out, intermediate_out } => format!(
            "A {} {} {} {} {} {}",
            kind_str(*kind),
            a.0,
            b.0,
            opt(c),
            out.0,
            opt(intermediate_out)
        ),
        Op::Hint { inputs, outputs, executor } => {
            let d = format!("{executor:?}");
            let k = if d.contains("BinaryDecomposition") {
                "bits"
            } else if d.contains("ExtDecomposition") {
                "ext"
            } else {
                "other"
            };
            format!("H {} {} | {}", k, ws(inputs), ws(outputs))
        }
        Op::NonPrimitiveOpWithExecutor { inputs, outputs, op_id, executor } => format!(
            "N {} {:?} {} | {}",
            op_id.0,
            executor.op_type(),
            inputs.iter().map(|g| ws(g)).collect::<Vec<_>>().join(" / "),
            outputs.iter().map(|g| ws(g)).collect::<Vec<_>>().join(" / ")
        ),
    }
}

/// Canonical dump of a compiled circuit, identical in format to the Lean driver's.
pub fn circuit_lines<F: Field + PrimeField64>(c: &Circuit<F>) -> Vec<String> {
    let mut out = vec![format!("wc {}", c.witness_count), format!("nops {}", c.ops.len())];
    out.extend(c.ops.iter().map(op_line));
    out.push(format!("pubrows {}", ws(&c.public_rows)).trim_end().to_string() + if c.public_rows.is_empty() { " " } else { "" });
    out.push(format!("privrows {}", ws(&c.private_input_rows)).trim_end().to_string() + if c.private_input_rows.is_empty() { " " } else { "" });
    let mut e2w: Vec<(u32, u32)> = c.expr_to_widx.iter().map(|(e, w)| (e.0, w.0)).collect();
    e2w.sort();
    let mut s = String::from("e2w ");
    s.push_str(&e2w.iter().map(|(e, w)| format!("{e}:{w}")).collect::<Vec<_>>().join(" "));
    out.push(s);
    let mut rw: Vec<(u32, u32)> = c
        .witness_rewrite
        .as_ref()
        .map(|m| m.iter().map(|(a, b)| (a.0, b.0)).collect())
        .unwrap_or_default();
    rw.sort();
    let mut s = String::from("rewrite ");
    s.push_str(&rw.iter().map(|(e, w)| format!("{e}:{w}")).collect::<Vec<_>>().join(" "));
    out.push(s);
    out
}

pub fn err_name(e: &CircuitError) -> String {
    let d = format!("{e:?}");
    d.split(|c: char| !c.is_alphanumeric()).next().unwrap_or("").to_string()
}

pub fn run_line(np: usize, pubs: &[u64], privs: &[u64]) -> String {
    let mut s = format!("run {np}");
    for v in pubs.iter().chain(privs) {
        let _ = write!(s, " {v}");
    }
    s
}

/// Relation of one ALU record over the (degree-1) field.
pub fn alu_record_ok<F: Field>(kind: AluOpKind, v: &[F; 4], acc: Option<F>) -> bool {
    let [a, b, c, out] = *v;
    match kind {
        AluOpKind::Add => a + b == out,
        AluOpKind::Mul => a * b == out,
        AluOpKind::BoolCheck => a * (a - F::ONE) == F::ZERO,
        AluOpKind::MulAdd => a * b + c == out,
        AluOpKind::HornerAcc => acc.is_none_or(|acc| acc * b + c - a == out),
    }
}

/// Ops-only propagation: interpret `circuit.ops` on their own (publics through the `Public`
/// ops, private inputs through their slots, no rewrite post-pass, no runner). Returns the full
/// assignment if every op could be executed and re-checked, `None` if the emitted ops reject
/// the inputs.
pub fn ops_only_assignment<F: Field + PrimeField64>(
    c: &Circuit<F>,
    pubs: &[F],
    priv_slots: &[(u32, F)],
) -> Option<Vec<F>> {
    ops_only_assignment_adv(c, pubs, priv_slots, false)
}

/// As `ops_only_assignment`; with `perturb_io` the product slot of every fused MulAdd — which
/// no row constrains — receives `a*b + 1` instead of the honest `a*b`.
pub fn ops_only_assignment_adv<F: Field + PrimeField64>(
    c: &Circuit<F>,
    pubs: &[F],
    priv_slots: &[(u32, F)],
    perturb_io: bool,
) -> Option<Vec<F>> {
    ops_only_assignment_mode(c, pubs, priv_slots, perturb_io, false)
}

/// As above; with `air_horner` a HornerAcc step takes its accumulator the way the ALU *table*
/// does — the previous ALU op's output when that op is a HornerAcc step too, zero otherwise (a
/// chain starts after a separator row) — instead of reading its `acc` operand.
pub fn ops_only_assignment_mode<F: Field + PrimeField64>(
    c: &Circuit<F>,
    pubs: &[F],
    priv_slots: &[(u32, F)],
    perturb_io: bool,
    air_horner: bool,
) -> Option<Vec<F>> {
    ops_only_assignment_full(c, pubs, priv_slots, perturb_io, air_horner, false)
}

/// As above; with `free_unset` an operand slot that nothing has defined when an op reads it (no
/// earlier op, no private input) is the adversary's to choose: it receives an arbitrary value and
/// propagation continues. A later op that defines the slot differently still makes the attempt fail.
pub fn ops_only_assignment_full<F: Field + PrimeField64>(
    c: &Circuit<F>,
    pubs: &[F],
    priv_slots: &[(u32, F)],
    perturb_io: bool,
    air_horner: bool,
    free_unset: bool,
) -> Option<Vec<F>> {
    let mut prev_horner_out: Option<WitnessId> = None;
    let n = c.witness_count as usize;
    let mut w: Vec<Option<F>> = vec![None; n];
    let set = |w: &mut Vec<Option<F>>, i: WitnessId, v: F| -> bool {
        match w.get(i.0 as usize) {
            None => false,
            Some(Some(old)) => *old == v,
            Some(None) => {
                w[i.0 as usize] = Some(v);
                true
            }
        }
    };
    for (s, v) in priv_slots {
        if !set(&mut w, WitnessId(*s), *v) {
            return None;
        }
    }
    for op in &c.ops {
        match op {
            Op::Const { out, val } => {
                if !set(&mut w, *out, *val) {
                    return None;
                }
            }
            Op::Public { out, public_pos } => {
                if !set(&mut w, *out, *pubs.get(*public_pos)?) {
                    return None;
                }
            }
            Op::Alu { kind, a, b, c: cc, out, intermediate_out } => {
                let g = |w: &Vec<Option<F>>, i: WitnessId| w.get(i.0 as usize).copied().flatten();
                if free_unset {
                    let mut fill = |w: &mut Vec<Option<F>>, i: WitnessId| {
                        if let Some(s) = w.get_mut(i.0 as usize)
                            && s.is_none()
                        {
                            *s = Some(F::from_u64(0x5eed + 2 * i.0 as u64 + 1));
                        }
                    };
                    match kind {
                        AluOpKind::Add | AluOpKind::Mul => {
                            fill(&mut w, *a);
                            if g(&w, *b).is_none() && g(&w, *out).is_none() {
                                fill(&mut w, *b);
                            }
                        }
                        AluOpKind::BoolCheck => {}
                        AluOpKind::MulAdd => {
                            fill(&mut w, *a);
                            fill(&mut w, *b);
                            if let Some(ci) = cc {
                                fill(&mut w, *ci);
                            }
                        }
                        AluOpKind::HornerAcc => {
                            fill(&mut w, *a);
                            fill(&mut w, *b);
                            if let Some(ci) = cc {
                                fill(&mut w, *ci);
                            }
                            if let Some(acc) = intermediate_out {
                                fill(&mut w, *acc);
                            }
                        }
                    }
                }
                match kind {
                    AluOpKind::Add | AluOpKind::Mul => {
                        let av = g(&w, *a)?;
                        if let Some(bv) = g(&w, *b) {
                            let r = if *kind == AluOpKind::Add { av + bv } else { av * bv };
                            if !set(&mut w, *out, r) {
                                return None;
                            }
                        } else {
                            let ov = g(&w, *out)?;
                            let bv = if *kind == AluOpKind::Add {
                                ov - av
                            } else {
                                ov * av.try_inverse()?
                            };
                            if !set(&mut w, *b, bv) {
                                return None;
                            }
                        }
                    }
                    AluOpKind::BoolCheck => {
                        let av = g(&w, *a)?;
                        if av * (av - F::ONE) != F::ZERO {
                            return None;
                        }
                        // `out` is a free slot for the row relation; the honest value is `a`
                        if g(&w, *out).is_none() {
                            set(&mut w, *out, av);
                        }
                    }
                    AluOpKind::MulAdd => {
                        let av = g(&w, *a)?;
                        let bv = g(&w, *b)?;
                        let cv = match cc {
                            Some(ci) => g(&w, *ci)?,
                            None => F::ZERO,
                        };
                        if let Some(io) = intermediate_out {
                            // the fused row does not constrain the product slot
                            if g(&w, *io).is_none() {
                                set(&mut w, *io, if perturb_io { av * bv + F::ONE } else { av * bv });
                            }
                        }
                        if !set(&mut w, *out, av * bv + cv) {
                            return None;
                        }
                    }
                    AluOpKind::HornerAcc => {
                        let acc = if air_horner {
                            match prev_horner_out {
                                Some(p) => g(&w, p)?,
                                None => F::ZERO,
                            }
                        } else {
                            g(&w, (*intermediate_out)?)?
                        };
                        let r = acc * g(&w, *b)? + g(&w, (*cc)?)? - g(&w, *a)?;
                        if !set(&mut w, *out, r) {
                            return None;
                        }
                    }
                }
                prev_horner_out = if *kind == AluOpKind::HornerAcc { Some(*out) } else { None };
            }
            Op::Hint { inputs, outputs, executor } => {
                // hints carry no relation; honest values are used unless the slot is already set
                let mut tmp = w.clone();
                for o in outputs {
                    if let Some(s) = tmp.get_mut(o.0 as usize) {
                        *s = None;
                    }
                }
                if executor.execute(inputs, outputs, &mut tmp).is_err() {
                    return None;
                }
                for o in outputs {
                    if w[o.0 as usize].is_none() {
                        w[o.0 as usize] = tmp[o.0 as usize];
                    }
                }
            }
            Op::NonPrimitiveOpWithExecutor { .. } => return None,
        }
    }
    Some(w.into_iter().map(|x| x.unwrap_or(F::ZERO)).collect())
}

/// Does the full assignment `w` satisfy the relation of every emitted op? (hints / table ops
/// carry none at this layer)
pub fn ops_sat_full<F: Field + PrimeField64>(c: &Circuit<F>, w: &[F], pubs: &[F]) -> bool {
    let g = |i: WitnessId| w.get(i.0 as usize).copied().unwrap_or(F::ZERO);
    c.ops.iter().all(|op| match op {
        Op::Const { out, val } => g(*out) == *val,
        Op::Public { out, public_pos } => pubs.get(*public_pos).is_some_and(|p| g(*out) == *p),
        Op::Alu { kind, a, b, c: cc, out, intermediate_out } => {
            let cv = cc.map(g).unwrap_or(F::ZERO);
            let acc = intermediate_out.map(g);
            alu_record_ok(*kind, &[g(*a), g(*b), cv, g(*out)], if *kind == AluOpKind::HornerAcc { acc } else { None })
        }
        _ => true,
    })
}
