/-
L12 — symbolic constraint compiler and constraint folding.
Mirrors `circuit/src/symbolic/{dag,targets,compiler}.rs` and
`recursion/src/traits/air.rs::eval_folded_circuit` (after the F-C13-1 repair: constraints are
folded in emission order), on top of the L1 expression builder
(`Model/Builder.lean`).

Representation choices (see `design_notes/C13.md`):
* A symbolic constraint DAG (`Arc`-shared `SymbolicExpr` trees) is a pair of node arrays, base
  and extension; children are indices. *Node identity = index*, which is what the Rust
  pointer-keyed caches (`HashMap<*const SymbolicExpression, ExprId>`) key on while every
  constraint vector is alive. An `ExtLeaf::Base(e)` leaf refers to the index of the inline
  base root `e`.
* The Rust `while let Some(work) = tasks.pop()` loop is `wsRun`, an iteration of the one-step
  function `wsStep` bounded by fuel `3·|nodes| + 1` (proved sufficient in `Props/C13.lean`).
  `compile_base` and `compile_ext` are the same loop text with different leaf handlers and
  caches; the model has one generic loop instantiated twice.
* `expect(..)` / out-of-range indexing / "more than two rows" panics are `none`.
* Base-field constants are stored already lifted into the circuit field (`EF::from(c)`); the
  native folder lifts them in the same way (`AB::Expr::from(c)`), so both sides see the same
  element.
-/
import P3R.Model.Builder

namespace P3R

/-! ### Denotation of builder expressions (the `⟦·⟧` the C13 theorems speak about) -/

section Denote
variable {K : Type} [Zero K] [One K] [Add K] [Sub K] [Mul K]

def getv (vals : Array (Option K)) (i : Nat) : Option K :=
  match vals[i]? with
  | some (some v) => some v
  | _ => none

/-- Value of one node given the values of all earlier nodes. Only the node kinds that the
symbolic compiler emits (and public inputs) have a value here; everything else is `none`. -/
def evalExpr (ρ : Nat → K) (vals : Array (Option K)) : Expr K → Option K
  | .const v => some v
  | .pub pos => some (ρ pos)
  | .add l r => match getv vals l, getv vals r with
    | some a, some b => some (a + b)
    | _, _ => none
  | .sub l r => match getv vals l, getv vals r with
    | some a, some b => some (a - b)
    | _, _ => none
  | .mul l r => match getv vals l, getv vals r with
    | some a, some b => some (a * b)
    | _, _ => none
  | .mulAdd a b c => match getv vals a, getv vals b, getv vals c with
    | some x, some y, some z => some (x * y + z)
    | _, _, _ => none
  | _ => none

/-- Values of all nodes of an expression graph under the public-input assignment `ρ`. -/
def denote (ρ : Nat → K) (nodes : Array (Expr K)) : Array (Option K) :=
  nodes.foldl (fun vals e => vals.push (evalExpr ρ vals e)) #[]

/-- `⟦id⟧ρ` in builder state `s`. -/
def BState.val (ρ : Nat → K) (s : BState K) (id : Nat) : Option K := getv (denote ρ s.nodes) id

end Denote

/-! ### Symbolic DAGs (`p3_air::symbolic`) -/

/-- `p3_air::BaseEntry`. -/
inductive BaseEntry where
  | prep (off : Nat) | main (off : Nat) | periodic | pub
deriving Repr, DecidableEq

/-- `p3_air::ExtEntry`. -/
inductive ExtEntry where
  | perm (off : Nat) | challenge | permValue
deriving Repr, DecidableEq

/-- `SymbolicExpression<F>` node (`BaseLeaf` + arithmetic). -/
inductive BNode (K : Type) where
  | const (c : K)
  | var (e : BaseEntry) (i : Nat)
  | isFirst | isLast | isTrans
  | neg (x : Nat) | add (x y : Nat) | sub (x y : Nat) | mul (x y : Nat)
deriving Repr

/-- `SymbolicExpressionExt<F, EF>` node (`ExtLeaf` + arithmetic). `base r`: the lifted base
expression whose (inline) root is base node `r`. -/
inductive XNode (K : Type) where
  | base (r : Nat)
  | var (e : ExtEntry) (i : Nat)
  | const (c : K)
  | neg (x : Nat) | add (x y : Nat) | sub (x y : Nat) | mul (x y : Nat)
deriving Repr

/-- Column categories of `ColumnsTargets`. -/
inductive Cat where
  | challenges | pubs | permLocal | permNext | permVals | prepLocal | prepNext | periodic
  | locals | nexts
deriving Repr, DecidableEq

/-- `resolve_base_var`: which slice a base variable reads (`none` = the panic arm). -/
def BaseEntry.cat : BaseEntry → Option Cat
  | .prep 0 => some .prepLocal
  | .prep 1 => some .prepNext
  | .main 0 => some .locals
  | .main 1 => some .nexts
  | .pub => some .pubs
  | .periodic => some .periodic
  | _ => none

/-- `resolve_ext_var`. -/
def ExtEntry.cat : ExtEntry → Option Cat
  | .perm 0 => some .permLocal
  | .perm 1 => some .permNext
  | .challenge => some .challenges
  | .permValue => some .permVals
  | _ => none

/-- `RowSelectorsTargets` + `ColumnsTargets`, generic in what a "target" is: `Cols Nat` are
circuit expression ids, `Cols K` are the opened values the native folder is given. -/
structure Cols (α : Type) where
  isFirst : α
  isLast : α
  isTrans : α
  cat : Cat → Array α

def Cols.base {α} (T : Cols α) (e : BaseEntry) (i : Nat) : Option α :=
  match e.cat with
  | some c => (T.cat c)[i]?
  | none => none

def Cols.ext {α} (T : Cols α) (e : ExtEntry) (i : Nat) : Option α :=
  match e.cat with
  | some c => (T.cat c)[i]?
  | none => none

/-! ### Native evaluation (`SymbolicExpression::resolve` against the verifier folder) -/

section Native
variable {K : Type} [Zero K] [Add K] [Sub K] [Mul K] [Neg K]

/-- One node of `SymbolicExpression::resolve`, given the evaluation `g` of its children. -/
def stepBf (E : Cols K) (g : Nat → Option K) : Option (BNode K) → Option K
  | none => none
  | some (.const c) => some c
  | some (.var e j) => E.base e j
  | some .isFirst => some E.isFirst
  | some .isLast => some E.isLast
  | some .isTrans => some E.isTrans
  | some (.neg x) => (g x).map fun a => -a
  | some (.add x y) => match g x, g y with
    | some a, some b => some (a + b)
    | _, _ => none
  | some (.sub x y) => match g x, g y with
    | some a, some b => some (a - b)
    | _, _ => none
  | some (.mul x y) => match g x, g y with
    | some a, some b => some (a * b)
    | _, _ => none

/-- Recursive evaluation of base node `i`; the first argument bounds the recursion depth
(`i + 1` always suffices for a DAG whose children precede their parents). -/
def evalB (dag : Array (BNode K)) (E : Cols K) : Nat → Nat → Option K
  | 0, _ => none
  | f + 1, i => stepBf E (fun x => evalB dag E f x) dag[i]?

/-- Native value of base node `i`. -/
def nvB (dag : Array (BNode K)) (E : Cols K) (i : Nat) : Option K := evalB dag E (i + 1) i

/-- One node of the extension-expression evaluation; `gb` evaluates lifted base roots. -/
def stepXf (E : Cols K) (gb g : Nat → Option K) : Option (XNode K) → Option K
  | none => none
  | some (.base r) => gb r
  | some (.var e j) => E.ext e j
  | some (.const c) => some c
  | some (.neg x) => (g x).map fun a => -a
  | some (.add x y) => match g x, g y with
    | some a, some b => some (a + b)
    | _, _ => none
  | some (.sub x y) => match g x, g y with
    | some a, some b => some (a - b)
    | _, _ => none
  | some (.mul x y) => match g x, g y with
    | some a, some b => some (a * b)
    | _, _ => none

/-- Recursive evaluation of extension node `i`. -/
def evalX (bdag : Array (BNode K)) (xdag : Array (XNode K)) (E : Cols K) : Nat → Nat → Option K
  | 0, _ => none
  | f + 1, i => stepXf E (nvB bdag E) (fun x => evalX bdag xdag E f x) xdag[i]?

def nvX (bdag : Array (BNode K)) (xdag : Array (XNode K)) (E : Cols K) (i : Nat) : Option K :=
  evalX bdag xdag E (i + 1) i

/-! Bottom-up tables: the same values computed once per node (what the driver runs — the
recursive definitions above are exponential on shared DAGs, exactly like p3's `resolve`).
`Props/C13.lean` proves `getv (tableB dag E dag.size) i = nvB dag E i` for DAGs whose children
precede their parents. -/

def stepB (E : Cols K) (t : Array (Option K)) : Option (BNode K) → Option K := stepBf E (getv t)

def tableB (dag : Array (BNode K)) (E : Cols K) : Nat → Array (Option K)
  | 0 => #[]
  | n + 1 =>
    let t := tableB dag E n
    t.push (stepB E t dag[n]?)

def stepX (E : Cols K) (tb t : Array (Option K)) : Option (XNode K) → Option K :=
  stepXf E (getv tb) (getv t)

def tableX (xdag : Array (XNode K)) (E : Cols K) (tb : Array (Option K)) : Nat → Array (Option K)
  | 0 => #[]
  | n + 1 =>
    let t := tableX xdag E tb n
    t.push (stepX E tb t xdag[n]?)

/-- `VerifierConstraintFolder(WithLookups)`: `accumulator = accumulator * alpha + x` for every
asserted constraint value, in the order the AIR emits them. -/
def nativeFold (alpha : K) (cs : List K) : K := cs.foldl (fun acc c => acc * alpha + c) 0

/-- One emitted constraint: `(isExt, root)`. -/
abbrev Emission := List (Bool × Nat)

/-- Values of the emitted constraints, in emission order (`none` if any evaluation panics). -/
def emissionValues (bdag : Array (BNode K)) (xdag : Array (XNode K)) (E : Cols K) (em : Emission) :
    Option (List K) :=
  em.mapM fun p => if p.1 then nvX bdag xdag E p.2 else nvB bdag E p.2

/-- The native folder's accumulator after `air.eval` (+ lookup constraints). -/
def nativeFolded (bdag : Array (BNode K)) (xdag : Array (XNode K)) (E : Cols K) (alpha : K)
    (em : Emission) : Option K :=
  (emissionValues bdag xdag E em).map (nativeFold alpha)

/-- `nativeFolded` read off the tables. -/
def nativeFoldedT (bdag : Array (BNode K)) (xdag : Array (XNode K)) (E : Cols K) (alpha : K)
    (em : Emission) : Option K :=
  let tb := tableB bdag E bdag.size
  let tx := tableX xdag E tb xdag.size
  (em.mapM fun (p : Bool × Nat) => if p.1 then getv tx p.2 else getv tb p.2).map (nativeFold alpha)

end Native

/-! ### The work-stack loop (`dag.rs`, `compiler.rs`) -/

inductive BinOp where
  | add | sub | mul
deriving Repr, DecidableEq

/-- `dag.rs::Work`; the key of a build item is the node identity. -/
inductive Work where
  | eval (n : Nat)
  | buildNeg (key : Nat)
  | buildBin (key : Nat) (op : BinOp)
deriving Repr

/-- What the `match node` of the `Work::Eval` arm distinguishes. -/
inductive Shape where
  | leaf
  | neg (x : Nat)
  | bin (op : BinOp) (x y : Nat)
deriving Repr

abbrev Cache := List (Nat × Nat)

/-- Loop state: work stack (head = top), value stack (head = top), the cache the loop
inserts into, and everything else it mutates (`σ`: the circuit builder, and for
`compile_ext` also the base cache). -/
structure WS (σ : Type) where
  tasks : List Work
  stack : List Nat
  cache : Cache
  s : σ

/-- The builder calls made by the loop. -/
structure Ops (σ : Type) where
  zero : σ → σ × Nat
  add : σ → Nat → Nat → σ × Nat
  sub : σ → Nat → Nat → σ × Nat
  mul : σ → Nat → Nat → σ × Nat

def Ops.bin {σ} (O : Ops σ) : BinOp → σ → Nat → Nat → σ × Nat
  | .add => O.add
  | .sub => O.sub
  | .mul => O.mul

/-- One iteration of `while let Some(work) = tasks.pop()`. -/
def wsStep {σ} (O : Ops σ) (shape : Nat → Option Shape) (leaf : Nat → σ → Option (σ × Nat))
    (st : WS σ) : Option (WS σ) :=
  match st.tasks with
  | [] => none
  | .buildNeg key :: tasks =>
    match st.stack with
    | v :: stack =>
      let r1 := O.zero st.s
      let r2 := O.sub r1.1 r1.2 v
      some { tasks := tasks, stack := r2.2 :: stack, cache := (key, r2.2) :: st.cache, s := r2.1 }
    | [] => none
  | .buildBin key op :: tasks =>
    match st.stack with
    | rhs :: lhs :: stack =>
      let r := O.bin op st.s lhs rhs
      some { tasks := tasks, stack := r.2 :: stack, cache := (key, r.2) :: st.cache, s := r.1 }
    | _ => none
  | .eval n :: tasks =>
    match st.cache.lookup n with
    | some id => some { st with tasks := tasks, stack := id :: st.stack }
    | none =>
      match shape n with
      | none => none
      | some .leaf =>
        match leaf n st.s with
        | some r => some { tasks := tasks, stack := r.2 :: st.stack, cache := (n, r.2) :: st.cache, s := r.1 }
        | none => none
      | some (.neg x) => some { st with tasks := .eval x :: .buildNeg n :: tasks }
      | some (.bin op x y) => some { st with tasks := .eval x :: .eval y :: .buildBin n op :: tasks }

/-- The loop, bounded by fuel (`none` on exhaustion or panic). -/
def wsRun {σ} (O : Ops σ) (shape : Nat → Option Shape) (leaf : Nat → σ → Option (σ × Nat)) :
    Nat → WS σ → Option (WS σ)
  | 0, st => if st.tasks.isEmpty then some st else none
  | f + 1, st =>
    if st.tasks.isEmpty then some st else (wsStep O shape leaf st).bind (wsRun O shape leaf f)

/-- `compile_base` / `compile_ext` skeleton: seed, loop, `stack.pop().expect("final target")`. -/
def wsCompile {σ} (O : Ops σ) (shape : Nat → Option Shape) (leaf : Nat → σ → Option (σ × Nat))
    (fuel root : Nat) (cache : Cache) (s : σ) : Option (Nat × Cache × σ) :=
  (wsRun O shape leaf fuel { tasks := [.eval root], stack := [], cache := cache, s := s }).bind fun st =>
    match st.stack with
    | id :: _ => some (id, st.cache, st.s)
    | [] => none

section Compile
variable {K : Type} [Zero K] [One K] [Add K] [Sub K] [Mul K] [DecidableEq K]

def baseOps : Ops (BState K) :=
  { zero := fun s => s.defineConst 0, add := BState.add, sub := BState.sub, mul := BState.mul }

def baseShape (dag : Array (BNode K)) (n : Nat) : Option Shape :=
  match dag[n]? with
  | none => none
  | some (.neg x) => some (.neg x)
  | some (.add x y) => some (.bin .add x y)
  | some (.sub x y) => some (.bin .sub x y)
  | some (.mul x y) => some (.bin .mul x y)
  | some _ => some .leaf

/-- Leaf arms of `compile_base`. -/
def baseLeaf (dag : Array (BNode K)) (T : Cols Nat) (n : Nat) (s : BState K) : Option (BState K × Nat) :=
  match dag[n]? with
  | some (.const c) => some (s.defineConst c)
  | some (.var e i) => (T.base e i).map fun id => (s, id)
  | some .isFirst => some (s, T.isFirst)
  | some .isLast => some (s, T.isLast)
  | some .isTrans => some (s, T.isTrans)
  | _ => none

/-- `SymbolicCompiler::compile_base`. -/
def compileBase (dag : Array (BNode K)) (T : Cols Nat) (root : Nat) (cache : Cache) (s : BState K) :
    Option (Nat × Cache × BState K) :=
  wsCompile baseOps (baseShape dag) (baseLeaf dag T) (3 * dag.size + 1) root cache s

/-- Builder calls of `compile_ext`; the second component is the base cache (untouched here). -/
def extOps : Ops (BState K × Cache) :=
  { zero := fun s => let r := s.1.defineConst 0; ((r.1, s.2), r.2)
    add := fun s l r => let x := s.1.add l r; ((x.1, s.2), x.2)
    sub := fun s l r => let x := s.1.sub l r; ((x.1, s.2), x.2)
    mul := fun s l r => let x := s.1.mul l r; ((x.1, s.2), x.2) }

def extShape (dag : Array (XNode K)) (n : Nat) : Option Shape :=
  match dag[n]? with
  | none => none
  | some (.neg x) => some (.neg x)
  | some (.add x y) => some (.bin .add x y)
  | some (.sub x y) => some (.bin .sub x y)
  | some (.mul x y) => some (.bin .mul x y)
  | some _ => some .leaf

/-- Leaf arms of `compile_ext`; a lifted base expression runs `compile_base` with the base cache. -/
def extLeaf (bdag : Array (BNode K)) (xdag : Array (XNode K)) (T : Cols Nat) (n : Nat)
    (s : BState K × Cache) : Option ((BState K × Cache) × Nat) :=
  match xdag[n]? with
  | some (.base r) => (compileBase bdag T r s.2 s.1).map fun o => ((o.2.2, o.2.1), o.1)
  | some (.var e i) => (T.ext e i).map fun id => (s, id)
  | some (.const c) => let r := s.1.defineConst c; some ((r.1, s.2), r.2)
  | _ => none

/-- `SymbolicCompiler::compile_ext`. -/
def compileExt (bdag : Array (BNode K)) (xdag : Array (XNode K)) (T : Cols Nat) (root : Nat)
    (bcache xcache : Cache) (s : BState K) : Option (Nat × Cache × Cache × BState K) :=
  (wsCompile extOps (extShape xdag) (extLeaf bdag xdag T) (3 * xdag.size + 1) root xcache (s, bcache)).map
    fun o => (o.1, o.2.2.2, o.2.1, o.2.2.1)

/-- State of the two folding loops of `eval_folded_circuit`. `ids` records the id each
constraint compiled to (observed by the correspondence run). -/
structure FoldSt (K : Type) where
  b : BState K
  bc : Cache
  xc : Cache
  acc : Nat
  ids : List Nat

def foldBaseStep (bdag : Array (BNode K)) (T : Cols Nat) (alpha : Nat) (st : FoldSt K) (r : Nat) :
    Option (FoldSt K) :=
  (compileBase bdag T r st.bc st.b).map fun o =>
    let m := o.2.2.mulAdd st.acc alpha o.1
    { st with b := m.1, bc := o.2.1, acc := m.2, ids := st.ids ++ [o.1] }

def foldExtStep (bdag : Array (BNode K)) (xdag : Array (XNode K)) (T : Cols Nat) (alpha : Nat)
    (st : FoldSt K) (r : Nat) : Option (FoldSt K) :=
  (compileExt bdag xdag T r st.bc st.xc st.b).map fun o =>
    let m := o.2.2.2.mulAdd st.acc alpha o.1
    { b := m.1, bc := o.2.1, xc := o.2.2.1, acc := m.2, ids := st.ids ++ [o.1] }

/-- One iteration of the folding loop of `eval_folded_circuit`: the next constraint in the
global emission order (`ConstraintLayout`) is taken from the base or the extension stream,
compiled with the shared caches, and folded: `acc = mul_add(acc, alpha, compiled)`. -/
def foldStep (bdag : Array (BNode K)) (xdag : Array (XNode K)) (T : Cols Nat) (alpha : Nat)
    (st : FoldSt K) (p : Bool × Nat) : Option (FoldSt K) :=
  if p.1 then foldExtStep bdag xdag T alpha st p.2 else foldBaseStep bdag T alpha st p.2

/-- `eval_folded_circuit` for an AIR whose `eval` (+ lookup constraints) emits the constraints
`em`: `get_symbolic_constraints` splits them into the base and the extension vector,
`get_constraint_layout` records the global index of each; the loop walks the global indices,
i.e. the emission order, with `acc = 0` initially and both caches shared over the whole loop. -/
def evalFoldedAir (bdag : Array (BNode K)) (xdag : Array (XNode K)) (T : Cols Nat) (alpha : Nat)
    (em : Emission) (b : BState K) : Option (FoldSt K) :=
  let z := b.defineConst 0
  em.foldlM (foldStep bdag xdag T alpha) { b := z.1, bc := [], xc := [], acc := z.2, ids := [] }

end Compile

/-- Children precede parents (every `Arc` DAG can be numbered this way; the harness numbers
nodes in post-order). -/
def BNode.childrenLt {K} (i : Nat) : BNode K → Bool
  | .neg x => x < i
  | .add x y | .sub x y | .mul x y => x < i && y < i
  | _ => true

def XNode.childrenLt {K} (i : Nat) : XNode K → Bool
  | .neg x => x < i
  | .add x y | .sub x y | .mul x y => x < i && y < i
  | _ => true

def wfB {K} (dag : Array (BNode K)) : Bool :=
  (List.range dag.size).all fun i => match dag[i]? with
    | some nd => nd.childrenLt i
    | none => true

def wfX {K} (dag : Array (XNode K)) : Bool :=
  (List.range dag.size).all fun i => match dag[i]? with
    | some nd => nd.childrenLt i
    | none => true

end P3R
