/-
C08, native side: for arity 2 the arity schedule is all-binary with `log2_ceil(max_height)`
levels, truncated by the cap height; consequences of the geometry gate; facts about the
tallest-first order.
-/
import P3R.Lemmas.MmcsNativePath

namespace P3R.Mmcs

theorem selectArityStep_two (curr leafNpt : Nat) (rem : List Nat) : selectArityStep 2 curr leafNpt rem = 2 := by
  unfold selectArityStep
  split
  · rfl
  · simp only [ite_self]

/-- `j` binary levels remain above a layer of logical height `m` with `2^(j-1) < m ≤ 2^j`. -/
theorem scheduleLoop_two (leafNpt : Nat) :
    ∀ (j f m : Nat) (rem : List (Nat × Dim)), j < f →
      (1 ≤ j → 2 ^ (j - 1) < m ∧ m ≤ 2 ^ j) → (j = 0 → m ≤ 1) →
      scheduleLoop 2 leafNpt f (paddedLen m 2) rem = some (List.replicate j 2) := by
  intro j
  induction j with
  | zero =>
    intro f m rem hf _ h0
    cases f with
    | zero => omega
    | succ f =>
      unfold scheduleLoop
      have : paddedLen m 2 ≤ 1 := by rw [paddedLen_le_one (h0 rfl)]; exact h0 rfl
      simp [this]
  | succ j ih =>
    intro f m rem hf hb _
    obtain ⟨hlo, hhi⟩ := hb (by omega)
    have hm2 : 2 ≤ m := by
      have : 1 ≤ 2 ^ (j + 1 - 1) := Nat.one_le_two_pow
      omega
    obtain ⟨_, hnext, hone⟩ := half_bounds (by omega : 1 ≤ j + 1) hlo hhi
    cases f with
    | zero => omega
    | succ f =>
      unfold scheduleLoop
      have hgt := paddedLen_two_gt_one hm2
      rw [if_neg (by omega)]
      simp only [selectArityStep_two, paddedLen_two_half hm2]
      rw [ih f ((m + 1) / 2) _ (by omega)
        (fun h => by have := hnext (by omega); simpa using this)
        (fun h => by have := hone (by omega); omega)]
      simp [List.replicate_succ]

theorem proofAritySchedule_two (capHeight mx : Nat) (dims : List Dim) (hmx : 0 < mx) :
    proofAritySchedule 2 capHeight mx dims
      = some (List.replicate (log2Ceil mx - min capHeight (log2Ceil mx)) 2) := by
  unfold proofAritySchedule
  simp only
  have hfuel : log2Ceil mx < 2 * (paddedLen mx 2 + dims.length) + 2 := by
    have h1 := log2Ceil_le_self mx
    have h2 : mx ≤ paddedLen mx 2 := by
      unfold paddedLen
      split
      · exact le_refl _
      · split <;> omega
    omega
  rcases Nat.lt_or_ge 1 mx with h | h
  · obtain ⟨hj, hlo, hhi⟩ := max_bounds h
    rw [scheduleLoop_two _ (log2Ceil mx) _ mx _ hfuel (fun _ => ⟨hlo, hhi⟩) (fun h0 => by omega)]
    simp [List.take_replicate]
  · have h1 : mx = 1 := by omega
    subst h1
    rw [scheduleLoop_two _ 0 _ 1 _ (by omega) (fun h => by omega) (fun _ => le_refl _)]
    simp [log2Ceil]

/-! ### the geometry gate -/

theorem foldl_max_ge (l : List Nat) (a : Nat) : a ≤ l.foldl max a ∧ ∀ x ∈ l, x ≤ l.foldl max a := by
  induction l generalizing a with
  | nil => simp
  | cons b l ih =>
    simp only [List.foldl_cons, List.mem_cons, forall_eq_or_imp]
    obtain ⟨h1, h2⟩ := ih (max a b)
    exact ⟨le_trans (le_max_left a b) h1, le_trans (le_max_right a b) h1, h2⟩

/-- What the gate gives: `mx` bounds every height, is positive, and heights in one
power-of-two bucket coincide. -/
theorem validateHeights_ok {hs : List Nat} {mx : Nat} (h : validateHeights hs = .ok mx) :
    0 < mx ∧ (∀ x ∈ hs, x ≤ mx) ∧ (∀ a ∈ hs, ∀ b ∈ hs, npt a = npt b → a = b) ∧
    mx = hs.foldl max 0 := by
  unfold validateHeights at h
  simp only at h
  split at h
  · cases h
  · rename_i hne
    split at h
    · rename_i hall
      have hmx : hs.foldl max 0 = mx := by injection h
      refine ⟨by omega, ?_, ?_, hmx.symm⟩
      · rw [← hmx]; exact (foldl_max_ge hs 0).2
      · intro a ha b hb hab
        rw [List.all_eq_true] at hall
        have ea := hall a ha
        have eb := hall b hb
        simp only [beq_iff_eq] at ea eb
        rw [ea, eb, npt_inj_log hab]
    · cases h

/-! ### tallest-first order -/

theorem mem_insertDesc (x y : Nat × Dim) (l : List (Nat × Dim)) :
    y ∈ insertDesc x l ↔ y = x ∨ y ∈ l := by
  induction l with
  | nil => simp [insertDesc]
  | cons a l ih =>
    unfold insertDesc
    split
    · simp
    · simp only [List.mem_cons, ih]; tauto

theorem mem_sortDesc (y : Nat × Dim) (l : List (Nat × Dim)) : y ∈ sortDesc l ↔ y ∈ l := by
  unfold sortDesc
  induction l with
  | nil => simp
  | cons a l ih => simp only [List.foldr_cons, mem_insertDesc, ih, List.mem_cons]

/-- The head of the tallest-first list is a tallest element. -/
theorem head_max_insertDesc (x : Nat × Dim) (l : List (Nat × Dim))
    (hl : ∀ y ∈ l, y.2.height ≤ (l.headD x).2.height) :
    ∀ y ∈ insertDesc x l, y.2.height ≤ ((insertDesc x l).headD x).2.height := by
  cases l with
  | nil => simp [insertDesc]
  | cons a l =>
    unfold insertDesc
    split
    · rename_i h
      intro y hy
      simp only [List.headD_cons]
      simp only [List.mem_cons] at hy
      rcases hy with rfl | rfl | hy
      · exact le_refl _
      · exact h
      · exact le_trans (hl y (by simp [hy])) (by simpa using h)
    · rename_i h
      intro y hy
      simp only [List.headD_cons]
      simp only [List.mem_cons, mem_insertDesc] at hy
      rcases hy with rfl | rfl | hy
      · exact le_refl _
      · omega
      · exact hl y (by simp [hy])

theorem head_max_sortDesc (l : List (Nat × Dim)) (d : Nat × Dim) :
    ∀ y ∈ sortDesc l, y.2.height ≤ ((sortDesc l).headD d).2.height := by
  induction l with
  | nil => simp [sortDesc]
  | cons a l ih =>
    have hs : sortDesc (a :: l) = insertDesc a (sortDesc l) := rfl
    rw [hs]
    have key := head_max_insertDesc a (sortDesc l) (by
      intro y hy
      have := ih y hy
      cases hsl : sortDesc l with
      | nil => rw [hsl] at hy; simp at hy
      | cons b t => rw [hsl] at this; simpa using this)
    intro y hy
    have := key y hy
    cases hi : insertDesc a (sortDesc l) with
    | nil =>
      rw [hi] at hy; simp at hy
    | cons b t => rw [hi] at this; simpa using this

theorem mem_enum {dims : List Dim} {x : Nat × Dim} (h : x ∈ enum dims) :
    x.1 < dims.length ∧ dims[x.1]? = some x.2 := by
  unfold enum at h
  obtain ⟨i, hi, rfl⟩ := List.mem_iff_getElem.mp h
  simp only [List.length_zip, List.length_range, Nat.min_self] at hi
  simp [List.getElem_zip, hi]

end P3R.Mmcs
