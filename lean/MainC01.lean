/-
C01 line-protocol driver. One shape per stdin line → one result line. Runs the *model*
`P3R.Model.VerifierScript`; nothing is defaulted (every shape parameter is on the line).

  shape <uni|batch> zk D dg nrc friRounds finalPoly queries cpow qpow logMaxH k
        (width nPub preW hasNext preNext nChunks nLookups degreeBits) × k
    → res pred=<accept|build-err|run-reject> trans=<o3,s4,…> elems=<com=16,pub=3,…>

`pred`: what the model says happens to the honest proof in the circuit (`build-err`: the circuit
side of the script is `.error`;
`run-reject`: the circuit's script differs from the native one; `accept` otherwise).
`trans`: transcript structure of the *native* script (`o` observed / `s` sampled base elements, `b`
sampled bits). `elems`: scalars per element class of the proof.

  checks <uni|batch> <the same numbers>
    → chk ood=<i,j,…|-> tsum=<n>
The algebraic checks of the *circuit's* script for the shape: the instances with an out-of-domain
check and the number of terminals under the cross-AIR terminal-sum check (compared with the checks
the harness saw decisive, in both verifiers, on proofs forged by an adversarial prover).

  pows <commit measurable: 0|1> <query measurable: 0|1> <uni|batch> <the same numbers>
    → pw commit=<bits>x<count>|0x0|- query=<bits>x<count>|0x0|-
The proof-of-work events of the *circuit's* script for the shape: per phase the bit count the witnesses are
judged against and how many witnesses (`0x0`: none; `-`: the harness had no under-ground proof whose native
rejection is the PoW check of that phase alone, so nothing is compared). Compared with the phases the harness
saw decisive, in both circuits, on proofs ground by a lazy prover for fewer bits than demanded.
Unknown / malformed command → `bad-op`.
-/
import P3R.Model.VerifierScript

open P3R.VerifierScript

namespace C01Driver

def parseInsts : List Nat → Nat → Option (List Inst)
  | rest, 0 => if rest.isEmpty then some [] else none
  | w :: np :: pw :: hn :: pn :: nc :: nl :: db :: rest, k + 1 => do
    let t ← parseInsts rest k
    pure (⟨w, np, pw, hn != 0, pn != 0, nc, nl, db⟩ :: t)
  | _, _ => none

def render (l : List (Char × Nat)) : String :=
  ",".intercalate (l.map fun (c, n) => s!"{c}{n}")

def run (line : String) : String :=
  match line.splitOn " " |>.filter (· ≠ "") with
  | "shape" :: mode :: nums =>
    match nums.mapM String.toNat? with
    | some (zk :: d :: dg :: nrc :: fr :: fp :: q :: cp :: qp :: lmh :: k :: rest) =>
      match parseInsts rest k with
      | some insts =>
        let s : Shape := { zk := zk != 0, D := d, nrc := nrc, insts := insts, friRounds := fr,
                           finalPolyLen := fp, queries := q, commitPowBits := cp, queryPowBits := qp }
        let go (native : Script) (circ : Except String Script) (rounds : List Round) : String :=
          let pred := match circ with
            | .error _ => "build-err"
            | .ok sc => if sc = native then "accept" else "run-reject"
          let elems := ",".intercalate ((inventory dg s rounds).map fun (c, n) => s!"{c}={n}")
          s!"res pred={pred} trans={render (renderEvents d dg lmh native.events)} elems={elems}"
        match mode with
        | "uni" =>
          if k = 1 then go (nativeUni s) (circuitUni s) (nativeUniRounds s) else "bad-op"
        | "batch" => go (nativeBatch s) (circuitBatch s) (nativeBatchRounds s)
        | _ => "bad-op"
      | none => "bad-op"
    | _ => "bad-op"
  | "checks" :: mode :: nums =>
    match nums.mapM String.toNat? with
    | some (zk :: d :: _dg :: nrc :: fr :: fp :: q :: cp :: qp :: _lmh :: k :: rest) =>
      match parseInsts rest k with
      | some insts =>
        let s : Shape := { zk := zk != 0, D := d, nrc := nrc, insts := insts, friRounds := fr,
                           finalPolyLen := fp, queries := q, commitPowBits := cp, queryPowBits := qp }
        let go (circ : Except String Script) : String :=
          match circ with
          | .error _ => "chk build-err"
          | .ok sc =>
            let oods := sc.checks.filterMap fun c => match c with | .ood i _ => some i | _ => none
            let ts := sc.checks.flatMap fun c => match c with | .terminalSum l => l | _ => []
            let oodStr := if oods.isEmpty then "-" else ",".intercalate (oods.map toString)
            s!"chk ood={oodStr} tsum={ts.length}"
        match mode with
        | "batch" => go (circuitBatch s)
        | "uni" => if k = 1 then go (circuitUni s) else "bad-op"
        | _ => "bad-op"
      | none => "bad-op"
    | _ => "bad-op"
  | "pows" :: mc :: mq :: mode :: nums =>
    match nums.mapM String.toNat?, mc.toNat?, mq.toNat? with
    | some (zk :: d :: _dg :: nrc :: fr :: fp :: q :: cp :: qp :: _lmh :: k :: rest), some mc, some mq =>
      match parseInsts rest k with
      | some insts =>
        let s : Shape := { zk := zk != 0, D := d, nrc := nrc, insts := insts, friRounds := fr,
                           finalPolyLen := fp, queries := q, commitPowBits := cp, queryPowBits := qp }
        let go (circ : Except String Script) : String :=
          match circ with
          | .error _ => "pw build-err"
          | .ok sc =>
            let commit := sc.events.filterMap fun e => match e with | .pow b (.commitPow _) => some b | _ => none
            let query := sc.events.filterMap fun e => match e with | .pow b .queryPow => some b | _ => none
            -- all witnesses of a phase against one bit count: `<bits>x<count>`; otherwise the list itself
            let show1 (measurable : Nat) (l : List Nat) : String :=
              if measurable = 0 then "-" else
              match l with
              | [] => "0x0"
              | b :: t => if t.all (· == b) then s!"{b}x{l.length}" else ",".intercalate (l.map toString)
            s!"pw commit={show1 mc commit} query={show1 mq query}"
        match mode with
        | "batch" => go (circuitBatch s)
        | "uni" => if k = 1 then go (circuitUni s) else "bad-op"
        | _ => "bad-op"
      | none => "bad-op"
    | _, _, _ => "bad-op"
  | _ => "bad-op"

end C01Driver

partial def loop (h : IO.FS.Stream) (out : IO.FS.Stream) : IO Unit := do
  let line ← h.getLine
  if line.isEmpty then return
  let l := line.trimRight
  if l ≠ "" then out.putStrLn (C01Driver.run l)
  loop h out

def main : IO Unit := do
  let stdin ← IO.getStdin
  let stdout ← IO.getStdout
  loop stdin stdout
