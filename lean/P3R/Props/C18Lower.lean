/-
C18 — def-before-use of first add operands in the lowering's output (`lower_aDefined`).

`Order.aDefined P ops`: the first operand of every plain `Add` of `ops` is in `P` (private rows) or is
named — read or written — by an earlier op. `P3R.C18.fusionInvariant_of_aDefined` turns it into the
fusion invariant for every op list. This file proves it for the output of `lower`, for EVERY builder
state whose private-input nodes carry distinct positions (`privOk`, what `alloc_private_input`
constructs; no other hypothesis — neither `BState.Ok` nor `connectsOk` is needed):

* `EInv` — invariant of `emit_operations`: every mapped expression's slot is a private row or is named
  by an emitted op (`m`); the emitted list is `ADef` (`a`); a call flagged as emitted has all its
  output expressions mapped (`e`, so that the fallback allocation of an `npOut` node is unreachable);
* `emit_E` — one lemma per node kind; `emitNpCall_E`, `prealloc_E` — `emit_npo_call`;
* passes 1–3 reuse `C09C.Q` / `fConst_Q` … and add `X` (every mapped non-private expression is named).
-/
import P3R.Props.C09Compile
import P3R.Model.Order

namespace P3R.C18L
open P3R P3R.C02T P3R.C09C

variable {K : Type}

/-- Slot `w` is named by `op`. -/
def ment (w : Nat) (op : Op K) : Prop := w ∈ Order.opReads op ∨ w ∈ Order.opWrites op

/-- Operand shape of the ops the lowering emits (what `Deduplicator::run`'s key relies on): plain `Add` /
`Mul` have no `c`; `BoolCheck` repeats `a` in `c`; `MulAdd` has its `c`, `HornerAcc` its `c` and accumulator. -/
def dshape : Op K → Bool
  | .alu .add _ _ c _ _ => c.isNone
  | .alu .mul _ _ c _ _ => c.isNone
  | .alu .boolCheck a _ c _ _ => c == some a
  | .alu .mulAdd _ _ c _ _ => c.isSome
  | .alu .horner _ _ c _ io => c.isSome && io.isSome
  | _ => true

theorem dshape_of_noAlu (op : Op K) (h : isAluOp op = false) : dshape op = true := by
  cases op <;> simp [isAluOp] at h <;> rfl

/-- Prop form of `Order.aDefined`. -/
@[reducible] def ADef (P : List Nat) (ops : List (Op K)) : Prop :=
  ∀ (j a b o : Nat) (io : Option Nat), ops[j]? = some (Op.alu .add a b none o io : Op K) →
    a ∈ P ∨ ∃ (i : Nat) (op : Op K), i < j ∧ ops[i]? = some op ∧ ment a op

theorem aDefined_of_ADef (P : List Nat) (ops : List (Op K)) (h : ADef P ops) : Order.aDefined P ops = true := by
  unfold Order.aDefined
  rw [List.all_eq_true]
  intro p hp
  have hp' := List.mem_zipIdx_iff_getElem?.mp hp
  split
  · next a b o io heq =>
    rw [heq] at hp'
    rcases h p.2 a b o io hp' with h1 | ⟨i, op, hi, hop, hm⟩
    · simp [h1]
    · simp only [Bool.or_eq_true, List.any_eq_true, List.contains_iff_mem]
      right
      refine ⟨op, ?_, hm⟩
      apply List.mem_of_getElem? (i := i)
      rw [List.getElem?_take, if_pos hi]
      exact hop
  · rfl

theorem ADef_of_noAlu (P : List Nat) (ops : List (Op K)) (h : ∀ op ∈ ops, isAluOp op = false) : ADef P ops := by
  intro j a b o io hj
  have := h _ (List.mem_of_getElem? hj)
  simp [isAluOp] at this

theorem ADef_append (P : List Nat) (ops added : List (Op K)) (h : ADef P ops)
    (hadd : ∀ op' ∈ added, ∀ a b o io, op' = .alu .add a b none o io → a ∈ P ∨ ∃ op ∈ ops, ment a op) :
    ADef P (ops ++ added) := by
  intro j a b o io hj
  by_cases hlt : j < ops.length
  · rw [List.getElem?_append_left hlt] at hj
    rcases h j a b o io hj with h1 | ⟨i, op, hi, hop, hm⟩
    · exact Or.inl h1
    · exact Or.inr ⟨i, op, hi, by rw [List.getElem?_append_left (by omega)]; exact hop, hm⟩
  · rw [List.getElem?_append_right (by omega)] at hj
    rcases hadd _ (List.mem_of_getElem? hj) a b o io rfl with h1 | ⟨op, hop, hm⟩
    · exact Or.inl h1
    · obtain ⟨i, hi⟩ := List.mem_iff_getElem?.mp hop
      have hil : i < ops.length := by
        by_contra hge
        rw [List.getElem?_eq_none (by omega)] at hi
        cases hi
      exact Or.inr ⟨i, op, by omega, by rw [List.getElem?_append_left hil]; exact hi, hm⟩

theorem alloc_emitted (s : LState K) (e : Nat) : (s.allocWitness e).1.emitted = s.emitted := by
  unfold LState.allocWitness
  split
  · dsimp only
    split <;> rfl
  · rfl

theorem alloc_emitted' {s s1 : LState K} {e w : Nat} (h : s.allocWitness e = (s1, w)) : s1.emitted = s.emitted := by
  have := alloc_emitted s e
  rw [h] at this
  exact this

/-! ### Passes 1–3 -/

/-- Every mapped expression is a private input or its slot is named by an emitted op; nothing is flagged
as emitted. -/
structure X (b : BState K) (s : LState K) : Prop where
  esz : s.e2w.size = b.nodes.size + 1
  noEmit : ∀ k, s.emitted.getD k false = false
  m : ∀ x w, s.e2w.getD x none = some w →
    (∃ pos, b.nodes[x]? = some (.priv pos)) ∨ ∃ op ∈ s.ops.toList, ment w op

theorem X_step {b : BState K} {s s1 s' : LState K} {i w : Nat} (he : s1.e2w = s.e2w) (ho : s1.ops = s.ops)
    (hem : s1.emitted = s.emitted) (hs'e : s'.e2w = s1.e2w.setIfInBounds i (some w))
    (hs'o : ∀ op ∈ s1.ops.toList, op ∈ s'.ops.toList) (hs'em : s'.emitted = s1.emitted)
    (hnew : (∃ pos, b.nodes[i]? = some (.priv pos)) ∨ ∃ op ∈ s'.ops.toList, ment w op) (hX : X b s) :
    X b s' := by
  refine ⟨by rw [hs'e, Array.size_setIfInBounds, he]; exact hX.esz, by rw [hs'em, hem]; exact hX.noEmit, ?_⟩
  intro x w' hw
  rw [hs'e, getD_setIfInBounds, he] at hw
  by_cases hix : i = x
  · subst hix
    by_cases hsz : i < s.e2w.size
    · rw [if_pos ⟨rfl, hsz⟩] at hw
      cases hw
      exact hnew
    · rw [if_neg (fun hh => hsz hh.2)] at hw
      rcases hX.m i w' hw with h1 | ⟨op, hop, hm⟩
      · exact Or.inl h1
      · exact Or.inr ⟨op, hs'o op (ho ▸ hop), hm⟩
  · rw [if_neg (fun hh => hix hh.1)] at hw
    rcases hX.m x w' hw with h1 | ⟨op, hop, hm⟩
    · exact Or.inl h1
    · exact Or.inr ⟨op, hs'o op (ho ▸ hop), hm⟩

theorem fConst_X {b : BState K} {s s' : LState K} {i : Nat} {e : Expr K} (hX : X b s)
    (h : fConst s i e = .ok s') : X b s' := by
  cases e with
  | const v =>
    simp only [fConst] at h
    cases hal : s.allocWitness i with
    | mk s1 w =>
      rw [hal] at h
      simp only [Except.ok.injEq] at h
      subst h
      obtain ⟨he, ho, _⟩ := alloc_fields' hal
      refine X_step he ho (alloc_emitted' hal) rfl ?_ rfl (Or.inr ⟨.const w v, ?_, Or.inr ?_⟩) hX
      · intro op hop; simp [LState.setW, LState.pushOp, hop]
      · simp [LState.setW, LState.pushOp]
      · simp [Order.opWrites]
  | _ =>
    simp only [fConst, Except.ok.injEq] at h
    subst h
    exact hX

theorem fPub_X {b : BState K} {s s' : LState K} {i : Nat} {e : Expr K} (hX : X b s)
    (h : fPub s i e = .ok s') : X b s' := by
  cases e with
  | pub pos0 =>
    simp only [fPub] at h
    cases hal : s.allocWitness i with
    | mk s1 w =>
      rw [hal] at h
      simp only [Except.ok.injEq] at h
      subst h
      obtain ⟨he, ho, _⟩ := alloc_fields' hal
      refine X_step he ho (alloc_emitted' hal) rfl ?_ rfl (Or.inr ⟨.pub w pos0, ?_, Or.inr ?_⟩) hX
      · intro op hop; simp [LState.setW, LState.pushOp, hop]
      · simp [LState.setW, LState.pushOp]
      · simp [Order.opWrites]
  | _ =>
    simp only [fPub, Except.ok.injEq] at h
    subst h
    exact hX

theorem fPriv_X {b : BState K} {s s' : LState K} {i : Nat} {e : Expr K} (hi : b.nodes[i]? = some e)
    (hX : X b s) (h : fPriv s i e = .ok s') : X b s' := by
  cases e with
  | priv pos0 =>
    simp only [fPriv] at h
    cases hal : s.allocWitness i with
    | mk s1 w =>
      rw [hal] at h
      simp only [Except.ok.injEq] at h
      subst h
      obtain ⟨he, ho, _⟩ := alloc_fields' hal
      refine X_step he ho (alloc_emitted' hal) rfl ?_ rfl (Or.inl ⟨pos0, hi⟩) hX
      intro op hop; simpa [LState.setW] using hop
  | _ =>
    simp only [fPriv, Except.ok.injEq] at h
    subst h
    exact hX

/-! ### Pass 4: `emit_operations` -/

section emit
variable [Neg K]

structure EInv (b : BState K) (P : List Nat) (s : LState K) : Prop where
  priv : s.privRows.toList = P
  esz : s.e2w.size = b.nodes.size + 1
  m : ∀ x w, s.e2w.getD x none = some w → w ∈ P ∨ ∃ op ∈ s.ops.toList, ment w op
  a : ADef P s.ops.toList
  sh : ∀ op ∈ s.ops.toList, dshape op = true
  e : ∀ opId, s.emitted.getD opId false = true →
    ∃ outs, npOutputsOf b.nodes opId = some outs ∧ ∀ o ∈ outs, ∃ w, s.e2w.getD o.2 none = some w

omit [Neg K] in
theorem getD_set_some (a : Array (Option Nat)) (i x v : Nat) (h : ∃ w, a.getD x none = some w) :
    ∃ w, (a.setIfInBounds i (some v)).getD x none = some w := by
  rw [getD_setIfInBounds]
  split
  · exact ⟨v, rfl⟩
  · exact h

/-- Finishing lemma of an arithmetic step. -/
theorem E_finish {b : BState K} {P : List Nat} {s s1 s' : LState K} {i self : Nat} (hE : EInv b P s)
    (he : s1.e2w = s.e2w) (ho : s1.ops = s.ops) (hp : s1.privRows = s.privRows) (hem : s1.emitted = s.emitted)
    (added : List (Op K)) (hsh : ∀ op ∈ added, dshape op = true)
    (hs'e : s'.e2w = s1.e2w.setIfInBounds i (some self)) (hs'o : s'.ops.toList = s1.ops.toList ++ added)
    (hs'p : s'.privRows = s1.privRows) (hs'em : s'.emitted = s1.emitted)
    (hself : ∃ op ∈ added, ment self op)
    (hadd : ∀ op' ∈ added, ∀ a b' o io, op' = .alu .add a b' none o io →
      a ∈ P ∨ ∃ op ∈ s.ops.toList, ment a op) : EInv b P s' := by
  refine ⟨by rw [hs'p, hp]; exact hE.priv, by rw [hs'e, Array.size_setIfInBounds, he]; exact hE.esz, ?_, ?_, ?_, ?_⟩
  rotate_left 2
  · intro op hop
    rw [hs'o, ho] at hop
    rcases List.mem_append.mp hop with hop | hop
    · exact hE.sh op hop
    · exact hsh op hop
  rotate_right 2
  · intro x w hw
    rw [hs'e, getD_setIfInBounds, he] at hw
    rw [hs'o, ho]
    split at hw
    · cases hw
      obtain ⟨op, hop, hm⟩ := hself
      exact Or.inr ⟨op, List.mem_append_right _ hop, hm⟩
    · rcases hE.m x w hw with h1 | ⟨op, hop, hm⟩
      · exact Or.inl h1
      · exact Or.inr ⟨op, List.mem_append_left _ hop, hm⟩
  · rw [hs'o, ho]
    exact ADef_append P _ _ hE.a hadd
  · intro opId hop
    rw [hs'em, hem] at hop
    obtain ⟨outs, h1, h2⟩ := hE.e opId hop
    refine ⟨outs, h1, fun o ho' => ?_⟩
    rw [hs'e, he]
    exact getD_set_some _ _ _ _ (h2 o ho')

omit [Neg K] in
theorem npOut_mem {nodes : Array (Expr K)} {i call idx op : Nat} {ins : List Nat} {outs : List (Nat × Nat)}
    (hi : nodes[i]? = some (.npOut call idx)) (hcall : nodes[call]? = some (.npCall op ins))
    (h : npOutputsOf nodes op = some outs) : ∃ o ∈ outs, o.2 = i := by
  have hlt : i < nodes.size := by
    by_contra hge
    rw [Array.getElem?_eq_none (by omega)] at hi
    cases hi
  unfold npOutputsOf at h
  simp only at h
  split at h
  · cases h
    refine ⟨(idx, i), ?_, rfl⟩
    rw [List.mem_mergeSort]
    refine List.mem_filterMap.mpr ⟨i, List.mem_range.mpr hlt, ?_⟩
    simp [hi, hcall]
  · cases h

/-- `emit_npo_call`, the pre-allocation loop. -/
theorem prealloc_E (outs : List (Nat × Nat)) : ∀ s0 : LState K,
    let sb := outs.foldl (fun (st : LState K) (o : Nat × Nat) =>
      match st.e2w.getD o.2 none with
      | some _ => st
      | none => let (st', w) := st.allocWitness o.2; st'.setW o.2 w) s0
    sb.emitted = s0.emitted ∧ sb.e2w.size = s0.e2w.size ∧
    (∀ x w, s0.e2w.getD x none = some w → sb.e2w.getD x none = some w) ∧
    (∀ x w, sb.e2w.getD x none = some w → s0.e2w.getD x none = some w ∨ ∃ o ∈ outs, o.2 = x) ∧
    (∀ o ∈ outs, o.2 < s0.e2w.size → ∃ w, sb.e2w.getD o.2 none = some w) := by
  induction outs with
  | nil => intro s0; exact ⟨rfl, rfl, fun _ _ h => h, fun _ _ h => Or.inl h, fun _ h => by cases h⟩
  | cons o rest ih =>
    intro s0
    simp only [List.foldl_cons]
    cases hv : s0.e2w.getD o.2 none with
    | some w0 =>
      simp only []
      obtain ⟨h1, h2, h3, h4, h5⟩ := ih s0
      refine ⟨h1, h2, h3, ?_, ?_⟩
      · intro x w hw
        rcases h4 x w hw with h | ⟨o', ho', hx⟩
        · exact Or.inl h
        · exact Or.inr ⟨o', List.mem_cons_of_mem _ ho', hx⟩
      · intro o' ho' hlt
        rcases List.mem_cons.mp ho' with rfl | ho'
        · exact ⟨w0, h3 _ _ hv⟩
        · exact h5 o' ho' hlt
    | none =>
      simp only []
      cases hal : s0.allocWitness o.2 with
      | mk s1 w =>
        simp only []
        obtain ⟨he, _, _⟩ := alloc_fields' hal
        have hem := alloc_emitted' hal
        obtain ⟨h1, h2, h3, h4, h5⟩ := ih (s1.setW o.2 w)
        have hsz : (s1.setW o.2 w).e2w.size = s0.e2w.size := by simp [LState.setW, he]
        refine ⟨h1.trans hem, h2.trans hsz, ?_, ?_, ?_⟩
        · intro x w' hw
          apply h3
          simp only [LState.setW]
          rw [getD_setIfInBounds, he]
          split
          · next hh => rw [← hh.1, hv] at hw; cases hw
          · exact hw
        · intro x w' hw
          rcases h4 x w' hw with h | ⟨o', ho', hx⟩
          · simp only [LState.setW] at h
            rw [getD_setIfInBounds, he] at h
            split at h
            · next hh => exact Or.inr ⟨o, List.mem_cons_self, hh.1⟩
            · exact Or.inl h
          · exact Or.inr ⟨o', List.mem_cons_of_mem _ ho', hx⟩
        · intro o' ho' hlt
          rcases List.mem_cons.mp ho' with rfl | ho'
          · refine ⟨w, h3 _ _ ?_⟩
            simp only [LState.setW]
            rw [getD_setIfInBounds, he, if_pos ⟨rfl, hlt⟩]
          · exact h5 o' ho' (by rw [hsz]; exact hlt)

/-- `emit_npo_call`. -/
theorem emitNpCall_E {b : BState K} {P : List Nat} {s s' : LState K} (opId : Nat) (hE : EInv b P s)
    (h : s.emitNpCall b.nodes b.npOps opId = .ok s') :
    EInv b P s' ∧ ∃ outs, npOutputsOf b.nodes opId = some outs ∧ ∀ o ∈ outs, ∃ w, s'.e2w.getD o.2 none = some w := by
  unfold LState.emitNpCall at h
  split at h
  · next hem =>
    cases h
    exact ⟨hE, hE.e opId hem⟩
  · split at h
    · cases h
    · rename_i data _
      simp only at h
      split at h
      · cases h
      · rename_i outs houts
        obtain ⟨hbo, hbp⟩ := prealloc_fields outs { s with emitted := s.emitted.setIfInBounds opId true }
        obtain ⟨k1, k2, k3, k4, k5⟩ := prealloc_E outs { s with emitted := s.emitted.setIfInBounds opId true }
        simp only at k1 k2 k3 k4 k5
        generalize (outs.foldl (fun (st : LState K) (o : Nat × Nat) =>
          match st.e2w.getD o.2 none with
          | some _ => st
          | none => let (st', w) := st.allocWitness o.2; st'.setW o.2 w)
          { s with emitted := s.emitted.setIfInBounds opId true }) = sb at h hbo hbp k1 k2 k3 k4 k5
        have hmapped : ∀ o ∈ outs, ∃ w, sb.e2w.getD o.2 none = some w := by
          intro o ho
          apply k5 o ho
          obtain ⟨e, he, _⟩ := npOutputsOf_isOut houts o ho
          have := lt_of_get he
          rw [hE.esz]; exact this
        have hpush : ∀ op : Op K, isAluOp op = false →
            (∀ o ∈ outs, (sb.e2w.getD o.2 none).getD 0 ∈ Order.opWrites op) →
            EInv b P (sb.pushOp op) ∧ ∃ outs, npOutputsOf b.nodes opId = some outs ∧
              ∀ o ∈ outs, ∃ w, (sb.pushOp op).e2w.getD o.2 none = some w := by
          intro op hna hw
          refine ⟨⟨by simp only [LState.pushOp]; rw [hbp]; exact hE.priv,
            by simp only [LState.pushOp]; rw [k2]; exact hE.esz, ?_, ?_, ?_, ?_⟩, outs, houts, hmapped⟩
          rotate_left 2
          · intro op' hop'
            simp only [LState.pushOp, Array.toList_push, List.mem_append, List.mem_singleton] at hop'
            rw [hbo] at hop'
            rcases hop' with hop' | rfl
            · exact hE.sh op' hop'
            · exact dshape_of_noAlu _ hna
          rotate_right 2
          · intro x w hxw
            simp only [LState.pushOp, Array.toList_push] at hxw ⊢
            rw [hbo]
            rcases k4 x w hxw with h1 | ⟨o, ho, hx⟩
            · rcases hE.m x w h1 with h2 | ⟨op', hop', hm⟩
              · exact Or.inl h2
              · exact Or.inr ⟨op', List.mem_append_left _ hop', hm⟩
            · refine Or.inr ⟨op, by simp, Or.inr ?_⟩
              have := hw o ho
              rw [hx, hxw] at this
              exact this
          · simp only [LState.pushOp, Array.toList_push]
            rw [hbo]
            apply ADef_append P _ _ hE.a
            intro op' hop' a b' o io heq
            simp only [List.mem_singleton] at hop'
            subst hop'
            subst heq
            simp [isAluOp] at hna
          · intro opId' hop'
            simp only [LState.pushOp] at hop' ⊢
            rw [k1] at hop'
            rw [getD_setIfInBounds] at hop'
            split at hop'
            · next hh =>
              rw [← hh.1]
              exact ⟨outs, houts, hmapped⟩
            · obtain ⟨outs', h1, h2⟩ := hE.e opId' hop'
              exact ⟨outs', h1, fun o ho => by obtain ⟨w, hw'⟩ := h2 o ho; exact ⟨w, k3 _ _ hw'⟩⟩
        split at h
        · split at h
          · cases h
          · cases h
            refine hpush _ rfl ?_
            intro o ho
            simp only [Order.opWrites, List.mem_flatten, List.mem_map]
            exact ⟨[(sb.e2w.getD o.2 none).getD 0], ⟨o, ho, rfl⟩, by simp⟩
        · split at h
          · split at h
            · cases h
            · cases h
              refine hpush _ rfl ?_
              intro o ho
              simp only [Order.opWrites, List.mem_map]
              exact ⟨o, ho, rfl⟩
          · cases h

/-- One step of `emit_operations`. -/
theorem emit_E {b : BState K} {P : List Nat} {s s' : LState K} {i : Nat} {e : Expr K}
    (hi : b.nodes[i]? = some e) (hE : EInv b P s) (h : s.emitNode b.nodes b.npOps i e = .ok s') : EInv b P s' := by
  -- the first operand of an emitted add is a resolved child
  have child : ∀ {s1 : LState K} {x a : Nat}, s1.e2w = s.e2w → s1.resolve x = .ok a →
      a ∈ P ∨ ∃ op ∈ s.ops.toList, ment a op := by
    intro s1 x a he hr
    exact hE.m x a (he ▸ resolve_ok.mp hr)
  have noAdd : ∀ (added : List (Op K)), (∀ op' ∈ added, ∀ a b' o io, op' ≠ .alu .add a b' none o io) →
      ∀ op' ∈ added, ∀ a b' o io, op' = .alu .add a b' none o io → a ∈ P ∨ ∃ op ∈ s.ops.toList, ment a op :=
    fun added hn op' hop' a b' o io heq => absurd heq (hn op' hop' a b' o io)
  cases e with
  | const _ => simp only [LState.emitNode, Except.ok.injEq] at h; subst h; exact hE
  | pub _ => simp only [LState.emitNode, Except.ok.injEq] at h; subst h; exact hE
  | priv _ => simp only [LState.emitNode, Except.ok.injEq] at h; subst h; exact hE
  | add l r =>
    simp only [LState.emitNode] at h
    cases hal : s.allocWitness i with
    | mk s1 out =>
      rw [hal] at h
      obtain ⟨he, ho, hp⟩ := alloc_fields' hal
      cases hl : s1.resolve l with
      | error _ => simp [hl] at h
      | ok a =>
        cases hr : s1.resolve r with
        | error _ => simp [hl, hr] at h
        | ok bw =>
          simp only [hl, hr, Except.ok.injEq] at h
          subst h
          refine E_finish hE he ho hp (alloc_emitted' hal) [Op.add a bw out] (by simp [dshape, Op.add, Op.mul, Op.mulAdd, Op.horner]) rfl
            (by simp [LState.setW, LState.pushOp]) rfl rfl
            ⟨_, List.mem_singleton.mpr rfl, Or.inr (by simp [Op.add, Order.opWrites])⟩ ?_
          intro op' hop' a' b' o io heq
          simp only [List.mem_singleton] at hop'
          subst hop'
          simp only [Op.add, Op.alu.injEq, true_and] at heq
          rw [← heq.1]
          exact child he hl
  | mul l r =>
    simp only [LState.emitNode] at h
    cases hal : s.allocWitness i with
    | mk s1 out =>
      rw [hal] at h
      obtain ⟨he, ho, hp⟩ := alloc_fields' hal
      cases hl : s1.resolve l with
      | error _ => simp [hl] at h
      | ok a =>
        cases hr : s1.resolve r with
        | error _ => simp [hl, hr] at h
        | ok bw =>
          simp only [hl, hr, Except.ok.injEq] at h
          subst h
          refine E_finish hE he ho hp (alloc_emitted' hal) [Op.mul a bw out] (by simp [dshape, Op.add, Op.mul, Op.mulAdd, Op.horner]) rfl
            (by simp [LState.setW, LState.pushOp]) rfl rfl
            ⟨_, List.mem_singleton.mpr rfl, Or.inr (by simp [Op.mul, Order.opWrites])⟩ (noAdd _ ?_)
          intro op' hop' a' b' o io
          simp only [List.mem_singleton] at hop'
          subst hop'
          simp [Op.mul]
  | div l r =>
    simp only [LState.emitNode] at h
    cases hal : s.allocWitness i with
    | mk s1 q =>
      rw [hal] at h
      obtain ⟨he, ho, hp⟩ := alloc_fields' hal
      cases hl : s1.resolve l with
      | error _ => simp [hl] at h
      | ok a =>
        cases hr : s1.resolve r with
        | error _ => simp [hl, hr] at h
        | ok bw =>
          simp only [hl, hr, Except.ok.injEq] at h
          subst h
          refine E_finish hE he ho hp (alloc_emitted' hal) [Op.mul bw q a] (by simp [dshape, Op.add, Op.mul, Op.mulAdd, Op.horner]) rfl
            (by simp [LState.setW, LState.pushOp]) rfl rfl
            ⟨_, List.mem_singleton.mpr rfl, Or.inl (by simp [Op.mul, Order.opReads])⟩ (noAdd _ ?_)
          intro op' hop' a' b' o io
          simp only [List.mem_singleton] at hop'
          subst hop'
          simp [Op.mul]
  | mulAdd a0 b0 c0 =>
    simp only [LState.emitNode] at h
    cases hal : s.allocWitness i with
    | mk s1 out =>
      rw [hal] at h
      obtain ⟨he, ho, hp⟩ := alloc_fields' hal
      cases h1 : s1.resolve a0 with
      | error _ => simp [h1] at h
      | ok wa =>
        cases h2 : s1.resolve b0 with
        | error _ => simp [h1, h2] at h
        | ok wb =>
          cases h3 : s1.resolve c0 with
          | error _ => simp [h1, h2, h3] at h
          | ok wc =>
            simp only [h1, h2, h3, Except.ok.injEq] at h
            subst h
            refine E_finish hE he ho hp (alloc_emitted' hal) [Op.mulAdd wa wb wc out] (by simp [dshape, Op.add, Op.mul, Op.mulAdd, Op.horner]) rfl
              (by simp [LState.setW, LState.pushOp]) rfl rfl
              ⟨_, List.mem_singleton.mpr rfl, Or.inr (by simp [Op.mulAdd, Order.opWrites])⟩ (noAdd _ ?_)
            intro op' hop' a' b' o io
            simp only [List.mem_singleton] at hop'
            subst hop'
            simp [Op.mulAdd]
  | horner acc al pz px =>
    simp only [LState.emitNode] at h
    cases hal : s.allocWitness i with
    | mk s1 out =>
      rw [hal] at h
      obtain ⟨he, ho, hp⟩ := alloc_fields' hal
      cases h1 : s1.resolve acc with
      | error _ => simp [h1] at h
      | ok w1 =>
        cases h2 : s1.resolve al with
        | error _ => simp [h1, h2] at h
        | ok w2 =>
          cases h3 : s1.resolve pz with
          | error _ => simp [h1, h2, h3] at h
          | ok w3 =>
            cases h4 : s1.resolve px with
            | error _ => simp [h1, h2, h3, h4] at h
            | ok w4 =>
              simp only [h1, h2, h3, h4, Except.ok.injEq] at h
              subst h
              refine E_finish hE he ho hp (alloc_emitted' hal) [Op.horner w4 w2 w3 out w1] (by simp [dshape, Op.add, Op.mul, Op.mulAdd, Op.horner]) rfl
                (by simp [LState.setW, LState.pushOp]) rfl rfl
                ⟨_, List.mem_singleton.mpr rfl, Or.inr (by simp [Op.horner, Order.opWrites])⟩ (noAdd _ ?_)
              intro op' hop' a' b' o io
              simp only [List.mem_singleton] at hop'
              subst hop'
              simp [Op.horner]
  | boolCheck v =>
    simp only [LState.emitNode] at h
    cases hal : s.allocWitness i with
    | mk s1 out =>
      rw [hal] at h
      obtain ⟨he, ho, hp⟩ := alloc_fields' hal
      cases h1 : s1.resolve v with
      | error _ => simp [h1] at h
      | ok vw =>
        cases h2 : s1.resolve 0 with
        | error _ => simp [h1, h2] at h
        | ok zw =>
          simp only [h1, h2, Except.ok.injEq] at h
          subst h
          refine E_finish hE he ho hp (alloc_emitted' hal) [.alu .boolCheck vw zw (some vw) out none] (by simp [dshape, Op.add, Op.mul, Op.mulAdd, Op.horner]) rfl
            (by simp [LState.setW, LState.pushOp]) rfl rfl
            ⟨_, List.mem_singleton.mpr rfl, Or.inr (by simp [Order.opWrites])⟩ (noAdd _ ?_)
          intro op' hop' a' b' o io
          simp only [List.mem_singleton] at hop'
          subst hop'
          simp
  | sub l r =>
    simp only [LState.emitNode] at h
    cases hal : s.allocWitness i with
    | mk s1 res =>
      rw [hal] at h
      obtain ⟨he, ho, hp⟩ := alloc_fields' hal
      cases h1 : s1.resolve l with
      | error _ => simp [h1] at h
      | ok lw =>
        simp only [h1] at h
        split at h
        · rename_i x1 x2 c hnl hnr
          cases hal2 : s1.allocWitness b.nodes.size with
          | mk s2 nw =>
            rw [hal2] at h
            simp only [Except.ok.injEq] at h
            subst h
            obtain ⟨he2, ho2, hp2⟩ := alloc_fields' hal2
            refine E_finish hE (he2.trans he) (ho2.trans ho) (hp2.trans hp)
              ((alloc_emitted' hal2).trans (alloc_emitted' hal))
              [.const nw (-c), Op.add lw nw res] (by simp [dshape, Op.add, Op.mul, Op.mulAdd, Op.horner]) rfl
              (by simp [LState.setW, LState.pushOp]) rfl rfl
              ⟨Op.add lw nw res, by simp, Or.inr (by simp [Op.add, Order.opWrites])⟩ ?_
            intro op' hop' a' b' o io heq
            simp only [List.mem_cons, List.not_mem_nil, or_false] at hop'
            rcases hop' with rfl | rfl
            · cases heq
            · simp only [Op.add, Op.alu.injEq, true_and] at heq
              rw [← heq.1]
              exact child he h1
        · rename_i hnot
          cases h2 : s1.resolve r with
          | error _ => simp [h2] at h
          | ok rw' =>
            simp only [h2, Except.ok.injEq] at h
            subst h
            refine E_finish hE he ho hp (alloc_emitted' hal) [Op.add rw' res lw] (by simp [dshape, Op.add, Op.mul, Op.mulAdd, Op.horner]) rfl
              (by simp [LState.setW, LState.pushOp]) rfl rfl
              ⟨_, List.mem_singleton.mpr rfl, Or.inl (by simp [Op.add, Order.opReads])⟩ ?_
            intro op' hop' a' b' o io heq
            simp only [List.mem_singleton] at hop'
            subst hop'
            simp only [Op.add, Op.alu.injEq, true_and] at heq
            rw [← heq.1]
            exact child he h2
  | npCall op ins =>
    simp only [LState.emitNode] at h
    exact (emitNpCall_E op hE h).1
  | npOut call idx =>
    simp only [LState.emitNode] at h
    split at h
    · rename_i op ins hcall
      split at h
      · cases h
      · rename_i s1 hs1
        obtain ⟨hE1, outs, houts, hmapped⟩ := emitNpCall_E op hE hs1
        split at h
        · cases h
          exact hE1
        · rename_i hw
          -- unreachable: the call's outputs, this node among them, were all mapped by `emit_npo_call`
          obtain ⟨o, ho, hoi⟩ := npOut_mem hi hcall houts
          obtain ⟨w, hw'⟩ := hmapped o ho
          rw [hoi, hw] at hw'
          cases hw'
    · cases h

end emit

/-! ### Assembly -/

section assembly
variable [Neg K]

/-- **The lowering's output is def-before-use for first add operands — total.** For every builder
state whose private-input nodes carry distinct positions below `privCount`. -/
theorem lower_ADef (b : BState K) (hpo : privOk b = true) :
    ∀ l, lower b = .ok l → ADef l.privRows.toList l.ops.toList ∧ ∀ op ∈ l.ops.toList, dshape op = true := by
  intro l h
  rw [lower_eq] at h
  have Q0 : Q b (lowerInit b) := by
    refine ⟨by simp [lowerInit], ?_⟩
    intro x pos w _ hw
    simp only [lowerInit, getD_replicate] at hw
    cases hw
  have A0 : ∀ op ∈ (lowerInit b).ops.toList, isAluOp op = false := by
    intro op hop
    simp [lowerInit] at hop
  have X0 : X b (lowerInit b) := by
    refine ⟨by simp [lowerInit], ?_, ?_⟩
    · intro k
      simp only [lowerInit, Array.getD_eq_getD_getElem?, Array.getElem?_replicate]
      split <;> rfl
    · intro x w hw
      simp only [lowerInit, getD_replicate] at hw
      cases hw
  simp only [bind, Except.bind, forNodes] at h
  split at h
  · cases h
  · rename_i s1 hs1
    have J1 := fold_inv b.nodes fConst (lowerInit b)
      (fun _ s => (Q b s ∧ ∀ op ∈ s.ops.toList, isAluOp op = false) ∧ X b s) ⟨⟨Q0, A0⟩, X0⟩
      (fun k s s' hk _ hI hf =>
        ⟨fConst_Q (Array.getElem?_eq_getElem hk) hI.1.1 hI.1.2 hf, fConst_X hI.2 hf⟩)
      _ (Nat.le_refl _) s1 hs1
    split at h
    · cases h
    · rename_i s2 hs2
      have J2 := fold_inv b.nodes fPub s1
        (fun _ s => (Q b s ∧ ∀ op ∈ s.ops.toList, isAluOp op = false) ∧ X b s) J1
        (fun k s s' hk _ hI hf =>
          ⟨fPub_Q (Array.getElem?_eq_getElem hk) hI.1.1 hI.1.2 hf, fPub_X hI.2 hf⟩)
        _ (Nat.le_refl _) s2 hs2
      split at h
      · cases h
      · rename_i s3 hs3
        have J3 := fold_inv b.nodes fPriv s2
          (fun _ s => (Q b s ∧ ∀ op ∈ s.ops.toList, isAluOp op = false) ∧ X b s) J2
          (fun k s s' hk _ hI hf =>
            ⟨fPriv_Q hpo (Array.getElem?_eq_getElem hk) (by rw [hI.2.esz]; omega) hI.1.1 hI.1.2 hf,
              fPriv_X (Array.getElem?_eq_getElem hk) hI.2 hf⟩)
          _ (Nat.le_refl _) s3 hs3
        have E3 : EInv b s3.privRows.toList s3 := by
          refine ⟨rfl, J3.2.esz, ?_, ADef_of_noAlu _ _ J3.1.2, fun op hop => dshape_of_noAlu op (J3.1.2 op hop), ?_⟩
          · intro x w hw
            rcases J3.2.m x w hw with ⟨pos, hx⟩ | h2
            · exact Or.inl (Array.mem_toList_iff.mpr (Array.mem_of_getElem? (J3.1.1.pr x pos w hx hw)))
            · exact Or.inr h2
          · intro opId hop
            rw [J3.2.noEmit opId] at hop
            cases hop
        split at h
        · cases h
        · rename_i s4 hs4
          have J4 := fold_inv b.nodes (fun st i e => st.emitNode b.nodes b.npOps i e) s3
            (fun _ s => EInv b s3.privRows.toList s) E3
            (fun k s s' hk _ hI hf => emit_E (Array.getElem?_eq_getElem hk) hI hf)
            _ (Nat.le_refl _) s4 hs4
          split at h
          · cases h
          · simp only [Except.ok.injEq] at h
            obtain ⟨hbo, hbp⟩ := backfill_fields (List.range (b.nodes.size + 1)) s4
            subst h
            simp only []
            rw [hbo, hbp, J4.priv]
            exact ⟨J4.a, J4.sh⟩

/-- … in the decidable form the fusion theorems use. -/
theorem lower_aDefined (b : BState K) (hpo : privOk b = true) (l : Lowered K) (hl : lower b = .ok l) :
    Order.aDefined l.privRows.toList l.ops.toList = true :=
  aDefined_of_ADef _ _ (lower_ADef b hpo l hl).1

end assembly

end P3R.C18L

#print axioms P3R.C18L.lower_aDefined
