/-
L14 (cache part) — the preparation caches of `recursion/src/recursion.rs`, **after the repair of
findings F10 and F10b** (`fixes/C17-1.diff`, `fixes/C17-2.diff`).

Rust being modelled
* `aggregation_circuit_fingerprint(circuit)` = `(witness_count, public_flat_len,
  private_flat_len, ops.len(), structure_digest)` where `structure_digest` is a 64-bit FNV-1a
  digest of the rendering of `(ops, public_rows, private_input_rows)`
                                                    → `fingerprint` (counters), `fingerprintX dg`
  The digest function is a *parameter* `dg` of the model (theorems hold for every `dg`; what
  is assumed of it is stated as a hypothesis where it is needed).
* `AggregationPrepCache { circuit_fingerprint, circuit_prover_data, prover }` → `Entry`
  (`circuit_prover_data` and `prover` are both functions of the job the entry was filled for:
  the verification circuit *and* the `ProveNextLayerParams`; the entry therefore records the
  job, and "the data of the entry" is `prepOf entry.job`)
* `prove_aggregation_layer` / `prove_aggregation_layer_cross` with
  `prep_cache : Option<&mut Option<AggregationPrepCache>>`                → `Step.agg job slot`
    - hit  (slot offered, filled, stored fingerprint = fingerprint of the current circuit):
      prove with the *stored* data, slot unchanged;
    - miss (slot offered but empty or fingerprint different): recompute for the current job,
      prove with that, overwrite the slot;
    - no slot offered: recompute, nothing stored.
  The comparison reads the circuit only: `params` / `config` are not part of the key.
* `NextLayerPrepCache { circuit_fingerprint, circuit_prover_data, prover }`, produced by
  `build_next_layer_prep(circuit', params')` for a job chosen by the caller
* `prove_next_layer(.., prep : Option<&NextLayerPrepCache>)`               → `Step.next job prep`
    - `Some(cached)` with `cached.circuit_fingerprint` = fingerprint of the current circuit:
      prove with `cached`;
    - `Some(cached)` otherwise: **refused** (`Err(InvalidProofShape)`), no proof;
    - `None`: recompute.
* the specification ("uncached"): every step proves with the data prepared for its own job.

The caller may keep any number of cache variables; `Step.agg` names the variable by a number.
Everything is generic in the type of jobs `J` and of keys `F`; the driver instantiates
`J = circuit id × params id` and `key = extended fingerprint of the circuit`.
-/
import P3R.Model.Roles

namespace P3R.Cache

/-- The four counters of `AggregationCircuitFingerprint`. -/
structure Fingerprint where
  witnessCount : Nat
  publicFlatLen : Nat
  privateFlatLen : Nat
  opsLen : Nat
deriving DecidableEq, Repr

/-- The counters read by `aggregation_circuit_fingerprint`. `public_flat_len` /
`private_flat_len` are the numbers of public / private rows (`runner.rs` rejects a circuit where
they differ). -/
def fingerprint {K} (c : Circuit K) : Fingerprint :=
  ⟨c.witnessCount, c.pubRows.size, c.privRows.size, c.ops.size⟩

/-- What `structure_digest` is computed from: the op list and the two row maps. -/
abbrev Structure (K : Type) := List (Op K) × List Nat × List Nat

def structureOf {K} (c : Circuit K) : Structure K :=
  (c.ops.toList, c.pubRows.toList, c.privRows.toList)

/-- `AggregationCircuitFingerprint` after the repair: counters and structure digest. -/
structure FingerprintX (S : Type) where
  counters : Fingerprint
  digest : S
deriving DecidableEq, Repr

/-- `aggregation_circuit_fingerprint` after the repair, for a digest function `dg`. -/
def fingerprintX {K S} (dg : Structure K → S) (c : Circuit K) : FingerprintX S :=
  ⟨fingerprint c, dg (structureOf c)⟩

/-- `AggregationPrepCache` / `NextLayerPrepCache`: the stored fingerprint and the job whose
preparation is stored. -/
structure Entry (F J : Type) where
  key : F
  job : J
deriving DecidableEq, Repr

/-- One call of the recursion API. -/
inductive Step (J : Type) where
  /-- `prove_aggregation_layer{,_cross}(…, params, prep_cache)`; `slot = none` is
  `prep_cache = None`, `slot = some k` is `Some(&mut cache_k)`. -/
  | agg (job : J) (slot : Option Nat)
  /-- `prove_next_layer(…, params, prep)`; `prep = some j'` is a `NextLayerPrepCache` built by
  `build_next_layer_prep` for job `j'`. -/
  | next (job : J) (prep : Option J)
deriving DecidableEq, Repr

def Step.job {J} : Step J → J
  | .agg j _ => j
  | .next j _ => j

/-- Every job a step mentions: its own and the one its prepared cache was built for. -/
def Step.mentioned {J} : Step J → List J
  | .agg j _ => [j]
  | .next j none => [j]
  | .next j (some j') => [j, j']

/-- What one call did: whether it proved with stored data, and for which job the data it
proved with had been prepared; `used = none`: the call was refused with an error. -/
structure StepOut (J : Type) where
  hit : Bool
  used : Option J
deriving DecidableEq, Repr

/-- The caller's cache variables (absent = `None`). -/
abbrev Slots (F J : Type) := List (Nat × Entry F J)

def Slots.get {F J} (s : Slots F J) (k : Nat) : Option (Entry F J) := s.lookup k

def Slots.set {F J} (s : Slots F J) (k : Nat) (e : Entry F J) : Slots F J :=
  (k, e) :: s.filter fun p => p.1 != k

variable {F J : Type} [DecidableEq F]

/-- One call. -/
def step (key : J → F) (s : Slots F J) : Step J → Slots F J × StepOut J
  | .agg job none => (s, ⟨false, some job⟩)
  | .agg job (some k) =>
    match s.get k with
    | some e =>
      if e.key = key job then (s, ⟨true, some e.job⟩)
      else (s.set k ⟨key job, job⟩, ⟨false, some job⟩)
    | none => (s.set k ⟨key job, job⟩, ⟨false, some job⟩)
  | .next job none => (s, ⟨false, some job⟩)
  | .next job (some j') =>
    if key j' = key job then (s, ⟨true, some j'⟩) else (s, ⟨false, none⟩)

/-- A sequence of calls. -/
def run (key : J → F) : Slots F J → List (Step J) → Slots F J × List (StepOut J)
  | s, [] => (s, [])
  | s, st :: rest =>
    let (s1, o) := step key s st
    let (s2, os) := run key s1 rest
    (s2, o :: os)

/-- The specification: every call proves with the data prepared for its own job. -/
def uncached (h : List (Step J)) : List J := h.map Step.job

/-- Every job mentioned by a history. -/
def mentioned (h : List (Step J)) : List J := h.flatMap Step.mentioned

end P3R.Cache
