/-
C03 — composition: the emitted op list alone implies the source program.

`compile_chain_sound`: for a builder state `b` whose lowering `l` passes `lowerCheck`, whose ops
are well formed, and whose fusion pass passes `fusionCheck` (both certificate checks are run
by the driver on every program of the correspondence run), every assignment `w` satisfying
the *final* op list (after de-duplication and fusion — exactly `Circuit::ops`) yields an
assignment `w'`, equal to `w` outside the fused product slots, such that every node relation
and every `connect` of the source holds under `v e := w' (resolve rw (slot e))` —
`resolve rw ∘ slot` being the final `expr_to_widx`.
-/
import P3R.Props.C03Dedup
import P3R.Props.C03Fusion
import P3R.Props.C03Lower

namespace P3R.C03
open P3R

variable {K : Type} [CommRing K] [DecidableEq K]

theorem fuse_eq_fuseWithSites (ops : Array (Op K)) (inputs : List Nat) :
    fuse ops inputs = (fuseWithSites ops inputs).1 := rfl

/-- The driver's executable well-formedness test implies `Op.WF`. -/
theorem opWF_sound (o : Op K) (h : opWF o = true) : Op.WF o := by
  cases o with
  | alu k a b c out io =>
    cases k <;> simp_all [opWF, Op.WF, AluWF]
  | _ => trivial

/-- **C03.** No relation of the source survives only outside the emitted ops. -/
theorem compile_chain_sound (b : BState K) (l : Lowered K) (inputs : List Nat)
    (hLC : lowerCheck b l = true)
    (hWF : ∀ o ∈ l.ops.toList, Op.WF o)
    (hFC : fusionCheck (dedup l.ops).1.toList (fuseWithSites (dedup l.ops).1 inputs).1.toList
      (fuseWithSites (dedup l.ops).1 inputs).2 = true)
    (w pub : Nat → K)
    (hsat : Sat w pub (fuse (dedup l.ops).1 inputs).toList) :
    ∃ w' : Nat → K,
      (∀ x, (∀ s ∈ (fuseWithSites (dedup l.ops).1 inputs).2, s.m ≠ x) → w' x = w x) ∧
      (∀ i e, b.nodes[i]? = some e →
        nodeRel (fun e => w' (resolve (dedup l.ops).2 (l.slot e))) pub i e) ∧
      (∀ ab ∈ b.connects,
        w' (resolve (dedup l.ops).2 (l.slot ab.1)) = w' (resolve (dedup l.ops).2 (l.slot ab.2))) := by
  rw [fuse_eq_fuseWithSites] at hsat
  obtain ⟨w', hoff, hsat1⟩ := fusion_check_sound _ _ _ hFC w pub hsat
  have hsat2 := dedup_sat_back w' pub l.ops hWF hsat1
  obtain ⟨hnodes, hconn⟩ := lower_check_sound b l hLC (fun x => w' (resolve (dedup l.ops).2 x)) pub hsat2
  exact ⟨w', hoff, hnodes, hconn⟩

end P3R.C03
