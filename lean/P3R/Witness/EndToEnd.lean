/-
Witnesses for `P3R.E2E` (Props/EndToEnd.lean): both capstones instantiated on ONE concrete program.

Program over `ℤ/7` (`bE`, built through the builder API, `ReachablePrim`):

    x  = public  (e1)         y = private (e2)        u = private (e3)
    e4 = x · y                e5 = e4 + y             -- fused into one MulAdd row by the optimiser
    e6 = u − x                                        -- lowered as the BACKWARD row  x + e6 = u
    z  = public  (e7)         e8 = e5 · e6            connect(e8, z)

Compiled (`e_facts`, evaluated): `Const 0 0; Public 1; Public 2; MulAdd(1,3,+3 → 6, product slot 5);
Add(1, 7 → 4); Mul(6, 7 → 2)` — 6 ops from 7 lowered ones, empty rewrite map, no operand off the bus.
Inputs `x = 1, y = 3, u = 4, z = 4` (`(1·3+3)·(4−1) = 18 = 4 mod 7`).

* `e_reachable`, `e_guards`, `e_compiles` — the hypotheses on the program hold (by evaluation);
* `completeness_applies` — `e2e_completeness`: the run from the supplied inputs succeeds and the trace built
  from the returned witness is `Accepted`;
* `soundness_applies` — `e2e_soundness` applied to that accepted trace: an assignment to the EXPRESSIONS under
  which the source program holds; `source_consequence` reads the program's statement off it
  (`(x·y + y)·(u − x) = z` for the public `x, z` and the attested private `y, u`);
* `roundtrip_applies` — `e2e_roundtrip`; `completeness_reachable_applies`, `guards_from_reachability` — the
  runner-side guards and "node 0 is the zero constant" as consequences of reachability (`Props/EndToEndReach`);
* `gen_applies` — the every-`D` capstones instantiated at `D = 1` (`φ = id`, base kind, cells `[x]`);
* `run_evaluated` — the same run evaluated directly (model and theorem agree);
* `tampered_not_accepted` — non-triviality of `Accepted`: changing the `out` cell of the MulAdd row breaks
  the row constraint.
-/
import P3R.Props.EndToEndReach
import Mathlib.Data.ZMod.Basic
import Mathlib.Algebra.Field.ZMod
import Mathlib.Tactic.NormNum.Prime
import Mathlib.Tactic.IntervalCases
open P3R P3R.C02T P3R.C09R P3R.C03 P3R.C04 P3R.C11 P3R.E2E

namespace P3R.Witness.EndToEnd

abbrev K := ZMod 7

instance : Fact (Nat.Prime 7) := ⟨by norm_num⟩

def q1 : BState K := (BState.init : BState K).allocPublic.1     -- x  = e1
def q2 : BState K := q1.allocPrivate.1                          -- y  = e2
def q3 : BState K := q2.allocPrivate.1                          -- u  = e3
def q4 : BState K := (q3.mul 1 2).1                             -- e4 = x * y
def q5 : BState K := (q4.add 4 2).1                             -- e5 = e4 + y   (fused)
def q6 : BState K := (q5.sub 3 1).1                             -- e6 = u - x    (backward row)
def q7 : BState K := q6.allocPublic.1                           -- z  = e7
def q8 : BState K := (q7.mul 5 6).1                             -- e8 = e5 * e6
def bE : BState K := q8.connect 8 7                             -- e8 == z

theorem e_reachable : ReachablePrim bE := by
  have h1 : ReachablePrim q1 := .allocPublic .init
  have h2 : ReachablePrim q2 := .allocPrivate h1
  have h3 : ReachablePrim q3 := .allocPrivate h2
  have h4 : ReachablePrim q4 := .mul h3 (by decide +kernel) (by decide +kernel)
  have h5 : ReachablePrim q5 := .add h4 (by decide +kernel) (by decide +kernel)
  have h6 : ReachablePrim q6 := .sub h5 (by decide +kernel) (by decide +kernel)
  have h7 : ReachablePrim q7 := .allocPublic h6
  have h8 : ReachablePrim q8 := .mul h7 (by decide +kernel) (by decide +kernel)
  exact .connect h8 (by decide +kernel) (by decide +kernel)

theorem e_shape : bE.nodes.size = 9 ∧ bE.connects = [(8, 7)] ∧
    bE.nodes[4]? = some (Expr.mul 1 2) ∧ bE.nodes[5]? = some (Expr.add 4 2) ∧
    bE.nodes[6]? = some (Expr.sub 3 1) ∧ bE.nodes[8]? = some (Expr.mul 5 6) ∧
    bE.nodes[1]? = some (Expr.pub 0) ∧ bE.nodes[7]? = some (Expr.pub 1) := by
  decide +kernel

theorem e_guards : C02S.pubOk bE = true ∧ C02S.primOk bE = true ∧ C02O.pubFull bE = true := by
  decide +kernel

/-- The compiled op list. -/
def opsE : List (Op K) :=
  [.const 0 0, .pub 1 0, .pub 2 1, .alu .mulAdd 1 3 (some 3) 6 (some 5), .alu .add 1 7 none 4 none,
   .alu .mul 6 7 none 2 none]

def pubE : Nat → K := fun i => [1, 4].getD i 0
def wE : Nat → K := fun j => [0, 1, 4, 3, 4, 3, 6, 3].getD j 0
def w0E : Array (Option K) := #[none, some 1, some 4, some 3, some 4, none, none, none]

/-- Everything the capstones need to know about the compiled circuit, by evaluation: the op list (a fused
`MulAdd`, the backward `Add`), the empty rewrite map, the input pattern, `expr_to_widx`, and that the role
scan puts no operand off the bus. -/
theorem e_facts :
    (match compile bE with
     | .ok c =>
       decide (c.ops.toList = opsE) && decide (c.rewrite = []) &&
       decide (C02S.allInputsSet c = #[false, true, true, true, true, false, false, false]) &&
       decide (c.e2w = #[some 0, some 1, some 3, some 4, some 5, some 6, some 7, some 2, some 2, none]) &&
       (match genPrep c with
        | some p => p.events.all fun e => e.2 != .skip
        | none => false)
     | .error _ => false) = true := by
  decide +kernel

theorem e_compiles : ∃ c p, compile bE = .ok c ∧ genPrep c = some p := by
  have h := e_facts
  cases hc : compile bE with
  | error e => rw [hc] at h; cases h
  | ok c =>
    rw [hc] at h
    cases hp : genPrep c with
    | none => simp [hp] at h
    | some p => exact ⟨c, p, rfl, hp⟩

theorem facts_of {c : Circuit K} {p : Prep} (hc : compile bE = .ok c) (hp : genPrep c = some p) :
    c.ops.toList = opsE ∧ c.rewrite = [] ∧
    C02S.allInputsSet c = #[false, true, true, true, true, false, false, false] ∧
    (∀ e ∈ p.events, e.2 ≠ .skip) := by
  have h := e_facts
  rw [hc] at h
  simp only [hp, Bool.and_eq_true, decide_eq_true_eq, List.all_eq_true, bne_iff_ne, ne_eq] at h
  exact ⟨h.1.1.1.1, h.1.1.1.2, h.1.1.2, h.2⟩

theorem agreeE : C02.Agree w0E wE := by
  intro j x h
  have hj : j < 8 := by
    by_contra hge
    have : w0E[j]? = none := Array.getElem?_eq_none (by simp [w0E]; omega)
    simp [slot, this] at h
  interval_cases j <;> simp [slot, w0E] at h <;> subst h <;> decide

theorem hallE (canon : K → Nat) :
    ∀ op ∈ opsE, op.holds wE pubE ∧ C02.RunnerWrites wE op ∧ C02.HintAgrees canon wE op := by
  intro op hop
  simp only [opsE, List.mem_cons, List.not_mem_nil, or_false] at hop
  rcases hop with rfl | rfl | rfl | rfl | rfl | rfl <;>
    refine ⟨?_, ?_, ?_⟩ <;> simp only [Op.holds, C02.RunnerWrites, C02.HintAgrees] <;> decide

/-- **`e2e_completeness` applies**: the honest run succeeds and its trace is accepted. -/
theorem completeness_applies (c : Circuit K) (p : Prep) (hc : compile bE = .ok c)
    (hp : genPrep c = some p) :
    ∃ t, runFrom ZMod.val c w0E = .ok t ∧ (∀ j, j < t.witness.size → t.witness.getD j 0 = wE j) ∧
      Accepted pubE c p ((p.events.map Prod.fst).map fun j => t.witness.getD j 0) := by
  obtain ⟨hops, hrw, hsh, _⟩ := facts_of hc hp
  refine e2e_completeness ZMod.val bE e_reachable e_guards.1 e_guards.2.1 e_guards.2.2 c hc p hp
    w0E wE pubE agreeE ?_ ?_ ?_
  · rw [hsh]; decide +kernel
  · rw [hops]; exact hallE _
  · rw [hrw]; intro dc hdc; cases hdc

/-- **`e2e_soundness` applies** to the accepted trace: the source program holds for an assignment to its
expressions. -/
theorem soundness_applies (c : Circuit K) (p : Prep) (hc : compile bE = .ok c)
    (hp : genPrep c = some p) (vs : List K) (hacc : Accepted pubE c p vs) :
    ∃ (l : Lowered K) (w' : Nat → K), lower bE = .ok l ∧
      SourceSat bE pubE (fun e => w' (eslot c.rewrite l e)) := by
  obtain ⟨_, _, _, hns⟩ := facts_of hc hp
  obtain ⟨l, hl, _, _, w', _, _, _, hsrc, _⟩ :=
    e2e_soundness bE e_reachable.reachable.ok c hc p hp hns pubE vs hacc
  exact ⟨l, w', hl, hsrc⟩

/-- What an accepted proof attests for this program: there are private `y, u` with
`(x·y + y)·(u − x) = z` for the public inputs `x = pub 0`, `z = pub 1`. -/
theorem source_consequence {v : Nat → K} (h : SourceSat bE pubE v) :
    (pubE 0 * v 2 + v 2) * (v 3 - pubE 0) = pubE 1 := by
  obtain ⟨_, _, h4, h5, h6, h8, h1, h7⟩ := e_shape
  have r4 := h.1 4 _ h4
  have r5 := h.1 5 _ h5
  have r6 := h.1 6 _ h6
  have r8 := h.1 8 _ h8
  have r1 := h.1 1 _ h1
  have r7 := h.1 7 _ h7
  have rc : v 8 = v 7 := h.connect (by rw [e_shape.2.1]; simp)
  simp only [nodeRel] at r4 r5 r6 r8 r1 r7
  rw [← r1, ← r7, ← rc, r8, r5, r6, r4]

/-- Both capstones, chained, on the concrete program: a circuit and a role scan exist, the run succeeds,
the trace is accepted, and the accepted trace attests the program's statement. -/
theorem e2e_nonvacuous :
    ∃ (c : Circuit K) (p : Prep) (t : Traces K) (y u : K), compile bE = .ok c ∧ genPrep c = some p ∧
      runFrom ZMod.val c w0E = .ok t ∧
      Accepted pubE c p ((p.events.map Prod.fst).map fun j => t.witness.getD j 0) ∧
      (pubE 0 * y + y) * (u - pubE 0) = pubE 1 := by
  obtain ⟨c, p, hc, hp⟩ := e_compiles
  obtain ⟨t, hrun, _, hacc⟩ := completeness_applies c p hc hp
  obtain ⟨l, w', _, hsrc⟩ := soundness_applies c p hc hp _ hacc
  exact ⟨c, p, t, _, _, hc, hp, hrun, hacc, source_consequence hsrc⟩

/-- `e2e_roundtrip` applies. -/
theorem roundtrip_applies (c : Circuit K) (p : Prep) (hc : compile bE = .ok c)
    (hp : genPrep c = some p) :
    ∃ (t : Traces K) (l : Lowered K) (w' : Nat → K), runFrom ZMod.val c w0E = .ok t ∧ lower bE = .ok l ∧
      (∀ x ∈ p.events.map Prod.fst, (∀ s ∈ fusedSites l, s.m ≠ x) → w' x = t.witness.getD x 0) ∧
      SourceSat bE pubE (fun e => w' (eslot c.rewrite l e)) := by
  obtain ⟨hops, hrw, hsh, hns⟩ := facts_of hc hp
  refine e2e_roundtrip ZMod.val bE e_reachable e_guards.1 e_guards.2.1 e_guards.2.2 c hc p hp hns
    w0E wE pubE agreeE ?_ ?_ ?_
  · rw [hsh]; decide +kernel
  · rw [hops]; exact hallE _
  · rw [hrw]; intro dc hdc; cases hdc

/-- The guards `e_guards` evaluated above are also consequences of reachability (`Props/EndToEndReach`):
`e2e_completeness_reachable` applies with `e_reachable` as the only hypothesis on the program. -/
theorem completeness_reachable_applies (c : Circuit K) (p : Prep) (hc : compile bE = .ok c)
    (hp : genPrep c = some p) :
    ∃ t, runFrom ZMod.val c w0E = .ok t ∧ (∀ j, j < t.witness.size → t.witness.getD j 0 = wE j) ∧
      Accepted pubE c p ((p.events.map Prod.fst).map fun j => t.witness.getD j 0) := by
  obtain ⟨hops, hrw, hsh, _⟩ := facts_of hc hp
  refine e2e_completeness_reachable ZMod.val bE e_reachable c hc p hp w0E wE pubE agreeE ?_ ?_ ?_
  · rw [hsh]; decide +kernel
  · rw [hops]; exact hallE _
  · rw [hrw]; intro dc hdc; cases hdc

theorem guards_from_reachability :
    C02S.pubOk bE = true ∧ C02S.primOk bE = true ∧ C02O.pubFull bE = true ∧
    bE.nodes[0]? = some (Expr.const 0) :=
  ⟨P3R.E2ER.Reachable.pubOk e_reachable.reachable, P3R.E2EN.ReachablePrim.primOk e_reachable,
   P3R.E2ER.Reachable.pubFull e_reachable.reachable, P3R.E2ER.Reachable.node0 e_reachable.reachable⟩

/-! ### The every-`D` capstones at `D = 1` (`K = L = ℤ/7`, `φ = id`, base multiplication kind) -/

theorem kindRoot_one : KindRoot (RingHom.id K) 1 (ExtKind.base : ExtKind K) (0 : K) := rfl

theorem coeffIndep_one : CoeffIndep (RingHom.id K) (0 : K) 1 := by
  intro f g h i hi
  have hi0 : i = 0 := by omega
  subst hi0
  simpa [evF] using h

/-- `e2e_completeness_gen` then `e2e_soundness_gen` apply (coefficient cells `[x]`). -/
theorem gen_applies (c : Circuit K) (p : Prep) (hc : compile bE = .ok c) (hp : genPrep c = some p) :
    ∃ (t : Traces K) (l : Lowered K) (w' : Nat → K), runFrom ZMod.val c w0E = .ok t ∧
      lower bE = .ok l ∧ SourceSat bE pubE (fun e => w' (eslot c.rewrite l e)) := by
  obtain ⟨hops, hrw, hsh, hns⟩ := facts_of hc hp
  obtain ⟨t, hrun, _, hacc⟩ := e2e_completeness_gen (RingHom.id K) (0 : K) 1 ExtKind.base (1 : K)
    coeffIndep_one Nat.one_pos kindRoot_one one_ne_zero (fun x => [x]) (fun x => ev_one_single 0 x)
    ZMod.val bE e_reachable e_guards.1 e_guards.2.1 e_guards.2.2 c hc p hp w0E wE pubE agreeE
    (by rw [hsh]; decide +kernel) (by rw [hops]; exact hallE _)
    (by rw [hrw]; intro dc hdc; cases hdc)
  obtain ⟨l, hl, _, cv, w', _, _, _, hsrc⟩ := e2e_soundness_gen (RingHom.id K) (0 : K) 1
    ExtKind.base (1 : K) Nat.one_pos kindRoot_one one_ne_zero bE e_reachable.reachable.ok c hc p hp
    hns pubE _ hacc
  exact ⟨t, l, w', hrun, hl, hsrc⟩

/-- The same run, evaluated: it succeeds and returns `wE` (slot 5, the fused product slot, included). -/
theorem run_evaluated :
    (match compile bE with
     | .ok c =>
       (match runFrom ZMod.val c w0E with
        | .ok t => decide (t.witness = #[0, 1, 4, 3, 4, 3, 6, 3])
        | .error _ => false)
     | .error _ => false) = true := by
  decide +kernel

/-- `Accepted` is not trivially true: with the `out` cell of the MulAdd row changed from 6 to 5 the row
constraint of that row fails (cells in scan order: `[c0 | x | z | out a c b | out a b | out a b]`). -/
theorem tampered_not_accepted :
    rowsOk pubE opsE [0, 1, 4, 6, 1, 3, 3, 4, 1, 3, 4, 6, 3] none ∧
    ¬ rowsOk pubE opsE [0, 1, 4, 5, 1, 3, 3, 4, 1, 3, 4, 6, 3] none := by
  constructor
  · simp only [rowsOk, opsE, opSlots, rowOkVals, List.take, List.drop, List.length,
      List.cons_append, List.nil_append, pubE]
    refine ⟨by decide, by decide, by decide, by decide, by decide, by decide, trivial⟩
  · simp only [rowsOk, opsE, opSlots, rowOkVals, List.take, List.drop, List.length,
      List.cons_append, List.nil_append, pubE]
    intro h
    exact absurd h.2.2.2.1 (by decide)

end P3R.Witness.EndToEnd

#print axioms P3R.Witness.EndToEnd.e2e_nonvacuous
#print axioms P3R.Witness.EndToEnd.roundtrip_applies
#print axioms P3R.Witness.EndToEnd.gen_applies
#print axioms P3R.Witness.EndToEnd.completeness_reachable_applies
