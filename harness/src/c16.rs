//! C16 — proof metadata cannot weaken verification; serialization preserves the verdict.
//!
//! Real circuit proofs (`BatchStarkProof`) of honest and of invalid (forged) traces in several
//! configurations × every single alteration (and sampled / all pairs) of the proof's
//! self-declared metadata to other well-formed values → the real `verify_all_tables`.
//! Metadata is altered on the proof's serde_json form (so every alteration is, by construction,
//! something a deserializer accepts) and the altered proof is deserialized back into the real
//! `BatchStarkProof` type before verification.
//!
//! Streams written for the Lean driver (`p3r_driver_c16`):
//!   `verify …`  expected field parameters, registered plug-ins, original metadata, altered
//!               metadata, verdict of the unaltered proof → the verdict the model predicts;
//!   `encode …`  metadata → the token stream of its postcard encoding (compared with the real
//!               postcard bytes of the proof's metadata tail, varint-decoded);
//!   `sig …`     table kind, D, lanes, K → main width / preprocessed width / number of bus
//!               interactions (compared with the real AIRs).
//! Implementation oracles (violations): an alteration turns a rejected proof of an invalid trace
//! into an accepted one; field-parameter / table-set contradictions not rejected; a serialized
//! and deserialized proof verifies differently or re-serializes differently; any panic of the verifier
//! (F-C16-1, a panic on an under-declared preprocessed width, is fixed: the corpus case must be rejected).
//!
//! Invalid-trace proofs can only be produced without `debug_assertions` (the p3 prover checks
//! constraints in debug builds), so `bin/checks_c16.py` runs this with the release harness.

use std::collections::BTreeMap;
use std::panic::{AssertUnwindSafe, catch_unwind};
use std::rc::Rc;

use p3_baby_bear::BabyBear;
use p3_batch_stark::ProverData;
use p3_circuit::ops::{NpoTypeId, Poseidon2Config, Poseidon2PermCall, generate_poseidon2_trace, generate_recompose_trace};
use p3_circuit::{Circuit, CircuitBuilder, ExprId, Traces};
use p3_circuit_prover::air::{AluAir, ConstAir, PublicAir};
use p3_circuit_prover::batch_stark_prover::{BatchStarkProof, poseidon2_air_builders, recompose_air_builders};
use p3_circuit_prover::common::{NpoPreprocessor, get_airs_and_degrees_with_prep};
use p3_circuit_prover::config::{self, BabyBearConfig, GoldilocksConfig, KoalaBearConfig};
use p3_circuit_prover::{
    BatchStarkProver, BatchStarkProverError, CircuitProverData, ConstraintProfile, Poseidon2Preprocessor, RecomposePreprocessor, TablePacking,
};
use p3_field::extension::{BinomialExtensionField, QuinticTrinomialExtensionField};
use p3_field::{BasedVectorSpace, Field, PrimeCharacteristicRing};
use p3_goldilocks::Goldilocks;
use p3_koala_bear::{KoalaBear, default_koalabear_poseidon2_16, default_koalabear_poseidon2_32};
use p3_poseidon2_circuit_air::{KoalaBearD4Width16, KoalaBearD4Width32};
use serde_json::{Value, json};

use crate::rng::Rng;

// ------------------------------------------------------------------------------------------
// outcomes

#[derive(Debug, Clone, PartialEq)]
pub enum Outcome {
    Accept,
    /// `ProofMetadataError` variant name
    Meta(String),
    UnknownOp,
    /// any other verification error; the string is a coarse reason used only in histograms
    Reject(String),
    Panic(String),
    /// the altered JSON does not deserialize into a `BatchStarkProof`
    Deser(String),
}

impl Outcome {
    /// the token compared with the model
    pub(crate) fn verdict(&self) -> String {
        match self {
            Outcome::Accept => "accept".into(),
            Outcome::Meta(v) => format!("meta:{v}"),
            Outcome::UnknownOp => "unknown-op".into(),
            Outcome::Reject(_) => "reject".into(),
            Outcome::Panic(_) => "panic".into(),
            Outcome::Deser(_) => "deser-error".into(),
        }
    }
    fn detail(&self) -> String {
        match self {
            Outcome::Reject(s) | Outcome::Panic(s) | Outcome::Deser(s) => s.clone(),
            _ => String::new(),
        }
    }
}

fn ident_prefix(s: &str) -> String {
    s.chars().take_while(|c| c.is_alphanumeric() || *c == '_').collect()
}

fn classify_err(e: &BatchStarkProverError) -> Outcome {
    match e {
        BatchStarkProverError::InvalidMetadata(m) => Outcome::Meta(ident_prefix(&format!("{m:?}"))),
        BatchStarkProverError::Verify(s) if s.starts_with("unknown non-primitive op") => Outcome::UnknownOp,
        BatchStarkProverError::Verify(s) => {
            // e.g. Verification(InvalidProofShape(TraceLocalWidthMismatch { .. })), Lookup(..)
            let coarse = if s.starts_with("preprocessed width mismatch") {
                // declared-width check of `verify` (fix of F-C16-1)
                "shape:DeclaredPreprocessedWidthVsAir".into()
            } else if s.contains("InvalidProofShape") {
                let inner = s.split("InvalidProofShape(").nth(1).map(ident_prefix).unwrap_or_default();
                format!("shape:{inner}")
            } else if s.contains("Lookup(") {
                let inner = s.split("Lookup(").nth(1).map(ident_prefix).unwrap_or_default();
                format!("lookup:{inner}")
            } else if s.contains("OodEvaluationMismatch") {
                "crypto:OodEvaluationMismatch".into()
            } else if s.contains("InvalidOpeningArgument") {
                "crypto:InvalidOpeningArgument".into()
            } else {
                format!("other:{}", ident_prefix(s))
            };
            Outcome::Reject(coarse)
        }
        other => Outcome::Reject(format!("prover-error:{}", ident_prefix(&format!("{other:?}")))),
    }
}

fn panic_msg(p: Box<dyn std::any::Any + Send>) -> String {
    let m = p.downcast_ref::<String>().cloned().or_else(|| p.downcast_ref::<&str>().map(|s| s.to_string())).unwrap_or_default();
    m.chars().take(90).collect()
}

// ------------------------------------------------------------------------------------------
// base proofs

#[derive(Clone, Debug)]
pub struct Expected {
    pub d: usize,
    pub w: Option<u64>,
    pub quintic: bool,
}

pub struct RoundTrip {
    /// (codec, what, ok)
    pub checks: Vec<(String, String, bool)>,
}

#[derive(Clone)]
pub struct Base {
    pub cfg: &'static str,
    pub kind: String, // "honest" | "invalid:<forgery>"
    pub exp: Expected,
    pub registered: Vec<String>,
    pub json: Value,
    /// number of bus interactions per table of the freshly generated proof (not serialized)
    pub lookups: Vec<usize>,
    /// postcard bytes of the proof after the `proof` field, varint-decoded
    pub tail_tokens: Vec<u64>,
    pub verify: Rc<dyn Fn(&Value) -> Outcome>,
    pub roundtrip: Rc<dyn Fn(&Value) -> RoundTrip>,
    /// the real `VerifierManifest::matches`: (proof JSON, manifest JSON of `c16_manifest`) → outcome
    pub matches: Rc<dyn Fn(&Value, &Value) -> Outcome>,
    pub replay: Value,
}

#[derive(Clone, Debug)]
pub struct Spec {
    pub cfg: String,
    pub circuit_seed: u64,
    pub public_lanes: usize,
    pub alu_lanes: usize,
    pub horner_k: usize,
    pub min_height: usize,
    /// 0 = honest; otherwise which forgery
    pub forge: u64,
}

impl Spec {
    fn to_json(&self) -> Value {
        json!({"cfg": self.cfg, "circuit_seed": self.circuit_seed, "public_lanes": self.public_lanes, "alu_lanes": self.alu_lanes,
               "horner_k": self.horner_k, "min_height": self.min_height, "forge": self.forge})
    }
    fn from_json(v: &Value) -> Option<Self> {
        Some(Spec {
            cfg: v["cfg"].as_str()?.to_string(),
            circuit_seed: v["circuit_seed"].as_u64()?,
            public_lanes: v["public_lanes"].as_u64()? as usize,
            alu_lanes: v["alu_lanes"].as_u64()? as usize,
            horner_k: v["horner_k"].as_u64()? as usize,
            min_height: v["min_height"].as_u64()? as usize,
            forge: v["forge"].as_u64()?,
        })
    }
    fn packing(&self) -> TablePacking {
        TablePacking::new(self.public_lanes, self.alu_lanes).with_horner_pack_k(self.horner_k).with_min_trace_height(self.min_height)
    }
}

fn varint_tokens(bytes: &[u8]) -> Vec<u64> {
    let mut out = vec![];
    let mut cur: u128 = 0;
    let mut shift = 0;
    for b in bytes {
        cur |= ((b & 0x7f) as u128) << shift;
        if b & 0x80 == 0 {
            out.push(cur as u64);
            cur = 0;
            shift = 0;
        } else {
            shift += 7;
        }
    }
    out
}

/// Random arithmetic circuit over `EF` with a final assertion; returns the circuit and the
/// public inputs that satisfy it. Everything is derived from `seed`.
fn gen_circuit<F: Field + PrimeCharacteristicRing, EF: Field + BasedVectorSpace<F>>(
    seed: u64,
    extra: &mut dyn FnMut(&mut CircuitBuilder<EF>, &mut Rng, &mut Vec<(ExprId, EF)>),
    pre: &mut dyn FnMut(&mut CircuitBuilder<EF>),
) -> (Circuit<EF>, Vec<EF>) {
    let mut rng = Rng::new(seed ^ 0xc16);
    let mut b = CircuitBuilder::<EF>::new();
    pre(&mut b);
    let rnd = |rng: &mut Rng| -> EF {
        let coeffs: Vec<F> = (0..EF::DIMENSION).map(|_| F::from_u64(rng.below(1 << 30))).collect();
        EF::from_basis_coefficients_slice(&coeffs).unwrap()
    };
    let npub = rng.range(2, 5);
    let mut vals: Vec<(ExprId, EF)> = vec![];
    let mut pubs: Vec<EF> = vec![];
    for _ in 0..npub {
        let v = rnd(&mut rng);
        let e = b.public_input();
        vals.push((e, v));
        pubs.push(v);
    }
    let nconst = rng.range(0, 2);
    for _ in 0..nconst {
        let v = rnd(&mut rng);
        let e = b.define_const(v);
        vals.push((e, v));
    }
    let nops = rng.range(1, 9);
    for _ in 0..nops {
        let (x, xv) = *rng.pick(&vals);
        let (y, yv) = *rng.pick(&vals);
        let (e, v) = match rng.below(4) {
            0 => (b.add(x, y), xv + yv),
            1 => (b.mul(x, y), xv * yv),
            2 => (b.sub(x, y), xv - yv),
            _ => {
                let (z, zv) = *rng.pick(&vals);
                (b.mul_add(x, y, z), xv * yv + zv)
            }
        };
        vals.push((e, v));
    }
    extra(&mut b, &mut rng, &mut vals);
    let (res, rv) = *vals.last().unwrap();
    let expected = b.public_input();
    pubs.push(rv);
    let diff = b.sub(res, expected);
    b.assert_zero(diff);
    (b.build().expect("generated circuit builds"), pubs)
}

/// Forge the traces of an honest run so that they no longer satisfy the circuit.
fn forge_traces<EF: Field>(t: &mut Traces<EF>, forge: u64) -> String {
    let n = t.alu_trace.values.len();
    match forge {
        1 => {
            // last ALU record: output cell changed (row relation broken)
            t.alu_trace.values[n - 1][3] += EF::ONE;
            "alu-out-cell".into()
        }
        2 => {
            // a public value changed without propagation (bus imbalance)
            let m = t.public_trace.values.len();
            t.public_trace.values[m - 1] += EF::ONE;
            "public-cell".into()
        }
        3 => {
            // first ALU record: operand a changed
            t.alu_trace.values[0][0] += EF::TWO;
            "alu-a-cell".into()
        }
        _ => {
            // middle ALU record: operand b changed
            t.alu_trace.values[n / 2][1] += EF::ONE;
            "alu-b-cell".into()
        }
    }
}

macro_rules! finish_base {
    ($SC:ty, $EF:ty, $cfgname:expr, $spec:expr, $prover:expr, $traces:expr, $cpd:expr, $exp:expr, $registered:expr) => {{
        let spec: &Spec = $spec;
        let mut traces = $traces;
        let kind = if spec.forge == 0 { "honest".to_string() } else { format!("invalid:{}", forge_traces(&mut traces, spec.forge)) };
        let prover = Rc::new($prover);
        let proved = catch_unwind(AssertUnwindSafe(|| prover.prove_all_tables(&traces, &$cpd)));
        match proved {
            Ok(Ok(proof)) => {
                let lookups: Vec<usize> = proof.stark_common.lookups.iter().map(|l| l.len()).collect();
                let all = postcard::to_allocvec(&proof).expect("postcard proof");
                let head = postcard::to_allocvec(&proof.proof).expect("postcard inner proof");
                let tail_tokens = varint_tokens(&all[head.len()..]);
                let json = serde_json::to_value(&proof).expect("proof to json");
                let p1 = prover.clone();
                let verify: Rc<dyn Fn(&Value) -> Outcome> = Rc::new(move |v: &Value| {
                    let parsed: Result<BatchStarkProof<$SC>, _> = serde_json::from_value(v.clone());
                    let p = match parsed {
                        Ok(p) => p,
                        Err(e) => return Outcome::Deser(e.to_string().chars().take(80).collect()),
                    };
                    match catch_unwind(AssertUnwindSafe(|| p1.verify_all_tables::<$EF>(&p))) {
                        Ok(Ok(())) => Outcome::Accept,
                        Ok(Err(e)) => classify_err(&e),
                        Err(pn) => Outcome::Panic(panic_msg(pn)),
                    }
                });
                let p2 = prover.clone();
                let roundtrip: Rc<dyn Fn(&Value) -> RoundTrip> = Rc::new(move |v: &Value| {
                    let mut checks = vec![];
                    let Ok(p) = serde_json::from_value::<BatchStarkProof<$SC>>(v.clone()) else {
                        return RoundTrip { checks: vec![("json".into(), "deserialize".into(), false)] };
                    };
                    let run = |p: &BatchStarkProof<$SC>| match catch_unwind(AssertUnwindSafe(|| p2.verify_all_tables::<$EF>(p))) {
                        Ok(Ok(())) => Outcome::Accept,
                        Ok(Err(e)) => classify_err(&e),
                        Err(pn) => Outcome::Panic(panic_msg(pn)),
                    };
                    let v0 = run(&p);
                    // postcard
                    let bytes = postcard::to_allocvec(&p).expect("postcard");
                    match postcard::from_bytes::<BatchStarkProof<$SC>>(&bytes) {
                        Ok(q) => {
                            checks.push(("postcard".into(), "deserialize".into(), true));
                            let again = postcard::to_allocvec(&q).expect("postcard");
                            checks.push(("postcard".into(), "reserialize-identical".into(), again == bytes));
                            let v1 = run(&q);
                            checks.push(("postcard".into(), format!("verdict {:?} -> {:?}", v0, v1), v0 == v1));
                        }
                        Err(_) => checks.push(("postcard".into(), "deserialize".into(), false)),
                    }
                    // serde_json (text)
                    let text = serde_json::to_string(&p).expect("json");
                    match serde_json::from_str::<BatchStarkProof<$SC>>(&text) {
                        Ok(q) => {
                            checks.push(("json".into(), "deserialize".into(), true));
                            let again = serde_json::to_string(&q).expect("json");
                            checks.push(("json".into(), "reserialize-identical".into(), again == text));
                            let v1 = run(&q);
                            checks.push(("json".into(), format!("verdict {:?} -> {:?}", v0, v1), v0 == v1));
                            // cross-codec: json -> postcard must give the same bytes
                            let cross = postcard::to_allocvec(&q).expect("postcard");
                            checks.push(("json+postcard".into(), "same-bytes".into(), cross == bytes));
                        }
                        Err(_) => checks.push(("json".into(), "deserialize".into(), false)),
                    }
                    RoundTrip { checks }
                });
                let matches: Rc<dyn Fn(&Value, &Value) -> Outcome> = Rc::new(move |v: &Value, man: &Value| {
                    let parsed: Result<BatchStarkProof<$SC>, _> = serde_json::from_value(v.clone());
                    let p = match parsed {
                        Ok(p) => p,
                        Err(e) => return Outcome::Deser(e.to_string().chars().take(80).collect()),
                    };
                    let Some(m) = crate::c16_manifest::manifest_from_json::<p3_batch_stark::Val<$SC>>(man) else {
                        return Outcome::Deser("manifest".into());
                    };
                    match catch_unwind(AssertUnwindSafe(|| m.matches::<$SC>(&p))) {
                        Ok(Ok(())) => Outcome::Accept,
                        Ok(Err(e)) => Outcome::Meta(crate::c16_manifest::err_token(&e)),
                        Err(pn) => Outcome::Panic(panic_msg(pn)),
                    }
                });
                Some(Base { cfg: $cfgname, kind, exp: $exp, registered: $registered, json, lookups, tail_tokens, verify, roundtrip, matches, replay: spec.to_json() })
            }
            _ => None,
        }
    }};
}

macro_rules! plain_config {
    ($fname:ident, $cfgname:expr, $SC:ty, $cfgfn:expr, $F:ty, $EF:ty, $D:literal, $w:expr, $quintic:expr) => {
        fn $fname(spec: &Spec) -> Option<Base> {
            let (circuit, pubs) = gen_circuit::<$F, $EF>(spec.circuit_seed, &mut |_, _, _| {}, &mut |_| {});
            let packing = spec.packing();
            let cfg = $cfgfn;
            let (airs_degrees, prim, nonprim) =
                get_airs_and_degrees_with_prep::<$SC, $EF, $D>(&circuit, &packing, &[], &[], ConstraintProfile::Standard).ok()?;
            let (airs, degrees): (Vec<_>, Vec<usize>) = airs_degrees.into_iter().unzip();
            let mut runner = circuit.runner();
            runner.set_public_inputs(&pubs).ok()?;
            let traces = runner.run().ok()?;
            let pd = ProverData::from_airs_and_degrees(&cfg, &airs, &degrees);
            let cpd = CircuitProverData::new(pd, prim, nonprim);
            let prover = BatchStarkProver::new(cfg).with_table_packing(packing);
            let exp = Expected { d: $D, w: $w, quintic: $quintic };
            finish_base!($SC, $EF, $cfgname, spec, prover, traces, cpd, exp, vec![])
        }
    };
}

/// The verifier's `EF::extract_w()` in the representation the proof's serde form uses for
/// field elements (Montgomery form for the 31-bit fields), so that it compares with `w_binomial`.
fn w_of<F: Field + serde::Serialize, EF: p3_circuit_prover::field_params::ExtractBinomialW<F>>() -> Option<u64> {
    EF::extract_w().and_then(|w| serde_json::to_value(&w).ok()).and_then(|v| v.as_u64())
}

plain_config!(base_bb1, "bb1", BabyBearConfig, config::baby_bear(), BabyBear, BabyBear, 1, None, false);
plain_config!(base_bb4, "bb4", BabyBearConfig, config::baby_bear(), BabyBear, BinomialExtensionField<BabyBear, 4>, 4,
    w_of::<BabyBear, BinomialExtensionField<BabyBear, 4>>(), false);
plain_config!(base_kb1, "kb1", KoalaBearConfig, config::koala_bear(), KoalaBear, KoalaBear, 1, None, false);
plain_config!(base_kb8, "kb8", KoalaBearConfig, config::koala_bear(), KoalaBear, BinomialExtensionField<KoalaBear, 8>, 8,
    w_of::<KoalaBear, BinomialExtensionField<KoalaBear, 8>>(), false);
plain_config!(base_kb5q, "kb5q", KoalaBearConfig, config::koala_bear(), KoalaBear, QuinticTrinomialExtensionField<KoalaBear>, 5, None, true);
plain_config!(base_gl2, "gl2", GoldilocksConfig, config::goldilocks(), Goldilocks, BinomialExtensionField<Goldilocks, 2>, 2,
    w_of::<Goldilocks, BinomialExtensionField<Goldilocks, 2>>(), false);

/// KoalaBear, D = 4, with a Poseidon2 permutation table (config `$CONFIG`) and a recompose table (two
/// non-primitive entries in the proof's table list). The verifier also has the table prover of `$OTHER`
/// registered (a verifier serving several circuits), so that relabelling the Poseidon entry to that
/// config is not stopped by the unknown-op check.
macro_rules! kb4_npo_config {
    ($fname:ident, $cfgname:expr, $Params:ty, $enable:ident, $CONFIG:expr, $perm:expr, $OTHER:expr) => {
fn $fname(spec: &Spec) -> Option<Base> {
    type Base_ = KoalaBear;
    type Ext4 = BinomialExtensionField<KoalaBear, 4>;
    let pcfg: Poseidon2Config = $CONFIG;
    let perm = $perm;
    let mut perm_pre = Some(perm);
    let (circuit, pubs) = gen_circuit::<Base_, Ext4>(
        spec.circuit_seed,
        &mut |b, rng, vals| {
            // a chain of 1..3 permutations fed by existing values; two outputs exposed
            let chain = rng.range(1, 3);
            let inputs0: Vec<ExprId> = (0..pcfg.width_ext()).map(|_| rng.pick(vals).0).collect();
            let mut last: Vec<Option<ExprId>> = vec![];
            for row in 0..chain {
                let is_first = row == 0;
                let is_last = row + 1 == chain;
                let inputs: Vec<Option<ExprId>> = if is_first { inputs0.iter().map(|e| Some(*e)).collect() } else { vec![None; pcfg.width_ext()] };
                let (_id, outs) = b
                    .add_poseidon2_perm(&Poseidon2PermCall {
                        config: pcfg,
                        new_start: is_first,
                        merkle_path: false,
                        mmcs_bit: None,
                        mmcs_bit2: None,
                        inputs,
                        out_ctl: vec![is_last; pcfg.rate_ext()],
                        return_all_outputs: false,
                        mmcs_index_sum: None,
                    })
                    .expect("poseidon2 perm call");
                last = outs;
            }
            // recompose: decompose an existing value into base coefficients and recompose it
            let (x, xv) = *rng.pick(vals);
            let coeffs = b.decompose_ext_to_base_coeffs::<Base_>(x).expect("decompose");
            let back = b.recompose_base_coeffs_to_ext::<Base_>(&coeffs).expect("recompose");
            let sum = b.add(back, x);
            vals.push((sum, xv + xv));
            // fold one permutation output into the asserted value through a hint-free path:
            // out0 * 0 + sum  (keeps the output on the witness bus without needing its value)
            if let Some(o) = last.first().copied().flatten() {
                let zero = b.define_const(Ext4::ZERO);
                let t = b.mul_add(o, zero, sum);
                vals.push((t, xv + xv));
            }
        },
        &mut |b| {
            b.$enable::<$Params, _>(generate_poseidon2_trace::<Ext4, $Params>, perm_pre.take().unwrap());
            b.enable_recompose::<Base_>(generate_recompose_trace::<Base_, Ext4>);
        },
    );
    let packing = spec.packing();
    let cfg = config::koala_bear();
    let npo_prep: Vec<Box<dyn NpoPreprocessor<Base_>>> = vec![Box::new(Poseidon2Preprocessor), Box::new(RecomposePreprocessor::default())];
    let mut air_builders = poseidon2_air_builders::<_, 4>();
    air_builders.extend(recompose_air_builders(1, false));
    let (airs_degrees, prim, nonprim) =
        get_airs_and_degrees_with_prep::<KoalaBearConfig, Ext4, 4>(&circuit, &packing, &npo_prep, &air_builders, ConstraintProfile::Standard).ok()?;
    let (airs, degrees): (Vec<_>, Vec<usize>) = airs_degrees.into_iter().unzip();
    let mut runner = circuit.runner();
    runner.set_public_inputs(&pubs).ok()?;
    let traces = runner.run().ok()?;
    let pd = ProverData::from_airs_and_degrees(&cfg, &airs, &degrees);
    let cpd = CircuitProverData::new(pd, prim, nonprim);
    let mut prover = BatchStarkProver::new(cfg).with_table_packing(packing);
    prover.register_poseidon2_table::<4>(pcfg);
    prover.register_recompose_table::<4>(false);
    let mut registered = vec![NpoTypeId::poseidon2_perm(pcfg).as_str().to_string(), NpoTypeId::recompose().as_str().to_string()];
    let other: Option<Poseidon2Config> = $OTHER;
    if let Some(o) = other {
        prover.register_poseidon2_table::<4>(o);
        registered.push(NpoTypeId::poseidon2_perm(o).as_str().to_string());
    }
    let exp = Expected { d: 4, w: w_of::<KoalaBear, Ext4>(), quintic: false };
    finish_base!(KoalaBearConfig, Ext4, $cfgname, spec, prover, traces, cpd, exp, registered)
}
    };
}

kb4_npo_config!(base_kb4npo, "kb4npo", KoalaBearD4Width16, enable_poseidon2_perm, Poseidon2Config::KOALA_BEAR_D4_W16, default_koalabear_poseidon2_16(), None);
// a second Poseidon2 config of the same family: width 32 (the W16 table prover is registered as well)
kb4_npo_config!(base_kb4w32, "kb4w32", KoalaBearD4Width32, enable_poseidon2_perm_width_32, Poseidon2Config::KOALA_BEAR_D4_W32, default_koalabear_poseidon2_32(),
    Some(Poseidon2Config::KOALA_BEAR_D4_W16));

/// KoalaBear quintic (D = 5) with a *base-field* Poseidon2 table (`poseidon2_perm/koala_bear_d1_w16`, the
/// configuration the recursion layer uses for D = 5) and BOTH recompose tables (`recompose`,
/// `recompose/coeff`): three non-primitive entries, two of them in the same family. The verifier also has
/// the `koala_bear_d4_w16` table prover registered.
fn base_kb5qnpo(spec: &Spec) -> Option<Base> {
    use p3_circuit::ops::poseidon2_perm::Poseidon2PermCallBase;
    type Base_ = KoalaBear;
    type EF5 = QuinticTrinomialExtensionField<KoalaBear>;
    let pcfg = Poseidon2Config::KOALA_BEAR_D1_W16;
    let mut perm_pre = Some(p3_test_utils::LiftPermToQuintic::new(default_koalabear_poseidon2_16()));
    let (circuit, pubs) = gen_circuit::<Base_, EF5>(
        spec.circuit_seed,
        &mut |b, rng, vals| {
            // 1..2 base-field permutations: limbs 0..k of the state are existing values (only their
            // base coefficient is absorbed), outputs exposed on the last one
            let chain = rng.range(1, 2);
            let mut last: Vec<Option<ExprId>> = vec![];
            for row in 0..chain {
                let is_first = row == 0;
                let is_last = row + 1 == chain;
                let mut inputs: [Option<ExprId>; 16] = [None; 16];
                if is_first {
                    // base-field values only: constants with zero higher coefficients
                    for slot in inputs.iter_mut().take(2 + rng.usize(3)) {
                        let c = b.define_const(EF5::from(KoalaBear::from_u64(1 + rng.below(1 << 20))));
                        *slot = Some(c);
                    }
                }
                let (_id, outs) = b
                    .add_poseidon2_perm_base(&Poseidon2PermCallBase {
                        config: pcfg,
                        new_start: is_first,
                        inputs,
                        out_ctl: [is_last; 8],
                        return_all_outputs: false,
                        absorb_len: 0,
                    })
                    .expect("poseidon2 base perm call");
                last = outs.to_vec();
            }
            // both recompose layouts on an existing value
            let (x, xv) = *rng.pick(vals);
            let coeffs = b.decompose_ext_to_base_coeffs::<Base_>(x).expect("decompose");
            let back = b.recompose_base_coeffs_to_ext::<Base_>(&coeffs).expect("recompose");
            let back2 = b.recompose_base_coeffs_to_ext_with_coeff_lookups::<Base_>(&coeffs).expect("recompose/coeff");
            let s1 = b.add(back, back2);
            vals.push((s1, xv + xv));
            if let Some(o) = last.first().copied().flatten() {
                let zero = b.define_const(EF5::ZERO);
                let t = b.mul_add(o, zero, s1);
                vals.push((t, xv + xv));
            }
        },
        &mut |b| {
            b.enable_poseidon2_perm_base::<p3_circuit::ops::KoalaBearD1Width16, _>(
                generate_poseidon2_trace::<EF5, p3_circuit::ops::KoalaBearD1Width16>,
                perm_pre.take().unwrap(),
            );
            b.enable_recompose::<Base_>(generate_recompose_trace::<Base_, EF5>);
        },
    );
    let packing = spec.packing();
    let cfg = config::koala_bear();
    let npo_prep: Vec<Box<dyn NpoPreprocessor<Base_>>> = vec![Box::new(Poseidon2Preprocessor), Box::new(RecomposePreprocessor::new(true))];
    let mut air_builders = p3_circuit_prover::batch_stark_prover::poseidon2_air_builders_d5::<KoalaBearConfig>();
    air_builders.extend(recompose_air_builders::<KoalaBearConfig, 5>(1, true));
    let (airs_degrees, prim, nonprim) =
        get_airs_and_degrees_with_prep::<KoalaBearConfig, EF5, 5>(&circuit, &packing, &npo_prep, &air_builders, ConstraintProfile::Standard).ok()?;
    let (airs, degrees): (Vec<_>, Vec<usize>) = airs_degrees.into_iter().unzip();
    let mut runner = circuit.runner();
    runner.set_public_inputs(&pubs).ok()?;
    let traces = runner.run().ok()?;
    let pd = ProverData::from_airs_and_degrees(&cfg, &airs, &degrees);
    let cpd = CircuitProverData::new(pd, prim, nonprim);
    let mut prover = BatchStarkProver::new(cfg).with_table_packing(packing);
    for p in p3_circuit_prover::batch_stark_prover::poseidon2_table_provers_d5(pcfg) {
        prover.register_table_prover(p);
    }
    prover.register_recompose_table::<5>(true);
    for p in p3_circuit_prover::batch_stark_prover::poseidon2_table_provers_d5(Poseidon2Config::KOALA_BEAR_D4_W16) {
        prover.register_table_prover(p);
    }
    let exp = Expected { d: 5, w: None, quintic: true };
    let registered = vec![
        NpoTypeId::poseidon2_perm(pcfg).as_str().to_string(),
        NpoTypeId::recompose().as_str().to_string(),
        NpoTypeId::recompose_with_coeff_lookups().as_str().to_string(),
        NpoTypeId::poseidon2_perm(Poseidon2Config::KOALA_BEAR_D4_W16).as_str().to_string(),
    ];
    finish_base!(KoalaBearConfig, EF5, "kb5qnpo", spec, prover, traces, cpd, exp, registered)
}


pub const CONFIGS: &[&str] = &["bb1", "bb4", "kb1", "kb8", "kb5q", "gl2", "kb4npo", "kb4w32", "kb5qnpo"];

pub fn make_base(spec: &Spec) -> Option<Base> {
    let r = catch_unwind(AssertUnwindSafe(|| match spec.cfg.as_str() {
        "bb1" => base_bb1(spec),
        "bb4" => base_bb4(spec),
        "kb1" => base_kb1(spec),
        "kb8" => base_kb8(spec),
        "kb5q" => base_kb5q(spec),
        "gl2" => base_gl2(spec),
        "kb4npo" => base_kb4npo(spec),
        "kb4w32" => base_kb4w32(spec),
        "kb5qnpo" => base_kb5qnpo(spec),
        _ => None,
    }));
    r.ok().flatten()
}

// ------------------------------------------------------------------------------------------
// metadata as seen by the model

fn tok_opt(v: &Value) -> String {
    if v.is_null() { "none".into() } else { v.as_u64().map(|x| x.to_string()).unwrap_or_else(|| "none".into()) }
}

fn variant_tok(v: &Value) -> &'static str {
    match v.as_str() {
        Some("Optimized") => "1",
        _ => "0",
    }
}

fn csv<T: ToString>(xs: impl IntoIterator<Item = T>) -> String {
    let v: Vec<String> = xs.into_iter().map(|x| x.to_string()).collect();
    if v.is_empty() { "-".into() } else { v.join(",") }
}

fn flat_u64s(v: &Value, out: &mut Vec<u64>) {
    match v {
        Value::Number(n) => out.push(n.as_u64().unwrap_or(0)),
        Value::Array(a) => a.iter().for_each(|x| flat_u64s(x, out)),
        Value::Object(o) => o.values().for_each(|x| flat_u64s(x, out)),
        _ => {}
    }
}

/// One-line rendering of the metadata of a proof JSON (everything except `proof`):
/// `d=.. w=.. q=.. av=.. pl=.. al=.. mh=.. hk=.. npol=name:n;.. rows=a,b,c np=name:rows:lanes:variant:pv,pv;.. common=..`
/// `common` = `none` or `caplen:e,e,..|inst,inst|m2i` with inst = `-` or `mi:w:db`; the commitment is
/// rendered as `<number of digests>:<all elements>` exactly as postcard writes it.
pub fn meta_line(j: &Value) -> String {
    let tp = &j["table_packing"];
    let npol: Vec<String> = tp["npo_lanes"].as_array().map(|a| a.iter().map(|e| format!("{}:{}", e[0].as_str().unwrap_or("?"), e[1].as_u64().unwrap_or(0))).collect()).unwrap_or_default();
    let rows: Vec<u64> = j["rows"].as_array().map(|a| a.iter().filter_map(|x| x.as_u64()).collect()).unwrap_or_default();
    let np: Vec<String> = j["non_primitives"]
        .as_array()
        .map(|a| {
            a.iter()
                .map(|e| {
                    let pv: Vec<u64> = e["public_values"].as_array().map(|p| p.iter().filter_map(|x| x.as_u64()).collect()).unwrap_or_default();
                    format!("{}:{}:{}:{}:{}", e["op_type"].as_str().unwrap_or("?"), e["rows"].as_u64().unwrap_or(0), e["lanes"].as_u64().unwrap_or(0), variant_tok(&e["air_variant"]), csv(pv))
                })
                .collect()
        })
        .unwrap_or_default();
    let common = if j["stark_common"].is_null() {
        "none".to_string()
    } else {
        let c = &j["stark_common"];
        fn cap_len(v: &Value) -> Option<usize> {
            match v {
                Value::Array(a) if a.first().is_some_and(|x| x.is_array()) => Some(a.len()),
                Value::Array(a) => a.iter().find_map(cap_len),
                Value::Object(o) => o.values().find_map(cap_len),
                _ => None,
            }
        }
        let ncap = cap_len(&c["commitment"]).unwrap_or(0);
        let mut cm = vec![];
        flat_u64s(&c["commitment"], &mut cm);
        let inst: Vec<String> = c["instances"]
            .as_array()
            .map(|a| a.iter().map(|m| if m.is_null() { "-".to_string() } else { format!("{}:{}:{}", m["matrix_index"], m["width"], m["degree_bits"]) }).collect())
            .unwrap_or_default();
        let m2i: Vec<u64> = c["matrix_to_instance"].as_array().map(|a| a.iter().filter_map(|x| x.as_u64()).collect()).unwrap_or_default();
        format!("{}:{}|{}|{}", ncap, csv(cm), csv(inst), csv(m2i))
    };
    format!(
        "d={} w={} q={} av={} pl={} al={} mh={} hk={} npol={} rows={} np={} common={}",
        j["ext_degree"].as_u64().unwrap_or(0),
        tok_opt(&j["w_binomial"]),
        if j["alu_quintic_trinomial"].as_bool().unwrap_or(false) { 1 } else { 0 },
        variant_tok(&j["alu_variant"]),
        tp["public_lanes"].as_u64().unwrap_or(0),
        tp["alu_lanes"].as_u64().unwrap_or(0),
        tp["min_trace_height"].as_u64().unwrap_or(0),
        tp["horner_packed_steps"].as_u64().unwrap_or(0),
        if npol.is_empty() { "-".into() } else { npol.join(";") },
        csv(rows),
        if np.is_empty() { "-".into() } else { np.join(";") },
        common
    )
}

/// Registered plug-ins with the width parameters of their AIRs: the recompose AIR is
/// `lanes × (D main, 2 preprocessed)` columns, the `recompose/coeff` AIR `lanes × (D main, 2 + 2D preprocessed)`; a Poseidon permutation AIR ignores the entry, its
/// widths are read off the honest proof (opened main row length, declared preprocessed width).
fn plugin_tokens(b: &Base) -> Vec<String> {
    let np = b.json["non_primitives"].as_array().cloned().unwrap_or_default();
    b.registered
        .iter()
        .map(|nm| {
            if nm == "recompose/coeff" {
                // RecomposeAir::preprocessed_lane_width_for(true): (output_idx, out_mult) + D × (coeff_idx, coeff_mult)
                format!("{nm}:L:{}:{}", b.exp.d, 2 + 2 * b.exp.d)
            } else if nm.starts_with("recompose") {
                format!("{nm}:L:{}:2", b.exp.d)
            } else {
                let idx = np.iter().position(|e| e["op_type"].as_str() == Some(nm.as_str())).map(|i| i + 3);
                let (mw, pw) = match idx {
                    Some(i) => (
                        b.json["proof"]["opened_values"]["instances"][i]["base_opened_values"]["trace_local"].as_array().map(|a| a.len()).unwrap_or(0),
                        b.json["stark_common"]["instances"][i]["width"].as_u64().unwrap_or(0) as usize,
                    ),
                    None => (0, 0),
                };
                format!("{nm}:F:{mw}:{pw}")
            }
        })
        .collect()
}

fn exp_line(b: &Base) -> String {
    format!("d={} w={} q={} reg={}", b.exp.d, b.exp.w.map(|w| w.to_string()).unwrap_or_else(|| "none".into()), if b.exp.quintic { 1 } else { 0 }, csv(plugin_tokens(b)))
}

/// ALU packings `(lanes, K)` other than the proof's whose ALU main width is the same
/// (`4·lanes + (K-1)/2 + 2(K-1) + 1` per extension coordinate): alterations that no width check
/// of the opened main row can see.
pub fn same_main_width_pairs(b: &Base) -> Vec<Vec<Alt>> {
    let tp = &b.json["table_packing"];
    let (l0, k0) = (tp["alu_lanes"].as_u64().unwrap(), tp["horner_packed_steps"].as_u64().unwrap());
    let e = |k: u64| (k - 1) / 2 + 2 * (k - 1) + 1;
    let mut out = vec![];
    for l in 1..=12u64 {
        for k in 2..=12u64 {
            if (l, k) != (l0, k0) && 4 * l + e(k) == 4 * l0 + e(k0) {
                out.push(vec![alt("packing.alu_lanes", "/table_packing/alu_lanes", json!(l)), alt("packing.horner_packed_steps", "/table_packing/horner_packed_steps", json!(k))]);
            }
        }
    }
    out
}

// ------------------------------------------------------------------------------------------
// alterations

#[derive(Clone, Debug)]
pub struct Alt {
    /// metadata field group (used for classes and for "distinct fields" in pairs)
    pub field: String,
    /// JSON pointer of the altered node
    pub path: String,
    pub value: Value,
    /// contradicts the verifier's expected field parameters
    pub field_param: bool,
    /// changes the table set (list / order / identity of non-primitive tables)
    pub table_set: bool,
}

impl Alt {
    fn to_json(&self) -> Value {
        json!({"field": self.field, "path": self.path, "value": self.value, "field_param": self.field_param, "table_set": self.table_set})
    }
    fn from_json(v: &Value) -> Option<Self> {
        Some(Alt {
            field: v["field"].as_str()?.to_string(),
            path: v["path"].as_str()?.to_string(),
            value: v["value"].clone(),
            field_param: v["field_param"].as_bool().unwrap_or(false),
            table_set: v["table_set"].as_bool().unwrap_or(false),
        })
    }
    fn apply(&self, j: &mut Value) -> bool {
        match j.pointer_mut(&self.path) {
            Some(n) => {
                *n = self.value.clone();
                true
            }
            None => false,
        }
    }
}

fn alt(field: &str, path: &str, value: Value) -> Alt {
    Alt { field: field.into(), path: path.into(), value, field_param: false, table_set: false }
}

/// Every single-field alteration of the metadata of `b` to another well-formed value.
pub fn single_alterations(b: &Base) -> Vec<Alt> {
    let j = &b.json;
    let mut out: Vec<Alt> = vec![];
    let modulus_small = [0u64, 1, 2, 3, 5, 7, 11];
    // --- field parameters
    let d = j["ext_degree"].as_u64().unwrap();
    for nd in [0u64, 1, 2, 3, 4, 5, 6, 8, 16] {
        if nd != d {
            let mut a = alt("ext_degree", "/ext_degree", json!(nd));
            a.field_param = true;
            out.push(a);
        }
    }
    let w = j["w_binomial"].clone();
    let mut wvals: Vec<Value> = vec![Value::Null];
    for x in modulus_small {
        wvals.push(json!(x));
    }
    if let Some(x) = w.as_u64() {
        wvals.push(json!(x + 1));
        wvals.push(json!(x - 1));
    }
    for nv in wvals {
        if nv != w {
            let mut a = alt("w_binomial", "/w_binomial", nv);
            a.field_param = true;
            out.push(a);
        }
    }
    let q = j["alu_quintic_trinomial"].as_bool().unwrap();
    let mut a = alt("alu_quintic_trinomial", "/alu_quintic_trinomial", json!(!q));
    a.field_param = true;
    out.push(a);
    // --- alu variant
    let av = j["alu_variant"].as_str().unwrap();
    out.push(alt("alu_variant", "/alu_variant", json!(if av == "Baseline" { "Optimized" } else { "Baseline" })));
    // --- packing
    for (name, vals) in [
        ("public_lanes", vec![0u64, 1, 2, 3, 4, 5, 8]),
        ("alu_lanes", vec![0u64, 1, 2, 3, 4, 5, 8]),
        ("min_trace_height", vec![0u64, 1, 2, 3, 4, 8, 16, 1024, 1 << 40]),
        ("horner_packed_steps", vec![0u64, 1, 2, 3, 4, 5, 6, 8]),
    ] {
        let cur = j["table_packing"][name].as_u64().unwrap();
        for v in vals {
            if v != cur {
                out.push(alt(&format!("packing.{name}"), &format!("/table_packing/{name}"), json!(v)));
            }
        }
    }
    let mut names: Vec<String> = b.registered.clone();
    names.push("recompose/coeff".into());
    names.push("poseidon2_perm/baby_bear_d4_w16".into());
    let cur_npol = j["table_packing"]["npo_lanes"].clone();
    for nm in &names {
        for n in [0u64, 1, 2, 4] {
            let mut l = cur_npol.as_array().cloned().unwrap_or_default();
            l.push(json!([nm, n]));
            out.push(alt("packing.npo_lanes", "/table_packing/npo_lanes", Value::Array(l)));
        }
    }
    // --- primitive row counts
    let rows: Vec<u64> = j["rows"].as_array().unwrap().iter().map(|x| x.as_u64().unwrap()).collect();
    for i in 0..rows.len() {
        for v in [0u64, 1, 2, rows[i] + 1, rows[i] * 2, 1 << 20, 1 << 40] {
            if v != rows[i] {
                out.push(alt(&format!("rows[{i}]"), &format!("/rows/{i}"), json!(v)));
            }
        }
    }
    // --- non-primitive table list
    let np = j["non_primitives"].as_array().cloned().unwrap_or_default();
    let set = |field: &str, l: Vec<Value>| {
        let mut a = alt(field, "/non_primitives", Value::Array(l));
        a.table_set = true;
        a
    };
    for i in 0..np.len() {
        let mut l = np.clone();
        l.remove(i);
        out.push(set("tables.drop", l));
        let mut l = np.clone();
        l.insert(i, np[i].clone());
        out.push(set("tables.duplicate", l));
        for k in i + 1..np.len() {
            let mut l = np.clone();
            l.swap(i, k);
            out.push(set("tables.swap", l));
        }
        // relabelled to every other op type the verifier has registered, every op type the code base can name
        // (all Poseidon1/2 configurations, both recompose layouts) and near-miss strings of the same family
        let mut retag: Vec<String> = names.clone();
        retag.extend(crate::c16_manifest::known_op_types(np[i]["op_type"].as_str()));
        retag.sort();
        retag.dedup();
        for nm in &retag {
            if Some(nm.as_str()) != np[i]["op_type"].as_str() {
                let mut l = np.clone();
                l[i]["op_type"] = json!(nm);
                // `tables.retag-id`: the ids beyond the registered / legacy ones (kept out of the exhaustive pair loop)
                out.push(set(if names.contains(nm) { "tables.retag" } else { "tables.retag-id" }, l));
            }
        }
        let r = np[i]["rows"].as_u64().unwrap();
        for v in [0u64, 1, r + 1, r * 2, 1 << 40] {
            if v != r {
                out.push(alt("entry.rows", &format!("/non_primitives/{i}/rows"), json!(v)));
            }
        }
        let ln = np[i]["lanes"].as_u64().unwrap();
        for v in [0u64, 1, 2, 3, 4] {
            if v != ln {
                out.push(alt("entry.lanes", &format!("/non_primitives/{i}/lanes"), json!(v)));
            }
        }
        let cur = np[i]["air_variant"].as_str().unwrap_or("Baseline");
        out.push(alt("entry.air_variant", &format!("/non_primitives/{i}/air_variant"), json!(if cur == "Baseline" { "Optimized" } else { "Baseline" })));
        let pv = np[i]["public_values"].as_array().cloned().unwrap_or_default();
        let mut l = pv.clone();
        l.push(json!(0));
        out.push(alt("entry.public_values", &format!("/non_primitives/{i}/public_values"), Value::Array(l)));
        let mut l = pv.clone();
        l.push(json!(7));
        l.push(json!(9));
        out.push(alt("entry.public_values", &format!("/non_primitives/{i}/public_values"), Value::Array(l)));
        if !pv.is_empty() {
            let mut l = pv.clone();
            l[0] = json!(l[0].as_u64().unwrap_or(0) ^ 1);
            out.push(alt("entry.public_values", &format!("/non_primitives/{i}/public_values"), Value::Array(l)));
            out.push(alt("entry.public_values", &format!("/non_primitives/{i}/public_values"), json!([])));
        }
    }
    // a table the proof does not contain, appended
    for nm in &names {
        let mut l = np.clone();
        l.push(json!({"op_type": nm, "rows": 1, "lanes": 1, "public_values": [], "air_variant": "Baseline"}));
        out.push(set("tables.append", l));
    }
    // --- common data (preprocessed commitment and its instance metadata)
    let c = &j["stark_common"];
    if !c.is_null() {
        out.push(alt("common.absent", "/stark_common", Value::Null));
        // commitment: first element of the first digest changed
        let mut cm = c["commitment"].clone();
        fn bump_first(v: &mut Value) -> bool {
            match v {
                Value::Number(n) => {
                    *v = json!(n.as_u64().unwrap_or(0) ^ 1);
                    true
                }
                Value::Array(a) => a.iter_mut().any(bump_first),
                Value::Object(o) => o.values_mut().any(bump_first),
                _ => false,
            }
        }
        if bump_first(&mut cm) {
            out.push(alt("common.commitment", "/stark_common/commitment", cm));
        }
        let inst = c["instances"].as_array().cloned().unwrap_or_default();
        for (i, m) in inst.iter().enumerate() {
            if m.is_null() {
                out.push(alt("common.instance", &format!("/stark_common/instances/{i}"), json!({"matrix_index": 0, "width": 2, "degree_bits": 1})));
                continue;
            }
            out.push(alt("common.instance", &format!("/stark_common/instances/{i}"), Value::Null));
            let wd = m["width"].as_u64().unwrap();
            for v in [0u64, wd - 1, wd + 1, wd * 2] {
                if v != wd {
                    out.push(alt("common.width", &format!("/stark_common/instances/{i}/width"), json!(v)));
                }
            }
            let db = m["degree_bits"].as_u64().unwrap();
            for v in [0u64, db + 1, db.saturating_sub(1), 40] {
                if v != db {
                    out.push(alt("common.degree_bits", &format!("/stark_common/instances/{i}/degree_bits"), json!(v)));
                }
            }
            let mi = m["matrix_index"].as_u64().unwrap();
            for v in [mi + 1, mi.saturating_sub(1), 9] {
                if v != mi {
                    out.push(alt("common.matrix_index", &format!("/stark_common/instances/{i}/matrix_index"), json!(v)));
                }
            }
        }
        let mut l = inst.clone();
        l.pop();
        out.push(alt("common.instances", "/stark_common/instances", Value::Array(l)));
        let mut l = inst.clone();
        l.push(Value::Null);
        out.push(alt("common.instances", "/stark_common/instances", Value::Array(l)));
        let m2i = c["matrix_to_instance"].as_array().cloned().unwrap_or_default();
        if m2i.len() >= 2 {
            let mut l = m2i.clone();
            l.swap(0, 1);
            out.push(alt("common.matrix_to_instance", "/stark_common/matrix_to_instance", Value::Array(l)));
        }
        let mut l = m2i.clone();
        l.pop();
        out.push(alt("common.matrix_to_instance", "/stark_common/matrix_to_instance", Value::Array(l)));
        let mut l = m2i.clone();
        l.push(json!(0));
        out.push(alt("common.matrix_to_instance", "/stark_common/matrix_to_instance", Value::Array(l)));
    }
    out
}

// ------------------------------------------------------------------------------------------
// width / interaction-count signature of the primitive AIRs (correspondence `sig`)

fn sig_cases(cases: &mut Vec<String>, impl_: &mut Vec<String>) {
    use p3_air::BaseAir;
    macro_rules! sig_d {
        ($F:ty, $D:literal, $red:expr) => {
            for lanes in 1..=8usize {
                let p = PublicAir::<$F, $D>::new(4, lanes);
                cases.push(format!("sig public d={} lanes={} k=2", $D, lanes));
                impl_.push(format!("sig main={} prep={}", BaseAir::<$F>::width(&p), BaseAir::<$F>::preprocessed_width(&p)));
                for k in 2..=9usize {
                    let a = AluAir::<$F, $D>::from_reduction(4, lanes, $red).with_horner_pack_k(k);
                    cases.push(format!("sig alu d={} lanes={} k={}", $D, lanes, k));
                    impl_.push(format!("sig main={} prep={}", BaseAir::<$F>::width(&a), BaseAir::<$F>::preprocessed_width(&a)));
                }
            }
            let c = ConstAir::<$F, $D>::new(4);
            cases.push(format!("sig const d={} lanes=1 k=2", $D));
            impl_.push(format!("sig main={} prep={}", BaseAir::<$F>::width(&c), BaseAir::<$F>::preprocessed_width(&c)));
        };
    }
    use p3_circuit_prover::air::AluExtMulKind;
    sig_d!(BabyBear, 1, AluExtMulKind::Base);
    sig_d!(BabyBear, 2, AluExtMulKind::Binomial { w: BabyBear::from_u64(11) });
    sig_d!(BabyBear, 4, AluExtMulKind::Binomial { w: BabyBear::from_u64(11) });
    sig_d!(KoalaBear, 5, AluExtMulKind::QuinticTrinomial);
    sig_d!(KoalaBear, 6, AluExtMulKind::Binomial { w: KoalaBear::from_u64(3) });
    sig_d!(KoalaBear, 8, AluExtMulKind::Binomial { w: KoalaBear::from_u64(3) });
}

// ------------------------------------------------------------------------------------------
// main

struct Acc {
    cases: Vec<String>,
    impl_: Vec<String>,
    /// per `verify` case: index into `cases`, base kind, fields, coarse reason, replay
    detail: Vec<Value>,
    hist: BTreeMap<String, u64>,
    violations: Vec<Value>,
    samples: Vec<Value>,
    evals: usize,
    distinct: std::collections::HashSet<String>,
}

fn altered(b: &Base, alts: &[Alt]) -> Option<Value> {
    let mut j = b.json.clone();
    for a in alts {
        if !a.apply(&mut j) {
            return None;
        }
    }
    Some(j)
}

fn run_case(acc: &mut Acc, b: &Base, base_verdict: &Outcome, alts: &[Alt], origin: &str) {
    let Some(j) = altered(b, alts) else { return };
    let o = (b.verify)(&j);
    acc.evals += 1;
    let fields: Vec<&str> = alts.iter().map(|a| a.field.as_str()).collect();
    let fkey = fields.join("+");
    let honest = b.kind == "honest";
    let line = format!("verify {} | {} | {} | base={}", exp_line(b), meta_line(&b.json), meta_line(&j), base_verdict.verdict());
    acc.distinct.insert(format!("{}|{}", b.replay, line));
    acc.cases.push(line);
    acc.impl_.push(format!("verdict {}", o.verdict()));
    let line_no = acc.cases.len() - 1;
    let arity = if alts.len() == 1 { "single" } else { "pair" };
    *acc.hist.entry(format!("{}.{}.{}.{}", b.cfg, if honest { "honest" } else { "invalid" }, arity, o.verdict())).or_default() += 1;
    if !o.detail().is_empty() {
        *acc.hist.entry(format!("reason.{}", o.detail().split(' ').next().unwrap_or(""))).or_default() += 1;
    }
    *acc.hist.entry(format!("field.{fkey}.{}", o.verdict())).or_default() += (alts.len() == 1) as u64;
    let replay = json!({"spec": b.replay, "kind": b.kind, "alterations": alts.iter().map(|a| a.to_json()).collect::<Vec<_>>(), "origin": origin});
    acc.detail.push(json!({"line": line_no, "cfg": b.cfg, "kind": b.kind, "fields": fkey, "reason": o.detail(), "replay": replay}));
    if acc.samples.len() < 6 && acc.evals % 97 == 1 {
        acc.samples.push(json!({"replay": replay, "verdict": o.verdict(), "reason": o.detail()}));
    }
    let mut viol = |kind: &str, class: String, detail: String| {
        acc.violations.push(json!({"property": "C16", "kind": kind, "class": class, "detail": detail, "replay": replay,
            "line": format!("{} {} {}", b.cfg, b.kind, fkey)}));
    };
    match &o {
        Outcome::Accept => {
            if !honest && *base_verdict != Outcome::Accept {
                viol("invalid-trace-proof-accepted-after-alteration", format!("invalid-accepted:{fkey}"), format!("base verdict {:?}", base_verdict));
            }
            if alts.iter().any(|a| a.field_param) {
                viol("field-parameter-contradiction-accepted", format!("field-param-not-rejected:{fkey}"), String::new());
            }
            if alts.iter().any(|a| a.table_set) {
                viol("table-set-contradiction-accepted", format!("table-set-not-rejected:{fkey}"), String::new());
            }
        }
        Outcome::Panic(m) => viol("verifier-panic-on-altered-metadata", format!("panic:{fkey}"), m.clone()),
        Outcome::Deser(m) => viol("altered-metadata-not-deserializable", format!("harness-alteration-ill-formed:{fkey}"), m.clone()),
        _ => {}
    }
}

fn absorb_leg(acc: &mut Acc, leg: crate::c16_manifest::Leg) {
    acc.cases.extend(leg.cases);
    acc.impl_.extend(leg.impl_);
    acc.detail.extend(leg.detail);
    acc.violations.extend(leg.violations);
    acc.evals += leg.evals;
    acc.distinct.extend(leg.distinct);
    for (k, v) in leg.hist {
        *acc.hist.entry(k).or_default() += v;
    }
}

/// The parts of a `BatchStarkProof` that are NOT serialized (`stark_common`: the prover's lookup
/// contexts and preprocessed data) are prover-supplied all the same when a proof is verified in memory.
/// A malicious prover strips the lookup contexts (no lookup argument is proven), which unties the tables,
/// and proves a trace whose Public table contradicts its ALU table. The verifier must (1) reject it and
/// (2) give the same verdict before and after a serialization round trip. `n` claimed values are tried.
fn in_memory_parts_leg(n: usize, rng: &mut Rng) -> (Vec<Value>, usize) {
    use p3_batch_stark::CommonData;
    let mut out = vec![];
    let mut evals = 0usize;
    for case in 0..n {
        let x = 1 + rng.below(1000);
        let claimed = x + 10 + 1 + rng.below(1000); // != x + 10
        let r = catch_unwind(AssertUnwindSafe(|| -> Option<(bool, bool)> {
            let mut builder = CircuitBuilder::<BabyBear>::new();
            let xi = builder.public_input();
            let expected = builder.public_input();
            let c5 = builder.define_const(BabyBear::from_u64(5));
            let c2 = builder.define_const(BabyBear::from_u64(2));
            let m = builder.mul(c5, c2);
            let a = builder.add(xi, m);
            let d = builder.sub(a, expected);
            builder.assert_zero(d);
            let circuit = builder.build().ok()?;
            let cfg = config::baby_bear();
            let (airs_degrees, prim, nonprim) =
                get_airs_and_degrees_with_prep::<BabyBearConfig, _, 1>(&circuit, &TablePacking::default(), &[], &[], ConstraintProfile::Standard).ok()?;
            let (airs, degs): (Vec<_>, Vec<usize>) = airs_degrees.into_iter().unzip();
            let mut pd = ProverData::from_airs_and_degrees(&cfg, &airs, &degs);
            pd.common.lookups = CommonData::<BabyBearConfig>::empty(airs.len()).lookups;
            let cpd = CircuitProverData::new(pd, prim, nonprim);
            let mut runner = circuit.runner();
            runner.set_public_inputs(&[BabyBear::from_u64(x), BabyBear::from_u64(x + 10)]).ok()?;
            let mut traces = runner.run().ok()?;
            traces.public_trace.values[1] = BabyBear::from_u64(claimed);
            let prover = BatchStarkProver::new(cfg);
            let proof = prover.prove_all_tables(&traces, &cpd).ok()?;
            let in_mem = prover.verify_all_tables::<BabyBear>(&proof).is_ok();
            let bytes = postcard::to_allocvec(&proof).ok()?;
            let back: BatchStarkProof<BabyBearConfig> = postcard::from_bytes(&bytes).ok()?;
            let restored = prover.verify_all_tables::<BabyBear>(&back).is_ok();
            Some((in_mem, restored))
        }));
        evals += 1;
        let replay = json!({"what": "x + 5*2 == expected; prover data with emptied lookup contexts; Public table entry `expected` overwritten",
                            "x": x, "claimed_expected": claimed, "case": case});
        match r {
            Ok(Some((in_mem, restored))) => {
                if in_mem {
                    out.push(json!({"property": "C16", "kind": "invalid-trace-accepted", "class": "accepts-invalid-trace:stripped-lookup-contexts",
                        "detail": "a proof whose in-memory stark_common carries no lookup contexts, for a trace whose Public and ALU tables contradict each other, is accepted",
                        "replay": replay.clone()}));
                }
                if in_mem != restored {
                    out.push(json!({"property": "C16", "kind": "serialization-round-trip", "class": "serde:postcard:verdict-differs-in-memory",
                        "detail": format!("in-memory accepted = {in_mem}, round-tripped accepted = {restored}"), "replay": replay}));
                }
            }
            Ok(None) => {} // the malicious prover could not even produce a proof: nothing to judge
            Err(_) => {}   // prover-side debug checks refuse to prove: fine
        }
    }
    (out, evals)
}

pub fn main(args: &crate::Args) {
    let seed = args.u64("seed", 1);
    let out = args.str("out", "/tmp/p3r");
    let generate = args.u64("generate", 1) == 1;
    let per_cfg = args.u64("bases", 2) as usize; // honest base proofs per configuration
    let pairs = args.u64("pairs", 40) as usize; // sampled pairs per base proof (0 = all)
    let all_pairs = args.u64("all-pairs", 0) == 1; // all pairs for the first honest base of a configuration and its invalid siblings
    let only = args.opt("only"); // restrict generated bases to one configuration (parallel runs)
    std::fs::create_dir_all(&out).unwrap();
    let mut rng = Rng::new(seed ^ 0xc16);
    let mut acc = Acc { cases: vec![], impl_: vec![], detail: vec![], hist: BTreeMap::new(), violations: vec![], samples: vec![], evals: 0, distinct: Default::default() };
    let mut serde_checks = 0usize;
    let mut corpus_reproduced: Vec<String> = vec![];

    // ---- in-memory-only parts of the proof (not reached by metadata alterations of the serialized form)
    if generate {
        let (v, n) = in_memory_parts_leg(args.u64("inmem", 3) as usize, &mut rng);
        acc.evals += n;
        *acc.hist.entry("inmem.stripped-lookups.cases".into()).or_default() += n as u64;
        acc.violations.extend(v);
    }

    // ---- corpus / replay first
    if let Some(dir) = args.opt("corpus") {
        let mut files: Vec<_> = std::fs::read_dir(&dir).map(|d| d.filter_map(|e| e.ok()).map(|e| e.path()).collect()).unwrap_or_default();
        files.sort();
        for f in files {
            let Ok(txt) = std::fs::read_to_string(&f) else { continue };
            let Ok(v) = serde_json::from_str::<Value>(&txt) else { continue };
            let v = if v.get("spec").is_some() { v } else { v["replay"].clone() };
            let Some(spec) = Spec::from_json(&v["spec"]) else { continue };
            let Some(b) = make_base(&spec) else { continue };
            let alts: Vec<Alt> = v["alterations"].as_array().map(|a| a.iter().filter_map(Alt::from_json).collect()).unwrap_or_default();
            let bv = (b.verify)(&b.json);
            let before = acc.violations.len();
            if v.get("manifest").is_some() {
                // a case of the manifest leg: proof alterations + the (altered) manifest
                let leg = crate::c16_manifest::replay(&b, &bv, &alts, &v, acc.cases.len());
                absorb_leg(&mut acc, leg);
            } else {
                run_case(&mut acc, &b, &bv, &alts, &format!("corpus:{}", f.file_name().unwrap().to_string_lossy()));
            }
            if acc.violations.len() > before {
                corpus_reproduced.push(f.file_name().unwrap().to_string_lossy().to_string());
            }
        }
    }

    // ---- generated
    if generate {
        let mut specs: Vec<Spec> = vec![];
        for cfg in CONFIGS {
            for i in 0..per_cfg {
                let cs = rng.next();
                // packings: first base of a configuration uses (3, 3, K=2) so that the
                // (lanes, K) width coincidence (3,2) vs (1,5) is always among the alterations
                let (pl, al, k, mh) = if i == 0 { (3, 3, 2, 4) } else { (1 + rng.usize(3), 1 + rng.usize(3), 2 + rng.usize(4), 1usize << rng.usize(4)) };
                let honest = Spec { cfg: cfg.to_string(), circuit_seed: cs, public_lanes: pl, alu_lanes: al, horner_k: k, min_height: mh, forge: 0 };
                specs.push(honest.clone());
                // invalid-trace proofs of the same circuit
                let nforge = if i == 0 { 2 } else { 1 };
                for _ in 0..nforge {
                    let mut s = honest.clone();
                    s.forge = 1 + rng.below(4);
                    specs.push(s);
                }
            }
        }
        let first_seed: std::collections::HashMap<String, u64> = {
            let mut m = std::collections::HashMap::new();
            for s in &specs {
                m.entry(s.cfg.clone()).or_insert(s.circuit_seed);
            }
            m
        };
        for spec in specs {
            if only.as_ref().is_some_and(|o| *o != spec.cfg) {
                continue;
            }
            let Some(b) = make_base(&spec) else {
                *acc.hist.entry(format!("base.{}.{}.not-produced", spec.cfg, if spec.forge == 0 { "honest" } else { "invalid" })).or_default() += 1;
                continue;
            };
            let bv = (b.verify)(&b.json);
            let honest = spec.forge == 0;
            *acc.hist.entry(format!("base.{}.{}.{}", b.cfg, if honest { "honest" } else { "invalid" }, bv.verdict())).or_default() += 1;
            if honest && bv != Outcome::Accept {
                // completeness is C10's property; here it only means the base is unusable
                *acc.hist.entry("base.honest-not-accepted(C10)".into()).or_default() += 1;
                continue;
            }
            if !honest && bv == Outcome::Accept {
                // a forged trace that is accepted is C04's subject, not a metadata effect
                *acc.hist.entry("base.forged-accepted(C04)".into()).or_default() += 1;
                continue;
            }
            // unaltered case (model: sys-same ⇒ base verdict)
            run_case(&mut acc, &b, &bv, &[], "gen");
            // encode correspondence: real postcard tail vs model
            acc.cases.push(format!("encode {}", meta_line(&b.json)));
            acc.impl_.push(format!("tokens {}", csv(b.tail_tokens.iter())));
            // serialization round trips of the base proof
            let rt = (b.roundtrip)(&b.json);
            for (codec, what, ok) in &rt.checks {
                serde_checks += 1;
                *acc.hist.entry(format!("serde.{codec}.{}.{}", what.split(' ').next().unwrap_or(""), if *ok { "ok" } else { "FAIL" })).or_default() += 1;
                if !ok {
                    acc.violations.push(json!({"property": "C16", "kind": "serialization-round-trip", "class": format!("serde:{codec}:{}", what.split(' ').next().unwrap_or("")),
                        "detail": what, "replay": {"spec": b.replay, "kind": b.kind, "alterations": []}, "line": format!("{} {} serde", b.cfg, b.kind)}));
                }
            }
            // decode correspondence: the real token stream decodes in the model and re-encodes to itself
            {
                let ncap = b.tail_tokens.len();
                let _ = ncap;
                let line = meta_line(&b.json);
                let dl = line.split("common=").nth(1).and_then(|c| {
                    let head = c.split('|').next()?;
                    let (n, el) = head.split_once(':')?;
                    let n: usize = n.parse().ok()?;
                    if n == 0 { Some(0) } else { Some(el.split(',').count() / n) }
                }).unwrap_or(0);
                acc.cases.push(format!("decode {} {}", dl, csv(b.tail_tokens.iter())));
                acc.impl_.push(format!("meta-ok {}", csv(b.tail_tokens.iter())));
            }
            // directed: ALU packings with the same main width
            for pair in same_main_width_pairs(&b) {
                run_case(&mut acc, &b, &bv, &pair, "directed:same-alu-main-width");
            }
            let singles = single_alterations(&b);
            for a in &singles {
                run_case(&mut acc, &b, &bv, std::slice::from_ref(a), "gen");
            }
            // manifest leg: VerifierManifest::matches of the derived manifest under every single alteration of
            // the proof and of the manifest, compensating and sampled pairs; combined with verify_all_tables
            {
                let leg = crate::c16_manifest::run(&b, &bv, &singles, pairs.max(20), &mut rng, acc.cases.len());
                absorb_leg(&mut acc, leg);
            }
            // round trips of a few altered proofs too (the verdict of an altered proof must
            // also survive serialization)
            for _ in 0..3 {
                let a = rng.pick(&singles).clone();
                if let Some(j) = altered(&b, &[a.clone()]) {
                    let rt = (b.roundtrip)(&j);
                    for (codec, what, ok) in &rt.checks {
                        serde_checks += 1;
                        *acc.hist.entry(format!("serde.{codec}.{}.{}", what.split(' ').next().unwrap_or(""), if *ok { "ok" } else { "FAIL" })).or_default() += 1;
                        if !ok {
                            acc.violations.push(json!({"property": "C16", "kind": "serialization-round-trip", "class": format!("serde:{codec}:{}", what.split(' ').next().unwrap_or("")),
                                "detail": what, "replay": {"spec": b.replay, "kind": b.kind, "alterations": [a.to_json()]}, "line": format!("{} {} serde", b.cfg, b.kind)}));
                        }
                    }
                }
            }
            // pairs on distinct fields
            if all_pairs && first_seed.get(&spec.cfg) == Some(&spec.circuit_seed) {
                for x in 0..singles.len() {
                    for y in x + 1..singles.len() {
                        if singles[x].path != singles[y].path && singles[x].field != "tables.retag-id" && singles[y].field != "tables.retag-id" {
                            run_case(&mut acc, &b, &bv, &[singles[x].clone(), singles[y].clone()], "gen");
                        }
                    }
                }
                // the extended relabellings take part in sampled pairs only
                let ext: Vec<&Alt> = singles.iter().filter(|a| a.field == "tables.retag-id").collect();
                if !ext.is_empty() {
                    for _ in 0..pairs {
                        let x = (*rng.pick(&ext)).clone();
                        let y = rng.pick(&singles).clone();
                        if x.path != y.path && !x.path.starts_with(&y.path) && !y.path.starts_with(&x.path) {
                            run_case(&mut acc, &b, &bv, &[x, y], "gen");
                        }
                    }
                }
            } else {
                let mut done = 0;
                let mut tries = 0;
                while done < pairs && tries < pairs * 10 {
                    tries += 1;
                    let x = rng.pick(&singles).clone();
                    let y = rng.pick(&singles).clone();
                    if x.path == y.path || x.path.starts_with(&y.path) || y.path.starts_with(&x.path) {
                        continue;
                    }
                    run_case(&mut acc, &b, &bv, &[x, y], "gen");
                    done += 1;
                }
            }
        }
        if only.as_ref().is_none_or(|o| o == "bb1") {
            sig_cases(&mut acc.cases, &mut acc.impl_);
        }
    }

    std::fs::write(format!("{out}/c16.cases"), acc.cases.join("\n") + "\n").unwrap();
    std::fs::write(format!("{out}/c16.impl"), acc.impl_.join("\n") + "\n").unwrap();
    std::fs::write(format!("{out}/c16.detail.json"), serde_json::to_string(&acc.detail).unwrap()).unwrap();
    let report = json!({"evaluations": acc.evals, "distinct": acc.distinct.len(), "hist": acc.hist, "violations": acc.violations, "samples": acc.samples,
        "seed": seed, "serde_checks": serde_checks, "corpus_witnesses_reproduced": corpus_reproduced, "lines": acc.cases.len()});
    std::fs::write(format!("{out}/c16.report.json"), serde_json::to_string_pretty(&report).unwrap()).unwrap();
    println!("metadata: evals={} lines={} violations={}", acc.evals, acc.cases.len(), acc.violations.len());
}
