/-
C14 — the points-count check of `merge_hiding_random_openings` cannot be dropped.

The inner loop of the merge is `points.iter().zip(rand_mat.iter())`. A zip stops at the shorter
side; `HidingOpenedValuesTargets::new` / `get_private_values` nevertheless allocate and pack the
values of *every* random point-vector the proof carries. So without `points.len() == rand_mat.len()`
a proof whose random openings give a matrix one more point than it is opened at yields private
inputs that no constraint reads (while the native verifier rejects that proof with
`HidingRandomOpeningPointCountMismatch`). The harness exhibits this on the real code by appending a
point to every matrix of real `HidingFriPcs` proofs (structural perturbation campaign) and by the
`hidmerge` correspondence; this file is the model-level statement.
-/
import P3R.Props.C14Merge

namespace P3R.Witness.C14
open P3R.Packing P3R.C14

/-- Quotient round (`r = 2`), first chunk, opened at `zeta` only (`k = 1`), but the proof carries
    two random point-vectors of one value each: the zip consumes one value, two are allocated. -/
theorem surplus_point_lengths :
    (zipPoints 2 0 0 1 [1, 1]).length = 1 ∧ (hidPriv [[], [], [[1, 1]]]).length = 2
      ∧ (privOf (hidAlloc [[], [], [[1, 1]]])).length = 2 := by
  refine ⟨?_, ?_, ?_⟩ <;> decide

/-- **`zipPoints_full` is false without `k = rm.length`**: the zip alone does not consume every
    allocated hiding input; the explicit check is what makes `hidMerge_complete` true. -/
theorem points_check_needed :
    ¬ ∀ (r m k : Nat) (rm : List Nat),
        zipPoints r m 0 k rm = flatMapIdx (fun p n => idx s!"hid.r{r}.m{m}.p{p}" n) 0 rm := by
  intro h
  have h2 := congrArg List.length (h 2 0 1 [1, 1])
  revert h2
  decide

/-- With the check, that proof is refused (`mismatch:points`), so no circuit exists for it. -/
theorem surplus_point_rejected :
    hidMerge [[], [], [1]] [[], [], [[1, 1]]] = .error MergeErr.points := by rfl

end P3R.Witness.C14

#print axioms P3R.Witness.C14.points_check_needed
#print axioms P3R.Witness.C14.surplus_point_lengths
#print axioms P3R.Witness.C14.surplus_point_rejected
