"""C12 — bit and coefficient decompositions admit only the canonical witness.
Plug-in for bin/check (see bin/checks.py, AGENT_BRIEF.md)."""
import json, os, itertools, re, glob

PROPERTY = "C12"


def _lines(p):
    with open(p) as fh:
        return [l.rstrip("\n") for l in fh]


# Call sites of decompose_to_bits in the production sources and the width expression each passes.
# Every one of them is single-limb (n = BF::bits()); the multi-limb path of the builder has no
# caller. A new call site, or a changed width expression, must be looked at (and modelled).
CALLSITE_INVENTORY = {
    ("recursion/src/challenger/circuit.rs", "bf_bits"),
    ("recursion/src/pcs/whir/verifier.rs", "BF::bits()"),
}


def _repo_root():
    """the tree the harness is built against (harness/Cargo.toml path dependency of p3-circuit)"""
    here = os.path.dirname(os.path.dirname(os.path.abspath(__file__)))
    try:
        m = re.search(r'p3-circuit\s*=\s*\{\s*path\s*=\s*"([^"]+)/circuit"', open(os.path.join(here, "harness", "Cargo.toml")).read())
        return m.group(1) if m else "/repo"
    except OSError:
        return "/repo"


REPO = _repo_root()


def callsite_inventory():
    """static oracle: (file, width expression) of every decompose_to_bits call outside the builder"""
    found, detail = set(), []
    for path in sorted(glob.glob(f"{REPO}/**/src/**/*.rs", recursive=True)):
        if "/target/" in path or path.endswith("circuit/src/builder/circuit_builder.rs"):
            continue
        txt = open(path, errors="replace").read()
        for m in re.finditer(r"decompose_to_bits(?:::<[^>]*>)?\s*\(([^;]*?)\)\s*(?:\?|;|\.)", txt, re.S):
            args = [a.strip() for a in m.group(1).split(",") if a.strip()]
            if not args or "fn " in txt[max(0, m.start() - 12):m.start()]:
                continue
            rel = os.path.relpath(path, REPO)
            found.add((rel, args[-1]))
            detail.append({"file": rel, "line": txt.count("\n", 0, m.start()) + 1, "width": args[-1]})
    # bf_bits in challenger/circuit.rs must be BF::bits()
    ch = open(f"{REPO}/recursion/src/challenger/circuit.rs", errors="replace").read()
    bf_ok = re.search(r"let\s+bf_bits\s*=\s*BF::bits\(\)\s*;", ch) is not None
    return found, detail, bf_ok


def run(ctx):
    tier, seed, work = ctx["tier"], ctx["seed"], ctx["work"]
    root = ctx["root"]
    if ctx.get("replay"):
        rp = json.load(open(ctx["replay"]))
        os.makedirs(f"{work}/replay_corpus", exist_ok=True)
        json.dump(rp.get("replay", rp), open(f"{work}/replay_corpus/r.json", "w"))
        runs = [dict(value=0, run=0, prove=0, chal=0, corpus=f"{work}/replay_corpus")]
    elif tier == "quick":
        runs = [dict(value=1500, run=3000, prove=2000, chal=12, corpus=f"{root}/corpus/c12")]
    else:
        runs = [dict(value=20000, run=40000, prove=15000, chal=150, corpus=f"{root}/corpus/c12"),
                dict(value=20000, run=40000, prove=15000, chal=150, corpus=None)]
    driver = ctx["driver_dir"] + "/p3r_driver_c12"
    violations, hist, samples = [], {}, []
    inv_found, inv_detail, bf_ok = callsite_inventory() if not ctx.get("replay") else (CALLSITE_INVENTORY, [], True)
    if inv_found != CALLSITE_INVENTORY or not bf_ok:
        violations.append({"class": "callsite-inventory-changed",
                           "what": "decompose_to_bits call sites / width expressions differ from the inventory the single-limb "
                                   f"instance theorems are stated for: found={sorted(inv_found)} expected={sorted(CALLSITE_INVENTORY)} "
                                   f"bf_bits_is_BF_bits={bf_ok}",
                           "replay": {"found": sorted(map(list, inv_found)), "expected": sorted(map(list, CALLSITE_INVENTORY))},
                           "no_input": True})
    evaluations = distinct = nontrivial = disagreements = compared = proofs = 0
    gadget_cost = None
    for n, r in enumerate(runs):
        out = f"{work}/run{n}"
        cmd = [ctx["harness"], "decomp", "--seed", str(seed + 1000 * n), "--value-cases", str(r["value"]),
               "--run-cases", str(r["run"]), "--prove-cases", str(r["prove"]), "--chal-cases", str(r["chal"]), "--out", out]
        if r["corpus"]:
            cmd += ["--corpus", r["corpus"]]
        rc, o = ctx["sh"](cmd, timeout=7200)
        if rc != 0:
            violations.append({"class": "harness-crash", "what": f"harness decomp exited {rc}: {o[-300:]}",
                               "replay": {"cmd": cmd}, "no_input": True})
            continue
        rep = json.load(open(f"{out}/decomp.report.json"))
        evaluations += rep["evaluations"]; distinct += rep["distinct"]; nontrivial += rep["distinct_nontrivial"]
        proofs += rep["proofs"]
        gadget_cost = rep.get("gadget_cost_alu_rows_and_slots")
        for k, v in rep["hist"].items():
            hist[k] = hist.get(k, 0) + v
        samples += rep["samples"][:4]
        for v in rep["violations"]:
            violations.append({"class": v["class"],
                               "what": f"{v['kind']} {json.dumps(v.get('detail', {}))[:260]}",
                               "replay": v["replay"]})
        with open(f"{out}/decomp.cases") as fin:
            rc, mo = ctx["sh"]([driver], stdin=fin, timeout=3600)
        with open(f"{out}/decomp.model", "w") as fh:
            fh.write(mo)
        il, ml, cl = _lines(f"{out}/decomp.impl"), _lines(f"{out}/decomp.model"), _lines(f"{out}/decomp.cases")
        bad = [(k, a, b) for k, (a, b) in enumerate(itertools.zip_longest(il, ml)) if a != b]
        compared += len(il)
        disagreements += len(bad)
        for (k, a, b) in bad[:3]:
            violations.append({"class": "model-disagreement",
                               "what": f"correspondence decomp-model (decompose_to_bits / decompose_ext_to_base_coeffs / recompose tables vs lean/P3R/Model/Decomp) no longer checks: impl={a!r} model={b!r}",
                               "replay": {"correspondence": "decompose_to_bits, reconstruct_index_from_bits, decompose_ext_to_base_coeffs, recompose* (builder + runner + prove/verify verdict) vs lean/P3R/Model/Decomp",
                                          "case": cl[k] if k < len(cl) else None, "impl": a, "model": b},
                               "no_input": True})
    cov = {"evaluations": evaluations, "distinct_nontrivial": nontrivial, "distinct": distinct, "real_proofs": proofs,
           "rule": "cases = (field bb/kb/gl, bit width n, value x, contents of the hinted bit slots) and (field, D, W, lowering "
                   "alu/npo/npoc, consumer shape, x, contents of the D hinted coefficient slots), generated from VERIF_SEED: honest, "
                   "bits of x+p / x+2p (must be rejected since the canonicity repair), one flipped bit, recomposition-preserving non-boolean, random boolean; moved mass, tail junk, "
                   "head change, random; plus hint-output and recomposition-value cases, and in-situ cases on the real CircuitChallenger::sample_bits "
                   "(BabyBear D=4, Poseidon2 w16; observed values ground until sample < 2^31-p, hint replaced by bits of sample+p); plus the generalised cases: "
                   "(extension instance, lowering, consumer, x, D slot contents) for every extension the prover dispatches on (D = 5 quintic trinomial, D = 5/8 binomial) with the "
                   "additional deviation 'junk that wraps around the modulus', and multi-limb bit decompositions over extension-field circuits (instance, n, x, n extension-valued slot "
                   "contents: honest, bits of v_i+p in a full limb, exchanged limbs, flipped, non-boolean, non-base bit carrying the mass of the next limb, random). Each case is executed on the real builder + "
                   "runner with the hint executor replaced, 'prove' cases also through prove_all_tables + verify_all_tables; every "
                   "result line is compared with the Lean model. distinct_nontrivial = distinct case lines whose slot contents are "
                   "not the honest hint output",
           "samples": samples[:6], "input_distribution": hist,
           "traces_validated_against_impl": compared, "disagreements_checked": disagreements,
           "known_not_reproduced": [],
           "decompose_to_bits_call_sites": inv_detail,
           "extension_instances": "coefficients: bb4 kb4 gl2 (binomial, recompose tables + ALU), kb5q (KoalaBear quintic trinomial X^5 = 1 - X^2: "
                                  "recompose tables + ALU, real prove+verify), bb5 bb8 kb8 gl5 (binomial, ALU chain only: RecomposePreprocessor has no "
                                  "case for these extensions); multi-limb bits: all eight instances, n from 1 to BF::bits()*D and n > F::bits() (refused)",
           "decompose_to_bits_cost_(alu_rows,witness_slots)": gadget_cost}
    return violations, cov


CHECK = {
    "lean_modules": ["P3R.Props.C12", "P3R.Witness.C12", "P3R.Props.C12Gen", "P3R.Props.C12Multi", "P3R.Props.C12Basis",
                     "P3R.Witness.C12Gen"],
    "lean_exes": ["p3r_driver_c12"],
    "theorems": ["P3R.C12.accept_iff", "P3R.C12.bits_unique", "P3R.C12.bits_not_unique", "P3R.C12.unique_iff",
                 "P3R.C12.lowbit_changes", "P3R.C12.babybear_31_not_unique", "P3R.C12.koalabear_31_not_unique",
                 "P3R.C12.goldilocks_64_not_unique",
                 "P3R.C12.accept_fixed_iff", "P3R.C12.bits_canonical_fixed", "P3R.C12.fixed_canon_accept",
                 "P3R.C12.babybear_31_unique_fixed", "P3R.C12.koalabear_31_unique_fixed",
                 "P3R.C12.goldilocks_64_unique_fixed",
                 "P3R.C12.recompose_embed", "P3R.C12.alu_base_unique", "P3R.C12.alu_canon_accept",
                 "P3R.C12.alu_not_unique", "P3R.C12.npo_accept_iff", "P3R.C12.npo_cells_unique",
                 "P3R.C12.npo_not_unique", "P3R.C12.npoc_bound_unique", "P3R.C12.npoc_unbound_eq_npo",
                 "P3R.C12.Witness.forged_rejected", "P3R.C12.Witness.forged_run_conflict",
                 "P3R.C12.Witness.honest_accepted", "P3R.C12.Witness.forged_index_differs",
                 "P3R.C12.Witness.full_statement_bits_false_before_repair", "P3R.C12.Witness.full_statement_coeffs_alu_false",
                 "P3R.C12.Witness.junk_accepted_npo", "P3R.C12.Witness.junk_rejected_npoc_read",
                 # any degree / any monic modulus (Props/C12Gen)
                 "P3R.C12.mulBasisG_binomial", "P3R.C12.coefAcceptG_binomial", "P3R.C12.mulBasisG_unit", "P3R.C12.recomposeG_embed",
                 "P3R.C12.coeff_vectors_unique", "P3R.C12.aluG_base_unique", "P3R.C12.aluG_canon_accept", "P3R.C12.aluG_accept_iff",
                 "P3R.C12.aluG_any_tail_accepted", "P3R.C12.aluG_not_unique", "P3R.C12.npoG_accept_iff", "P3R.C12.npoG_not_unique",
                 "P3R.C12.npocG_bound_unique", "P3R.C12.npocG_unbound_eq_npo",
                 # multi-limb bits (Props/C12Multi)
                 "P3R.C12.reconMulti_eq_sum", "P3R.C12.multi_accept_iff", "P3R.C12.multi_accept_iff_canon", "P3R.C12.multi_canonical",
                 "P3R.C12.single_limb_of_multi", "P3R.C12.one_limb_of_multi", "P3R.C12.babybear_multi_canonical",
                 "P3R.C12.koalabear_multi_canonical", "P3R.C12.goldilocks_multi_canonical",
                 # basis independence for genuine extensions (Props/C12Basis)
                 "P3R.C12.basis_coeffs_unique", "P3R.C12.powerBasis_coeffs_unique", "P3R.C12.adjoinRoot_coeffs_unique",
                 "P3R.C12.primeIndep_of_linearIndependent", "P3R.C12.primeIndep_powerBasis", "P3R.C12.primeIndep_adjoinRoot",
                 "P3R.C12.multi_canonical_adjoinRoot",
                 # witnesses (Witness/C12Gen)
                 "P3R.C12.WitnessGen.moved5_accepted_alu", "P3R.C12.WitnessGen.wrap5_accepted_alu",
                 "P3R.C12.WitnessGen.wrap5_rejected_binomial", "P3R.C12.WitnessGen.full_statement_coeffs_alu_false_quintic",
                 "P3R.C12.WitnessGen.junk5_accepted_npo", "P3R.C12.WitnessGen.junk5_accepted_npoc_unread",
                 "P3R.C12.WitnessGen.junk5_rejected_npoc_read", "P3R.C12.WitnessGen.honest9_accepted",
                 "P3R.C12.WitnessGen.plusP9_rejected", "P3R.C12.WitnessGen.swapped9_rejected",
                 "P3R.C12.WitnessGen.nonbase9_run_ok", "P3R.C12.WitnessGen.nonbase9_rejected",
                 "P3R.C12.WitnessGen.primeIndep_poly"],
    "run": run,
    "trusted_base": [
        "executable prime-field instances PF p of the driver (validated against p3-field by the hint / recon / erecon value cases)",
        "executable extension EV p D red of the driver (multi-limb bit cases run the gadget model over extension-valued slots; validated against p3-field's BinomialExtensionField / QuinticTrinomialExtensionField by the gerecon / mrecon / mbits lines)",
        "multi-limb bits: the extension is a commutative domain of characteristic p whose basis elements are independent over the prime field (PrimeIndep; proved for the power basis of F_p[X]/(g), g monic: primeIndep_adjoinRoot; that p3's extension types are such quotients is not proved)",
        "batch-STARK + LogUp assumed ideal: 'accepted by verify_all_tables' is read as 'every table row relation holds and the WitnessChecks bus balances'",
        "the model treats the relation imposed on the hinted slots only; which other rows read those slots is a case parameter (consumer shape), not derived from an arbitrary circuit",
    ],
    "assumptions": [
        "bits: every width n <= F::bits() (all limbs) is modelled (bitsAcceptMulti) and reduced to the single-limb relation chunk by chunk (multi_accept_iff); the production call sites are all single-limb, n = BF::bits() (static inventory oracle CALLSITE_INVENTORY)",
        "coefficients: every degree D >= 1 and every monic modulus X^D = sum r_k X^k (coefAcceptG); tested on binomial D=2/4/5/8 and the KoalaBear quintic trinomial; the recompose tables are tested where the repo supports them (bb4, kb4, gl2, kb5q)",
        "observation point is the one the property names: hint executors emitting non-canonical decompositions; hand-forged Traces (e.g. recompose rows whose cells differ from the runner's) are outside this check (C04/C06)",
    ],
}

MANIFEST_ENTRY = {
    "property_id": "C12",
    "quick_cmd": "bin/check C12 --tier quick",
    "thorough_cmd": "bin/check C12 --tier thorough",
    "evidence_file": "evidence/C12.json",
    "replay_cmd_template": "bin/check C12 --replay {path}",
    "engine": "lean-models",
    "technique": "Lean 4 theorems characterising every accepted decomposition witness (model of the circuit relation on the hinted slots) + differential correspondence of run / prove+verify verdicts with deviating hint executors on the real code",
    "level_claimed": {
        "category": "proof",
        "text": "All extension degrees and moduli, all bit widths. Coefficients for every D>=1 and every monic modulus (binomial of any degree, KoalaBear quintic trinomial X^5=1-X^2): base-field coefficient vectors are unique (coeff_vectors_unique, aluG_base_unique; basis_coeffs_unique / adjoinRoot_coeffs_unique for the power basis of K[X]/(g)); the ALU chain accepts exactly the affine family c_0 = x - sum_{i>=1} X^i c_i with c_1..c_{D-1} arbitrary extension elements (aluG_accept_iff, aluG_any_tail_accepted, aluG_not_unique: F16 at every D); recompose / recompose-coeff relations are modulus-independent (npoG_*, npocG_*: F17, F18 at every D). Bits for every width n <= BF::bits()*D over an extension-field circuit: multi_accept_iff reduces the multi-limb relation to the single-limb one chunk by chunk, multi_canonical gives the full statement (only the canonical chunks are accepted), instances BabyBear/KoalaBear/Goldilocks for every D. Single limb (after fixes/C12-1.diff): accept_fixed_iff / bits_canonical_fixed: for w = BF::bits() and every n <= w the repaired relation (boolean checks, recomposition identity, comparison of a full-width limb with the bits of p) accepts exactly the canonical bits; call-site instances for BabyBear/KoalaBear/Goldilocks. Without the comparison (accept_iff, bits_not_unique, unique_iff) the witnesses are the expansions of v+k*p, which is what the repair removes. Coefficients: base-field coefficient vectors unique (alu_base_unique); ALU chain accepts moved mass for every D>=2 (alu_not_unique); recompose table binds only the cells (npo_accept_iff, npo_not_unique); recompose/coeff unique iff its tuple has non-zero multiplicity (npoc_bound_unique, npoc_unbound_eq_npo). Model tied to the code by line-exact comparison of runner outcome and prove+verify verdict on generated honest and deviating hint outputs.",
        "design_ref": "4/C12",
    },
    "level_note": "Lean kernel + 3 standard axioms; model hand-written (correspondence-tested: bb/kb/gl, binomial D in {2,4,5,8}, KoalaBear quintic trinomial D=5, multi-limb bit widths 1..BF::bits()*D; recompose tables only where RecomposePreprocessor supports the extension: bb4, kb4, gl2, kb5q); STARK/LogUp assumed ideal; p3's extension types are assumed to be domains with prime-independent power basis (proved for F_p[X]/(g), not for the Rust types); bits: full statement proved for the repaired gadget (F8 fixed, its witnesses are regression cases that must be rejected); coefficients: full statement false (known findings F16, F17, F18)",
}
