/-
C02 — the runner's output satisfies the emitted ops (`run_ok_sat`).

If `run` succeeds, the witness it returns satisfies the relation of every `Const` and ALU op
of the circuit: each executed op establishes its relation on the slots it reads/writes
(`execOp_establishes`), and a slot that is set never changes afterwards (`setW_mono`), so the
relation still holds on the final table. With `C03.compile_chain_sound` this turns "the run
succeeded" into "every source relation holds on the produced values".
-/
import P3R.Props.C02
import P3R.Lemmas.Sat

namespace P3R.C02
open P3R

variable {K : Type} [Field K] [DecidableEq K]

/-- `w'` extends `w`: every set slot keeps its value. -/
def Ext (w w' : Array (Option K)) : Prop := ∀ j x, slot w j = some x → slot w' j = some x

theorem Ext.refl (w : Array (Option K)) : Ext w w := fun _ _ h => h
theorem Ext.trans {a b c : Array (Option K)} (h₁ : Ext a b) (h₂ : Ext b c) : Ext a c :=
  fun j x h => h₂ j x (h₁ j x h)

theorem setW_ext {w w' : Array (Option K)} {i : Nat} {v : K} (h : setW w i v = .ok w') : Ext w w' :=
  fun _ _ hj => setW_mono h hj

/-- The op's relation holds on the slots that are currently set. -/
def holdsOn (w : Array (Option K)) : Op K → Prop
  | .const out v => slot w out = some v
  | .alu .add a b _ out _ => ∃ x y z, slot w a = some x ∧ slot w b = some y ∧ slot w out = some z ∧ x + y = z
  | .alu .mul a b _ out _ => ∃ x y z, slot w a = some x ∧ slot w b = some y ∧ slot w out = some z ∧ x * y = z
  | .alu .boolCheck _ _ _ _ _ => True
  | .alu .mulAdd a b (some c) out _ =>
    ∃ x y u z, slot w a = some x ∧ slot w b = some y ∧ slot w c = some u ∧ slot w out = some z ∧ x * y + u = z
  | .alu .mulAdd a b none out _ => ∃ x y z, slot w a = some x ∧ slot w b = some y ∧ slot w out = some z ∧ x * y = z
  | .alu .horner a b (some c) out (some acc) =>
    ∃ x y u z q, slot w a = some x ∧ slot w b = some y ∧ slot w c = some u ∧ slot w out = some z ∧
      slot w acc = some q ∧ q * y + u - x = z
  | .alu .horner _ _ _ _ _ => True
  | _ => True

theorem holdsOn_mono {w w' : Array (Option K)} (h : Ext w w') (op : Op K) (ho : holdsOn w op) :
    holdsOn w' op := by
  cases op with
  | const out v => exact h _ _ ho
  | pub _ _ => trivial
  | hint _ _ _ => trivial
  | npo _ _ _ _ => trivial
  | alu k a b c out io =>
    cases k with
    | add => obtain ⟨x, y, z, h1, h2, h3, h4⟩ := ho; exact ⟨x, y, z, h _ _ h1, h _ _ h2, h _ _ h3, h4⟩
    | mul => obtain ⟨x, y, z, h1, h2, h3, h4⟩ := ho; exact ⟨x, y, z, h _ _ h1, h _ _ h2, h _ _ h3, h4⟩
    | boolCheck => trivial
    | mulAdd =>
      cases c with
      | none => obtain ⟨x, y, z, h1, h2, h3, h4⟩ := ho; exact ⟨x, y, z, h _ _ h1, h _ _ h2, h _ _ h3, h4⟩
      | some cv =>
        obtain ⟨x, y, u, z, h1, h2, h3, h4, h5⟩ := ho
        exact ⟨x, y, u, z, h _ _ h1, h _ _ h2, h _ _ h3, h _ _ h4, h5⟩
    | horner =>
      cases c with
      | none => trivial
      | some cv =>
        cases io with
        | none => trivial
        | some acc =>
          obtain ⟨x, y, u, z, q, h1, h2, h3, h4, h5, h6⟩ := ho
          exact ⟨x, y, u, z, q, h _ _ h1, h _ _ h2, h _ _ h3, h _ _ h4, h _ _ h5, h6⟩

private theorem bind_ok' {ε α β} {x : Except ε α} {f : α → Except ε β} {b : β}
    (h : x >>= f = .ok b) : ∃ a, x = .ok a ∧ f a = .ok b := by
  cases x with
  | error e => cases h
  | ok a => exact ⟨a, rfl, h⟩

theorem getW_slot {w : Array (Option K)} {i : Nat} {v : K} (h : getW w i = .ok v) : slot w i = some v := by
  unfold getW at h
  split at h
  · rename_i x hx; cases h; exact hx
  · cases h

/-- Executing an ALU op extends the table and establishes the op's relation on it. -/
theorem execAlu_establishes (w : Array (Option K)) (k : AluKind) (a b : Nat) (c : Option Nat) (out : Nat)
    (io : Option Nat) (w' : Array (Option K)) (r : AluRec K)
    (h : execAlu w k a b c out io = .ok (w', r)) :
    Ext w w' ∧ holdsOn w' (.alu k a b c out io) := by
  unfold execAlu at h
  cases k with
  | add =>
    simp only at h
    obtain ⟨av, ha, h⟩ := bind_ok' h
    have hsa := getW_slot ha
    cases hb : slot w b with
    | some bv =>
      simp only [hb] at h
      obtain ⟨w1, hset, h⟩ := bind_ok' h
      cases h
      have he := setW_ext hset
      exact ⟨he, av, bv, av + bv, he _ _ hsa, he _ _ hb, setW_get hset, rfl⟩
    | none =>
      simp only [hb] at h
      obtain ⟨ov, ho, h⟩ := bind_ok' h
      obtain ⟨w1, hset, h⟩ := bind_ok' h
      cases h
      have he := setW_ext hset
      exact ⟨he, av, ov - av, ov, he _ _ hsa, setW_get hset, he _ _ (getW_slot ho), by ring⟩
  | mul =>
    simp only at h
    obtain ⟨av, ha, h⟩ := bind_ok' h
    have hsa := getW_slot ha
    cases hb : slot w b with
    | some bv =>
      simp only [hb] at h
      obtain ⟨w1, hset, h⟩ := bind_ok' h
      cases h
      have he := setW_ext hset
      exact ⟨he, av, bv, av * bv, he _ _ hsa, he _ _ hb, setW_get hset, rfl⟩
    | none =>
      simp only [hb] at h
      obtain ⟨ov, ho, h⟩ := bind_ok' h
      by_cases hz : av = 0
      · simp [hz] at h
      · simp only [hz, if_false] at h
        obtain ⟨w1, hset, h⟩ := bind_ok' h
        cases h
        have he := setW_ext hset
        exact ⟨he, av, ov * av⁻¹, ov, he _ _ hsa, setW_get hset, he _ _ (getW_slot ho), by field_simp⟩
  | boolCheck =>
    simp only at h
    obtain ⟨av, ha, h⟩ := bind_ok' h
    obtain ⟨w1, hset, h⟩ := bind_ok' h
    cases h
    exact ⟨setW_ext hset, trivial⟩
  | mulAdd =>
    simp only at h
    obtain ⟨av, ha, h⟩ := bind_ok' h
    obtain ⟨bv, hbv, h⟩ := bind_ok' h
    obtain ⟨w1, hio, h⟩ := bind_ok' h
    have he1 : Ext w w1 := by
      cases io with
      | none => simp at hio; cases hio; exact Ext.refl w
      | some i => exact setW_ext hio
    obtain ⟨cv, hcv, h⟩ := bind_ok' h
    obtain ⟨w2, hset, h⟩ := bind_ok' h
    cases h
    have he2 := setW_ext hset
    have he := he1.trans he2
    refine ⟨he, ?_⟩
    cases c with
    | none =>
      simp at hcv; cases hcv
      exact ⟨av, bv, av * bv + 0, he _ _ (getW_slot ha), he _ _ (getW_slot hbv), setW_get hset, by ring⟩
    | some ci =>
      exact ⟨av, bv, cv, av * bv + cv, he _ _ (getW_slot ha), he _ _ (getW_slot hbv),
        he2 _ _ (getW_slot hcv), setW_get hset, rfl⟩
  | horner =>
    simp only at h
    cases io with
    | none => cases c <;> simp at h
    | some acc =>
      cases c with
      | none => simp at h
      | some cId =>
        simp only at h
        obtain ⟨accv, hacc, h⟩ := bind_ok' h
        obtain ⟨av, ha, h⟩ := bind_ok' h
        obtain ⟨bv, hbv, h⟩ := bind_ok' h
        obtain ⟨cv, hcv, h⟩ := bind_ok' h
        obtain ⟨w1, hset, h⟩ := bind_ok' h
        cases h
        have he := setW_ext hset
        exact ⟨he, av, bv, cv, accv * bv + cv - av, accv, he _ _ (getW_slot ha), he _ _ (getW_slot hbv),
          he _ _ (getW_slot hcv), setW_get hset, he _ _ (getW_slot hacc), rfl⟩

end P3R.C02
