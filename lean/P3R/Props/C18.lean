/-
C18 — compilation and key generation are deterministic.
The Rust compiler iterates over unordered hash containers in three places whose result could
depend on the iteration order: `filter_valid` builds a map `out ↦ mul position` from the set
of valid candidates (last writer wins) and `apply` lets the first candidate per mul position
win. The model fixes one order; the theorems show that *any* order gives the same result as
long as the candidates' keys are pairwise distinct, which is what makes the emitted op list
independent of hash seeds:

* `lookup_perm_nodup` — looking a key up in an association list with distinct keys does not
  depend on the order of the list;
* `filterRound_order_independent` — hence the keep/drop decision of one `filter_valid` round is
  the same for every enumeration order of the valid set.
Everything else in the model (`lower`, `dedup`, `genPrep`) is a function of the op *list*
only: the Rust iterates `Vec`s there, and its hash maps are used for lookup only.
Process / thread schedules cannot be exhibited by a pure model: the harness rebuilds every
program repeatedly in one process and in separate processes and compares canonical digests.
-/
import P3R.Model.Optimize
import Mathlib.Data.List.Perm.Basic
import Mathlib.Data.List.Nodup

namespace P3R.C18
open P3R

theorem lookup_perm_nodup {α β : Type} [BEq α] [LawfulBEq α] (k : α) :
    ∀ {l₁ l₂ : List (α × β)}, l₁.Perm l₂ → (l₁.map Prod.fst).Nodup → l₁.lookup k = l₂.lookup k := by
  intro l₁ l₂ h
  induction h with
  | nil => intro _; rfl
  | cons x _ ih =>
    intro hn
    obtain ⟨a, b⟩ := x
    have hn' : (List.map Prod.fst _).Nodup := (List.nodup_cons.mp (by simpa only [List.map_cons] using hn)).2
    simp only [List.lookup]
    cases hka : (k == a) with
    | true => rfl
    | false => exact ih hn'
  | swap x y l =>
    intro hn
    obtain ⟨a, b⟩ := x
    obtain ⟨c, d⟩ := y
    simp only [List.map_cons, List.nodup_cons, List.mem_cons, not_or] at hn
    have hne : c ≠ a := hn.1.1
    simp only [List.lookup]
    cases hkc : (k == c) with
    | true =>
      have : k = c := by simpa using hkc
      subst this
      have : (k == a) = false := by simpa using hne
      simp [this]
    | false =>
      cases hka : (k == a) <;> simp
  | trans _ h₂ ih₁ ih₂ =>
    rename_i l₁ l₂ l₃ h₁
    intro hn
    have hn₂ : (l₂.map Prod.fst).Nodup := (List.Perm.map Prod.fst h₁).nodup_iff.mp hn
    exact (ih₁ hn).trans (ih₂ hn₂)

/-- The fused-position map of one `filter_valid` round, for a given enumeration order. -/
def fusedPos {K} (valid : List (Cand K)) : List (Nat × Nat) := valid.map fun c => (c.out, c.mulIdx)

/-- **C18.** Two enumeration orders of the same valid set (distinct outputs) give the same
fused position for every witness, hence the same keep/drop decision for every candidate. -/
theorem filterRound_order_independent {K} (v₁ v₂ : List (Cand K)) (hp : v₁.Perm v₂)
    (hd : (v₁.map (·.out)).Nodup) (w : Nat) :
    (fusedPos v₁).lookup w = (fusedPos v₂).lookup w := by
  apply lookup_perm_nodup w (hp.map _)
  have : (fusedPos v₁).map Prod.fst = v₁.map (·.out) := by simp [fusedPos, List.map_map, Function.comp_def]
  unfold fusedPos at this
  rw [this]; exact hd

end P3R.C18
