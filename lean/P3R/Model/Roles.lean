/-
L5 — creator / reader roles and bus multiplicities.
Mirrors `circuit/src/circuit.rs::generate_preprocessed_columns` (primitive ops; table-backed
non-primitive ops are outside this layer) and the 12→13 / 1→2 column conversion of
`circuit-prover/src/common.rs::get_airs_and_degrees_with_prep`, plus the WitnessChecks
interactions declared by `ConstAir`, `PublicAir`, `AluAir` (`eval_alu_interactions`).

The Rust code decides the role of each operand of a row from the `defined` bitmap and a few
same-row aliasing guards. After the repairs F6 / F13b / F14 / F15 (see DESIGN §5) that
decision is exactly a *sequential* scan of the row's operands in the order `out, a, c, b`
against the set of slots defined so far; the model is written in that form, which is what
makes "at most one creator per slot" true by construction (`P3R.Props.C09`). The
correspondence check compares the resulting columns with the real ones cell by cell.
-/
import P3R.Model.Optimize

namespace P3R

inductive Role where
  | skip | reader | creator
deriving Repr, DecidableEq

/-- A row asks for a role on a slot: `create` — may create it if nobody has;
`elseSkip` — if it can neither read nor create, it stays off the bus (else it reads). -/
structure Request where
  slot : Nat
  create : Bool
  elseSkip : Bool
deriving Repr

structure RoleState where
  defined : List Nat
  reads : List (Nat × Nat)
  events : List (Nat × Role)

def readsOf (m : List (Nat × Nat)) (s : Nat) : Nat := (m.lookup s).getD 0

def incRead (m : List (Nat × Nat)) (s : Nat) : List (Nat × Nat) := (s, readsOf m s + 1) :: m

def Request.role (defined : List Nat) (r : Request) : Role :=
  if defined.contains r.slot then .reader
  else if r.create then .creator
  else if r.elseSkip then .skip
  else .reader

/-- Serve one request: a reader bumps the slot's read count, a creator defines the slot. -/
def RoleState.serve (s : RoleState) (r : Request) : RoleState :=
  match r.role s.defined with
  | .reader => { s with reads := incRead s.reads r.slot, events := s.events ++ [(r.slot, .reader)] }
  | .creator => { s with defined := r.slot :: s.defined, events := s.events ++ [(r.slot, .creator)] }
  | .skip => { s with events := s.events ++ [(r.slot, .skip)] }

/-- One ALU row of the 12-value preprocessed layout. `aState`/`cState`: 0 skip, 1 reader,
2 creator. -/
structure AluPrep where
  kind : AluKind
  a : Nat
  b : Nat
  c : Nat
  out : Nat
  aState : Nat
  bCreator : Bool
  cState : Nat
  outCreator : Bool
deriving Repr, DecidableEq

def Role.state : Role → Nat
  | .skip => 0 | .reader => 1 | .creator => 2

/-- The requests of one op, in the order the roles are decided. -/
def requestsOf {K} (privs hints : List Nat) (defined : List Nat) : Op K → List Request
  | .const out _ => [⟨out, true, false⟩]
  | .pub out _ => [⟨out, true, false⟩]
  | .alu _ a b c out _ =>
    let elig := fun x => privs.contains x || hints.contains x
    -- a hint output or private input in `out` is given, so the row solves for `b`
    let outBackward := defined.contains out || hints.contains out || privs.contains out
    [⟨out, true, false⟩, ⟨a, elig a, true⟩] ++
    (match c with
     | some cw => [⟨cw, elig cw, true⟩]
     | none => []) ++
    [⟨b, privs.contains b || outBackward, false⟩]
  | .hint _ _ _ => []
  | .npo _ _ _ _ => []

structure PrepState where
  rs : RoleState
  consts : List Nat
  pubs : List Nat
  alu : List AluPrep

def roleAt (evs : List (Nat × Role)) (i : Nat) : Role := (evs.getD i (0, .skip)).2

/-- One iteration of the main loop of `generate_preprocessed_columns`. -/
def PrepState.step {K} (privs hints : List Nat) (s : PrepState) (op : Op K) : PrepState :=
  let n0 := s.rs.events.length
  let rs := (requestsOf privs hints s.rs.defined op).foldl RoleState.serve s.rs
  match op with
  | .const out _ => { s with rs := rs, consts := s.consts ++ [out] }
  | .pub out _ => { s with rs := rs, pubs := s.pubs ++ [out] }
  | .alu k a b c out _ =>
    let rOut := roleAt rs.events n0
    let rA := roleAt rs.events (n0 + 1)
    let (rC, rB) := match c with
      | some _ => (roleAt rs.events (n0 + 2), roleAt rs.events (n0 + 3))
      | none => (Role.skip, roleAt rs.events (n0 + 2))
    { s with rs := rs,
             alu := s.alu ++ [⟨k, a, b, c.getD 0, out, rA.state, rB == .creator, rC.state, rOut == .creator⟩] }
  | _ => { s with rs := rs }

structure Prep where
  consts : List Nat
  pubs : List Nat
  alu : List AluPrep
  reads : List (Nat × Nat)
  events : List (Nat × Role)
  defined : List Nat

/-- `generate_preprocessed_columns` restricted to primitive ops and hints. Returns `none`
for an unclaimed private input (`CircuitError::UnclaimedPrivateInput`). -/
def genPrep {K} (c : Circuit K) : Option Prep :=
  let constPub : List Nat := c.ops.toList.filterMap fun
    | .const out _ => some out
    | .pub out _ => some out
    | _ => none
  let hints : List Nat := (c.ops.toList.flatMap fun
    | .hint _ outs _ => outs
    | _ => []).filter fun w => !constPub.contains w
  let privs := c.privRows.toList
  let s := c.ops.toList.foldl (PrepState.step privs hints)
    { rs := { defined := [], reads := [], events := [] }, consts := [], pubs := [], alu := [] }
  if privs.all fun w => s.rs.defined.contains w then
    some { consts := s.consts, pubs := s.pubs, alu := s.alu, reads := s.rs.reads,
           events := s.rs.events, defined := s.rs.defined }
  else none

/-- Signed multiplicity of one event on the WitnessChecks bus after the conversion of
`common.rs`: a creator sends `+reads(slot)`, a reader receives `-1`, a skip is absent. -/
def eventMult (reads : List (Nat × Nat)) (e : Nat × Role) : Int :=
  match e.2 with
  | .creator => (readsOf reads e.1 : Int)
  | .reader => -1
  | .skip => 0

/-- Net multiplicity of slot `s` over all rows. The honest bus balances iff this is 0 for
every slot (all tuples on slot `s` carry the same value in an honest trace). -/
def netOf (reads : List (Nat × Nat)) (evs : List (Nat × Role)) (s : Nat) : Int :=
  ((evs.filter fun e => e.1 == s).map (eventMult reads)).sum

def Prep.net (p : Prep) (s : Nat) : Int := netOf p.reads p.events s

/-- Marks, for each slot of a Const/Public row list, whether the row is the first on its
slot (the view taken by the column conversion in `common.rs`). -/
def sendMults (outs : List Nat) : List (Nat × Bool) :=
  (outs.foldl (fun (acc : List (Nat × Bool) × List Nat) o =>
    (acc.1 ++ [(o, !acc.2.contains o)], o :: acc.2)) ([], [])).1

end P3R
