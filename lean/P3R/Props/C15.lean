/-
C15 — malformed proofs are rejected with an error, never a panic or a weaker circuit.

Theorems about the guarded-step model `P3R.Shape` (`Model/Shape.lean`) of the recursive
verifier's circuit builders, for EVERY shape vector and EVERY environment (no bound on list
lengths, counts, degrees, word size, field parameters).

This is the variant for the tree with fixes C15-1, C15-2, C15-3 and the later repairs ca07f07
(F9a, part), fc0321f (F9d), 069da9d (F9e), c030fca (F9i), 0e5036a (C07-F4) applied. Findings F9b,
F9c, F9d, F9e, F9i, F9o and the shift / bit-width part of F9a are repaired: what used to be a
hypothesis inside `PanicGuards` is now proved for every shape (`fri_pow_mismatch_err`,
`fri_height_overflow_err`, `open_input_height_err`, `uni_pow_mismatch_err`,
`uni_pow_mismatch_outcome`, `fri_no_panic`, `fri_sibling_mismatch_err`,
`fri_log_arity_out_of_range_err`, `open_input_bad_cap_err`, `fri_height_above_two_adicity_err`,
`uni_degree_out_of_range_err`).

FULL STATEMENTS (the property as worded) — both are still FALSE of the patched code (the
unrepaired findings F9a (rest), F9f, F9g, F9h remain); their negations are proved on concrete
witnesses in `P3R/Witness/C15.lean` and replayed on the real builders:

    no_panic           : ∀ e s, verifyUni e s ≠ .panic
    malformed_rejected : ∀ e s, ¬ WellFormed e s → verifyUni e s = .err

What is proved here:

* `run_ok_iff`, `run_panic_iff`, `run_no_panic` — semantics of an ordered list of guarded steps:
  accepted iff every step's condition holds; panics iff the first failing step is a partial
  (unchecked) operation; never panics if every partial step's condition holds.
* `uni_ok_validated` — if the uni-STARK builder accepts, every component the explicit validation
  covers has its expected value: trace openings have the AIR width, the quotient opening is
  exactly `2^logQd` chunks of `dim` coefficients, no ZK parts, local/next preprocessed widths
  agree and are present iff the verifier holds a preprocessed commitment, `degree_bits +
  log_quotient_degree` is below the word size and at most the field's bit width (this is
  "validate ok → expected shape" for the STARK layer).
* `uni_ok_fri_validated` — … and the FRI layer: as many PoW witnesses as commit-phase
  commitments, every query carries exactly that many openings with the schedule of the
  first query, every `log_arity` is at least 1 and below the word size, every opening carries
  `2^log_arity - 1` sibling values, the final polynomial has `2^logFinalPolyLen` coefficients, at
  least one query, `log_max_height` is at most the bit width and the two-adicity, every query
  opens exactly one batch per commitment round. Since 0e5036a a proof without fold phase is
  accepted (as natively), so "at least one phase" is no longer among the consequences
  (`Witness.C15.zero_phase_accepted`).
  NOT implied (and false today, see the witnesses): the number of queries and the cap sizes are
  whatever the proof says.
* `uni_no_panic_partial` — under the decidable hypothesis `PanicGuards e s` (every unchecked
  partial step of the builder goes through on this shape) the builder does not panic;
  `panicGuards_iff` shows that `PanicGuards` is exactly three arithmetic facts (eleven before the
  repairs): the AIR's preprocessed width does not exceed the proof's (F9h), `degree_bits +
  log_quotient_degree ≤ two-adicity` (rest of F9a), and the unchecked sum of the schedule fits a
  word; `uni_no_panic` is the theorem with these spelled out.
* `fri_no_panic` — the whole FRI + MMCS part (`verify_circuit`, `verify_fri_circuit`, `open_input`,
  cap handling) never panics on any shape whose schedule sum fits a word; `openInputChecks_allErr`:
  `open_input` has no partial step at all.
* `uni_malformed_rejected_partial` — under `PanicGuards`, a shape that violates any validated
  component is rejected with an error.
* `fri_pow_mismatch_err`, `uni_pow_mismatch_err`, `uni_pow_mismatch_outcome` — F9b / F9c repaired:
  a commitments / PoW-witnesses count mismatch is an error for every environment and shape.
* `fri_height_overflow_err`, `fri_height_above_two_adicity_err` — F9i repaired (both parts):
  out-of-range FRI parameters are an error.
* `fri_sibling_mismatch_err`, `fri_log_arity_out_of_range_err` — F9d repaired.
* `open_input_bad_cap_err`, `capChecks_allErr` — F9e repaired.
* `uni_degree_out_of_range_err`, `uni_prefix_panic_iff` — F9a: the repaired part is an error for
  every shape; the remaining panic window is exactly `two-adicity < degree_bits + logQd ≤ bit width`.
* `open_input_height_err` — F9o repaired: a matrix taller than the folding schedule reaches is an
  error.
* `honest_shapes_ok` — non-vacuity: the honest shapes of the three uni bases used by the
  correspondence satisfy `PanicGuards` and are accepted.
-/
import P3R.Model.Shape

namespace P3R.C15
open P3R.Shape

/-! ## Ordered guarded steps -/

theorem run_ok_iff (cs : List Check) : run cs = .ok ↔ ∀ c ∈ cs, c.holds = true := by
  induction cs with
  | nil => simp [run]
  | cons c cs ih =>
    unfold run
    by_cases h : c.holds = true
    · simp [h, ih]
    · have hk : c.kind.out ≠ .ok := by cases c.kind <;> simp [FailKind.out]
      simp [h, hk]

theorem run_panic_iff (cs : List Check) :
    run cs = .panic ↔ ∃ pre c post, cs = pre ++ c :: post ∧ (∀ d ∈ pre, d.holds = true) ∧
      c.holds = false ∧ c.kind = .panic := by
  induction cs with
  | nil => simp [run]
  | cons c cs ih =>
    unfold run
    by_cases h : c.holds = true
    · simp only [h, if_true, ih]
      constructor
      · rintro ⟨pre, d, post, rfl, hp, hd, hk⟩
        exact ⟨c :: pre, d, post, rfl, by
          intro x hx; rcases List.mem_cons.mp hx with rfl | hx
          · exact h
          · exact hp x hx, hd, hk⟩
      · rintro ⟨pre, d, post, heq, hp, hd, hk⟩
        cases pre with
        | nil =>
          simp only [List.nil_append, List.cons.injEq] at heq
          rw [← heq.1] at hd; simp [h] at hd
        | cons a pre =>
          simp only [List.cons_append, List.cons.injEq] at heq
          exact ⟨pre, d, post, heq.2, fun x hx => hp x (List.mem_cons_of_mem _ hx), hd, hk⟩
    · have hf : c.holds = false := by simpa using h
      simp only [hf]
      constructor
      · intro hk
        refine ⟨[], c, cs, rfl, by simp, hf, ?_⟩
        cases hkk : c.kind <;> simp_all [FailKind.out]
      · rintro ⟨pre, d, post, heq, hp, hd, hk⟩
        cases pre with
        | nil =>
          simp only [List.nil_append, List.cons.injEq] at heq
          rw [heq.1, hk]; simp [FailKind.out]
        | cons a pre =>
          simp only [List.cons_append, List.cons.injEq] at heq
          have := hp a (List.mem_cons_self ..)
          rw [← heq.1] at this; simp [hf] at this

theorem run_no_panic (cs : List Check)
    (h : ∀ c ∈ cs, c.kind = .panic → c.holds = true) : run cs ≠ .panic := by
  intro hp
  obtain ⟨pre, c, post, rfl, _, hc, hk⟩ := (run_panic_iff cs).mp hp
  have := h c (by simp) hk
  simp [hc] at this

theorem run_trichotomy (cs : List Check) : run cs = .ok ∨ run cs = .err ∨ run cs = .panic := by
  cases h : run cs <;> simp

/-! ## Uni-STARK builder -/

/-- Every unchecked partial step of the builder goes through on this shape (decidable; computed
from the model's own step list, so it is exactly the set of shapes on which no step panics). -/
def PanicGuards (e : Env) (s : UniShape) : Bool :=
  (uniChecks e s).all fun c => c.kind != .panic || c.holds

theorem uni_no_panic_partial (e : Env) (s : UniShape) (h : PanicGuards e s = true) :
    verifyUni e s ≠ .panic := by
  apply run_no_panic
  intro c hc hk
  have := (List.all_eq_true.mp h) c hc
  simpa [hk] using this

/-- What `PanicGuards` still contains for the STARK and FRI layers: the side conditions the Rust
never checks. After fixes C15-1 / C15-3 the challenge-slice condition, the `log_max_height`
overflow and the matrix-height subtraction are no longer among them; after ca07f07 / fc0321f /
069da9d / c030fca neither are the shift by `degree_bits`, anything about `log_arity` (shift, product,
allocation size), the Merkle caps, nor `log_max_height ≤ two-adicity`. Left: the AIR evaluated with
the proof's preprocessed width (F9h), the domain constructors above the two-adicity (rest of F9a)
and the unchecked `log_arities.iter().sum()`. `panicGuards_iff` shows that this is all. -/
theorem panicGuards_necessary (e : Env) (s : UniShape) (h : PanicGuards e s = true) :
    e.airPrepWidth ≤ s.prepWidth ∧
    s.degreeBits + e.logQd ≤ e.twoAdicity ∧
    sum s.fri.logArities < 2 ^ e.wordBits := by
  have hall := List.all_eq_true.mp h
  have key : ∀ b : Bool, partialStep b ∈ uniChecks e s → b = true := by
    intro b hb
    have := hall _ hb
    simpa [partialStep] using this
  refine ⟨?_, ?_, ?_⟩
  · have := key _ (by simp [uniChecks, uniPrefix] : partialStep (decide (e.airPrepWidth ≤ s.prepWidth)) ∈ uniChecks e s)
    simpa using this
  · have := key _ (by simp [uniChecks, uniPrefix] :
      partialStep (decide (s.degreeBits + e.logQd ≤ e.twoAdicity)) ∈ uniChecks e s)
    simpa using this
  · have := key _ (by simp [uniChecks, friVerifyChecks] :
      partialStep (decide (sum s.fri.logArities < 2 ^ e.wordBits)) ∈ uniChecks e s)
    simpa using this

/-- The STARK-layer components the explicit validation pins down. -/
structure Validated (e : Env) (s : UniShape) : Prop where
  traceLocal : s.traceLocal = e.airWidth
  traceNext : s.traceNext = e.airWidth
  chunks : s.quotientChunks = List.replicate (2 ^ e.logQd) e.dim
  noRandom : s.random = none ∧ s.randomCap = none
  prepAgree : s.prepLocal.getD 0 = s.prepNext.getD 0
  prepIff : e.prepCommit.isSome = true ↔ 0 < s.prepWidth
  powBits : e.queryPowBits ≤ e.valBits
  /-- fix ca07f07: the quotient domain fits a machine word and the field's bit width -/
  degree : s.degreeBits + e.logQd < e.wordBits ∧ s.degreeBits + e.logQd ≤ e.valBits

private theorem all_beq_replicate (l : List Nat) (d : Nat) (h : l.all (· == d) = true) :
    l = List.replicate l.length d := by
  induction l with
  | nil => simp
  | cons a l ih =>
    simp only [List.all_cons, Bool.and_eq_true, beq_iff_eq] at h
    simp only [List.length_cons, List.replicate_succ, List.cons.injEq]
    exact ⟨h.1, ih h.2⟩

theorem uni_ok_validated (e : Env) (s : UniShape) (h : verifyUni e s = .ok) : Validated e s := by
  have hall := (run_ok_iff _).mp h
  have key : ∀ b : Bool, must b ∈ uniChecks e s → b = true := by
    intro b hb
    have := hall _ hb
    simpa [must] using this
  have h1 := key _ (by simp [uniChecks, uniPrefix, validateUniShape] :
    must (s.traceLocal == e.airWidth && s.traceNext == e.airWidth) ∈ uniChecks e s)
  have h2 := key _ (by simp [uniChecks, uniPrefix, validateUniShape] :
    must (s.quotientChunks.length == 2 ^ e.logQd) ∈ uniChecks e s)
  have h3 := key _ (by simp [uniChecks, uniPrefix, validateUniShape] :
    must (s.quotientChunks.all (· == e.dim)) ∈ uniChecks e s)
  have h4 := key _ (by simp [uniChecks, uniPrefix] :
    must (s.random.isNone && s.randomCap.isNone) ∈ uniChecks e s)
  have h5 := key _ (by simp [uniChecks, uniPrefix, validateUniShape] :
    must (s.prepWidth == s.prepLocal.getD 0 && s.prepWidth == s.prepNext.getD 0) ∈ uniChecks e s)
  have h6 := key _ (by simp [uniChecks, uniPrefix, validateUniShape] :
    must (!(e.prepCommit.isSome && s.prepWidth == 0)) ∈ uniChecks e s)
  have h7 := key _ (by simp [uniChecks, uniPrefix, validateUniShape] :
    must (!(e.prepCommit.isNone && decide (s.prepWidth > 0))) ∈ uniChecks e s)
  have h8 := key _ (by simp [uniChecks, uniPrefix, friChallengeChecks] :
    must (decide (e.queryPowBits ≤ e.valBits)) ∈ uniChecks e s)
  have h9 := key _ (by simp [uniChecks, uniPrefix] :
    must (decide (s.degreeBits + e.logQd < e.wordBits) && decide (s.degreeBits + e.logQd ≤ e.valBits))
      ∈ uniChecks e s)
  simp only [Bool.and_eq_true, beq_iff_eq] at h1 h2 h5
  refine ⟨h1.1, h1.2, ?_, ?_, ?_, ?_, by simpa using h8, by simpa using h9⟩
  · have := all_beq_replicate _ _ h3
    rw [h2] at this; exact this
  · simp only [Bool.and_eq_true, Option.isNone_iff_eq_none] at h4; exact h4
  · unfold UniShape.prepWidth at h5; rw [← h5.2]
  · constructor
    · intro hs
      cases hw : s.prepWidth with
      | zero => simp [hs, hw] at h6
      | succ n => omega
    · intro hpos
      cases hc : e.prepCommit with
      | some c => simp
      | none => simp [hc, hpos] at h7

/-- The FRI-layer components the explicit validation pins down. -/
structure FriValidated (e : Env) (f : FriShape) : Prop where
  powEq : f.commitCaps.length = f.powWitnesses
  phases : f.logArities.length = f.commitCaps.length
  arityPos : ∀ la ∈ f.logArities, 1 ≤ la
  someQuery : f.queries ≠ []
  schedule : ∀ q ∈ f.queries, q.steps = f.logArities
  /-- fix fc0321f: every opening of every query carries exactly `2^log_arity - 1` sibling values
  (compared as coefficient counts, i.e. times `dim`), and `log_arity` is a valid shift amount -/
  siblings : ∀ q ∈ f.queries, ∀ i < f.logArities.length,
    f.logArities.getD i 0 < e.wordBits ∧
    q.siblings.getD i 0 * e.dim = (2 ^ f.logArities.getD i 0 - 1) * e.dim
  finalPoly : f.finalPolyLen = 2 ^ e.logFinalPolyLen
  height : logMaxHeight e f ≤ e.valBits
  /-- fix c030fca -/
  heightTwoAdic : logMaxHeight e f ≤ e.twoAdicity

theorem uni_ok_fri_validated (e : Env) (s : UniShape) (h : verifyUni e s = .ok) :
    FriValidated e s.fri ∧
    (∀ q ∈ s.fri.queries, q.inputProof.length = (uniRounds e s).length) := by
  have hall := (run_ok_iff _).mp h
  have key : ∀ b : Bool, must b ∈ uniChecks e s → b = true := by
    intro b hb
    have := hall _ hb
    simpa [must] using this
  have g1 := key _ (by simp [uniChecks, friVerifyChecks] :
    must (s.fri.commitCaps.length == s.fri.powWitnesses) ∈ uniChecks e s)
  have g2 := key _ (by simp [uniChecks, friVerifyChecks] :
    must (s.fri.logArities.length == s.fri.commitCaps.length) ∈ uniChecks e s)
  have g2' := key _ (by simp [uniChecks, friVerifyChecks] :
    must (s.fri.logArities.all (· != 0)) ∈ uniChecks e s)
  have g3 := key _ (by simp [uniChecks, friVerifyChecks] :
    must (s.fri.queries.length != 0) ∈ uniChecks e s)
  have g5 := key _ (by simp [uniChecks, friVerifyChecks] :
    must (isPow2 s.fri.finalPolyLen && log2 s.fri.finalPolyLen == e.logFinalPolyLen) ∈ uniChecks e s)
  have g6 := key _ (by simp [uniChecks, friVerifyChecks] :
    must (decide (logMaxHeight e s.fri ≤ e.valBits)) ∈ uniChecks e s)
  have g7 := key _ (by simp [uniChecks, friVerifyChecks] :
    must (decide (logMaxHeight e s.fri ≤ e.twoAdicity)) ∈ uniChecks e s)
  have g5' : s.fri.finalPolyLen = 2 ^ e.logFinalPolyLen := by
    simp only [isPow2, Bool.and_eq_true, bne_iff_ne, ne_eq, beq_iff_eq] at g5
    rw [← g5.2, g5.1.2]
  have qmem : ∀ q ∈ s.fri.queries, ∀ c ∈ queryScheduleChecks e s.fri.logArities q, c ∈ uniChecks e s := by
    intro q hq c hc
    simp only [uniChecks, friVerifyChecks, List.mem_append, List.mem_flatMap]
    exact Or.inr (Or.inl (Or.inl (Or.inr ⟨q, hq, hc⟩)))
  refine ⟨⟨by simpa using g1, by simpa using g2, ?_, ?_, ?_, ?_, g5', by simpa using g6,
    by simpa using g7⟩, ?_⟩
  · intro la hla
    have := (List.all_eq_true.mp g2') la hla
    simp only [bne_iff_ne, ne_eq] at this
    omega
  · intro hn; simp [hn] at g3
  · intro q hq
    have := key (q.steps == s.fri.logArities) (qmem q hq _ (by simp [queryScheduleChecks]))
    simpa using this
  · intro q hq i hi
    have := key (siblingOk e (s.fri.logArities.getD i 0) (q.siblings.getD i 0)) (qmem q hq _ (by
      simp only [queryScheduleChecks, List.mem_cons, List.mem_map, List.mem_range]
      exact Or.inr ⟨i, hi, rfl⟩))
    simp only [siblingOk, Bool.and_eq_true, decide_eq_true_eq, beq_iff_eq] at this
    exact ⟨this.1, this.2.2⟩
  · intro q hq
    have := key ((uniRounds e s).length == q.inputProof.length) (by
      simp only [uniChecks, friVerifyChecks, openInputChecks, List.mem_append, List.mem_flatMap]
      refine Or.inr (Or.inr ⟨q, hq, Or.inl (Or.inl (Or.inl (Or.inr ?_)))⟩)
      simp)
    simp only [beq_iff_eq] at this
    exact this.symm

/-- Under the guard hypothesis a shape violating any validated component is rejected with an
error (`malformed_rejected` restricted to what validation covers, minus the panics). -/
theorem uni_malformed_rejected_partial (e : Env) (s : UniShape)
    (hg : PanicGuards e s = true)
    (hbad : ¬ (Validated e s ∧ FriValidated e s.fri ∧
      ∀ q ∈ s.fri.queries, q.inputProof.length = (uniRounds e s).length)) :
    verifyUni e s = .err := by
  rcases run_trichotomy (uniChecks e s) with h | h | h
  · exact absurd ⟨uni_ok_validated e s h, (uni_ok_fri_validated e s h).1,
      (uni_ok_fri_validated e s h).2⟩ hbad
  · exact h
  · exact absurd h (uni_no_panic_partial e s hg)

/-! ## Repaired findings (fixes C15-1 and C15-3): proved for every shape, no guard hypothesis -/

theorem run_append (a b : List Check) :
    run (a ++ b) = match run a with | .ok => run b | o => o := by
  induction a with
  | nil => simp [run]
  | cons c a ih =>
    simp only [List.cons_append, run]
    by_cases h : c.holds = true
    · simp [h, ih]
    · simp only [h]
      cases c.kind <;> simp [FailKind.out]

/-- A list of explicit checks (no partial step) one of which fails returns an error, whatever
follows it. -/
theorem run_err_of_must_prefix (a b : List Check) (hk : ∀ c ∈ a, c.kind = .err)
    (hf : ∃ c ∈ a, c.holds = false) : run (a ++ b) = .err := by
  induction a with
  | nil => obtain ⟨c, hc, _⟩ := hf; simp at hc
  | cons c a ih =>
    simp only [List.cons_append, run]
    by_cases h : c.holds = true
    · simp only [h, if_true]
      apply ih (fun d hd => hk d (List.mem_cons_of_mem _ hd))
      obtain ⟨d, hd, hdf⟩ := hf
      rcases List.mem_cons.mp hd with rfl | hd
      · simp [h] at hdf
      · exact ⟨d, hd, hdf⟩
    · simp [h, hk c (List.mem_cons_self ..), FailKind.out]

/-- F9b / F9c repaired: a FRI proof whose commit-phase commitments and PoW witnesses differ in
number is rejected with an error by `verify_circuit` — for every environment, every shape and
every set of commitment rounds (before the fix: a slice panic, hypothesis of `PanicGuards`). -/
theorem fri_pow_mismatch_err (e : Env) (f : FriShape) (rounds : List Round)
    (h : f.commitCaps.length ≠ f.powWitnesses) : run (friVerifyChecks e f rounds) = .err := by
  simp [friVerifyChecks, run, must, h, FailKind.out]

/-- F9i (overflow part) repaired: FRI parameters whose sum with the folding schedule does not fit
a machine word are rejected with an error (before the fix: an arithmetic-overflow panic). -/
theorem fri_height_overflow_err (e : Env) (f : FriShape) (rounds : List Round)
    (h1 : f.commitCaps.length = f.powWitnesses) (h2 : sum f.logArities < 2 ^ e.wordBits)
    (h3 : ¬ logMaxHeight e f < 2 ^ e.wordBits) : run (friVerifyChecks e f rounds) = .err := by
  simp [friVerifyChecks, run, must, partialStep, h1, h2, h3, FailKind.out]

/-- F9o repaired: a committed matrix taller than the height the folding schedule reaches is
rejected with an error by `open_input` (before the fix: `log_global_max_height - height`
underflowed). -/
theorem open_input_height_err (e : Env) (f : FriShape) (rounds : List Round) (q : QueryShape)
    (h : ∃ r ∈ rounds, ∃ m ∈ r.mats, logMaxHeight e f < m.1 + e.logBlowup) :
    run (openInputChecks e f rounds q) = .err := by
  unfold openInputChecks
  simp only [List.append_assoc]
  apply run_err_of_must_prefix
  · intro c hc
    simp only [List.mem_flatMap, List.mem_map] at hc
    obtain ⟨r, _, m, _, rfl⟩ := hc
    rfl
  · obtain ⟨r, hr, m, hm, hlt⟩ := h
    refine ⟨must (decide (m.1 + e.logBlowup ≤ logMaxHeight e f)), ?_, ?_⟩
    · simp only [List.mem_flatMap, List.mem_map]
      exact ⟨r, hr, m, hm, rfl⟩
    · simp only [must, decide_eq_false_iff_not]; omega

/-- Uni-STARK level: once the steps before the PCS go through, a commitments / PoW-witnesses
mismatch is an error (never a panic, never accepted). -/
theorem uni_pow_mismatch_err (e : Env) (s : UniShape) (hp : run (uniPrefix e s) = .ok)
    (h : s.fri.commitCaps.length ≠ s.fri.powWitnesses) : verifyUni e s = .err := by
  unfold verifyUni uniChecks
  rw [run_append, hp]
  exact fri_pow_mismatch_err e s.fri _ h

/-- … and it is never accepted nor a panic of the PCS part, whatever the prefix does: the outcome
is the prefix's own failure or an error. -/
theorem uni_pow_mismatch_outcome (e : Env) (s : UniShape)
    (h : s.fri.commitCaps.length ≠ s.fri.powWitnesses) :
    verifyUni e s = .err ∨ verifyUni e s = run (uniPrefix e s) := by
  unfold verifyUni uniChecks
  rw [run_append]
  cases hp : run (uniPrefix e s)
  · exact Or.inl (fri_pow_mismatch_err e s.fri _ h)
  · exact Or.inr rfl
  · exact Or.inr rfl

/-! ## Repaired findings F9a (part), F9d, F9e, F9i (commits ca07f07, fc0321f, 069da9d, c030fca):
proved rejected with an error for every shape; what is left that can panic -/

/-- A list whose partial steps all go through and one of whose steps fails returns an error,
whatever follows it. -/
theorem run_err_of_guarded_prefix (a b : List Check)
    (hk : ∀ c ∈ a, c.kind = .panic → c.holds = true)
    (hf : ∃ c ∈ a, c.holds = false) : run (a ++ b) = .err := by
  induction a with
  | nil => obtain ⟨c, hc, _⟩ := hf; simp at hc
  | cons c a ih =>
    simp only [List.cons_append, run]
    by_cases h : c.holds = true
    · simp only [h, if_true]
      apply ih (fun d hd => hk d (List.mem_cons_of_mem _ hd))
      obtain ⟨d, hd, hdf⟩ := hf
      rcases List.mem_cons.mp hd with rfl | hd
      · simp [h] at hdf
      · exact ⟨d, hd, hdf⟩
    · have : c.kind = .err := by
        cases hkk : c.kind with
        | err => rfl
        | panic => exact absurd (hk c (List.mem_cons_self ..) hkk) h
      simp [h, this, FailKind.out]

/-- Every step of the list is an explicit error return. -/
def AllErr (cs : List Check) : Prop := ∀ c ∈ cs, c.kind = .err

theorem AllErr.append {a b : List Check} (ha : AllErr a) (hb : AllErr b) : AllErr (a ++ b) := by
  intro c hc
  rcases List.mem_append.mp hc with h | h
  · exact ha c h
  · exact hb c h

theorem AllErr.flatMap {α} (l : List α) (f : α → List Check) (h : ∀ x ∈ l, AllErr (f x)) :
    AllErr (l.flatMap f) := by
  intro c hc
  obtain ⟨x, hx, hcx⟩ := List.mem_flatMap.mp hc
  exact h x hx c hcx

theorem AllErr.map_must {α} (l : List α) (f : α → Bool) : AllErr (l.map fun x => must (f x)) := by
  intro c hc
  obtain ⟨x, _, rfl⟩ := List.mem_map.mp hc
  rfl

theorem AllErr.run_ne_panic {cs : List Check} (h : AllErr cs) : run cs ≠ .panic :=
  run_no_panic cs (fun c hc hk => by rw [h c hc] at hk; cases hk)

/-- F9e repaired (069da9d): the cap handling of the MMCS gadgets has no partial step left. -/
theorem capChecks_allErr (cap bits : Nat) : AllErr (capChecks cap bits) := by
  intro c hc
  simp only [capChecks, List.mem_cons, List.not_mem_nil, or_false] at hc
  rcases hc with rfl | rfl <;> rfl

/-- … so `open_input` (input-batch MMCS openings included) never panics, for every environment,
FRI shape, set of commitment rounds and query. -/
theorem openInputChecks_allErr (e : Env) (f : FriShape) (rounds : List Round) (q : QueryShape) :
    AllErr (openInputChecks e f rounds q) := by
  unfold openInputChecks
  refine AllErr.append (AllErr.append (AllErr.append ?_ ?_) ?_) ?_
  · exact AllErr.flatMap _ _ (fun r _ => AllErr.map_must _ _)
  · intro c hc; simp only [List.mem_cons, List.not_mem_nil, or_false] at hc; subst hc; rfl
  · apply AllErr.flatMap
    rintro ⟨r, b⟩ _
    refine AllErr.append (AllErr.append ?_ ?_) ?_
    · by_cases hm : e.mmcs = true
      · simp only [hm, if_true]
        refine AllErr.append (AllErr.append (AllErr.append ?_ ?_) ?_) (capChecks_allErr _ _)
        · intro c hc
          simp only [List.mem_cons, List.not_mem_nil, or_false] at hc
          rcases hc with rfl | rfl <;> rfl
        · intro c hc
          obtain ⟨x, _, rfl⟩ := List.mem_map.mp hc
          rfl
        · intro c hc; simp only [List.mem_cons, List.not_mem_nil, or_false] at hc; subst hc; rfl
      · simp only [hm]
        intro c hc
        simp at hc
    · intro c hc; simp only [List.mem_cons, List.not_mem_nil, or_false] at hc; subst hc; rfl
    · intro c hc
      obtain ⟨x, _, rfl⟩ := List.mem_map.mp hc
      rfl
  · intro c hc; simp only [List.mem_cons, List.not_mem_nil, or_false] at hc; subst hc; rfl

theorem commitPhaseChecks_allErr (e : Env) (f : FriShape) : AllErr (commitPhaseChecks e f) := by
  unfold commitPhaseChecks
  by_cases hm : e.mmcs = true
  · simp only [hm, if_true]
    apply AllErr.flatMap
    intro i _
    by_cases hz : (logMaxHeight e f - sum (f.logArities.take (i + 1)) == 0) = true
    · simp only [hz, if_true]; intro c hc; simp at hc
    · simp only [hz]; exact capChecks_allErr _ _
  · simp only [hm]; intro c hc; simp at hc

theorem queryScheduleChecks_allErr (e : Env) (las : List Nat) (q : QueryShape) :
    AllErr (queryScheduleChecks e las q) := by
  intro c hc
  simp only [queryScheduleChecks, List.mem_cons, List.mem_map] at hc
  rcases hc with rfl | ⟨i, _, rfl⟩ <;> rfl

/-- The FRI + MMCS part of the builders, split at its only remaining partial step (the unchecked
`log_arities.iter().sum()`): everything else is an explicit error return. -/
theorem friVerifyChecks_partial_steps (e : Env) (f : FriShape) (rounds : List Round) :
    ∀ c ∈ friVerifyChecks e f rounds, c.kind = .panic →
      c = partialStep (decide (sum f.logArities < 2 ^ e.wordBits)) := by
  intro c hc hk
  have herr : ∀ d : Check, d.kind = .err → d = c → False := by
    intro d hd hdc; rw [hdc, hk] at hd; cases hd
  simp only [friVerifyChecks, List.mem_append, List.mem_cons, List.not_mem_nil, or_false,
    List.mem_flatMap] at hc
  rcases hc with ((h | h) | h) | h
  · rcases h with rfl | rfl | rfl | rfl | rfl | rfl | rfl | rfl | rfl
    all_goals first | rfl | exact absurd hk (by simp [must])
  · obtain ⟨q, _, hq⟩ := h
    exact absurd hk (by rw [queryScheduleChecks_allErr e _ q c hq]; simp)
  · subst h; exact absurd hk (by simp [must])
  · obtain ⟨q, _, hq⟩ := h
    rcases hq with hq | hq
    · exact absurd hk (by rw [openInputChecks_allErr e f rounds q c hq]; simp)
    · exact absurd hk (by rw [commitPhaseChecks_allErr e f c hq]; simp)

/-- F9d, F9e, F9i repaired: once the schedule's sum fits a machine word (≥ 2^56 openings of the
largest `u8` arity would be needed to violate that), the whole FRI + MMCS part of the builders —
`verify_circuit`, `verify_fri_circuit`, `open_input`, the MMCS gadgets' cap handling — never panics:
for every environment, every FRI shape (any `log_arity`, any sibling counts, any caps, any FRI
parameters) and every set of commitment rounds. Before the repairs this needed five more guard
hypotheses (`log_arity` shift / product / allocation, non-empty power-of-two caps,
`log_max_height ≤ two-adicity`). -/
theorem fri_no_panic (e : Env) (f : FriShape) (rounds : List Round)
    (h : sum f.logArities < 2 ^ e.wordBits) : run (friVerifyChecks e f rounds) ≠ .panic := by
  apply run_no_panic
  intro c hc hk
  rw [friVerifyChecks_partial_steps e f rounds c hc hk]
  simpa [partialStep] using h

/-- Corollary: under that hypothesis any failing step of the FRI part is an error. -/
theorem fri_err_of_failing_step (e : Env) (f : FriShape) (rounds : List Round)
    (h : sum f.logArities < 2 ^ e.wordBits)
    (hf : ∃ c ∈ friVerifyChecks e f rounds, c.holds = false) :
    run (friVerifyChecks e f rounds) = .err := by
  have := run_err_of_guarded_prefix (friVerifyChecks e f rounds) [] (by
    intro c hc hk
    rw [friVerifyChecks_partial_steps e f rounds c hc hk]
    simpa [partialStep] using h) hf
  simpa using this

/-- F9i (`two_adic_generator` part) repaired (c030fca): FRI parameters / a folding schedule whose
`log_max_height` exceeds the field's two-adicity are rejected with an error (before: the assertion
inside `two_adic_generator`). -/
theorem fri_height_above_two_adicity_err (e : Env) (f : FriShape) (rounds : List Round)
    (h2 : sum f.logArities < 2 ^ e.wordBits) (h : e.twoAdicity < logMaxHeight e f) :
    run (friVerifyChecks e f rounds) = .err := by
  apply fri_err_of_failing_step e f rounds h2
  refine ⟨must (decide (logMaxHeight e f ≤ e.twoAdicity)), by simp [friVerifyChecks], ?_⟩
  simp only [must, decide_eq_false_iff_not]; omega

/-- F9d repaired (fc0321f): a commit-phase opening whose sibling count is not `2^log_arity - 1`, or
whose `log_arity` is not a valid shift amount, or whose coefficient count would overflow, is
rejected with an error (before: `1 << log_arity` overflowed, or `2^log_arity` targets were
allocated and the process died). -/
theorem fri_sibling_mismatch_err (e : Env) (f : FriShape) (rounds : List Round)
    (h2 : sum f.logArities < 2 ^ e.wordBits)
    (h : ∃ q ∈ f.queries, ∃ i < f.logArities.length,
      siblingOk e (f.logArities.getD i 0) (q.siblings.getD i 0) = false) :
    run (friVerifyChecks e f rounds) = .err := by
  apply fri_err_of_failing_step e f rounds h2
  obtain ⟨q, hq, i, hi, hs⟩ := h
  refine ⟨must (siblingOk e (f.logArities.getD i 0) (q.siblings.getD i 0)), ?_, hs⟩
  simp only [friVerifyChecks, List.mem_append, List.mem_flatMap]
  refine Or.inl (Or.inl (Or.inr ⟨q, hq, ?_⟩))
  simp only [queryScheduleChecks, List.mem_cons, List.mem_map, List.mem_range]
  exact Or.inr ⟨i, hi, rfl⟩

/-- … in particular every `log_arity ≥ usize::BITS` (the old shift overflow, corpus f9d_log_arity_255)
in a proof with at least one query. -/
theorem fri_log_arity_out_of_range_err (e : Env) (f : FriShape) (rounds : List Round)
    (h2 : sum f.logArities < 2 ^ e.wordBits) (hq : f.queries ≠ [])
    (h : ∃ i < f.logArities.length, e.wordBits ≤ f.logArities.getD i 0) :
    run (friVerifyChecks e f rounds) = .err := by
  obtain ⟨i, hi, hla⟩ := h
  cases hqs : f.queries with
  | nil => exact absurd hqs hq
  | cons q qs =>
    apply fri_sibling_mismatch_err e f rounds h2
    refine ⟨q, by rw [hqs]; exact List.mem_cons_self .., i, hi, ?_⟩
    have : decide (f.logArities.getD i 0 < e.wordBits) = false := by
      simp only [decide_eq_false_iff_not]; omega
    simp only [siblingOk, this, Bool.false_and]

/-- F9e repaired (069da9d): a commitment round whose cap is empty or not a power of two makes
`open_input` return an error when MMCS verification is on (before: `assert!` / `log2_strict_usize`
panics). Unconditional: `open_input` has no partial step. -/
theorem open_input_bad_cap_err (e : Env) (f : FriShape) (rounds : List Round) (q : QueryShape)
    (hm : e.mmcs = true)
    (h : ∃ p ∈ rounds.zip q.inputProof, isPow2 p.1.cap = false) :
    run (openInputChecks e f rounds q) = .err := by
  have hrun := run_err_of_must_prefix (openInputChecks e f rounds q) []
    (openInputChecks_allErr e f rounds q) ?_
  · simpa using hrun
  obtain ⟨⟨r, b⟩, hp, hc⟩ := h
  refine ⟨must (isPow2 r.cap), ?_, hc⟩
  simp only [openInputChecks, List.mem_append, List.mem_flatMap]
  refine Or.inl (Or.inr ⟨(r, b), hp, ?_⟩)
  simp [hm, capChecks]

/-- F9a repaired part (ca07f07): a `degree_bits` whose quotient domain would not fit a machine word
or exceeds the field's bit width is rejected with an error once the AIR evaluation that precedes
the test goes through (before: `1 << degree_bits` overflowed for `degree_bits ≥ 64`, and the domain
constructors panicked for everything above the two-adicity). -/
theorem uni_degree_out_of_range_err (e : Env) (s : UniShape)
    (hair : e.airPrepWidth ≤ s.prepWidth)
    (h : ¬ (s.degreeBits + e.logQd < e.wordBits ∧ s.degreeBits + e.logQd ≤ e.valBits)) :
    verifyUni e s = .err := by
  have hb : (decide (s.degreeBits + e.logQd < e.wordBits) && decide (s.degreeBits + e.logQd ≤ e.valBits))
      = false := by
    cases hx : (decide (s.degreeBits + e.logQd < e.wordBits) && decide (s.degreeBits + e.logQd ≤ e.valBits))
    · rfl
    · simp only [Bool.and_eq_true, decide_eq_true_eq] at hx; exact absurd hx h
  simp [verifyUni, uniChecks, uniPrefix, run, partialStep, must, hair, hb, FailKind.out]

/-- What is left of F9a, exactly: with the AIR evaluation going through, the steps before the PCS
panic iff `degree_bits + log_quotient_degree` lies above the two-adicity but within the word size
and the field's bit width (BabyBear: 28..=31 for one quotient chunk). -/
theorem uni_prefix_panic_iff (e : Env) (s : UniShape) (hair : e.airPrepWidth ≤ s.prepWidth) :
    run (uniPrefix e s) = .panic ↔
      e.twoAdicity < s.degreeBits + e.logQd ∧ s.degreeBits + e.logQd < e.wordBits ∧
      s.degreeBits + e.logQd ≤ e.valBits := by
  have hne : ∀ cs : List Check, AllErr cs → run cs ≠ .panic := fun cs h => h.run_ne_panic
  have hrest : AllErr (friChallengeChecks e s.fri ++ [must (s.random.isNone && s.randomCap.isNone)]
      ++ validateUniShape e s) := by
    intro c hc
    simp only [friChallengeChecks, validateUniShape, List.mem_append, List.mem_cons,
      List.not_mem_nil, or_false] at hc
    rcases hc with ((rfl | rfl) | rfl) | rfl | rfl | rfl | rfl | rfl | rfl | rfl <;> rfl
  have hu : uniPrefix e s =
      [ partialStep (decide (e.airPrepWidth ≤ s.prepWidth)),
        must (decide (s.degreeBits + e.logQd < e.wordBits) && decide (s.degreeBits + e.logQd ≤ e.valBits)),
        partialStep (decide (s.degreeBits + e.logQd ≤ e.twoAdicity)) ]
      ++ (friChallengeChecks e s.fri ++ [must (s.random.isNone && s.randomCap.isNone)]
          ++ validateUniShape e s) := by
    simp [uniPrefix]
  rw [hu]
  by_cases h1 : s.degreeBits + e.logQd < e.wordBits ∧ s.degreeBits + e.logQd ≤ e.valBits
  · by_cases h2 : s.degreeBits + e.logQd ≤ e.twoAdicity
    · have : ¬ e.twoAdicity < s.degreeBits + e.logQd := by omega
      simp only [List.cons_append, List.nil_append, run, partialStep, must, hair, h1.1, h1.2, h2,
        decide_true, Bool.and_self, if_true, this, false_and, iff_false]
      exact hne _ hrest
    · have : e.twoAdicity < s.degreeBits + e.logQd := by omega
      simp [run, partialStep, must, hair, h1.1, h1.2, h2, this, FailKind.out]
  · have hb : (decide (s.degreeBits + e.logQd < e.wordBits) && decide (s.degreeBits + e.logQd ≤ e.valBits))
        = false := by
      cases hx : (decide (s.degreeBits + e.logQd < e.wordBits) && decide (s.degreeBits + e.logQd ≤ e.valBits))
      · rfl
      · simp only [Bool.and_eq_true, decide_eq_true_eq] at hx; exact absurd hx h1
    have : ¬ (e.twoAdicity < s.degreeBits + e.logQd ∧ s.degreeBits + e.logQd < e.wordBits ∧
        s.degreeBits + e.logQd ≤ e.valBits) := fun h => h1 h.2
    simp [run, partialStep, must, hair, hb, this, FailKind.out]

/-- `PanicGuards` is *exactly* the three side conditions of `panicGuards_necessary`: the builder
has no other unchecked partial step on any shape (after the repairs; before them the list had
eleven entries). -/
theorem panicGuards_iff (e : Env) (s : UniShape) :
    PanicGuards e s = true ↔
      e.airPrepWidth ≤ s.prepWidth ∧ s.degreeBits + e.logQd ≤ e.twoAdicity ∧
      sum s.fri.logArities < 2 ^ e.wordBits := by
  constructor
  · exact panicGuards_necessary e s
  · rintro ⟨h1, h2, h3⟩
    apply List.all_eq_true.mpr
    intro c hc
    cases hk : c.kind with
    | err => simp
    | panic =>
      simp only [uniChecks, List.mem_append] at hc
      rcases hc with hc | hc
      · simp only [uniPrefix, friChallengeChecks, validateUniShape, List.mem_append, List.mem_cons,
          List.not_mem_nil, or_false] at hc
        rcases hc with (((rfl | rfl | rfl) | (rfl | rfl)) | rfl) | rfl | rfl | rfl | rfl | rfl | rfl | rfl
        all_goals first
          | (simp [partialStep, h1, h2]; done)
          | (exact absurd hk (by simp [must]))
      · rw [friVerifyChecks_partial_steps e s.fri _ c hc hk]
        simp [partialStep, h3]

/-- The no-panic theorem with the guard spelled out (stronger than before the repairs: the
hypotheses on `log_arity`, the caps, `degree_bits < usize::BITS` and `log_max_height` are gone). -/
theorem uni_no_panic (e : Env) (s : UniShape)
    (h1 : e.airPrepWidth ≤ s.prepWidth) (h2 : s.degreeBits + e.logQd ≤ e.twoAdicity)
    (h3 : sum s.fri.logArities < 2 ^ e.wordBits) : verifyUni e s ≠ .panic :=
  uni_no_panic_partial e s ((panicGuards_iff e s).mpr ⟨h1, h2, h3⟩)

/-! ## Non-vacuity: the honest shapes of the correspondence bases -/

def envFib (capLog : Nat) : Env :=
  { airWidth := 2, airPrepWidth := 0, logQd := 0, dim := 4, prepCommit := none, logBlowup := 2,
    logFinalPolyLen := 0, commitPowBits := 1, queryPowBits := 1, mmcs := true, valBits := 31,
    twoAdicity := 27, wordBits := 64, maxAlloc := 2 ^ 26 + capLog * 0 }

def honestQuery : QueryShape := { inputProof := [[2], [4]], steps := [1, 1, 1], siblings := [1, 1, 1] }

/-- Fibonacci, 8 rows, blow-up 2², final polynomial of length 1, two queries, `cap` roots per cap. -/
def honestFib (cap : Nat) : UniShape :=
  { traceCap := cap, quotientCap := cap, randomCap := none, traceLocal := 2, traceNext := 2,
    prepLocal := none, prepNext := none, quotientChunks := [4], random := none, degreeBits := 3,
    fri := { commitCaps := [cap, cap, cap], powWitnesses := 3,
             queries := [honestQuery, honestQuery], finalPolyLen := 1 } }

def envMul : Env :=
  { airWidth := 2, airPrepWidth := 4, logQd := 1, dim := 4, prepCommit := some 1, logBlowup := 2,
    logFinalPolyLen := 0, commitPowBits := 1, queryPowBits := 1, mmcs := false, valBits := 31,
    twoAdicity := 27, wordBits := 64, maxAlloc := 2 ^ 26 }

def honestMul : UniShape :=
  { traceCap := 1, quotientCap := 1, randomCap := none, traceLocal := 2, traceNext := 2,
    prepLocal := some 4, prepNext := some 4, quotientChunks := [4, 4], random := none,
    degreeBits := 3,
    fri := { commitCaps := [1, 1, 1], powWitnesses := 3,
             queries := [{ inputProof := [[2], [4, 4], [4]], steps := [1, 1, 1], siblings := [1, 1, 1] },
                         { inputProof := [[2], [4, 4], [4]], steps := [1, 1, 1], siblings := [1, 1, 1] }],
             finalPolyLen := 1 } }

theorem honest_shapes_ok :
    verifyUni (envFib 0) (honestFib 1) = .ok ∧ PanicGuards (envFib 0) (honestFib 1) = true ∧
    verifyUni (envFib 1) (honestFib 2) = .ok ∧ PanicGuards (envFib 1) (honestFib 2) = true ∧
    verifyUni envMul honestMul = .ok ∧ PanicGuards envMul honestMul = true := by
  decide

end P3R.C15

#print axioms P3R.C15.run_ok_iff
#print axioms P3R.C15.run_panic_iff
#print axioms P3R.C15.run_no_panic
#print axioms P3R.C15.uni_ok_validated
#print axioms P3R.C15.uni_ok_fri_validated
#print axioms P3R.C15.uni_no_panic_partial
#print axioms P3R.C15.panicGuards_necessary
#print axioms P3R.C15.uni_malformed_rejected_partial
#print axioms P3R.C15.honest_shapes_ok
#print axioms P3R.C15.run_append
#print axioms P3R.C15.run_err_of_must_prefix
#print axioms P3R.C15.fri_pow_mismatch_err
#print axioms P3R.C15.fri_height_overflow_err
#print axioms P3R.C15.open_input_height_err
#print axioms P3R.C15.uni_pow_mismatch_err
#print axioms P3R.C15.uni_pow_mismatch_outcome
#print axioms P3R.C15.run_err_of_guarded_prefix
#print axioms P3R.C15.capChecks_allErr
#print axioms P3R.C15.openInputChecks_allErr
#print axioms P3R.C15.commitPhaseChecks_allErr
#print axioms P3R.C15.queryScheduleChecks_allErr
#print axioms P3R.C15.friVerifyChecks_partial_steps
#print axioms P3R.C15.fri_no_panic
#print axioms P3R.C15.fri_err_of_failing_step
#print axioms P3R.C15.fri_height_above_two_adicity_err
#print axioms P3R.C15.fri_sibling_mismatch_err
#print axioms P3R.C15.fri_log_arity_out_of_range_err
#print axioms P3R.C15.open_input_bad_cap_err
#print axioms P3R.C15.uni_degree_out_of_range_err
#print axioms P3R.C15.uni_prefix_panic_iff
#print axioms P3R.C15.panicGuards_iff
#print axioms P3R.C15.uni_no_panic
