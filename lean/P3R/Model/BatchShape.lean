/-
C15 model, batch path — the shape-dependent control flow of the batch-STARK verifier-circuit
builders, in the style of `Model/Shape.lean` (an ordered list of guarded steps; `run` returns the
outcome of the first failing step).

Transcribed, statement by statement and in source order, from
  recursion/src/verifier/batch_stark.rs:211-321   `verify_p3_batch_proof_circuit`
  circuit-prover/src/batch_stark_prover.rs:294-299, 475-480, 670-681 and
  circuit-prover/src/batch_stark_prover/packing.rs `TablePacking::validate`  (`proof.validate()`)
  recursion/src/public_inputs.rs:620-652           `BatchStarkVerifierInputsBuilder::allocate`
  recursion/src/types/proof.rs:318-395, 477-520, 561-580  `BatchProofTargets::new`, …
  recursion/src/verifier/batch_stark.rs:369-1033   `verify_batch_circuit`
The FRI / MMCS part is the one of `Model/Shape.lean` (`friChallengeChecks`, `friVerifyChecks`),
called with the commitment rounds the batch builder assembles (`batchRounds`).

`verify_batch_circuit` is generic in the AIR type `A : RecursiveAir`; what it learns from the
`i`-th AIR is `AirFacts`: its width, whether it opens the next row, and the results of the two
symbolic evaluations it asks for with shape-dependent arguments
(`air.declares_interactions(pre_w)`, `A::get_log_num_quotient_chunks(air, pre_w, &lookups[i], …)`;
`none` = the AIR's own `eval` panics on a layout with that preprocessed width / those lookup
contexts). They are part of the environment: the theorems quantify over every value of them.

Zips of the Rust that could truncate silently are named in `batchZips`; the property theorems
prove both sides equal whenever the builder accepts.

Import-free apart from `Model/Shape.lean` (core only), so that the driver links natively.
-/
import P3R.Model.Shape

namespace P3R.Shape

/-- What `verify_batch_circuit` learns from one AIR. -/
structure AirFacts where
  width : Nat
  /-- `air.opens_trace_next()` -/
  opensNext : Bool
  /-- `air.declares_interactions(pre_w)`; `none`: the symbolic evaluation panics -/
  declares : Option Bool
  /-- `A::get_log_num_quotient_chunks(air, pre_w, &all_lookups[i], is_zk, gadget)`; `none`: panics -/
  logQd : Option Nat
  deriving DecidableEq, Repr, Inhabited

/-- `OpenedValuesTargetsWithLookups` of one instance: lengths only. -/
structure InstShape where
  traceLocal : Nat
  /-- 0 when `trace_next` is absent (`map_or(0, len)` at allocation) -/
  traceNext : Nat
  prepLocal : Option Nat
  prepNext : Option Nat
  quotientChunks : List Nat
  random : Option Nat
  permLocal : Nat
  permNext : Nat
  deriving DecidableEq, Repr, Inhabited

/-- `PreprocessedInstanceMeta` -/
structure PrepMeta where
  matrixIndex : Nat
  width : Nat
  degreeBits : Nat
  deriving DecidableEq, Repr, Inhabited

/-- `GlobalPreprocessed` of the common data: cap size of the commitment, per-instance metadata,
`matrix_to_instance`. -/
structure PrepShape where
  cap : Nat
  instances : List (Option PrepMeta)
  matrixToInstance : List Nat
  deriving DecidableEq, Repr, Inhabited

/-- Table metadata of a circuit-prover `BatchStarkProof` (`verify_p3_batch_proof_circuit` only). -/
structure MetaShape where
  extDegree : Nat
  /-- `RowCounts` (Const, Public, Alu) -/
  rows : List Nat
  publicLanes : Nat
  aluLanes : Nat
  /-- lane overrides `table_packing.npo_lanes` -/
  npoLanes : List Nat
  minTraceHeight : Nat
  hornerSteps : Nat
  /-- `non_primitives[k].lanes` -/
  nonPrimLanes : List Nat
  deriving DecidableEq, Repr, Inhabited

structure BatchShape where
  traceCap : Nat
  quotientCap : Nat
  randomCap : Option Nat
  /-- `commitments.permutation` -/
  permCap : Option Nat
  instances : List InstShape
  degreeBits : List Nat
  /-- `lookup_terminals[i].is_some()` -/
  terminals : List Bool
  /-- number of per-instance public-value vectors handed to the builder (`air_public_counts.len()`) -/
  publicValues : Nat
  /-- common data: number of lookup contexts per instance -/
  lookups : List Nat
  /-- common data: global preprocessed commitment + metadata -/
  prep : Option PrepShape
  fri : FriShape
  deriving DecidableEq, Repr

/-- Verifier side of the batch builders. `base` carries the FRI parameters, `dim`, and the machine
constants (its uni-STARK fields `airWidth`, `airPrepWidth`, `logQd`, `prepCommit` are unused). -/
structure BatchEnv where
  base : Env
  airs : List AirFacts
  deriving DecidableEq, Repr

/-- Verifier side of `verify_p3_batch_proof_circuit`. -/
structure P3Env where
  /-- const generic `TRACE_D` -/
  traceD : Nat
  /-- `non_primitive_provers.len()` -/
  numProvers : Nat
  /-- the circuit-table AIRs are built from the metadata without a panic
  (`create_alu_air`, `ConstAir::new`, `PublicAir::new`: overflow-checked products, `assert!(lanes > 0)`) -/
  airsBuild : Bool
  /-- every non-primitive entry has the op type of its plug-in and the plug-in rebuilds an AIR from it -/
  npoEntriesOk : Bool
  deriving DecidableEq, Repr

/-! ## Helpers -/


/-- `common.preprocessed.and_then(|g| g.instances.instances[i].map(|m| m.width)).unwrap_or(0)` -/
def BatchShape.preW (s : BatchShape) (i : Nat) : Nat :=
  match s.prep with
  | none => 0
  | some g => match g.instances.getD i none with
    | some m => m.width
    | none => 0

def BatchEnv.air (e : BatchEnv) (i : Nat) : AirFacts := e.airs.getD i default
def BatchShape.inst (s : BatchShape) (i : Nat) : InstShape := s.instances.getD i default
def BatchShape.db (s : BatchShape) (i : Nat) : Nat := s.degreeBits.getD i 0
def BatchEnv.lq (e : BatchEnv) (i : Nat) : Nat := (e.air i).logQd.getD 0

/-- `is_lookup`: the proof carries a permutation commitment -/
def BatchShape.isLookup (s : BatchShape) : Bool := s.permCap.isSome

/-- `aux_width` of instance `i`: 0 without lookups, else `lookups + 1` -/
def BatchShape.auxWidth (s : BatchShape) (i : Nat) : Nat :=
  if s.lookups.getD i 0 == 0 then 0 else s.lookups.getD i 0 + 1

/-! ## `verify_p3_batch_proof_circuit`: metadata validation and AIR reconstruction -/

def p3Prefix (p : P3Env) (m : MetaShape) (s : BatchShape) : List Check :=
  [ -- `proof.validate()` → `InvalidProofShape`
    must (m.extDegree == 1 || m.extDegree == 2 || m.extDegree == 4 || m.extDegree == 5
          || m.extDegree == 6 || m.extDegree == 8),
    must (m.rows.all (· != 0)),
    must (m.publicLanes != 0),
    must (m.aluLanes != 0),
    must (m.npoLanes.all (· != 0)),
    must (isPow2 m.minTraceHeight),
    must (2 ≤ m.hornerSteps),
    must (m.nonPrimLanes.all (· != 0)),
    -- `proof.ext_degree != TRACE_D`
    must (m.extDegree == p.traceD),
    -- `create_alu_air`, `ConstAir::new`, `PublicAir::new`
    partialStep p.airsBuild,
    -- `proof.non_primitives.len() != non_primitive_provers.len()`
    must (m.nonPrimLanes.length == p.numProvers),
    -- op_type comparison + `batch_air_from_table_entry(..).map_err(InvalidProofShape)?`
    must p.npoEntriesOk,
    -- `proof.proof.opened_values.instances.len() != air_public_counts.len()` (fix C15-2: before
    -- `allocate`, whose `assert_eq!` would panic)
    must (s.instances.length == s.publicValues) ]

/-! ## `verify_batch_circuit` up to the PCS -/

/-- Lengths of everything indexed by instance, then the common-data bounds (lines 379-425). -/
def batchCountChecks (e : BatchEnv) (s : BatchShape) : List Check :=
  let n := e.airs.length
  [ must (n != 0),
    must (n == s.instances.length && n == s.publicValues && n == s.degreeBits.length
          && n == s.terminals.length),
    must (s.lookups.length == n) ]
  ++ (match s.prep with
      | none => []
      | some g =>
        [ must (g.instances.length == n),
          must (g.matrixToInstance.all (· < n)) ])
  ++ [ -- randomization consistency, non-ZK PCS → `RandomizationError`
       must (s.instances.all (·.random.isNone) && s.randomCap.isNone) ]

/-- Body of the per-instance validation loop (lines 446-528), instance `i`. -/
def instChecks (e : BatchEnv) (s : BatchShape) (i : Nat) : List Check :=
  let a := e.air i
  let inst := s.inst i
  let pw := s.preW i
  [ must (inst.prepLocal.getD 0 == pw && inst.prepNext.getD 0 == pw),
    must (inst.traceLocal == a.width && inst.traceNext == (if a.opensNext then a.width else 0)),
    -- `air.declares_interactions(pre_w)`
    partialStep a.declares.isSome,
    -- `lookup_terminals[i].is_some() != expected_present`
    must (s.terminals.getD i false == a.declares.getD false),
    -- `A::get_log_num_quotient_chunks(air, pre_w, &all_lookups[i], …)`
    partialStep a.logQd.isSome,
    -- `1 << (log_qd + config.is_zk())`
    partialStep (e.lq i < e.base.wordBits),
    must (inst.quotientChunks.length == 2 ^ e.lq i),
    must (inst.quotientChunks.all (· == e.base.dim)),
    must (match inst.random with | some r => r == e.base.dim | none => true) ]

/-- fix ca07f07 (F9a): after the validation loop, for every instance
`degree_bits[i].checked_add(log_quotient_degrees[i])` must be below `usize::BITS` and at most
`Val::bits()`, else `InvalidProofShape` — before any shift by `degree_bits`
(`degree_bits.zip(log_quotient_degrees)`; both have one entry per AIR here). -/
def degreeRangeChecks (e : BatchEnv) (s : BatchShape) : List Check :=
  (List.range e.airs.length).map fun i =>
    must (s.db i + e.lq i < e.base.wordBits && s.db i + e.lq i ≤ e.base.valBits)

/-- `natural_domain_for_degree(1 << base_db)` / `(1 << ext_db)` for every entry of `degree_bits`:
`TwoAdicMultiplicativeCoset::new(..).unwrap()` (the shift itself is in range since fix ca07f07).
What is left of F9a: the bound is the field bit width, the PCS needs the two-adicity. -/
def domainChecks (e : BatchEnv) (s : BatchShape) : List Check :=
  s.degreeBits.map fun db => partialStep (db ≤ e.base.twoAdicity)

/-- Quotient domains: `create_disjoint_domain(1 << (base_db + log_qd))` (shift in range since fix
ca07f07). -/
def quotientDomainChecks (e : BatchEnv) (s : BatchShape) : List Check :=
  (List.range e.airs.length).map fun i => partialStep (s.db i + e.lq i ≤ e.base.twoAdicity)

/-- Quotient round (lines 744-756): `domains.len() != quotient_chunks.len()`. -/
def quotientRoundChecks (e : BatchEnv) (s : BatchShape) : List Check :=
  (List.range e.airs.length).map fun i =>
    must (2 ^ e.lq i == (s.inst i).quotientChunks.length)

/-- Preprocessed round (lines 762-823), matrix `j` of instance `k = matrix_to_instance[j]`. -/
def prepRoundChecks (s : BatchShape) : List Check :=
  match s.prep with
  | none => []
  | some g =>
    (List.range g.matrixToInstance.length).flatMap fun j =>
      let k := g.matrixToInstance.getD j 0
      let md := g.instances.getD k none
      [ must (s.preW k != 0),
        must (s.inst k).prepLocal.isSome,
        must (s.inst k).prepNext.isSome,
        must md.isSome,
        must ((md.getD default).matrixIndex == j && (md.getD default).degreeBits == s.db k) ]

/-- Permutation round (lines 825-861). -/
def permRoundChecks (e : BatchEnv) (s : BatchShape) : List Check :=
  if s.isLookup then
    (List.range e.airs.length).map fun i => must ((s.inst i).permLocal == (s.inst i).permNext)
  else []

/-- The commitment rounds handed to the PCS (`coms_to_verify`): trace, quotient, optional
preprocessed, optional permutation (the random round does not exist for the non-ZK PCS). -/
def batchRounds (e : BatchEnv) (s : BatchShape) : List Round :=
  [ ⟨s.traceCap, (List.range e.airs.length).map fun i =>
      (s.db i, if (e.air i).opensNext then [(s.inst i).traceLocal, (s.inst i).traceNext]
               else [(s.inst i).traceLocal])⟩,
    ⟨s.quotientCap, (List.range e.airs.length).flatMap fun i =>
      (s.inst i).quotientChunks.map fun c => (s.db i, [c])⟩ ]
  ++ (match s.prep with
      | none => []
      | some g => [⟨g.cap, (List.range g.matrixToInstance.length).map fun j =>
          let k := g.matrixToInstance.getD j 0
          (((g.instances.getD k none).getD default).degreeBits,
            [(s.inst k).prepLocal.getD 0, (s.inst k).prepNext.getD 0])⟩])
  ++ (if s.isLookup then
        [⟨s.permCap.getD 0, ((List.range e.airs.length).filter fun i => (s.inst i).permLocal != 0).map fun i =>
          (s.db i, [(s.inst i).permLocal, (s.inst i).permNext])⟩]
      else [])

/-- Everything `verify_batch_circuit` does before it hands the opening proof to the PCS. -/
def batchPrefix (e : BatchEnv) (s : BatchShape) : List Check :=
  batchCountChecks e s
  ++ (List.range e.airs.length).flatMap (instChecks e s)
  ++ degreeRangeChecks e s
  ++ [ -- `is_lookup != all_lookups.iter().any(|c| !c.is_empty())`
       must (s.isLookup == s.lookups.any (· != 0)) ]
  ++ domainChecks e s
  ++ quotientDomainChecks e s
  ++ quotientRoundChecks e s
  ++ prepRoundChecks s
  ++ permRoundChecks e s
  ++ friChallengeChecks e.base s.fri

/-- After the PCS: the per-instance constraint check (lines 896-1026); `recompose` rejects a
flattened permutation opening whose length is not `aux_width * DIMENSION`. -/
def batchPost (e : BatchEnv) (s : BatchShape) : List Check :=
  (List.range e.airs.length).flatMap fun i =>
    [ must ((s.inst i).permLocal == s.auxWidth i * e.base.dim),
      must ((s.inst i).permNext == s.auxWidth i * e.base.dim) ]

def batchChecks (e : BatchEnv) (s : BatchShape) : List Check :=
  batchPrefix e s ++ friVerifyChecks e.base s.fri (batchRounds e s) ++ batchPost e s

/-- `BatchStarkVerifierInputsBuilder::allocate` + `verify_batch_circuit` (the generic entry: the
caller supplies the AIRs and one public-value count per AIR; `allocate` is only called with as
many counts as the proof has instances — its documented precondition). -/
def verifyBatchChecks (e : BatchEnv) (s : BatchShape) : List Check :=
  [ must (s.instances.length == s.publicValues) ] ++ batchChecks e s

def verifyBatch (e : BatchEnv) (s : BatchShape) : Out := run (verifyBatchChecks e s)

/-- `verify_p3_batch_proof_circuit`. -/
def verifyP3BatchChecks (p : P3Env) (e : BatchEnv) (m : MetaShape) (s : BatchShape) : List Check :=
  p3Prefix p m s ++ batchChecks e s

def verifyP3Batch (p : P3Env) (e : BatchEnv) (m : MetaShape) (s : BatchShape) : Out :=
  run (verifyP3BatchChecks p e m s)

/-! ## The zips of the batch builder (name, length of the left side, length of the right side) -/

/-- Every `zip` of `verify_batch_circuit` / `observe_opened_values_circuit` /
`get_challenges_circuit` whose sides come from different sources. `quotient_degrees`,
`log_quotient_degrees`, `preprocessed_widths` have one entry per completed iteration of the
validation loop, i.e. `min (airs, instances)`; the domain vectors one per `degree_bits` entry. -/
def batchZips (e : BatchEnv) (s : BatchShape) : List (String × Nat × Nat) :=
  let n := e.airs.length
  let loop := min n s.instances.length
  [ ("446 airs.zip(instances)", n, s.instances.length),
    ("540 degree_bits.zip(quotient_degrees)", s.degreeBits.length, loop),
    ("540 (..).zip(airs)", min s.degreeBits.length loop, n),
    ("573 public_values (one observe per AIR)", s.publicValues, n),
    ("686 ext_trace_domains.zip(trace_domains).zip(instances)", s.degreeBits.length, s.instances.length),
    ("686 (..).zip(airs)", min s.degreeBits.length s.instances.length, n),
    ("710 degree_bits.zip(ext_trace_domains).zip(log_quotient_degrees)", s.degreeBits.length, loop),
    ("744 randomized_quotient_domains.zip(instances)", min s.degreeBits.length loop, s.instances.length),
    ("833 ext_trace_domains.enumerate() / instances[i]", s.degreeBits.length, s.instances.length),
    ("1216 instances.zip(quotient_degrees)", s.instances.length, loop),
    ("lookup_terminals[i] for i < n", s.terminals.length, n),
    ("common.lookups[i] for i < n", s.lookups.length, n),
    ("fri 777 commit_phase_commits.zip(commit_pow_witnesses)", s.fri.commitCaps.length, s.fri.powWitnesses) ]
  ++ (List.range n).map (fun i =>
      ("750 domains.zip(quotient_chunks) of one instance", 2 ^ e.lq i, (s.inst i).quotientChunks.length))
  ++ (match s.prep with
      | none => []
      | some g => [("global.instances.instances[i] for i < n", g.instances.length, n)])

end P3R.Shape
