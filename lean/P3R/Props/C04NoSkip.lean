/-
C04 / C09 — no operand of a compiled circuit is off the bus (`hnoskip` of `E2E.e2e_soundness`).

The role scan of `generate_preprocessed_columns` (`Model/Roles.lean`) gives an `a` / `c` operand of an
ALU row the state `skip` (0: no interaction on the WitnessChecks bus, the cell is constrained by the row
constraint only) exactly when the slot is not yet defined and the request may not create it.  This file

1. characterises that (`skip_iff`, `alu_a_skip_iff`, `alu_c_skip_iff`);
2. gives a static certificate on the op list — `acFrom`: every `a` / `c` operand is touched earlier
   (`DefUse.touch`), is the row's own `out`, a private input or a hint output — and proves that together
   with `defUse` it excludes `skip` (`noskip_of_cert`);
3. derives the certificate from the *shape run* of the list (`Model/RunnerShape.lean`: the runner needs
   `a` and `c` set before a row executes; what is set has been written by an earlier row or is an input):
   `cert_of_shape`, list level, for every op list;
4. assembles: `compiled_no_skip`.
-/
import P3R.Props.EndToEndReach

set_option linter.unusedSectionVars false

namespace P3R.C04N
open P3R P3R.C09 P3R.C09T

variable {K : Type}

/-! ### (1) When does the scan emit `skip`? -/

/-- **`skip_iff`.** A request is served as `skip` iff its slot is not defined, it may not create, and it
is an `a` / `c` request (`elseSkip`). -/
theorem skip_iff (D : List Nat) (r : Request) :
    r.role D = .skip ↔ (D.contains r.slot = false ∧ r.create = false ∧ r.elseSkip = true) := by
  unfold Request.role
  cases h1 : D.contains r.slot <;> cases h2 : r.create <;> cases h3 : r.elseSkip <;> simp

/-- Serving a request appends exactly one event: the slot with its role. -/
theorem serve_events (s : RoleState) (r : Request) :
    (s.serve r).events = s.events ++ [(r.slot, r.role s.defined)] := by
  unfold RoleState.serve
  cases h : r.role s.defined <;> rfl

/-- The `out` request of a row only adds `out` to the defined set. -/
theorem serve_out_defined (s : RoleState) (out : Nat) (x : Nat) :
    x ∈ (s.serve ⟨out, true, false⟩).defined ↔ x = out ∨ x ∈ s.defined := by
  unfold RoleState.serve Request.role
  by_cases h : s.defined.contains out = true
  · simp only [h, if_true]
    constructor
    · exact Or.inr
    · rintro (rfl | h')
      · exact contains_iff.mp h
      · exact h'
  · have h' : s.defined.contains out = false := by simpa using h
    simp only [h', Bool.false_eq_true, if_false, if_true, List.mem_cons]

/-- **The `a` operand of an ALU row is off the bus iff** it is neither defined before the row, nor the
row's own `out` (which the `out` request has just read or created), nor a private input, nor a hint
output. -/
theorem alu_a_skip_iff (privs hints : List Nat) (s : RoleState) (a out : Nat) :
    (⟨a, privs.contains a || hints.contains a, true⟩ : Request).role
        (s.serve ⟨out, true, false⟩).defined = .skip ↔
      (a ∉ s.defined ∧ a ≠ out ∧ a ∉ privs ∧ a ∉ hints) := by
  rw [skip_iff]
  simp only [Bool.or_eq_false_iff, and_true]
  constructor
  · rintro ⟨h1, h2, h3⟩
    have : ¬ a ∈ (s.serve ⟨out, true, false⟩).defined := by
      intro hm; rw [contains_iff.mpr hm] at h1; cases h1
    rw [serve_out_defined] at this
    refine ⟨fun h => this (Or.inr h), fun h => this (Or.inl h), ?_, ?_⟩
    · intro h; rw [contains_iff.mpr h] at h2; cases h2
    · intro h; rw [contains_iff.mpr h] at h3; cases h3
  · rintro ⟨h1, h2, h3, h4⟩
    refine ⟨?_, ?_, ?_⟩
    · cases hc : (s.serve ⟨out, true, false⟩).defined.contains a
      · rfl
      · have := (serve_out_defined s out a).mp (contains_iff.mp hc)
        rcases this with h | h
        · exact absurd h h2
        · exact absurd h h1
    · cases hc : privs.contains a
      · rfl
      · exact absurd (contains_iff.mp hc) h3
    · cases hc : hints.contains a
      · rfl
      · exact absurd (contains_iff.mp hc) h4

/-! ### (2) The static certificate -/

/-- The `a` / `c` operands of the row do not stay off the bus: each is touched before the row (`T`), the
row's own `out`, a private input or a hint output. -/
def acRow (privs hints T : List Nat) : Op K → Bool
  | .alu _ a _ c out _ =>
    (T.contains a || a == out || privs.contains a || hints.contains a) &&
    (match c with
     | some cw => T.contains cw || cw == out || privs.contains cw || hints.contains cw
     | none => true)
  | _ => true

def acFrom (privs hints : List Nat) : List Nat → List (Op K) → Bool
  | _, [] => true
  | T, op :: ops => acRow privs hints T op && acFrom privs hints (touch privs hints T op) ops

/-- The no-skip certificate of an op list (hint set as the scan sees it). -/
def noSkipCert (privs : List Nat) (ops : List (Op K)) : Bool :=
  acFrom privs (hintSlots ops) [] ops

/-- No event so far is a `skip`. -/
def NS (s : RoleState) : Prop := ∀ e ∈ s.events, e.2 ≠ .skip

theorem NS.serve {s : RoleState} (h : NS s) (r : Request) (hr : r.role s.defined ≠ .skip) :
    NS (s.serve r) := by
  intro e he
  rw [serve_events] at he
  rcases List.mem_append.mp he with he | he
  · exact h e he
  · simp only [List.mem_singleton] at he
    subst he
    exact hr

theorem role_ne_skip_of (D : List Nat) (r : Request)
    (h : r.slot ∈ D ∨ r.create = true ∨ r.elseSkip = false) : r.role D ≠ .skip := by
  intro hs
  obtain ⟨h1, h2, h3⟩ := (skip_iff D r).mp hs
  rcases h with h | h | h
  · rw [contains_iff.mpr h] at h1; cases h1
  · rw [h] at h2; cases h2
  · rw [h] at h3; cases h3

/-- One certified row emits no `skip`. -/
theorem row_ns (privs hints T : List Nat) (s : RoleState) (op : Op K) (h : DInv T s) (hns : NS s)
    (hac : acRow privs hints T op = true) :
    NS ((requestsOf privs hints s.defined op).foldl RoleState.serve s) := by
  cases op with
  | const out v =>
    simp only [requestsOf, List.foldl_cons, List.foldl_nil]
    exact hns.serve _ (role_ne_skip_of _ _ (Or.inr (Or.inl rfl)))
  | pub out v =>
    simp only [requestsOf, List.foldl_cons, List.foldl_nil]
    exact hns.serve _ (role_ne_skip_of _ _ (Or.inr (Or.inl rfl)))
  | hint ins outs k => simpa [requestsOf] using hns
  | npo ins outs id k => simpa [requestsOf] using hns
  | alu k a b c out io =>
    simp only [acRow, Bool.and_eq_true, Bool.or_eq_true, beq_iff_eq] at hac
    obtain ⟨ha, hc⟩ := hac
    obtain ⟨h1, m1, d1⟩ := serve_spec s ⟨out, true, false⟩ h.rd (Or.inr (Or.inl rfl))
    have n1 : NS (s.serve ⟨out, true, false⟩) :=
      hns.serve _ (role_ne_skip_of _ _ (Or.inr (Or.inl rfl)))
    generalize hs1 : s.serve ⟨out, true, false⟩ = s1 at h1 m1 d1 n1
    have hout1 : out ∈ s1.defined := d1 (Or.inr rfl)
    have n2 : NS (s1.serve ⟨a, privs.contains a || hints.contains a, true⟩) := by
      apply n1.serve
      apply role_ne_skip_of
      rcases ha with ((ha | ha) | ha) | ha
      · exact Or.inl (m1 _ (h.sub _ (contains_iff.mp ha)))
      · subst ha; exact Or.inl hout1
      · exact Or.inr (Or.inl (by show (privs.contains a || hints.contains a) = true; rw [Bool.or_eq_true]; exact Or.inl ha))
      · exact Or.inr (Or.inl (by show (privs.contains a || hints.contains a) = true; rw [Bool.or_eq_true]; exact Or.inr ha))
    obtain ⟨h2, m2, d2⟩ := serve_spec s1 ⟨a, privs.contains a || hints.contains a, true⟩ h1
      (Or.inr (Or.inr rfl))
    generalize hs2 : s1.serve ⟨a, privs.contains a || hints.contains a, true⟩ = s2 at h2 m2 d2 n2
    have hc3 : NS ((match c with
          | some cw => [(⟨cw, privs.contains cw || hints.contains cw, true⟩ : Request)]
          | none => []).foldl RoleState.serve s2) := by
      cases c with
      | none => exact n2
      | some cw =>
        simp only [List.foldl_cons, List.foldl_nil]
        apply n2.serve
        apply role_ne_skip_of
        simp only [Bool.or_eq_true, beq_iff_eq] at hc
        rcases hc with ((hc | hc) | hc) | hc
        · exact Or.inl (m2 _ (m1 _ (h.sub _ (contains_iff.mp hc))))
        · subst hc; exact Or.inl (m2 _ hout1)
        · exact Or.inr (Or.inl (by show (privs.contains cw || hints.contains cw) = true; rw [Bool.or_eq_true]; exact Or.inl hc))
        · exact Or.inr (Or.inl (by show (privs.contains cw || hints.contains cw) = true; rw [Bool.or_eq_true]; exact Or.inr hc))
    have hfold : (requestsOf privs hints s.defined (.alu k a b c out io : Op K)).foldl RoleState.serve s =
        ((match c with
          | some cw => [(⟨cw, privs.contains cw || hints.contains cw, true⟩ : Request)]
          | none => []).foldl RoleState.serve s2).serve
          ⟨b, privs.contains b || (s.defined.contains out || hints.contains out || privs.contains out), false⟩ := by
      simp only [requestsOf, List.foldl_append, List.foldl_cons, List.foldl_nil, hs1, hs2]
      cases c <;> rfl
    rw [hfold]
    exact hc3.serve _ (role_ne_skip_of _ _ (Or.inr (Or.inr rfl)))

/-- Along a list carrying both certificates the scan emits no `skip`. -/
theorem rows_ns (privs hints : List Nat) (ops : List (Op K)) (T : List Nat) (s : PrepState)
    (h : DInv T s.rs) (hns : NS s.rs) (hok : defUseFrom privs hints T ops = true)
    (hac : acFrom privs hints T ops = true) :
    NS (ops.foldl (PrepState.step privs hints) s).rs := by
  induction ops generalizing T s with
  | nil => exact hns
  | cons op ops ih =>
    simp only [defUseFrom, Bool.and_eq_true] at hok
    simp only [acFrom, Bool.and_eq_true] at hac
    simp only [List.foldl_cons]
    refine ih (touch privs hints T op) _ ?_ ?_ hok.2 hac.2
    · rw [step_rs]; exact row_inv privs hints T s.rs op h hok.1
    · rw [step_rs]; exact row_ns privs hints T s.rs op h hns hac.1

theorem genPrep_events (c : Circuit K) (p : Prep) (h : genPrep c = some p) :
    p.events = (c.ops.toList.foldl (PrepState.step c.privRows.toList (hintSlots c.ops.toList))
      { rs := { defined := [], reads := [], events := [] }, consts := [], pubs := [], alu := [] }).rs.events := by
  unfold genPrep at h
  simp only at h
  split at h
  · cases h
    rfl
  · cases h

/-- "No operand off the bus": the `hnoskip` of `E2E.e2e_soundness`. -/
def noSkip (p : Prep) : Prop := ∀ e ∈ p.events, e.2 ≠ .skip

/-- **(2) `noskip_of_cert`.** For every circuit: the def-before-use certificate (`b` column, C09) and the
no-skip certificate (`a` / `c` columns) of the op list imply that the role scan leaves no operand off the
bus. -/
theorem noskip_of_cert (c : Circuit K) (p : Prep) (h : genPrep c = some p) (hd : c.defUse = true)
    (hac : noSkipCert c.privRows.toList c.ops.toList = true) : noSkip p := by
  unfold noSkip
  rw [genPrep_events c p h]
  exact rows_ns _ _ _ [] _ ⟨fun _ hx => (by cases hx), fun x hx => (by simp [readsOf] at hx)⟩
    (fun _ he => by cases he) hd hac


/-! ### (3) The certificate from the shape run

`Model/RunnerShape.lean`: the runner executes a row only when `a` (and `c`) are set, and a slot is set
only if it was supplied (public / private input) or written by an earlier row — the `out` of a
`Const` / ALU row, the `b` of a backward `Add` / `Mul` row, a hint output, or the product slot of a fused
`MulAdd` row (which no row reads: `IoUnread`). So a list whose shape run succeeds carries `acFrom`. -/

open P3R.C02S P3R.C02O P3R.C09C P3R.C03

/-- All hint outputs of the list (before `hint_output_wids` drops the Const / Public slots). -/
def Hall (l : List (Op K)) : List Nat := l.flatMap hintOuts

/-- `m` is the product slot (`intermediate_out`) of a `MulAdd` row of the list. -/
def isIo (l : List (Op K)) (m : Nat) : Prop :=
  ∃ a b c out, (.alu .mulAdd a b c out (some m) : Op K) ∈ l

/-- No `a` / `c` operand is the product slot of a fused row. -/
def IoUnread (l : List (Op K)) : Prop :=
  ∀ k a b c out io, (.alu k a b c out io : Op K) ∈ l → ∀ m, isIo l m → a ≠ m ∧ c ≠ some m

theorem mem_constPubSlots {l : List (Op K)} {x : Nat} :
    x ∈ constPubSlots l ↔ ∃ op ∈ l, outSlot op = some x ∧ isAluOp op = false := by
  unfold constPubSlots
  rw [List.mem_filterMap]
  constructor
  · rintro ⟨op, hop, h⟩
    refine ⟨op, hop, ?_⟩
    cases op <;> simp_all [outSlot, isAluOp]
  · rintro ⟨op, hop, h1, h2⟩
    refine ⟨op, hop, ?_⟩
    cases op <;> simp_all [outSlot, isAluOp]

theorem hall_cases {l : List (Op K)} {x : Nat} (h : x ∈ Hall l) :
    x ∈ hintSlots l ∨ x ∈ constPubSlots l := by
  by_cases hc : x ∈ constPubSlots l
  · exact Or.inr hc
  · left
    unfold hintSlots
    rw [List.mem_filter]
    refine ⟨?_, by simpa using hc⟩
    unfold Hall at h
    rw [List.mem_flatMap] at h ⊢
    obtain ⟨op, hop, hx⟩ := h
    refine ⟨op, hop, ?_⟩
    cases op <;> simp_all [hintOuts]

theorem mem_touch_of_mem (privs hints T : List Nat) (op : Op K) {x : Nat} (h : x ∈ T) :
    x ∈ touch privs hints T op := by
  cases op <;> simp [touch, h]

/-- What an ALU row of the lowering's operand shape needs set and what it sets — every kind, product slot
included. -/
theorem exec_alu_gen {t t1 : Array Bool} {k : AluKind} {a b : Nat} {c : Option Nat} {out : Nat}
    {io : Option Nat} (h : execOpShape t (.alu k a b c out io : Op K) = some t1)
    (hd : C18L.dshape (.alu k a b c out io : Op K) = true) :
    getS t a = true ∧ (∀ cw, c = some cw → getS t cw = true ∨ (k = .mulAdd ∧ io = some cw)) ∧
    (∀ x, getS t1 x = true → getS t x = true ∨ x = out ∨ x = b ∨ (k = .mulAdd ∧ io = some x)) := by
  simp only [execOpShape] at h
  have am : (if !getS t a then none else if getS t b then setS t out
        else if !getS t out then none else setS t b) = some t1 → c = none →
      getS t a = true ∧ (∀ cw, c = some cw → getS t cw = true ∨ (k = .mulAdd ∧ io = some cw)) ∧
      (∀ x, getS t1 x = true → getS t x = true ∨ x = out ∨ x = b ∨ (k = .mulAdd ∧ io = some x)) := by
    intro h' hc
    split at h'
    · cases h'
    · rename_i hga
      have ha : getS t a = true := by simpa using hga
      refine ⟨ha, fun cw hcw => (by rw [hc] at hcw; cases hcw), ?_⟩
      split at h'
      · obtain ⟨_, rfl⟩ := setS_some h'
        intro x hx
        rcases (getS_set _ _ _).mp hx with h1 | ⟨rfl, _⟩
        · exact Or.inl h1
        · exact Or.inr (Or.inl rfl)
      · split at h'
        · cases h'
        · obtain ⟨_, rfl⟩ := setS_some h'
          intro x hx
          rcases (getS_set _ _ _).mp hx with h1 | ⟨rfl, _⟩
          · exact Or.inl h1
          · exact Or.inr (Or.inr (Or.inl rfl))
  cases k with
  | add =>
    have hc : c = none := by cases c <;> simp_all [C18L.dshape]
    exact am h hc
  | mul =>
    have hc : c = none := by cases c <;> simp_all [C18L.dshape]
    exact am h hc
  | boolCheck =>
    simp only [execAluShape] at h
    have hc : c = some a := by simpa [C18L.dshape] using hd
    split at h
    · cases h
    · rename_i hga
      have ha : getS t a = true := by simpa using hga
      obtain ⟨_, rfl⟩ := setS_some h
      refine ⟨ha, fun cw hcw => ?_, fun x hx => ?_⟩
      · rw [hc] at hcw; cases hcw; exact Or.inl ha
      · rcases (getS_set _ _ _).mp hx with h1 | ⟨rfl, _⟩
        · exact Or.inl h1
        · exact Or.inr (Or.inl rfl)
  | horner =>
    simp only [execAluShape] at h
    match io, c, h with
    | some acc, some cId, h =>
      simp only at h
      split at h
      · cases h
      · rename_i hg
        simp only [Bool.or_eq_true, Bool.not_eq_true', not_or, Bool.not_eq_false] at hg
        obtain ⟨_, rfl⟩ := setS_some h
        refine ⟨hg.1.1.2, fun cw hcw => ?_, fun x hx => ?_⟩
        · cases hcw; exact Or.inl hg.2
        · rcases (getS_set _ _ _).mp hx with h1 | ⟨rfl, _⟩
          · exact Or.inl h1
          · exact Or.inr (Or.inl rfl)
    | none, _, h => simp at h
    | some _, none, h => simp at h
  | mulAdd =>
    simp only [execAluShape] at h
    split at h
    · cases h
    · rename_i hg
      simp only [Bool.or_eq_true, Bool.not_eq_true', not_or, Bool.not_eq_false] at hg
      -- the optional product slot
      have key : ∀ (c : Option Nat) (t2 : Array Bool),
          (∀ x, getS t2 x = true → getS t x = true ∨ io = some x) →
          (match c with
            | some ci => if !getS t2 ci then none else setS t2 out
            | none => setS t2 out) = some t1 →
          (∀ cw, c = some cw → getS t cw = true ∨ (AluKind.mulAdd = .mulAdd ∧ io = some cw)) ∧
          (∀ x, getS t1 x = true → getS t x = true ∨ x = out ∨ x = b ∨
            (AluKind.mulAdd = .mulAdd ∧ io = some x)) := by
        intro c t2 h2 hm
        cases c with
        | none =>
          simp only at hm
          obtain ⟨_, rfl⟩ := setS_some hm
          refine ⟨fun cw hcw => (by cases hcw), fun x hx => ?_⟩
          rcases (getS_set _ _ _).mp hx with h1 | ⟨rfl, _⟩
          · rcases h2 x h1 with h3 | h3
            · exact Or.inl h3
            · exact Or.inr (Or.inr (Or.inr ⟨rfl, h3⟩))
          · exact Or.inr (Or.inl rfl)
        | some ci =>
          simp only at hm
          split at hm
          · cases hm
          · rename_i hgc
            have hci : getS t2 ci = true := by simpa using hgc
            obtain ⟨_, rfl⟩ := setS_some hm
            refine ⟨fun cw hcw => ?_, fun x hx => ?_⟩
            · cases hcw
              rcases h2 ci hci with h3 | h3
              · exact Or.inl h3
              · exact Or.inr ⟨rfl, h3⟩
            · rcases (getS_set _ _ _).mp hx with h1 | ⟨rfl, _⟩
              · rcases h2 x h1 with h3 | h3
                · exact Or.inl h3
                · exact Or.inr (Or.inr (Or.inr ⟨rfl, h3⟩))
              · exact Or.inr (Or.inl rfl)
      cases io with
      | none =>
        simp only at h
        obtain ⟨k1, k2⟩ := key c t (fun x hx => Or.inl hx) h
        exact ⟨hg.1, k1, k2⟩
      | some i =>
        simp only at h
        cases hs : setS t i with
        | none => rw [hs] at h; simp at h
        | some t2 =>
          rw [hs] at h
          simp only at h
          obtain ⟨_, rfl⟩ := setS_some hs
          obtain ⟨k1, k2⟩ := key c _ (fun x hx => by
            rcases (getS_set _ _ _).mp hx with h1 | ⟨rfl, _⟩
            · exact Or.inl h1
            · exact Or.inr rfl) h
          exact ⟨hg.1, k1, k2⟩


theorem mem_hall {l : List (Op K)} {op : Op K} {x : Nat} (hop : op ∈ l) (hx : x ∈ hintOuts op) :
    x ∈ Hall l := List.mem_flatMap.mpr ⟨op, hop, hx⟩

/-- The rows after the leading block: every set slot is touched, private, a hint output (as the scan sees
them) or a product slot; hence every `a` / `c` operand is. -/
theorem body_cert (privs : List Nat) (L : List (Op K)) (hio : IoUnread L) :
    ∀ (rest : List (Op K)) (T : List Nat) (t tfin : Array Bool),
      (∀ op ∈ rest, op ∈ L) → (∀ op ∈ rest, C18L.dshape op = true) →
      (∀ x ∈ Hall L, x ∈ hintSlots L ∨ x ∈ T) →
      (∀ x, getS t x = true → x ∈ T ∨ x ∈ privs ∨ x ∈ hintSlots L ∨ isIo L x) →
      runOps t rest = some tfin → acFrom privs (hintSlots L) T rest = true := by
  intro rest
  induction rest with
  | nil => intros; rfl
  | cons op rest ih =>
    intro T t tfin hsub hds hH hinv hrun
    rw [runOps_cons] at hrun
    cases hs : execOpShape t op with
    | none => rw [hs] at hrun; cases hrun
    | some t1 =>
      rw [hs] at hrun
      simp only [Option.bind_some] at hrun
      have hopL : op ∈ L := hsub op List.mem_cons_self
      have hH' : ∀ x ∈ Hall L, x ∈ hintSlots L ∨ x ∈ touch privs (hintSlots L) T op := fun x hx =>
        (hH x hx).imp id (mem_touch_of_mem _ _ _ _)
      simp only [acFrom, Bool.and_eq_true]
      by_cases halu : isAluOp op = true
      · -- an ALU row
        cases op with
        | alu k a b c out io =>
          obtain ⟨ha, hc, hw⟩ := exec_alu_gen hs (hds _ List.mem_cons_self)
          refine ⟨?_, ih _ t1 tfin (fun o ho => hsub o (List.mem_cons_of_mem _ ho))
            (fun o ho => hds o (List.mem_cons_of_mem _ ho)) hH' ?_ hrun⟩
          · simp only [acRow, Bool.and_eq_true, Bool.or_eq_true, beq_iff_eq, List.contains_iff_mem]
            constructor
            · rcases hinv a ha with h1 | h1 | h1 | h1
              · exact Or.inl (Or.inl (Or.inl h1))
              · exact Or.inl (Or.inr h1)
              · exact Or.inr h1
              · exact absurd rfl (hio k a b c out io hopL a h1).1
            · cases c with
              | none => rfl
              | some cw =>
                simp only [Bool.or_eq_true, beq_iff_eq, List.contains_iff_mem]
                rcases hc cw rfl with h2 | ⟨hk, h2⟩
                · rcases hinv cw h2 with h1 | h1 | h1 | h1
                  · exact Or.inl (Or.inl (Or.inl h1))
                  · exact Or.inl (Or.inr h1)
                  · exact Or.inr h1
                  · exact absurd rfl (hio k a b (some cw) out io hopL cw h1).2
                · subst hk; subst h2
                  exact absurd rfl (hio _ a b (some cw) out (some cw) hopL cw ⟨a, b, some cw, out, hopL⟩).2
          · intro x hx
            rcases hw x hx with h1 | rfl | rfl | ⟨hk, h1⟩
            · rcases hinv x h1 with h2 | h2 | h2 | h2
              · exact Or.inl (mem_touch_of_mem _ _ _ _ h2)
              · exact Or.inr (Or.inl h2)
              · exact Or.inr (Or.inr (Or.inl h2))
              · exact Or.inr (Or.inr (Or.inr h2))
            · exact Or.inl (by simp [touch])
            · exact Or.inl (by simp [touch])
            · subst hk; subst h1
              exact Or.inr (Or.inr (Or.inr ⟨a, b, c, out, hopL⟩))
        | _ => simp [isAluOp] at halu
      · have hna : isAluOp op = false := by simpa using halu
        refine ⟨by cases op <;> simp_all [acRow, isAluOp], ih _ t1 tfin
          (fun o ho => hsub o (List.mem_cons_of_mem _ ho))
          (fun o ho => hds o (List.mem_cons_of_mem _ ho)) hH' ?_ hrun⟩
        intro x hx
        rcases exec_new_nonalu hs hna hx with h1 | ⟨v, rfl⟩ | h1
        · rcases hinv x h1 with h2 | h2 | h2 | h2
          · exact Or.inl (mem_touch_of_mem _ _ _ _ h2)
          · exact Or.inr (Or.inl h2)
          · exact Or.inr (Or.inr (Or.inl h2))
          · exact Or.inr (Or.inr (Or.inr h2))
        · exact Or.inl (by simp [touch])
        · rcases hH' x (mem_hall hopL h1) with h2 | h2
          · exact Or.inr (Or.inr (Or.inl h2))
          · exact Or.inl h2

/-- Slots touched along a list. -/
def accTouch (privs hints T : List Nat) (l : List (Op K)) : List Nat :=
  l.foldl (fun T op => touch privs hints T op) T

theorem acFrom_append_noalu (privs hints : List Nat) (pre body : List (Op K))
    (hna : ∀ op ∈ pre, isAluOp op = false) (T : List Nat) :
    acFrom privs hints T (pre ++ body) = acFrom privs hints (accTouch privs hints T pre) body := by
  induction pre generalizing T with
  | nil => rfl
  | cons op pre ih =>
    have h1 : acRow privs hints T op = true := by
      have := hna op List.mem_cons_self
      cases op <;> simp_all [acRow, isAluOp]
    simp only [List.cons_append, acFrom, h1, Bool.true_and, accTouch, List.foldl_cons]
    exact ih (fun o ho => hna o (List.mem_cons_of_mem _ ho)) _

theorem accTouch_mono (privs hints : List Nat) (l : List (Op K)) (T : List Nat) {x : Nat} (h : x ∈ T) :
    x ∈ accTouch privs hints T l := by
  induction l generalizing T with
  | nil => exact h
  | cons op l ih =>
    simp only [accTouch, List.foldl_cons]
    exact ih _ (mem_touch_of_mem _ _ _ _ h)

theorem accTouch_out (privs hints : List Nat) (l : List (Op K)) (T : List Nat) {op : Op K} {x : Nat}
    (hop : op ∈ l) (hx : outSlot op = some x) : x ∈ accTouch privs hints T l := by
  induction l generalizing T with
  | nil => cases hop
  | cons o l ih =>
    simp only [accTouch, List.foldl_cons]
    rcases List.mem_cons.mp hop with rfl | hop
    · apply accTouch_mono
      cases op <;> simp_all [touch, outSlot]
    · exact ih _ hop

/-- What a block without ALU rows sets: `Const` outputs and hint outputs. -/
theorem pre_sets (pre : List (Op K)) (hna : ∀ op ∈ pre, isAluOp op = false) :
    ∀ (t t1 : Array Bool), runOps t pre = some t1 → ∀ x, getS t1 x = true →
      getS t x = true ∨ (∃ op ∈ pre, outSlot op = some x) ∨ (∃ op ∈ pre, x ∈ hintOuts op) := by
  induction pre with
  | nil => intro t t1 h x hx; cases h; exact Or.inl hx
  | cons op pre ih =>
    intro t t1 h x hx
    rw [runOps_cons] at h
    cases hs : execOpShape t op with
    | none => rw [hs] at h; cases h
    | some t2 =>
      rw [hs] at h
      simp only [Option.bind_some] at h
      rcases ih (fun o ho => hna o (List.mem_cons_of_mem _ ho)) t2 t1 h x hx with h1 | ⟨o, ho, h1⟩ | ⟨o, ho, h1⟩
      · rcases exec_new_nonalu hs (hna op List.mem_cons_self) h1 with h2 | ⟨v, rfl⟩ | h2
        · exact Or.inl h2
        · exact Or.inr (Or.inl ⟨_, List.mem_cons_self, rfl⟩)
        · exact Or.inr (Or.inr ⟨_, List.mem_cons_self, h2⟩)
      · exact Or.inr (Or.inl ⟨o, List.mem_cons_of_mem _ ho, h1⟩)
      · exact Or.inr (Or.inr ⟨o, List.mem_cons_of_mem _ ho, h1⟩)

/-- **(3) `cert_of_shape`** — list level, every op list. If the shape run of `L` succeeds from a table in
which only private and public rows are set, the rows have the lowering's operand shape, no row reads a
fused product slot, the public slots are defined in a leading block without ALU rows (`C02O.PreOk`), and no
`Const` / `Public` row after that block carries a hint output's slot, then `L` carries the no-skip
certificate. -/
theorem cert_of_shape (privs pubs : List Nat) (L : List (Op K)) (t0 tfin : Array Bool)
    (hrun : runOps t0 L = some tfin) (h0 : ∀ x, getS t0 x = true → x ∈ privs ∨ x ∈ pubs)
    (hds : ∀ op ∈ L, C18L.dshape op = true) (hio : IoUnread L)
    (pre body : List (Op K)) (hL : L = pre ++ body) (hna : ∀ op ∈ pre, isAluOp op = false)
    (hpub : ∀ x ∈ pubs, x ∈ privs ∨ ∃ op ∈ pre, outSlot op = some x)
    (hlate : ∀ op ∈ body, isAluOp op = false → ∀ x, outSlot op = some x → x ∉ Hall L) :
    noSkipCert privs L = true := by
  unfold noSkipCert
  have hrun' := hrun
  rw [hL, runOps_append] at hrun'
  cases h1 : runOps t0 pre with
  | none => rw [h1] at hrun'; cases hrun'
  | some t1 =>
    rw [h1] at hrun'
    simp only [Option.bind_some] at hrun'
    have hH : ∀ x ∈ Hall L, x ∈ hintSlots L ∨ x ∈ accTouch privs (hintSlots L) [] pre := by
      intro x hx
      rcases hall_cases hx with h | h
      · exact Or.inl h
      · obtain ⟨op, hop, ho, hn⟩ := mem_constPubSlots.mp h
        rw [hL] at hop
        rcases List.mem_append.mp hop with hop | hop
        · exact Or.inr (accTouch_out _ _ _ _ hop ho)
        · exact absurd hx (hlate op hop hn x ho)
    have hinv : ∀ x, getS t1 x = true →
        x ∈ accTouch privs (hintSlots L) [] pre ∨ x ∈ privs ∨ x ∈ hintSlots L ∨ isIo L x := by
      intro x hx
      rcases pre_sets pre hna t0 t1 h1 x hx with h2 | ⟨op, hop, h2⟩ | ⟨op, hop, h2⟩
      · rcases h0 x h2 with h3 | h3
        · exact Or.inr (Or.inl h3)
        · rcases hpub x h3 with h4 | ⟨op, hop, h4⟩
          · exact Or.inr (Or.inl h4)
          · exact Or.inl (accTouch_out _ _ _ _ hop h4)
      · exact Or.inl (accTouch_out _ _ _ _ hop h2)
      · rcases hH x (mem_hall (by rw [hL]; exact List.mem_append_left _ hop) h2) with h3 | h3
        · exact Or.inr (Or.inr (Or.inl h3))
        · exact Or.inl h3
    have := body_cert privs L hio body _ t1 tfin
      (fun op hop => by rw [hL]; exact List.mem_append_right _ hop)
      (fun op hop => hds op (by rw [hL]; exact List.mem_append_right _ hop)) hH hinv hrun'
    rw [← acFrom_append_noalu privs (hintSlots L) pre body hna [], ← hL] at this
    exact this


/-! ### (4a) The fusion pass: operand shape, product slots unread, leading block kept -/

open P3R.C09F

section fuse

/-- The product slot of a chosen candidate is read by the consumed add only — any operand column. -/
theorem prod_read_gen {l : List (Op K)} {c : Cand K} (hc : CandOk l c) {ma mb ad o m : Nat}
    (hop : c.op = .alu .mulAdd ma mb (some ad) o (some m)) {q : Nat} {op : Op K} (hq : l[q]? = some op)
    (hin : m ∈ reads op) : q = c.addIdx := by
  obtain ⟨_, _, _, ⟨x, y, ioA, h_add, h_or⟩, h_r, _⟩ := cand_rows hc hop
  by_contra hne
  have h1 : 1 ≤ (reads (.alu .add x y none c.out ioA : Op K)).count m := by
    rw [reads_add]; rcases h_or with ⟨rfl, _⟩ | ⟨_, rfl⟩ <;> simp [List.count_cons]
  have := sum_sep (fun op => (reads op).count m) l c.addIdx q _ _ (fun h => hne h.symm) h_add hq
    (by omega) h1
  exact (List.count_eq_zero.mp this) hin

/-- A row of the fused list: the fused row of a chosen candidate at its mul position, or a row of the
input that is neither a consumed add nor a fused mul. -/
theorem fused_row {l : List (Op K)} {ch : List (Cand K)} {o : Op K}
    (ho : o ∈ l.zipIdx.filterMap (applyF ch)) :
    (∃ c ∈ ch, o = c.op ∧ ∃ op, l[c.mulIdx]? = some op) ∨
    (∃ n, l[n]? = some o ∧ ∀ c ∈ ch, c.addIdx ≠ n ∧ c.mulIdx ≠ n) := by
  obtain ⟨p, hp, hg⟩ := List.mem_filterMap.mp ho
  have hp' := List.mem_zipIdx_iff_getElem?.mp hp
  rcases applyF_cases ch p.1 p.2 with ⟨c, hc, he, hnone⟩ | ⟨c, hc, he, hsome⟩ | ⟨hno, hsame⟩
  · rw [hnone] at hg; cases hg
  · rw [hsome] at hg
    cases hg
    exact Or.inl ⟨c, hc, rfl, p.1, by rw [he]; exact hp'⟩
  · rw [hsame] at hg
    cases hg
    exact Or.inr ⟨p.2, hp', hno⟩

theorem fuse_dshape (D : Array (Op K)) (P : List Nat) (h : ∀ op ∈ D.toList, C18L.dshape op = true) :
    ∀ o ∈ (fuse D P).toList, C18L.dshape o = true := by
  intro o ho
  rw [fuse_eq_filterMap] at ho
  rcases fused_row ho with ⟨c, hc, rfl, _⟩ | ⟨n, hn, _⟩
  · obtain ⟨ma, mb, m, x, y, ioA, ioM, h_op, _⟩ := ((chosenFor_ok D P).ok c hc).ex
    rw [h_op]; rfl
  · exact h o (List.mem_of_getElem? hn)

/-- **No row of the fused list reads a product slot** (`a` or `c` column), for every input list whose
`MulAdd` rows carry no product slot (`ioOk`: what the lowering emits and `dedup` keeps). -/
theorem fuse_ioUnread (D : Array (Op K)) (P : List Nat) (hio : ∀ op ∈ D.toList, ioOk op = true) :
    IoUnread (fuse D P).toList := by
  have hch := chosenFor_ok D P
  intro k a b c' out io hrow m hm
  obtain ⟨a0, b0, c0, out0, hm⟩ := hm
  rw [fuse_eq_filterMap] at hrow hm
  -- `m` is the product slot of a chosen candidate
  obtain ⟨c, hc, h_opc⟩ : ∃ c ∈ chosenFor D P, c.op = .alu .mulAdd a0 b0 c0 out0 (some m) := by
    rcases fused_row hm with ⟨c, hc, he, _⟩ | ⟨n, hn, _⟩
    · exact ⟨c, hc, he.symm⟩
    · have := hio _ (List.mem_of_getElem? hn)
      simp [ioOk] at this
  obtain ⟨ma, mb, m', x, y, ioA, ioM, h_op, h_mul, h_add, h_or, h_r, _⟩ := (hch.ok c hc).ex
  have hm' : m' = m := by
    rw [h_opc] at h_op
    simp only [Op.alu.injEq, Option.some.injEq] at h_op
    exact h_op.2.2.2.2.2.symm
  subst hm'
  -- which row reads it?
  have key : ∀ z, (z = a ∨ c' = some z) → z ≠ m' := by
    intro z hz hzm
    subst hzm
    rcases fused_row hrow with ⟨d, hd, he, _⟩ | ⟨n, hn, hno⟩
    · -- the fused row of `d`
      obtain ⟨na, nb, nm, nx, ny, nioA, nioM, hd_op, hd_mul, hd_add, hd_or, hd_r, _⟩ := (hch.ok d hd).ex
      rw [hd_op] at he
      simp only [Op.alu.injEq] at he
      obtain ⟨_, hea, _, hec, _, _⟩ := he
      rcases hz with hz | hz
      · -- `a` of the fused row = `a` of the mul row of `d`
        have : d.mulIdx = c.addIdx := prod_read_gen (hch.ok c hc) h_op hd_mul (by
          rw [reads_mul, hz, hea]; simp)
        rw [this, h_add] at hd_mul
        simp at hd_mul
      · -- `c` of the fused row = the addend of `d`
        rw [hec] at hz
        simp only [Option.some.injEq] at hz
        have hin : z ∈ reads (.alu .add nx ny none d.out nioA : Op K) := by
          rw [reads_add]
          rcases hd_or with ⟨_, h2⟩ | ⟨h1, _⟩
          · rw [h2, hz]; simp
          · rw [h1, hz]; simp
        have e1 : d.addIdx = c.addIdx := prod_read_gen (hch.ok c hc) h_op hd_add hin
        have e2 : d = c := hch.detAdd d hd c hc e1
        subst e2
        rw [h_op] at hd_op
        simp only [Op.alu.injEq, Option.some.injEq] at hd_op
        obtain ⟨_, _, _, had, _, hmm⟩ := hd_op
        -- the add reads the product twice
        rw [h_add] at hd_add
        simp only [Option.some.injEq, Op.alu.injEq] at hd_add
        obtain ⟨_, hx, hy, _⟩ := hd_add
        have hcount : 2 ≤ (reads (.alu .add x y none d.out ioA : Op K)).count z := by
          rw [reads_add]
          have hxz : x = z := by
            rcases h_or with ⟨h1, _⟩ | ⟨h1, _⟩
            · exact h1
            · rw [h1, ← hz]
          have hyz : y = z := by
            rcases h_or with ⟨_, h2⟩ | ⟨_, h2⟩
            · rw [h2, ← hz]
            · exact h2
          rw [hxz, hyz]; simp
        have := le_sum_of_getElem? (fun op => (reads op).count z) D.toList d.addIdx _ h_add
        omega
    · -- a row of the input: only the consumed add reads the product
      have : n = c.addIdx := prod_read_gen (hch.ok c hc) h_op hn (by
        rcases hz with hz | hz
        · subst hz; simp [reads]
        · subst hz; simp [reads])
      exact (hno c hc).1 this.symm
  exact ⟨fun h => key a (Or.inl rfl) h, fun h => key m' (Or.inr h) rfl⟩

theorem applyF_nonalu {l : List (Op K)} {ch : List (Cand K)} (hch : ChosenOk l ch) {n : Nat} {op : Op K}
    (hn : l[n]? = some op) (hna : isAluOp op = false) : applyF ch (op, n) = some op := by
  rcases applyF_cases ch op n with ⟨c, hc, he, _⟩ | ⟨c, hc, he, _⟩ | ⟨_, hsame⟩
  · obtain ⟨_, _, _, _, _, _, _, _, _, h_add, _⟩ := (hch.ok c hc).ex
    rw [he, hn] at h_add
    cases h_add
    simp [isAluOp] at hna
  · obtain ⟨_, _, _, _, _, _, _, _, h_mul, _⟩ := (hch.ok c hc).ex
    rw [he, hn] at h_mul
    cases h_mul
    simp [isAluOp] at hna
  · exact hsame

/-- The fusion pass keeps the leading block without ALU rows (`C02O.PreOk`). -/
theorem fuse_PreOk (P pubs : List Nat) (D : Array (Op K)) (P' : List Nat) (h : PreOk P pubs D.toList) :
    PreOk P pubs (fuse D P').toList := by
  obtain ⟨pre, body, hl, hna, hp⟩ := h
  have hch := chosenFor_ok D P'
  rw [fuse_eq_filterMap]
  generalize chosenFor D P' = ch at hch ⊢
  rw [hl] at hch ⊢
  rw [List.zipIdx_append, List.filterMap_append]
  have hkeep : ∀ n op, pre[n]? = some op → applyF ch (op, n) = some op := by
    intro n op hn
    have hlt : n < pre.length := by
      by_contra hge
      rw [List.getElem?_eq_none (by omega)] at hn
      cases hn
    exact applyF_nonalu hch (by rw [List.getElem?_append_left hlt]; exact hn)
      (hna op (List.mem_of_getElem? hn))
  refine ⟨_, _, rfl, ?_, ?_⟩
  · intro o ho
    obtain ⟨p, hp', hg⟩ := List.mem_filterMap.mp ho
    have hp'' := List.mem_zipIdx_iff_getElem?.mp hp'
    rw [hkeep p.2 p.1 hp''] at hg
    cases hg
    exact hna _ (List.mem_of_getElem? hp'')
  · intro x hx
    rcases hp x hx with h1 | ⟨op, hop, ho⟩
    · exact Or.inl h1
    · obtain ⟨n, hn⟩ := List.mem_iff_getElem?.mp hop
      exact Or.inr ⟨op, List.mem_filterMap.mpr ⟨(op, n), List.mem_zipIdx_iff_getElem?.mpr hn,
        hkeep n op hn⟩, ho⟩

end fuse


/-! ### (4b) The compiled circuit -/

theorem dedup_ioOk (ops : Array (Op K)) (h : ∀ op ∈ ops.toList, ioOk op = true) :
    ∀ o ∈ (dedup ops).1.toList, ioOk o = true := by
  intro o ho
  unfold dedup at ho
  simp only [Array.toList_map, List.mem_map] at ho
  obtain ⟨o', ho', rfl⟩ := ho
  rw [← Array.foldl_toList] at ho'
  rcases fold_out_src ops.toList _ o' ho' with h1 | ⟨op, hop, r, rfl⟩
  · simp at h1
  · exact ioOk_rewrite _ _ (ioOk_rewrite _ _ (h op hop))

/-- Decidable, syntactic condition on an op list: no `Const` / `Public` row placed after the first ALU row
carries the slot of a hint output. (The lowering emits every `Const` / `Public` row before the first ALU
row, except the fresh constant of the `mul − const` fast path, whose slot nothing else names.) -/
def lateFresh (ops : List (Op K)) : Bool :=
  (ops.dropWhile fun op => !isAluOp op).all fun op =>
    isAluOp op ||
    match outSlot op with
    | some x => !(Hall ops).contains x
    | none => true

section compile
variable [Neg K] [Zero K] [DecidableEq K]

/-- **The compiled circuit of every guarded builder state carries the no-skip certificate**, given
`lateFresh` of the compiled list. -/
theorem compile_noSkipCert_of_lateFresh (b : BState K) (hok : b.Ok) (hpo : privOk b = true)
    (hpu : pubOk b = true) (hprim : primOk b = true) (hpf : pubFull b = true) (c : Circuit K)
    (hc : compile b = .ok c) (hlate : lateFresh c.ops.toList = true) :
    noSkipCert c.privRows.toList c.ops.toList = true := by
  have hshape := compile_shape_ok b hok hpo hpu hprim hpf c hc
  obtain ⟨l, hl, rfl⟩ := compile_eq_compiledOf b c hc
  -- the run of the compiled list
  obtain ⟨tfin, hrun⟩ : ∃ t, runOps (allInputsSet (compiledOf l)) (compiledOf l).ops.toList = some t := by
    unfold runShape at hshape
    cases hr : (compiledOf l).ops.toList.foldlM execOpShape (allInputsSet (compiledOf l)) with
    | none => rw [hr] at hshape; cases hshape
    | some t1 => exact ⟨t1, hr⟩
  have hc2 : (compiledOf l).pubRows.toList = l.pubRows.toList.map (resolve (dedup l.ops).2) := by
    simp [compiledOf, optimize]
  have hc3 : (compiledOf l).privRows.toList = l.privRows.toList.map (resolve (dedup l.ops).2) := by
    simp [compiledOf, optimize]
  have hc4 : (compiledOf l).ops = fuse (dedup l.ops).1 (l.privRows.toList.map (resolve (dedup l.ops).2)) := by
    simp [compiledOf, optimize]
  -- structure of the compiled list
  have hds : ∀ op ∈ (compiledOf l).ops.toList, C18L.dshape op = true := by
    rw [hc4]
    exact fuse_dshape _ _ (dedup_dshape l.ops (C18L.lower_ADef b hpo l hl).2)
  have hio : IoUnread (compiledOf l).ops.toList := by
    rw [hc4]
    exact fuse_ioUnread _ _ (dedup_ioOk l.ops (lower_io b l hl))
  have hpre : PreOk (compiledOf l).privRows.toList (compiledOf l).pubRows.toList
      (compiledOf l).ops.toList := by
    rw [hc2, hc3, hc4]
    exact fuse_PreOk _ _ _ _ (dedup_PreOk _ _ l.ops (preOk_of_pubsFirst l (lower_pubsFirst b hpf l hl)))
  obtain ⟨pre0, body0, hl0, hna0, hp0⟩ := hpre
  have htw : (compiledOf l).ops.toList.takeWhile (fun op => !isAluOp op) =
      pre0 ++ body0.takeWhile (fun op => !isAluOp op) := by
    rw [hl0]
    exact takeWhile_append_all _ _ _ (fun a ha => by simp [hna0 a ha])
  refine cert_of_shape _ (compiledOf l).pubRows.toList _ _ tfin hrun ?_ hds hio
    ((compiledOf l).ops.toList.takeWhile fun op => !isAluOp op)
    ((compiledOf l).ops.toList.dropWhile fun op => !isAluOp op)
    (List.takeWhile_append_dropWhile).symm ?_ ?_ ?_
  · intro x hx
    obtain ⟨hm, _⟩ := getS_allSet_inv hx
    rcases List.mem_append.mp hm with h | h
    · exact Or.inr h
    · exact Or.inl h
  · intro op hop
    have := mem_takeWhile_true _ _ _ hop
    simpa using this
  · intro x hx
    rcases hp0 x hx with h1 | ⟨op, hop, ho⟩
    · exact Or.inl h1
    · exact Or.inr ⟨op, by rw [htw]; exact List.mem_append_left _ hop, ho⟩
  · intro op hop hna x ho hx
    unfold lateFresh at hlate
    rw [List.all_eq_true] at hlate
    have := hlate op hop
    rw [hna, ho] at this
    simp only [Bool.false_or, Bool.not_eq_true'] at this
    rw [contains_iff.mpr hx] at this
    cases this

/-- `compiled_no_skip`, one hypothesis short: `lateFresh` of the compiled list (decidable on `c`). -/
theorem compiled_no_skip_of_lateFresh (b : BState K) (hok : b.Ok) (hpo : privOk b = true)
    (hpu : pubOk b = true) (hprim : primOk b = true) (hpf : pubFull b = true)
    (hg : hintsGuarded b = true) (hag : operandsGuarded b = true) (c : Circuit K)
    (hc : compile b = .ok c) (p : Prep) (hp : genPrep c = some p)
    (hlate : lateFresh c.ops.toList = true) : noSkip p :=
  noskip_of_cert c p hp (compile_defuse b hok hpo hg hag c hc)
    (compile_noSkipCert_of_lateFresh b hok hpo hpu hprim hpf c hc hlate)

end compile


/-! ### (5) Reachable programs; the capstones without `hnoskip` -/

section final
variable {F : Type} [Field F] [DecidableEq F]
open P3R.E2E P3R.C09R

/-- **`compiled_no_skip` — PARTIAL.** `ReachablePrim b`, `compile b = .ok c`, `genPrep c = some p`: the role
scan puts no operand off the bus (`noSkip p`, the `hnoskip` of `E2E.e2e_soundness`), PROVIDED `lateFresh` of
the compiled list — decidable and syntactic on `c`.

Missing part (named): `compile_lateFresh : compile b = .ok c → lateFresh c.ops.toList = true`. It is a
freshness statement about the lowering (the only `Const` row that `lower` emits after the first ALU row is the
`mul − const` fast path's, whose slot is allocated for the synthetic id `nodes.len()` and is named by nothing
else; `dedup` rewrites only ALU `out` slots; `fuse` touches neither `Const` rows nor hints) and needs one more
invariant through `emit_operations` ("the slot of a late `Const` row is below `next` and outside the ranges of
`e2w` and `rootW`"), which is not threaded here. Everything else — the `a` / `c` columns through lowering,
`dedup` and `fuse` — is derived, from the shape run of the compiled circuit (`C02O.compile_shape_ok`) and the
def-before-use certificate of the `b` column (`C09F.compile_defuse`). -/
theorem compiled_no_skip_partial (b : BState F) (hb : ReachablePrim b) (c : Circuit F)
    (hc : compile b = .ok c) (p : Prep) (hp : genPrep c = some p)
    (hlate : lateFresh c.ops.toList = true) : noSkip p :=
  compiled_no_skip_of_lateFresh b hb.reachable.ok hb.privOk (P3R.E2ER.Reachable.pubOk hb.reachable)
    (P3R.E2EN.ReachablePrim.primOk hb) (P3R.E2ER.Reachable.pubFull hb.reachable)
    hb.guarded.1 hb.guarded.2 c hc p hp hlate

/-- **END TO END / soundness for reachable programs, without `hnoskip`** (PARTIAL: `lateFresh c.ops` in its
place, see `compiled_no_skip_partial`). Full conclusion of `E2E.e2e_soundness`. -/
theorem e2e_soundness_reachable_partial (b : BState F) (hb : ReachablePrim b) (c : Circuit F)
    (hc : compile b = .ok c) (p : Prep) (hp : genPrep c = some p)
    (hlate : lateFresh c.ops.toList = true) (pub : Nat → F) (vs : List F)
    (hacc : Accepted pub c p vs) :
    ∃ l : Lowered F, lower b = .ok l ∧
      (∀ e, l.mapped e = true → c.e2w.getD e none = some (eslot c.rewrite l e)) ∧
      ∃ w w' : Nat → F,
        vs = (p.events.map Prod.fst).map w ∧
        Sat w pub c.ops.toList ∧
        (∀ x, (∀ s ∈ fusedSites l, s.m ≠ x) → w' x = w x) ∧
        SourceSat b pub (fun e => w' (eslot c.rewrite l e)) ∧
        ((∀ (i a d : Nat), b.nodes[i]? = some (Expr.div a d : Expr F) → w' (eslot c.rewrite l d) ≠ 0) →
          ∀ i, i < b.nodes.size → w' (eslot c.rewrite l i) =
            (C02.denote b.nodes pub (fun e => w' (eslot c.rewrite l e)) b.nodes.size).getD i 0) :=
  e2e_soundness b hb.reachable.ok c hc p hp (compiled_no_skip_partial b hb c hc p hp hlate) pub vs hacc

/-- **`e2e_roundtrip_reachable` without `hnoskip`** (PARTIAL: `lateFresh c.ops` in its place). -/
theorem e2e_roundtrip_reachable_partial (canon : F → Nat) (b : BState F)
    (hb : ReachablePrim b) (c : Circuit F) (hc : compile b = .ok c) (p : Prep) (hp : genPrep c = some p)
    (hlate : lateFresh c.ops.toList = true)
    (w0 : Array (Option F)) (w pub : Nat → F) (h0 : C02.Agree w0 w)
    (hsh : C02.shape w0 = C02S.allInputsSet c)
    (hall : ∀ op ∈ c.ops.toList, op.holds w pub ∧ C02.RunnerWrites w op ∧ C02.HintAgrees canon w op)
    (hrw : ∀ dc ∈ c.rewrite, w dc.1 = w (resolve c.rewrite dc.2)) :
    ∃ (t : Traces F) (l : Lowered F) (w' : Nat → F), runFrom canon c w0 = .ok t ∧ lower b = .ok l ∧
      (∀ x ∈ p.events.map Prod.fst, (∀ s ∈ fusedSites l, s.m ≠ x) → w' x = t.witness.getD x 0) ∧
      SourceSat b pub (fun e => w' (eslot c.rewrite l e)) :=
  e2e_roundtrip_reachable canon b hb c hc p hp (compiled_no_skip_partial b hb c hc p hp hlate)
    w0 w pub h0 hsh hall hrw

end final

end P3R.C04N

#print axioms P3R.C04N.skip_iff
#print axioms P3R.C04N.alu_a_skip_iff
#print axioms P3R.C04N.noskip_of_cert
#print axioms P3R.C04N.exec_alu_gen
#print axioms P3R.C04N.cert_of_shape
#print axioms P3R.C04N.fuse_dshape
#print axioms P3R.C04N.fuse_ioUnread
#print axioms P3R.C04N.fuse_PreOk
#print axioms P3R.C04N.compile_noSkipCert_of_lateFresh
#print axioms P3R.C04N.compiled_no_skip_of_lateFresh
#print axioms P3R.C04N.compiled_no_skip_partial
#print axioms P3R.C04N.e2e_soundness_reachable_partial
#print axioms P3R.C04N.e2e_roundtrip_reachable_partial
