/-
C14 — the hypothesis `log_blowup + log_final_poly_len ≥ 1` of `friPhases_eq_replicate` is needed:
the commit-phase loop of `verify_fri_circuit` skips the MMCS check of a phase whose folded codeword
has a single row (`log_folded_height == 0`), and then the salts of that opening — allocated by
`HidingHashProofTargets::new`, packed by `get_private_values` — are operands of nothing. The skip is
unreachable for every FRI configuration (`log_blowup ≥ 1`); widening its guard (e.g. to "the folded
codeword fits inside the cap") makes it reachable: seeded regression C14-b.
-/
import P3R.Props.C14Phases

namespace P3R.Witness.C14
open P3R.Packing P3R.C14

/-- One arity-2 phase down to a single row: fold only. -/
theorem blowup_needed : friPhases ⟨0, 0, 0, [(1, 0)]⟩ = .ok [PhaseVerdict.foldOnly] := by rfl

/-- … and the (4-element) salt of that opening is allocated as 4 private inputs, none of which is
    an operand: 4 + 4 allocated (one sibling, `D = 4`), 4 used. -/
theorem skipped_salts_dead :
    (stepAlloc 4 "fri.q0.ph0" ⟨1, 1, [4]⟩).length = 8
      ∧ (stepUsesAt PhaseVerdict.foldOnly 4 "fri.q0.ph0" ⟨1, 1, [4]⟩).length = 4
      ∧ (stepUsesAt PhaseVerdict.mmcs 4 "fri.q0.ph0" ⟨1, 1, [4]⟩).length = 8 := by
  refine ⟨?_, ?_, ?_⟩ <;> decide

end P3R.Witness.C14

#print axioms P3R.Witness.C14.blowup_needed
#print axioms P3R.Witness.C14.skipped_salts_dead
