/-
Row-level facts for C08: what one executed permutation row of the arity-2 gadget computes
(`execRow` on sponge rows, the first / later compression rows and injection rows), and the
sponge built from such rows equals the native `PaddingFreeSponge` (`sponge_overwrite_eq`).
-/
import P3R.Model.MmcsCircuit
import Mathlib.Tactic.Ring
import Mathlib.Tactic.Linarith

namespace P3R.Mmcs
variable {K : Type}

/-! ### list helpers -/

/-- `applyInputs` without the padding. -/
def ap (s : List K) (l : List (Option K)) : List K := (s.zip l).map fun x => x.2.getD x.1

theorem applyInputs_eq (s : List K) (l : List (Option K)) :
    applyInputs s l = ap s (l ++ List.replicate (s.length - l.length) none) := rfl

theorem ap_append (a b : List K) (ia ib : List (Option K)) (h : a.length = ia.length) :
    ap (a ++ b) (ia ++ ib) = ap a ia ++ ap b ib := by
  unfold ap; rw [List.zip_append h, List.map_append]

theorem ap_some (a g : List K) (h : a.length = g.length) : ap a (g.map some) = g := by
  unfold ap
  induction a generalizing g with
  | nil => cases g <;> simp_all
  | cons x a ih =>
    cases g with
    | nil => simp at h
    | cons y g =>
      simp only [List.map_cons, List.zip_cons_cons, Option.getD_some]
      rw [ih g (by simpa using h)]

theorem ap_none (s : List K) (l : List (Option K)) (hl : ∀ x ∈ l, x = none) (hlen : s.length ≤ l.length) :
    ap s l = s := by
  unfold ap
  induction s generalizing l with
  | nil => simp
  | cons a s ih =>
    cases l with
    | nil => simp at hlen
    | cons b l =>
      have hb : b = none := hl b (by simp)
      subst hb
      simp only [List.zip_cons_cons, List.map_cons, Option.getD_none]
      rw [ih l (fun x hx => hl x (by simp [hx])) (by simpa using hlen)]

theorem applyInputs_nil (s : List K) : applyInputs s [] = s := by
  rw [applyInputs_eq]
  exact ap_none _ _ (by simp) (by simp)

/-- values `g` fed at the front, the rest inherited -/
theorem applyInputs_front (a b g : List K) (n : Nat) (h : a.length = g.length) (hn : n ≤ b.length) :
    applyInputs (a ++ b) (g.map some ++ List.replicate n none) = g ++ b := by
  rw [applyInputs_eq, List.append_assoc, ap_append _ _ _ _ (by simpa using h), ap_some _ _ h,
    ap_none _ _ (by simp) (by simp; omega)]

/-- values `g` fed at the back, the front inherited -/
theorem applyInputs_back (a b g : List K) (h : b.length = g.length) :
    applyInputs (a ++ b) (List.replicate a.length none ++ g.map some) = a ++ g := by
  rw [applyInputs_eq, List.append_assoc, ap_append _ _ _ _ (by simp), ap_none _ _ (by simp) (by simp)]
  congr 1
  have : (a ++ b).length - (List.replicate a.length (none : Option K) ++ g.map some).length = 0 := by
    simp; omega
  rw [this]; simp [ap_some _ _ h]

end P3R.Mmcs

namespace P3R.Mmcs
variable {K : Type} [Zero K] [One K] [DecidableEq K]

theorem writeAt_zero_full (z v : List K) (h : v.length = z.length) : writeAt z 0 v = v := by
  unfold writeAt; simp [h]

theorem take_full (l : List K) (n : Nat) (h : l.length = n) : l.take n = l := by
  subst h; simp

/-- A sponge row (non-Merkle, arity-2 shape): overwrite the inherited (or zero) state by the
chunk and permute; the normal chain slot and the trace advance, the Merkle slot is untouched. -/
theorem execRow_sponge (perm : List K → List K) (pc : PermCfg) (h4 : pc.arity4 = false)
    (st : ExecSt K) (first : Bool) (chunk cur : List K) (hcur : cur.length = pc.W)
    (hc : chunk.length ≤ pc.W)
    (hst : (first = true ∧ cur = List.replicate pc.W 0) ∨ (first = false ∧ st.normal = some cur)) :
    execRow perm pc st
      { newStart := first, merkle := false, bit := 0, bit2 := 0
        inputs := chunk.map some ++ List.replicate (pc.W - chunk.length) none, sibling := none }
    = some ({ st with normal := some (perm (overwrite cur chunk)), trace := overwrite cur chunk :: st.trace },
            perm (overwrite cur chunk)) := by
  have hsplit : cur = cur.take chunk.length ++ cur.drop chunk.length := (List.take_append_drop _ _).symm
  have happ : applyInputs cur (chunk.map some ++ List.replicate (pc.W - chunk.length) none) = overwrite cur chunk := by
    conv_lhs => rw [hsplit]
    rw [applyInputs_front _ _ _ _ (by simp; omega) (by simp; omega)]
    rfl
  rcases hst with ⟨hf, hz⟩ | ⟨hf, hn⟩
  · subst hf
    unfold execRow
    simp [h4, ← hz, happ]
  · subst hf
    unfold execRow
    simp [h4, hn, writeAt_zero_full, take_full _ _ hcur, hcur, happ]

end P3R.Mmcs

namespace P3R.Mmcs
variable {K : Type} [Zero K] [One K] [DecidableEq K]

omit [One K] [DecidableEq K] [Zero K] in
theorem overwrite_length (cur chunk : List K) (h : chunk.length ≤ cur.length) :
    (overwrite cur chunk).length = cur.length := by
  unfold overwrite; simp; omega

/-- Later sponge rows: the row chain computes the native absorption. -/
theorem hashRows_eq_absorb (perm : List K → List K) (pc : PermCfg) (h4 : pc.arity4 = false)
    (hperm : ∀ x, x.length = pc.W → (perm x).length = pc.W) (hrate : pc.rate ≤ pc.W) :
    ∀ (f : Nat) (st : ExecSt K) (inp cur : List K), cur.length = pc.W → st.normal = some cur →
      ∃ st', hashRows perm pc false f false st inp cur = some (st', absorb perm pc.rate f cur inp)
        ∧ st'.merkle = st.merkle := by
  intro f
  induction f with
  | zero => intro st inp cur _ _; exact ⟨st, by simp [hashRows, absorb], rfl⟩
  | succ f ih =>
    intro st inp cur hcur hn
    unfold hashRows absorb
    by_cases he : inp.isEmpty
    · simp [he]
    · simp only [he, Bool.false_eq_true, if_false]
      have hc : (inp.take pc.rate).length ≤ pc.W := by simp; omega
      rw [execRow_sponge perm pc h4 st false (inp.take pc.rate) cur hcur hc (Or.inr ⟨rfl, hn⟩)]
      simp only
      have hlen : (perm (overwrite cur (List.take pc.rate inp))).length = pc.W :=
        hperm _ (by rw [overwrite_length _ _ (by rw [hcur]; exact hc)]; exact hcur)
      obtain ⟨st', h1, h2⟩ := ih
        { st with normal := some (perm (overwrite cur (List.take pc.rate inp))),
                  trace := overwrite cur (List.take pc.rate inp) :: st.trace }
        (inp.drop pc.rate) _ hlen rfl
      exact ⟨st', h1, h2⟩

/-- `sponge_overwrite_eq`: hashing a non-empty coefficient stream with the circuit's sponge rows
(overwrite mode, partial last chunk inheriting the previous output) yields exactly the native
`PaddingFreeSponge` digest, for every permutation, rate and input length; the Merkle chain slot
is not touched. -/
theorem sponge_overwrite_eq (perm : List K → List K) (pc : PermCfg) (c : Cfg) (h4 : pc.arity4 = false)
    (hW : c.W = pc.W) (hr : c.rate = pc.rate) (hd : c.dig = pc.rate)
    (hperm : ∀ x, x.length = pc.W → (perm x).length = pc.W) (hrate : pc.rate ≤ pc.W)
    (st : ExecSt K) (inp : List K) (hne : inp ≠ []) :
    ∃ st', hashStream perm pc false st inp = some (st', sponge perm c inp) ∧ st'.merkle = st.merkle := by
  unfold hashStream sponge
  have he : inp.isEmpty = false := by cases inp <;> simp_all
  simp only [he, Bool.false_eq_true, if_false, Bool.false_and]
  obtain ⟨n, hn⟩ : ∃ n, inp.length = n + 1 := ⟨inp.length - 1, by
    have : 0 < inp.length := List.length_pos_iff.mpr hne
    omega⟩
  rw [hn]
  unfold hashRows absorb
  simp only [he, Bool.false_eq_true, if_false]
  have hc : (inp.take pc.rate).length ≤ pc.W := by simp; omega
  have hz : (List.replicate pc.W (0 : K)).length = pc.W := by simp
  rw [execRow_sponge perm pc h4 st true (inp.take pc.rate) (List.replicate pc.W 0) hz hc (Or.inl ⟨rfl, rfl⟩)]
  simp only
  have hlen : (perm (overwrite (List.replicate pc.W 0) (List.take pc.rate inp))).length = pc.W :=
    hperm _ (by rw [overwrite_length _ _ (by rw [hz]; exact hc)]; exact hz)
  obtain ⟨st', h1, h2⟩ := hashRows_eq_absorb perm pc h4 hperm hrate n
    { st with normal := some (perm (overwrite (List.replicate pc.W 0) (List.take pc.rate inp))),
              trace := overwrite (List.replicate pc.W 0) (List.take pc.rate inp) :: st.trace }
    (inp.drop pc.rate) _ hlen rfl
  refine ⟨st', ?_, h2⟩
  rw [h1, hW, hr, hd]

end P3R.Mmcs

namespace P3R.Mmcs
variable {K : Type} [Zero K] [One K] [DecidableEq K]

omit [One K] [DecidableEq K] [Zero K] in
theorem applyInputs_front' (a b g : List K) (h : a.length = g.length) :
    applyInputs (a ++ b) (g.map some) = g ++ b := by
  have := applyInputs_front a b g 0 h (Nat.zero_le _)
  simpa using this

/-- The 2-to-1 compression input: running digest and sibling, swapped by the direction bit. -/
def pair2 (b : Bool) (cur sib : List K) : List K := if b then sib ++ cur else cur ++ sib

omit [One K] [DecidableEq K] in
theorem writeAt_sib (cur sib : List K) (n : Nat) (h : cur.length = n) :
    writeAt (cur ++ List.replicate sib.length (0 : K)) n sib = cur ++ sib := by
  unfold writeAt
  subst h
  simp

/-- First compression row of `add_mmcs_verify` (`new_start`, level-0 digest CTL-fed). -/
theorem execRow_first (perm : List K → List K) (pc : PermCfg) (h4 : pc.arity4 = false)
    (hW : pc.W = pc.rate + pc.capw) (st : ExecSt K) (b : K) (bb : Bool) (hb : toBool? b = some bb)
    (g sib : List K) (hg : g.length = pc.rate) (hs : sib.length = pc.capw) :
    execRow perm pc st
      { newStart := true, merkle := true, bit := b, bit2 := 0, inputs := (g.take pc.rate).map some
        sibling := some sib }
    = some ({ st with merkle := some (perm (pair2 bb g sib)), trace := pair2 bb g sib :: st.trace },
            perm (pair2 bb g sib)) := by
  have hz : List.replicate pc.W (0 : K) = List.replicate g.length 0 ++ List.replicate sib.length 0 := by
    rw [hW, hg, hs, List.replicate_append_replicate]
  have h3 : writeAt (List.replicate pc.W (0 : K)) pc.rate (sib.take pc.capw) = List.replicate g.length 0 ++ sib := by
    rw [hz, take_full _ _ hs, writeAt_sib _ _ _ (by simp [hg])]
  unfold execRow
  simp only [hb, h4, Bool.and_false, Bool.false_eq_true, if_false, if_true, Bool.and_true,
    Bool.not_true, Bool.not_false, h3, take_full _ _ hg, applyInputs_front' _ _ _ (by simp : (List.replicate g.length (0:K)).length = g.length)]
  cases bb <;> simp [pair2, ← hg]

/-- Later compression rows: the running digest is the rate part of the previous Merkle-chain
output, the sibling comes from private data. -/
theorem execRow_step (perm : List K → List K) (pc : PermCfg) (h4 : pc.arity4 = false)
    (hW : pc.W = pc.rate + pc.capw) (st : ExecSt K) (prev : List K) (hprev : prev.length = pc.W)
    (hm : st.merkle = some prev) (b : K) (bb : Bool) (hb : toBool? b = some bb)
    (sib : List K) (hs : sib.length = pc.capw) :
    execRow perm pc st
      { newStart := false, merkle := true, bit := b, bit2 := 0, inputs := [], sibling := some sib }
    = some ({ st with merkle := some (perm (pair2 bb (prev.take pc.rate) sib)),
                      trace := pair2 bb (prev.take pc.rate) sib :: st.trace },
            perm (pair2 bb (prev.take pc.rate) sib)) := by
  have hcur : (prev.take pc.rate).length = pc.rate := by simp; omega
  have h1 : writeAt (List.replicate pc.W (0 : K)) 0 (prev.take pc.rate)
      = prev.take pc.rate ++ List.replicate sib.length 0 := by
    unfold writeAt; simp [hcur, hW, hs]
  have h3 : writeAt (prev.take pc.rate ++ List.replicate sib.length (0 : K)) pc.rate (sib.take pc.capw)
      = prev.take pc.rate ++ sib := by
    rw [take_full _ _ hs, writeAt_sib _ _ _ hcur]
  unfold execRow
  simp only [hb, hm, h4, Bool.and_false, Bool.false_eq_true, if_false, if_true, Bool.and_true,
    Bool.not_true, Bool.not_false, h1, h3, applyInputs_nil]
  cases bb <;> simp [pair2, hcur]

theorem toBool?_zero : toBool? (0 : K) = some false := by simp [toBool?]

/-- Injection row: the level digest enters in the capacity limbs, no swap. -/
theorem execRow_inject (perm : List K → List K) (pc : PermCfg) (h4 : pc.arity4 = false)
    (hW : pc.W = pc.rate + pc.capw) (hrc : pc.capw = pc.rate) (st : ExecSt K) (prev : List K)
    (hprev : prev.length = pc.W) (hm : st.merkle = some prev) (g : List K) (hg : g.length = pc.rate) :
    execRow perm pc st (injectRow pc g)
    = some ({ st with merkle := some (perm (prev.take pc.rate ++ g)),
                      trace := (prev.take pc.rate ++ g) :: st.trace },
            perm (prev.take pc.rate ++ g)) := by
  have hcur : (prev.take pc.rate).length = pc.rate := by simp; omega
  have h1 : writeAt (List.replicate pc.W (0 : K)) 0 (prev.take pc.rate)
      = prev.take pc.rate ++ List.replicate pc.capw 0 := by
    unfold writeAt; simp [hcur, hW]
  have h4' : applyInputs (prev.take pc.rate ++ List.replicate pc.capw (0 : K))
      (List.replicate pc.rate none ++ (g.take pc.rate).map some) = prev.take pc.rate ++ g := by
    have := applyInputs_back (prev.take pc.rate) (List.replicate pc.capw (0 : K)) g (by simp [hg, hrc])
    rw [hcur] at this
    rw [take_full _ _ hg]; exact this
  unfold execRow injectRow
  simp only [toBool?_zero, hm, h4, Bool.and_false, Bool.false_eq_true, if_false, if_true, Bool.and_true,
    Bool.not_true, Bool.not_false, h1, h4']

end P3R.Mmcs
