//! C01: in-circuit STARK verification agrees with native verification.
//!
//! Fault enumeration on the real code. For a set of small real proofs (uni-STARK and
//! batch-STARK; BabyBear and KoalaBear; with / without preprocessed columns, lookups, ZK) the
//! harness
//!   1. proves with the real prover, verifies natively (must accept),
//!   2. builds the verification circuit with the real `verify_p3_uni_proof_circuit` /
//!      `verify_batch_circuit` / `verify_p3_batch_proof_circuit`, packs the honest inputs with the
//!      real `pack_values`, runs the real runner (must succeed),
//!   3. serialises `{proof, public values, verifying data}` to a `serde_json::Value`, walks to every
//!      numeric leaf, alters exactly one, deserialises back (positions whose altered value no
//!      longer deserialises are skipped and counted), and compares the verdict of the native p3
//!      verifier with the outcome of the circuit (build + pack + run) on the same altered data.
//! A position where the two verdicts differ is a violation of C01; the replay is
//! `{target, path, new}`.
//!
//! Leaves that are *circuit-shape parameters* (degree bits, FRI log-arities, …) are not packed
//! inputs: for those the circuit is rebuilt from the altered proof ("a verification circuit built
//! for a proof"). Which leaf kinds are shape parameters is not assumed: for every leaf kind the
//! first sampled position is judged both ways (honest circuit re-used / circuit rebuilt); if the
//! two differ the kind is a shape kind and is always rebuilt.
//!
//! Prover-side forgeries (`c01_forge_prover.rs`, `ForgeSpec`): single-element alterations never make an
//! algebraic check the only failing one (everything is transcript- / Merkle-bound), so for every uni
//! and batch target an adversarial prover also proves *false statements* (altered trace cell / public
//! value, shifted lookup terminals, altered auxiliary-trace or quotient cell); the forged proof is
//! judged natively, by a circuit rebuilt for it and by the honest proof's circuit. Replay
//! `{target, forge}`. The checks seen decisive there are compared with the model's check list
//! (`checks …` case lines / `chk …` answers).
//!
//! Model correspondence: for every target the harness writes the proof *shape* as a case line for
//! `p3r_driver_c01` and, as the implementation's answer, (a) the inventory of proof elements
//! (number of numeric leaves per element class, counted on the serialised real proof) and (b) the
//! transcript structure of the *native* verifier recorded by a logging challenger (p3 unchanged).
//! The driver prints the same two lines from `P3R.Model.VerifierScript`.

use std::collections::BTreeMap;
use std::io::Write;
use std::panic::{AssertUnwindSafe, catch_unwind};
use std::sync::{Arc, Mutex};

use p3_air::{Air, AirBuilder, BaseAir, WindowAccess};
use p3_field::{Field, PrimeCharacteristicRing, TwoAdicField};
use p3_lookup::{Count, InteractionBuilder};
use p3_matrix::dense::RowMajorMatrix;
use serde_json::{Value, json};

use crate::rng::Rng;

/// The adversarial batch prover (see the header of that file).
#[path = "c01_forge_prover.rs"]
pub mod forge_prover;

// ------------------------------------------------------------------------------------------
// verdicts

#[derive(Clone, Debug, PartialEq)]
pub enum Native {
    Accept,
    Reject(String),
    Panic(String),
}

#[derive(Clone, Debug, PartialEq)]
pub enum Circ {
    Accept,
    BuildErr(String),
    BuildPanic(String),
    PackErr(String),
    RunErr(String),
    RunPanic(String),
}

impl Native {
    pub fn accepts(&self) -> bool {
        matches!(self, Native::Accept)
    }
    pub fn tag(&self) -> String {
        match self {
            Native::Accept => "accept".into(),
            Native::Reject(e) => format!("reject:{e}"),
            Native::Panic(_) => "panic".into(),
        }
    }
}
impl Circ {
    pub fn accepts(&self) -> bool {
        matches!(self, Circ::Accept)
    }
    pub fn tag(&self) -> String {
        match self {
            Circ::Accept => "accept".into(),
            Circ::BuildErr(e) => format!("build-err:{}", variant(e)),
            Circ::BuildPanic(_) => "build-panic".into(),
            Circ::PackErr(e) => format!("pack-err:{e}"),
            Circ::RunErr(e) => format!("run-err:{e}"),
            Circ::RunPanic(_) => "run-panic".into(),
        }
    }
    pub fn detail(&self) -> String {
        match self {
            Circ::Accept => String::new(),
            Circ::BuildErr(e) | Circ::BuildPanic(e) | Circ::PackErr(e) | Circ::RunErr(e) | Circ::RunPanic(e) => e.clone(),
        }
    }
}

pub fn panic_msg(p: Box<dyn std::any::Any + Send>) -> String {
    let m = p
        .downcast_ref::<String>()
        .cloned()
        .or_else(|| p.downcast_ref::<&str>().map(|s| s.to_string()))
        .unwrap_or_default();
    m.chars().take(140).collect()
}

/// First identifier of a `Debug` rendering: the error variant name.
pub fn variant(s: &str) -> String {
    let t: String = s.chars().take_while(|c| c.is_alphanumeric() || *c == '_').collect();
    if t.is_empty() { s.chars().take(40).collect() } else { t }
}

/// First two identifiers of a `Debug` rendering: `Lookup(TerminalSumNonZero)` → `Lookup/TerminalSumNonZero`.
pub fn variant2(s: &str) -> String {
    let a = variant(s);
    let rest = &s[a.len().min(s.len())..];
    let rest = rest.trim_start_matches(|c: char| c == '(' || c == '{' || c == ' ');
    let b: String = rest.chars().take_while(|c| c.is_alphanumeric() || *c == '_').collect();
    if b.is_empty() { a } else { format!("{a}/{b}") }
}

pub type RunFn = Box<dyn Fn(&Value) -> Circ>;

// ------------------------------------------------------------------------------------------
// prover-side forgeries

/// What the adversarial prover is asked to do (identifier syntax: `kind:args`).
#[derive(Clone, Debug, PartialEq)]
pub enum ForgeSpec {
    /// `none`: honest (drift check of the prover copy)
    None,
    /// `trace:i:cell:delta` — add `delta` to one cell of instance `i`'s trace before proving
    Trace(usize, usize, u64),
    /// `pv:i:k` — prove (and claim) a public value that is off by one
    Pv(usize, usize),
    /// `tpair:i:j` — commit terminal_i + 1 and terminal_j - 1 (the sum is unchanged)
    TerminalPair(usize, usize),
    /// `tone:i` — commit terminal_i + 1
    TerminalOne(usize),
    /// `perm:i:cell` — add one to a cell of the auxiliary (LogUp) trace of instance `i`
    Perm(usize, usize),
    /// `quot:i:cell` — add one to a value of the quotient of instance `i`
    Quot(usize, usize),
    /// `grind:c:q` — honest witness, but the prover grinds `c` commit-phase and `q` query-phase
    /// proof-of-work bits instead of the bit counts of the verifying parameters (a lazy prover when
    /// fewer, an over-zealous one when more). With a positive bit count on both sides the Fiat–Shamir
    /// transcript does not depend on the count, so the proof is otherwise well formed.
    Grind(usize, usize),
    /// `wrongair:i:k[:label]` — the *wrong-AIR* move: an honest proof (stock algorithm, true statement) of the
    /// `k`-th sibling of instance `i`'s AIR — same shape (widths, opened rows, number of quotient chunks,
    /// number of periodic columns), but another periodic table / other preprocessed content / another
    /// constraint constant (`Siblings`) — presented, with the sibling's public values, for the target's own
    /// AIR and verifying data. Everything transcript- and Merkle-bound is consistent, so the only thing that
    /// can reject is what the verifier recomputes from the AIR itself: the periodic columns at zeta, the
    /// folded constraints, the preprocessed commitment of the verifying key.
    WrongAir(usize, usize),
}

impl ForgeSpec {
    pub fn parse(id: &str) -> Option<Self> {
        let p: Vec<&str> = id.split(':').collect();
        let n = |k: usize| -> Option<usize> { p.get(k)?.parse().ok() };
        Some(match *p.first()? {
            "none" => ForgeSpec::None,
            "trace" => ForgeSpec::Trace(n(1)?, n(2)?, n(3).unwrap_or(1) as u64),
            "pv" => ForgeSpec::Pv(n(1)?, n(2)?),
            "tpair" => ForgeSpec::TerminalPair(n(1)?, n(2)?),
            "tone" => ForgeSpec::TerminalOne(n(1)?),
            "perm" => ForgeSpec::Perm(n(1)?, n(2)?),
            "quot" => ForgeSpec::Quot(n(1)?, n(2)?),
            "grind" => ForgeSpec::Grind(n(1)?, n(2)?),
            "wrongair" => ForgeSpec::WrongAir(n(1)?, n(2)?),
            _ => return None,
        })
    }
}

/// Every forgery identifier of a batch (trace value counts, public value counts, lookup counts per
/// instance), in a fixed order. `main` takes a subset in the quick tier.
pub fn forge_ids(trace_lens: &[usize], pv_lens: &[usize], n_lookups: &[usize], grind: &[(usize, usize)]) -> Vec<String> {
    let mut out = vec![];
    for (c, q) in grind {
        out.push(format!("grind:{c}:{q}"));
    }
    for (i, &len) in trace_lens.iter().enumerate() {
        for c in 0..len {
            out.push(format!("trace:{i}:{c}:1"));
        }
    }
    for (i, &n) in pv_lens.iter().enumerate() {
        for k in 0..n {
            out.push(format!("pv:{i}:{k}"));
        }
    }
    let with: Vec<usize> = n_lookups.iter().enumerate().filter(|(_, n)| **n > 0).map(|(i, _)| i).collect();
    for w in with.windows(2) {
        out.push(format!("tpair:{}:{}", w[0], w[1]));
        out.push(format!("tpair:{}:{}", w[1], w[0]));
    }
    for &i in &with {
        out.push(format!("tone:{i}"));
        for c in [0usize, 1, 2, 3, 5, 1_000_003] {
            out.push(format!("perm:{i}:{c}"));
        }
    }
    for i in 0..trace_lens.len() {
        for c in [0usize, 3, 1_000_003] {
            out.push(format!("quot:{i}:{c}"));
        }
    }
    out
}

/// Quick tier: per instance the first, middle and last trace cell plus one seeded cell; two cells
/// of the auxiliary trace; one quotient cell; every public value / terminal forgery.
pub fn forge_quick_subset(ids: &[String], rng: &mut Rng) -> Vec<String> {
    let mut by_inst: BTreeMap<usize, Vec<usize>> = BTreeMap::new();
    for id in ids {
        if let Some(ForgeSpec::Trace(i, c, _)) = ForgeSpec::parse(id) {
            by_inst.entry(i).or_default().push(c);
        }
    }
    let mut keep: Vec<(usize, usize)> = vec![];
    for (i, cells) in &by_inst {
        let n = cells.len();
        for c in [0, n / 2, n - 1, rng.usize(n)] {
            if !keep.contains(&(*i, c)) {
                keep.push((*i, c));
            }
        }
    }
    ids.iter()
        .filter(|id| match ForgeSpec::parse(id) {
            Some(ForgeSpec::Trace(i, c, _)) => keep.contains(&(i, c)),
            Some(ForgeSpec::Perm(_, c)) => c == 0 || c == 1_000_003,
            Some(ForgeSpec::Quot(_, c)) => c == 3,
            Some(_) => true,
            None => false,
        })
        .cloned()
        .collect()
}

// ------------------------------------------------------------------------------------------
// FRI parameters of a target; prover-side proof-of-work override

/// FRI parameters of a target (the *verifying* parameters: native `FriParameters` and the circuit's
/// `FriVerifierParams` are both made from this).
#[derive(Clone, Copy, Debug, PartialEq)]
pub struct FriSpec {
    pub log_blowup: usize,
    pub log_final: usize,
    pub max_log_arity: usize,
    pub queries: usize,
    pub cpow: usize,
    pub qpow: usize,
}

impl FriSpec {
    /// `FriParameters::new_testing(_, 0)`
    pub const TESTING: FriSpec = FriSpec { log_blowup: 2, log_final: 0, max_log_arity: 1, queries: 2, cpow: 1, qpow: 1 };
    /// blowup 2, arity up to 4, final polynomial of length 2, 3 queries, 0 + 2 grinding bits
    pub const FRI2: FriSpec = FriSpec { log_blowup: 1, log_final: 1, max_log_arity: 2, queries: 3, cpow: 0, qpow: 2 };
    pub const fn pow(self, cpow: usize, qpow: usize) -> FriSpec {
        FriSpec { cpow, qpow, ..self }
    }
    /// `(cpow, qpow, log_blowup, log_final)` as the target macros take it
    pub const fn tuple(self) -> (usize, usize, usize, usize) {
        (self.cpow, self.qpow, self.log_blowup, self.log_final)
    }
}

thread_local! {
    static PROVER_POW: std::cell::Cell<Option<(usize, usize)>> = const { std::cell::Cell::new(None) };
    static PROVER_POW_READS: std::cell::Cell<u64> = const { std::cell::Cell::new(0) };
}

/// The grinding bit counts a config maker puts into `FriParameters`: those of the spec, unless a
/// `PowOverride` is alive (the adversarial prover of a `grind:c:q` forgery). Verifiers are never
/// built under an override.
pub fn effective_pow_bits(spec: &FriSpec) -> (usize, usize) {
    PROVER_POW_READS.with(|r| r.set(r.get() + 1));
    PROVER_POW.with(|p| p.get()).unwrap_or((spec.cpow, spec.qpow))
}

/// How many times a config maker asked for the bit counts (to detect config makers that ignore the override).
pub fn pow_reads() -> u64 {
    PROVER_POW_READS.with(|r| r.get())
}

pub struct PowOverride;

impl PowOverride {
    pub fn set(c: usize, q: usize) -> Self {
        PROVER_POW.with(|p| p.set(Some((c, q))));
        PowOverride
    }
}

impl Drop for PowOverride {
    fn drop(&mut self) {
        PROVER_POW.with(|p| p.set(None));
    }
}

/// Prover-side grinding bit counts tried against verifying parameters `(c, q)`: one bit short, one bit only,
/// none at all — per phase and for both phases — and more than required.
pub fn grind_variants(c: usize, q: usize) -> Vec<(usize, usize)> {
    let mut out: Vec<(usize, usize)> = vec![];
    let mut add = |v: (usize, usize)| {
        if v != (c, q) && !out.contains(&v) {
            out.push(v);
        }
    };
    // query phase under-ground
    if q >= 1 {
        add((c, q - 1));
        add((c, 1.min(q - 1)));
        add((c, 0));
    }
    // commit phase under-ground
    if c >= 1 {
        add((c - 1, q));
        add((1.min(c - 1), q));
        add((0, q));
    }
    // both
    if c >= 2 && q >= 2 {
        add((1, 1));
    }
    if c >= 1 && q >= 1 {
        add((c - 1, q - 1));
    }
    // over-ground (a phase without grinding stays without: its witness is not read)
    add((if c > 0 { c + 2 } else { 0 }, if q > 0 { q + 1 } else { 0 }));
    out
}

/// Which phase of a `grind:c':q'` forgery is under-ground with respect to the verifying `(c, q)`.
pub fn grind_phase(prover: (usize, usize), verifier: (usize, usize)) -> &'static str {
    match (prover.0 < verifier.0, prover.1 < verifier.1) {
        (true, false) => "commit",
        (false, true) => "query",
        (true, true) => "both",
        (false, false) => "over",
    }
}

/// One real proof + the real native verifier + the real circuit builder for it.
pub struct Target {
    pub name: String,
    /// `{"proof": …, "pis": …, "vd": verifying data (preprocessed commitment) or null}`
    pub honest: Value,
    /// `None`: the altered JSON no longer deserialises.
    pub native: Box<dyn Fn(&Value) -> Option<Native>>,
    /// Build the verification circuit for the proof in the JSON; returns the runner closure
    /// (pack + set inputs + run on any JSON of the same shape).
    pub build: Box<dyn Fn(&Value) -> Result<RunFn, Circ>>,
    /// Leaf kinds (path patterns) that are enumerated; others (proof metadata, C16) are left alone.
    pub include: Box<dyn Fn(&str) -> bool>,
    /// Case line for the Lean driver (`shape …`).
    pub shape: String,
    /// Native transcript structure (recording challenger): `o14,s4,…`.
    pub transcript: String,
    /// `(cpow bits, qpow bits)` of the FRI parameters (for the element inventory).
    pub pow_bits: (usize, usize),
    /// Prover-side forgeries (batch targets): identifiers understood by `forge`.
    pub forge_ids: Vec<String>,
    /// Run the adversarial prover (`forge_prover`) on the forgery `id`; the result has the layout of
    /// `honest`. `Err`: the prover itself refused (panicked).
    pub forge: Option<Box<dyn Fn(&str) -> Result<Value, String>>>,
    /// `Some(msg)`: the adversarial prover with nothing forged does not reproduce the stock prover's proof.
    pub drift: Option<String>,
    /// AIR / configuration features of this target that a verifier treats specially (`features_of`):
    /// the rows of the (PCS flavour x feature) coverage matrix of the evidence.
    pub features: Vec<String>,
}

/// Feature tags of a target, read off the AIRs and the real proof: `zk`, `pv` (public values), `pre-cur` /
/// `pre-next` (preprocessed columns read on the current row only / also on the next row), `no-next` (an
/// instance that opens no next trace row), `lookups`, `chunks2+` / `chunks4+` (several quotient chunks per
/// instance, before the ZK doubling), `periodic` and its sub-cases `periodic-multi` (>= 2 columns in one
/// AIR), `periodic-p1` (a period-1 column), `periodic-p2+` (period >= 2: the only ones that depend on the
/// evaluation domain), `periodic-pn` (period = trace length), `periodic-mixed` (different periods in one AIR),
/// `multi-height` (instances of different heights).
pub fn features_of(zk: bool, insts: &[InstStatic], periods: &[Vec<usize>], chunks: &[usize], heights: &[usize]) -> Vec<String> {
    let mut f: std::collections::BTreeSet<&'static str> = Default::default();
    if zk {
        f.insert("zk");
    }
    for x in insts {
        if x.n_pub > 0 {
            f.insert("pv");
        }
        if x.pre_w > 0 {
            f.insert(if x.pre_next { "pre-next" } else { "pre-cur" });
        }
        if !x.has_next {
            f.insert("no-next");
        }
        if x.n_lookups > 0 {
            f.insert("lookups");
        }
    }
    for (i, ps) in periods.iter().enumerate() {
        if ps.is_empty() {
            continue;
        }
        f.insert("periodic");
        if ps.len() >= 2 {
            f.insert("periodic-multi");
        }
        if ps.iter().any(|p| *p == 1) {
            f.insert("periodic-p1");
        }
        if ps.iter().any(|p| *p >= 2) {
            f.insert("periodic-p2+");
        }
        if heights.get(i).is_some_and(|h| ps.iter().any(|p| p == h)) {
            f.insert("periodic-pn");
        }
        if ps.iter().any(|p| *p != ps[0]) {
            f.insert("periodic-mixed");
        }
    }
    // quotient chunks per instance without the ZK doubling
    for c in chunks {
        let c = if zk { c / 2 } else { *c };
        if c >= 2 {
            f.insert("chunks2+");
        }
        if c >= 4 {
            f.insert("chunks4+");
        }
    }
    if heights.iter().any(|h| *h != heights[0]) {
        f.insert("multi-height");
    }
    f.into_iter().map(String::from).collect()
}

/// Quotient chunk counts per instance, read off the serialised real proof.
pub fn chunk_counts(mode: &str, proof: &Value, n: usize) -> Vec<usize> {
    (0..n)
        .map(|i| {
            if mode == "uni" {
                alen(&proof["opened_values"]["quotient_chunks"])
            } else {
                alen(&proof["opened_values"]["instances"][i]["base_opened_values"]["quotient_chunks"])
            }
        })
        .collect()
}

// ------------------------------------------------------------------------------------------
// JSON leaves

#[derive(Clone, Debug, PartialEq)]
pub enum Seg {
    K(String),
    I(usize),
}

pub fn leaves(v: &Value, path: &mut Vec<Seg>, out: &mut Vec<(Vec<Seg>, u64)>) {
    match v {
        Value::Number(n) => {
            if let Some(u) = n.as_u64() {
                out.push((path.clone(), u));
            }
        }
        Value::Array(a) => {
            for (i, x) in a.iter().enumerate() {
                path.push(Seg::I(i));
                leaves(x, path, out);
                path.pop();
            }
        }
        Value::Object(m) => {
            for (k, x) in m.iter() {
                path.push(Seg::K(k.clone()));
                leaves(x, path, out);
                path.pop();
            }
        }
        _ => {}
    }
}

/// Field kind of a leaf: the path with every array index replaced by `*`.
pub fn kind_of(path: &[Seg]) -> String {
    path.iter()
        .map(|s| match s {
            Seg::K(k) => k.clone(),
            Seg::I(_) => "*".to_string(),
        })
        .collect::<Vec<_>>()
        .join("/")
}

pub fn path_json(path: &[Seg]) -> Value {
    Value::Array(
        path.iter()
            .map(|s| match s {
                Seg::K(k) => json!(k),
                Seg::I(i) => json!(i),
            })
            .collect(),
    )
}

pub fn path_from_json(v: &Value) -> Vec<Seg> {
    v.as_array()
        .map(|a| {
            a.iter()
                .map(|x| match x {
                    Value::String(s) => Seg::K(s.clone()),
                    other => Seg::I(other.as_u64().unwrap_or(0) as usize),
                })
                .collect()
        })
        .unwrap_or_default()
}

pub fn get_mut<'a>(v: &'a mut Value, path: &[Seg]) -> Option<&'a mut Value> {
    let mut cur = v;
    for s in path {
        cur = match s {
            Seg::K(k) => cur.get_mut(k.as_str())?,
            Seg::I(i) => cur.get_mut(*i)?,
        };
    }
    Some(cur)
}

pub fn with_leaf(honest: &Value, path: &[Seg], new: u64) -> Option<Value> {
    let mut j = honest.clone();
    *get_mut(&mut j, path)? = json!(new);
    Some(j)
}

// ------------------------------------------------------------------------------------------
// small AIRs (the ones of recursion/tests, plus a row-local one that opens no next row)

/// `a + b = c` on every row; reads no next row (both the trace and nothing preprocessed).
#[derive(Clone, Copy)]
pub struct AddAir {
    pub open_next: bool,
}

impl<V: Field> BaseAir<V> for AddAir {
    fn width(&self) -> usize {
        3
    }
    fn main_next_row_columns(&self) -> Vec<usize> {
        if self.open_next { vec![0, 1, 2] } else { vec![] }
    }
}

impl<AB: AirBuilder> Air<AB> for AddAir
where
    AB::F: Field,
{
    fn eval(&self, builder: &mut AB) {
        let main = builder.main();
        let row = main.current_slice();
        builder.assert_zero(row[0] + row[1] - row[2]);
    }
}

pub fn add_trace<V: Field>(rows: usize) -> RowMajorMatrix<V> {
    let mut values = V::zero_vec(rows * 3);
    for r in 0..rows {
        let a = V::from_usize(r);
        let b = V::from_usize(r + 1);
        values[3 * r] = a;
        values[3 * r + 1] = b;
        values[3 * r + 2] = a + b;
    }
    RowMajorMatrix::new(values, 3)
}

/// `recursion/tests/common/mod.rs::MulAir` with a smaller width: preprocessed columns
/// `(a_i, b_i)`, main column `c_i = a_i^(degree-1) * b_i`, first-row and transition constraints
/// on the preprocessed columns (so the preprocessed *next* row is opened).
#[derive(Clone, Copy)]
pub struct MulAir {
    pub degree: u64,
    pub rows: usize,
    pub reps: usize,
    /// also read the next preprocessed row (transition constraint)
    pub pre_next: bool,
    /// declare the main trace's next row as opened (the default of `BaseAir`)
    pub main_next: bool,
}

impl MulAir {
    pub fn traces<V: Field>(&self) -> (RowMajorMatrix<V>, RowMajorMatrix<V>) {
        let reps = self.reps;
        let mut main = V::zero_vec(self.rows * reps);
        let mut prep = V::zero_vec(self.rows * reps * 2);
        let mut rng = Rng::new(77);
        for i in 0..self.rows * reps {
            let row = i / reps;
            let a = V::from_usize(i);
            let b = if row == 0 { a.square() + V::ONE } else { V::from_u64(rng.below(1 << 30)) };
            prep[2 * i] = a;
            prep[2 * i + 1] = b;
            main[i] = a.exp_u64(self.degree - 1) * b;
        }
        (RowMajorMatrix::new(main, reps), RowMajorMatrix::new(prep, 2 * reps))
    }
}

impl<V: Field> BaseAir<V> for MulAir {
    fn width(&self) -> usize {
        self.reps
    }
    fn preprocessed_width(&self) -> usize {
        2 * self.reps
    }
    fn preprocessed_trace(&self) -> Option<RowMajorMatrix<V>> {
        Some(self.traces::<V>().1)
    }
    fn main_next_row_columns(&self) -> Vec<usize> {
        if self.main_next { (0..self.reps).collect() } else { vec![] }
    }
    fn preprocessed_next_row_columns(&self) -> Vec<usize> {
        if self.pre_next { (0..2 * self.reps).collect() } else { vec![] }
    }
}

impl<AB: AirBuilder> Air<AB> for MulAir
where
    AB::F: Field,
{
    fn eval(&self, builder: &mut AB) {
        let main = builder.main();
        let local = main.current_slice();
        let prep = builder.preprocessed().clone();
        let pl = prep.current_slice();
        for (i, c) in local.iter().enumerate() {
            let a = pl[2 * i];
            let b = pl[2 * i + 1];
            builder.assert_zero(a.into().exp_u64(self.degree - 1) * b - *c);
            builder.when_first_row().assert_eq(a * a + AB::Expr::ONE, b);
            if self.pre_next {
                let pn = prep.next_slice();
                let next_a = pn[2 * i];
                builder.when_transition().assert_eq(a + AB::Expr::from_u8(self.reps as u8), next_a);
            }
        }
    }
}

/// Name of the global LogUp bus of the lookup AIRs below.
pub const BUS: &str = "c01_bus";

/// One AIR type for a heterogeneous batch.
#[derive(Clone, Copy)]
pub enum DemoAir {
    Fib,
    Add(AddAir),
    Mul(MulAir),
    /// One column; every row puts `(col0)` on the global bus with the constant multiplicity `sign`
    /// (`+1` sends, `-1` receives). No other constraint.
    Bus { sign: i32, open_next: bool },
    /// Two columns `[v, m]`; every row receives `(v)` from the global bus `m` times (multiplicity
    /// column, as a lookup table does).
    Table,
    /// Two columns `[a, b]`; a *local* lookup: column `b` is a permutation of column `a`.
    Perm,
    /// The feature AIR (periodic columns, preprocessed columns, public values, constraint degree); with
    /// `bus != 0` every row also puts `(x)` on the global bus.
    Feat(FeatAir),
}

pub fn bus_trace<V: Field>(rows: usize, modulo: usize, offset: usize) -> RowMajorMatrix<V> {
    RowMajorMatrix::new((0..rows).map(|r| V::from_usize(r % modulo + offset)).collect(), 1)
}

/// Table of the values `0..rows`, each received `mult` times.
pub fn table_trace<V: Field>(rows: usize, mult: usize) -> RowMajorMatrix<V> {
    RowMajorMatrix::new((0..rows).flat_map(|r| [V::from_usize(r), V::from_usize(mult)]).collect(), 2)
}

pub fn perm_trace<V: Field>(rows: usize) -> RowMajorMatrix<V> {
    RowMajorMatrix::new((0..rows).flat_map(|r| [V::from_usize(r + 10), V::from_usize((r + 3) % rows + 10)]).collect(), 2)
}

impl<V: TwoAdicField> BaseAir<V> for DemoAir {
    fn width(&self) -> usize {
        match self {
            DemoAir::Fib => 2,
            DemoAir::Add(a) => BaseAir::<V>::width(a),
            DemoAir::Mul(a) => BaseAir::<V>::width(a),
            DemoAir::Bus { .. } => 1,
            DemoAir::Table | DemoAir::Perm => 2,
            DemoAir::Feat(a) => BaseAir::<V>::width(a),
        }
    }
    fn num_public_values(&self) -> usize {
        match self {
            DemoAir::Fib => 3,
            DemoAir::Feat(a) => BaseAir::<V>::num_public_values(a),
            _ => 0,
        }
    }
    fn preprocessed_width(&self) -> usize {
        match self {
            DemoAir::Mul(a) => BaseAir::<V>::preprocessed_width(a),
            DemoAir::Feat(a) => BaseAir::<V>::preprocessed_width(a),
            _ => 0,
        }
    }
    fn preprocessed_trace(&self) -> Option<RowMajorMatrix<V>> {
        match self {
            DemoAir::Mul(a) => BaseAir::<V>::preprocessed_trace(a),
            DemoAir::Feat(a) => BaseAir::<V>::preprocessed_trace(a),
            _ => None,
        }
    }
    fn num_periodic_columns(&self) -> usize {
        match self {
            DemoAir::Feat(a) => BaseAir::<V>::num_periodic_columns(a),
            _ => 0,
        }
    }
    fn periodic_columns(&self) -> Vec<Vec<V>> {
        match self {
            DemoAir::Feat(a) => BaseAir::<V>::periodic_columns(a),
            _ => vec![],
        }
    }
    fn main_next_row_columns(&self) -> Vec<usize> {
        match self {
            DemoAir::Fib => vec![0, 1],
            DemoAir::Add(a) => BaseAir::<V>::main_next_row_columns(a),
            DemoAir::Mul(a) => BaseAir::<V>::main_next_row_columns(a),
            DemoAir::Bus { open_next, .. } => if *open_next { vec![0] } else { vec![] },
            DemoAir::Table => vec![0, 1],
            DemoAir::Perm => vec![],
            DemoAir::Feat(a) => BaseAir::<V>::main_next_row_columns(a),
        }
    }
    fn preprocessed_next_row_columns(&self) -> Vec<usize> {
        match self {
            DemoAir::Mul(a) => BaseAir::<V>::preprocessed_next_row_columns(a),
            DemoAir::Feat(a) => BaseAir::<V>::preprocessed_next_row_columns(a),
            _ => vec![],
        }
    }
}

impl<AB: AirBuilder + InteractionBuilder> Air<AB> for DemoAir
where
    AB::F: TwoAdicField,
{
    fn eval(&self, builder: &mut AB) {
        match self {
            DemoAir::Fib => p3_circuit::test_utils::FibonacciAir {}.eval(builder),
            DemoAir::Add(a) => a.eval(builder),
            DemoAir::Mul(a) => a.eval(builder),
            DemoAir::Bus { sign, .. } => {
                let main = builder.main();
                let v: AB::Expr = main.current_slice()[0].into();
                builder.push_interaction(BUS, [v], Count::<AB::Expr>::from(*sign));
            }
            DemoAir::Table => {
                let main = builder.main();
                let row = main.current_slice();
                let v: AB::Expr = row[0].into();
                let m: AB::Expr = row[1].into();
                builder.push_interaction(BUS, [v], Count::provided(-m));
            }
            DemoAir::Feat(a) => {
                a.eval(builder);
                if a.bus != 0 {
                    let main = builder.main();
                    let v: AB::Expr = main.current_slice()[0].into();
                    builder.push_interaction(BUS, [v], Count::<AB::Expr>::from(a.bus));
                }
            }
            DemoAir::Perm => {
                let main = builder.main();
                let row = main.current_slice();
                let a: AB::Expr = row[0].into();
                let b: AB::Expr = row[1].into();
                builder.push_local_interaction([
                    (vec![a], Count::<AB::Expr>::from(1)),
                    (vec![b], Count::<AB::Expr>::from(-1)),
                ]);
            }
        }
    }
}

// ------------------------------------------------------------------------------------------
// the feature AIR: every AIR feature a verifier treats specially, switchable; and its siblings

/// Maximal number of periodic columns of a `FeatAir`.
pub const FEAT_PCOLS: usize = 4;

/// Main columns `[x, y]`, optional preprocessed columns `[a, b]`, up to four periodic columns `P_c`, optional
/// public values `[x_first, x_last]`:
///   first row : `x = pv[0]` (or `x = 0` without public values)
///   transition: `x' = x + k + sum_c (c+1) * P_c  [+ a] [+ 2 * b']`   (`a`: `pre >= 1`, `b'` = next row, `pre == 2`)
///   every row : `y = x^degree`                                         (constraint degree = `degree`)
///   last row  : `x = pv[1]`                                            (`n_pub == 2`)
/// and, inside a batch (`DemoAir::Feat`), `bus = +1 / -1`: every row sends / receives `(x)` on the global bus.
/// `Copy` so that it fits `DemoAir`; the periodic tables are derived from the fields (`table`).
#[derive(Clone, Copy, Debug, PartialEq)]
pub struct FeatAir {
    pub rows: usize,
    /// period of periodic column `c` (a power of two `<= rows`), 0 = no such column
    pub periods: [usize; FEAT_PCOLS],
    /// the column's table is `alpha + beta * X` evaluated over the subgroup of order `period` (for `period >= 4` a
    /// table of low degree `< period / 2`: the interpolant is also the interpolant of its even entries over the
    /// subgroup of half the order, so "every second entry, half the period" is what this column looks like to a
    /// verifier that folds once too often); else pseudo-random
    pub lin: [bool; FEAT_PCOLS],
    /// sibling knobs of the periodic tables (all 0 / None in a target's own AIR), applied in this order:
    /// keep every `2^sub`-th entry (period shrinks), repeat the table `2^dbl` times (period grows, same column),
    /// rotate by `rot`, add `bump` to the last entry; finally exchange the tables of two columns
    pub sub: [u8; FEAT_PCOLS],
    pub dbl: [u8; FEAT_PCOLS],
    pub rot: [u8; FEAT_PCOLS],
    pub bump: [u8; FEAT_PCOLS],
    pub swap: Option<(u8, u8)>,
    /// 0: no preprocessed columns, 1: read on the current row only, 2: also on the next row
    pub pre: u8,
    /// sibling knob: one preprocessed cell differs
    pub pre_bump: bool,
    /// 0 or 2
    pub n_pub: usize,
    pub degree: u64,
    /// constant of the transition constraint (sibling knob: `k + 1`)
    pub k: u64,
    pub bus: i32,
}

impl FeatAir {
    pub const fn new(rows: usize) -> Self {
        FeatAir { rows, periods: [0; FEAT_PCOLS], lin: [false; FEAT_PCOLS], sub: [0; FEAT_PCOLS], dbl: [0; FEAT_PCOLS],
            rot: [0; FEAT_PCOLS], bump: [0; FEAT_PCOLS], swap: None, pre: 0, pre_bump: false, n_pub: 0, degree: 2, k: 1, bus: 0 }
    }
    pub const fn periodic(mut self, periods: [usize; FEAT_PCOLS], lin: [bool; FEAT_PCOLS]) -> Self {
        self.periods = periods;
        self.lin = lin;
        self
    }
    pub const fn pre(mut self, pre: u8) -> Self {
        self.pre = pre;
        self
    }
    pub const fn pubs(mut self) -> Self {
        self.n_pub = 2;
        self
    }
    pub const fn degree(mut self, d: u64) -> Self {
        self.degree = d;
        self
    }
    pub const fn bus(mut self, sign: i32) -> Self {
        self.bus = sign;
        self
    }

    /// The periodic tables, in column order (columns with `periods[c] == 0` do not exist).
    pub fn tables<V: TwoAdicField>(&self) -> Vec<Vec<V>> {
        let mut out: Vec<Vec<V>> = vec![];
        for c in 0..FEAT_PCOLS {
            let p = self.periods[c];
            if p == 0 {
                continue;
            }
            let mut t: Vec<V> = if self.lin[c] {
                let g = V::two_adic_generator(p.trailing_zeros() as usize);
                let (alpha, beta) = (V::from_usize(5 + c), V::from_usize(3 + 2 * c));
                g.powers().take(p).map(|gi| alpha + beta * gi).collect()
            } else {
                let mut rng = Rng::new(4242 + 17 * c as u64 + p as u64);
                (0..p).map(|_| V::from_u64(rng.below(1 << 30))).collect()
            };
            if self.sub[c] > 0 {
                t = t.into_iter().step_by(1 << self.sub[c]).collect();
            }
            for _ in 0..self.dbl[c] {
                let u = t.clone();
                t.extend(u);
            }
            let n = t.len();
            t.rotate_left(self.rot[c] as usize % n);
            t[n - 1] += V::from_u8(self.bump[c]);
            out.push(t);
        }
        if let Some((i, j)) = self.swap {
            out.swap(i as usize, j as usize);
        }
        out
    }

    /// Effective periods (after the sibling knobs), in column order.
    pub fn eff_periods(&self) -> Vec<usize> {
        self.tables::<p3_baby_bear::BabyBear>().iter().map(|t| t.len()).collect()
    }

    pub fn pre_trace<V: Field>(&self) -> Option<RowMajorMatrix<V>> {
        if self.pre == 0 {
            return None;
        }
        let mut v = V::zero_vec(2 * self.rows);
        for i in 0..self.rows {
            v[2 * i] = V::from_usize(100 + i);
            v[2 * i + 1] = V::from_usize(3 * i + 1);
        }
        if self.pre_bump {
            v[2 * (self.rows / 2) + 1] += V::ONE;
        }
        Some(RowMajorMatrix::new(v, 2))
    }

    /// The (unique) trace satisfying the AIR with first value 7 (0 without public values).
    pub fn trace<V: TwoAdicField>(&self) -> RowMajorMatrix<V> {
        let tabs = self.tables::<V>();
        let pre = self.pre_trace::<V>();
        let mut v = V::zero_vec(2 * self.rows);
        let mut x = if self.n_pub > 0 { V::from_u8(7) } else { V::ZERO };
        for i in 0..self.rows {
            v[2 * i] = x;
            v[2 * i + 1] = x.exp_u64(self.degree);
            x += V::from_u64(self.k);
            for (c, t) in tabs.iter().enumerate() {
                x += V::from_usize(c + 1) * t[i % t.len()];
            }
            if let Some(m) = &pre {
                x += m.values[2 * i];
                if self.pre == 2 {
                    x += m.values[2 * ((i + 1) % self.rows) + 1].double();
                }
            }
        }
        RowMajorMatrix::new(v, 2)
    }

    pub fn pis<V: TwoAdicField>(&self) -> Vec<V> {
        if self.n_pub == 0 {
            return vec![];
        }
        let t = self.trace::<V>();
        vec![t.values[0], t.values[2 * (self.rows - 1)]]
    }

    /// Same AIR up to the bus sign (the sender and the receiver of a batch are altered together).
    pub fn same_family(&self, o: &FeatAir) -> bool {
        FeatAir { bus: 0, ..*self } == FeatAir { bus: 0, ..*o }
    }

    /// The siblings: `(label, AIR)`. Every one has the proof shape of `self`. All but `ptab-dbl` (the same
    /// column written with twice the period: an *equivalent* AIR, the proof must stay accepted) define another
    /// set of valid traces, so an honest proof of the sibling is a proof of a false statement about `self`.
    pub fn feat_siblings(&self) -> Vec<(String, FeatAir)> {
        let mut out = vec![];
        let cols: Vec<usize> = (0..FEAT_PCOLS).filter(|c| self.periods[*c] > 0).collect();
        for &c in &cols {
            let p = self.periods[c];
            let mut s = *self;
            s.bump[c] = 1;
            out.push((format!("ptab-bump-p{p}"), s));
            if p >= 2 {
                let mut s = *self;
                s.rot[c] = 1;
                out.push((format!("ptab-rot-p{p}"), s));
                // the table of half the period made of the even entries: what the column looks like to a verifier
                // that evaluates it over a domain of twice the size
                let mut s = *self;
                s.sub[c] = 1;
                out.push((format!("ptab-half-p{p}{}", if self.lin[c] && p >= 4 { "-lin" } else { "" }), s));
            }
            if 2 * p <= self.rows {
                let mut s = *self;
                s.dbl[c] = 1;
                out.push((format!("ptab-dbl-p{p}"), s));
            }
        }
        if cols.len() >= 2 {
            let mut s = *self;
            s.swap = Some((0, (cols.len() - 1) as u8));
            out.push(("ptab-swap".to_string(), s));
            // every column of period >= 2 halved at once: the AIR as a verifier sees it that evaluates ALL periodic
            // columns over a domain of twice the size (with minimal-degree tables that verifier accepts its proofs)
            let big: Vec<usize> = cols.iter().copied().filter(|c| self.periods[*c] >= 2).collect();
            if big.len() >= 2 {
                let mut s = *self;
                for &c in &big {
                    s.sub[c] = 1;
                }
                let all_lin = big.iter().all(|c| self.lin[*c] && self.periods[*c] >= 4);
                out.push((format!("ptab-half-all{}", if all_lin { "-lin" } else { "" }), s));
            }
        }
        if self.pre > 0 {
            let mut s = *self;
            s.pre_bump = true;
            out.push(("pre-content".to_string(), s));
        }
        let mut s = *self;
        s.k += 1;
        out.push(("constraint-k".to_string(), s));
        out
    }
}

impl<V: TwoAdicField> BaseAir<V> for FeatAir {
    fn width(&self) -> usize {
        2
    }
    fn num_public_values(&self) -> usize {
        self.n_pub
    }
    fn preprocessed_width(&self) -> usize {
        if self.pre > 0 { 2 } else { 0 }
    }
    fn preprocessed_trace(&self) -> Option<RowMajorMatrix<V>> {
        self.pre_trace::<V>()
    }
    fn preprocessed_next_row_columns(&self) -> Vec<usize> {
        if self.pre == 2 { vec![0, 1] } else { vec![] }
    }
    fn num_periodic_columns(&self) -> usize {
        self.periods.iter().filter(|p| **p > 0).count()
    }
    fn periodic_columns(&self) -> Vec<Vec<V>> {
        self.tables::<V>()
    }
}

impl<AB: AirBuilder> Air<AB> for FeatAir
where
    AB::F: TwoAdicField,
{
    fn eval(&self, builder: &mut AB) {
        let np = self.periods.iter().filter(|p| **p > 0).count();
        let per: Vec<AB::Expr> = builder.periodic_values()[..np].iter().map(|v| (*v).into()).collect();
        let pubs: Vec<AB::Expr> = builder.public_values().iter().map(|v| (*v).into()).collect();
        let main = builder.main();
        let (local, next) = (main.current_slice(), main.next_slice());
        let (x, y, xn) = (local[0], local[1], next[0]);
        let mut step: AB::Expr = AB::Expr::from_u64(self.k);
        for (c, p) in per.iter().enumerate() {
            step += p.clone() * AB::Expr::from_usize(c + 1);
        }
        if self.pre > 0 {
            let prep = builder.preprocessed().clone();
            step += prep.current_slice()[0].into();
            if self.pre == 2 {
                step += prep.next_slice()[1].into().double();
            }
        }
        if self.n_pub > 0 {
            builder.when_first_row().assert_eq(x, pubs[0].clone());
        } else {
            builder.when_first_row().assert_zero(x);
        }
        builder.when_transition().assert_eq(xn, x.into() + step);
        builder.assert_eq(y, x.into().exp_u64(self.degree));
        if self.n_pub == 2 {
            builder.when_last_row().assert_eq(x, pubs[1].clone());
        }
    }
}

/// The wrong-AIR move: siblings of an AIR (same type, same proof shape) with their honest witnesses.
pub trait Siblings<V: Field>: Sized {
    fn siblings(&self) -> Vec<(String, Self)> {
        vec![]
    }
    /// Honest trace and public values of a *sibling* (never called on AIRs without siblings).
    fn sib_witness(&self) -> (RowMajorMatrix<V>, Vec<V>) {
        unreachable!("AIR without siblings")
    }
    /// `self` and `other` are altered together (sender / receiver of one bus).
    fn same_family(&self, _other: &Self) -> bool {
        false
    }
    /// Periods of the periodic columns (for the coverage matrix).
    fn periods(&self) -> Vec<usize> {
        vec![]
    }
}

impl<V: Field> Siblings<V> for p3_circuit::test_utils::FibonacciAir {}
impl<V: Field> Siblings<V> for AddAir {}
impl<V: Field> Siblings<V> for MulAir {}
impl<V: TwoAdicField> Siblings<V> for FeatAir {
    fn siblings(&self) -> Vec<(String, Self)> {
        self.feat_siblings()
    }
    fn sib_witness(&self) -> (RowMajorMatrix<V>, Vec<V>) {
        (self.trace::<V>(), self.pis::<V>())
    }
    fn same_family(&self, other: &Self) -> bool {
        FeatAir::same_family(self, other)
    }
    fn periods(&self) -> Vec<usize> {
        self.eff_periods()
    }
}
impl<V: TwoAdicField> Siblings<V> for DemoAir {
    fn siblings(&self) -> Vec<(String, Self)> {
        match self {
            DemoAir::Feat(a) => a.feat_siblings().into_iter().map(|(l, s)| (l, DemoAir::Feat(s))).collect(),
            _ => vec![],
        }
    }
    fn sib_witness(&self) -> (RowMajorMatrix<V>, Vec<V>) {
        match self {
            DemoAir::Feat(a) => (a.trace::<V>(), a.pis::<V>()),
            _ => unreachable!("AIR without siblings"),
        }
    }
    fn same_family(&self, other: &Self) -> bool {
        match (self, other) {
            (DemoAir::Feat(a), DemoAir::Feat(b)) => a.same_family(b),
            _ => false,
        }
    }
    fn periods(&self) -> Vec<usize> {
        match self {
            DemoAir::Feat(a) => a.eff_periods(),
            _ => vec![],
        }
    }
}

/// `wrongair:i:k:label` for every sibling of every instance (instances altered together listed once).
pub fn wrongair_ids<V: Field, A: Siblings<V>>(airs: &[A]) -> Vec<String> {
    let mut out = vec![];
    for (i, a) in airs.iter().enumerate() {
        if airs[..i].iter().any(|b| b.same_family(a)) {
            continue;
        }
        for (k, (label, _)) in a.siblings().iter().enumerate() {
            out.push(format!("wrongair:{i}:{k}:{label}"));
        }
    }
    out
}

// ------------------------------------------------------------------------------------------
// recording challenger (native transcript structure) — shared event log

#[derive(Clone, Default)]
pub struct EvLog(pub Arc<Mutex<Vec<(char, usize)>>>);

impl EvLog {
    pub fn push(&self, c: char, n: usize) {
        let mut g = self.0.lock().unwrap();
        if let Some(last) = g.last_mut() {
            if last.0 == c && (c == 'o' || c == 's') {
                last.1 += n;
                return;
            }
        }
        g.push((c, n));
    }
    pub fn render(&self) -> String {
        self.0.lock().unwrap().iter().map(|(c, n)| format!("{c}{n}")).collect::<Vec<_>>().join(",")
    }
    pub fn clear(&self) {
        self.0.lock().unwrap().clear();
    }
}

// ------------------------------------------------------------------------------------------
// model correspondence: shape line, element inventory

#[derive(Clone, Copy, Debug)]
pub struct InstStatic {
    pub width: usize,
    pub n_pub: usize,
    pub pre_w: usize,
    pub has_next: bool,
    pub pre_next: bool,
    pub n_lookups: usize,
}

pub struct ShapeParams {
    pub mode: &'static str, // "uni" | "batch"
    pub zk: bool,
    pub d: usize,
    pub dg: usize,
    pub nrc: usize,
    pub cpow: usize,
    pub qpow: usize,
    pub log_blowup: usize,
    pub log_final: usize,
}

fn alen(v: &Value) -> usize {
    v.as_array().map(|a| a.len()).unwrap_or(0)
}

/// `shape …` case line for `p3r_driver_c01`; every number is read off the real proof / AIRs.
pub fn shape_line(sp: &ShapeParams, proof: &Value, insts: &[InstStatic]) -> String {
    let fri = if sp.zk { &proof["opening_proof"][1] } else { &proof["opening_proof"] };
    let fri_rounds = alen(&fri["commit_phase_commits"]);
    let final_poly = alen(&fri["final_poly"]);
    let queries = alen(&fri["query_proofs"]);
    let log_red: u64 = fri["query_proofs"][0]["commit_phase_openings"]
        .as_array()
        .map(|a| a.iter().map(|o| o["log_arity"].as_u64().unwrap_or(0)).sum())
        .unwrap_or(0);
    let log_max_h = log_red as usize + sp.log_final + sp.log_blowup;
    let mut out = format!(
        "shape {} {} {} {} {} {} {} {} {} {} {} {}",
        sp.mode, sp.zk as u8, sp.d, sp.dg, sp.nrc, fri_rounds, final_poly, queries, sp.cpow, sp.qpow, log_max_h, insts.len()
    );
    for (i, x) in insts.iter().enumerate() {
        let (n_chunks, db) = if sp.mode == "uni" {
            (alen(&proof["opened_values"]["quotient_chunks"]), proof["degree_bits"].as_u64().unwrap_or(0))
        } else {
            (
                alen(&proof["opened_values"]["instances"][i]["base_opened_values"]["quotient_chunks"]),
                proof["degree_bits"][i].as_u64().unwrap_or(0),
            )
        };
        out += &format!(
            " {} {} {} {} {} {} {} {}",
            x.width, x.n_pub, x.pre_w, x.has_next as u8, x.pre_next as u8, n_chunks, x.n_lookups, db
        );
    }
    out
}

/// Element class of a leaf kind (None: shape parameter / query-proof internals / metadata).
pub fn element_class(kind: &str) -> Option<&'static str> {
    let k = kind.strip_prefix("bsp/").unwrap_or(kind);
    if k.starts_with("pis/") {
        Some("pub")
    } else if k.starts_with("vd/") || k.starts_with("stark_common/commitment/") || k.starts_with("proof/commitments/") {
        Some("com")
    } else if k.starts_with("proof/opened_values/") {
        Some("opened")
    } else if k.starts_with("proof/lookup_terminals/") {
        Some("terminal")
    } else if k.starts_with("proof/opening_proof/") {
        let t = k.strip_prefix("proof/opening_proof/").unwrap();
        let t = t.strip_prefix("*/").unwrap_or(t);
        if t.contains("query_proofs/") {
            None
        } else if t.starts_with("commit_phase_commits/") {
            Some("fricom")
        } else if t.starts_with("final_poly/") {
            Some("final")
        } else if t.starts_with("commit_pow_witnesses/") {
            Some("cpow")
        } else if t.starts_with("query_pow_witness") {
            Some("qpow")
        } else {
            // hiding PCS: `opening_proof[0]` = random opened values per round / matrix / point
            Some("frirand")
        }
    } else {
        None
    }
}

/// `elems=…` in the driver's format, counted on the serialised real proof.
pub fn inventory(honest: &Value, cpow: usize, qpow: usize) -> String {
    let mut all = vec![];
    leaves(honest, &mut vec![], &mut all);
    let mut c: BTreeMap<&'static str, usize> = BTreeMap::new();
    for (p, _) in &all {
        if let Some(cl) = element_class(&kind_of(p)) {
            *c.entry(cl).or_default() += 1;
        }
    }
    let g = |k: &str| c.get(k).copied().unwrap_or(0);
    // with 0 grinding bits neither verifier reads the witness: not an element of the model
    let pow = (if cpow > 0 { g("cpow") } else { 0 }) + (if qpow > 0 { g("qpow") } else { 0 });
    format!(
        "com={},pub={},opened={},terminal={},fricom={},final={},pow={},frirand={}",
        g("com"), g("pub"), g("opened"), g("terminal"), g("fricom"), g("final"), pow, g("frirand")
    )
}

pub fn pred_of(c: &Circ) -> &'static str {
    match c {
        Circ::Accept => "accept",
        Circ::BuildErr(_) | Circ::BuildPanic(_) => "build-err",
        Circ::PackErr(_) => "pack-err",
        Circ::RunErr(_) | Circ::RunPanic(_) => "run-reject",
    }
}

mod bb {
    pub use p3_test_utils::baby_bear_params as params;
    pub const TAG: &str = "bb4";
    pub const P: u64 = 2013265921;
    pub type PermCfg = p3_poseidon2_circuit_air::BabyBearD4Width16;
    pub const P2: p3_recursion::Poseidon2Config = p3_recursion::Poseidon2Config::BABY_BEAR_D4_W16;
    pub fn default_perm() -> params::Perm {
        params::default_babybear_poseidon2_16()
    }
    include!("c01_field.rs");
}

mod kb {
    pub use p3_test_utils::koala_bear_params as params;
    pub const TAG: &str = "kb4";
    pub const P: u64 = 2130706433;
    pub type PermCfg = p3_poseidon2_circuit_air::KoalaBearD4Width16;
    pub const P2: p3_recursion::Poseidon2Config = p3_recursion::Poseidon2Config::KOALA_BEAR_D4_W16;
    pub fn default_perm() -> params::Perm {
        params::default_koalabear_poseidon2_16()
    }
    include!("c01_field.rs");
}

// ------------------------------------------------------------------------------------------
// campaign

fn field_p(target: &str) -> u64 {
    if target.contains("/kb4/") { 2130706433 } else { 2013265921 }
}

fn bump(h: &mut BTreeMap<String, u64>, k: &str) {
    *h.entry(k.to_string()).or_default() += 1;
}

struct Judged {
    native: Native,
    /// full `Debug` text of the native error (batch targets put it after the variant tag)
    native_full: String,
    circ: Circ,
    mode: &'static str,
}

/// `… OodEvaluationMismatch { index: Some(2) } …` → 2; `OodEvaluationMismatch` (uni) → 0
fn ood_index(full: &str) -> Option<usize> {
    let k = full.find("OodEvaluationMismatch")?;
    let rest = &full[k..];
    // the uni verifier has one instance and reports `index: None`
    let Some(s) = rest.find("Some(") else { return Some(0) };
    let digits: String = rest[s + 5..].chars().take_while(|c| c.is_ascii_digit()).collect();
    digits.parse().ok()
}

/// Class string of a disagreement: direction + element class (leaf kind without the target
/// name) + how the circuit side ended. Specific enough that a different defect gets a
/// different class.
fn class_of(target: &str, kind: &str, n: &Native, c: &Circ) -> String {
    let fam = target.split('/').next().unwrap_or(target);
    if !n.accepts() && c.accepts() {
        format!("native-rejects-circuit-accepts:{fam}:{kind}")
    } else {
        format!("native-accepts-circuit-rejects:{fam}:{kind}:{}", c.tag())
    }
}

pub fn main(args: &crate::Args) {
    let seed = args.u64("seed", 1);
    let per_kind = args.u64("per-kind", 1) as usize; // 0 = all positions
    let only = args.opt("only");
    let nvals = args.u64("values", 1) as usize;
    // 0: subset per instance, 1: every forgery id, 2: also a seeded random delta per trace cell and more cells
    let forge_all = args.u64("forge-all", 0);
    let out = args.str("out", "/tmp/p3r_c01");
    std::fs::create_dir_all(&out).unwrap();
    let mut cases = std::io::BufWriter::new(std::fs::File::create(format!("{out}/c01.cases")).unwrap());
    let mut imp = std::io::BufWriter::new(std::fs::File::create(format!("{out}/c01.impl")).unwrap());

    let mut hist: BTreeMap<String, u64> = BTreeMap::new();
    let mut violations: Vec<Value> = vec![];
    let mut samples: Vec<Value> = vec![];
    let mut evaluations = 0u64;
    let mut distinct = 0u64;
    let mut skipped_deser = 0u64;
    let mut per_target: Vec<Value> = vec![];
    let mut corpus_reproduced: Vec<String> = vec![];

    // corpus entries: {target, path, new} replayed first
    let mut corpus: Vec<(String, Value)> = vec![];
    if let Some(dir) = args.opt("corpus") {
        if let Ok(rd) = std::fs::read_dir(&dir) {
            let mut files: Vec<_> = rd.filter_map(|e| e.ok()).map(|e| e.path()).filter(|p| p.extension().is_some_and(|x| x == "json")).collect();
            files.sort();
            for f in files {
                if let Ok(txt) = std::fs::read_to_string(&f) {
                    if let Ok(v) = serde_json::from_str::<Value>(&txt) {
                        let v = v.get("replay").cloned().unwrap_or(v);
                        corpus.push((f.file_name().unwrap().to_string_lossy().to_string(), v));
                    }
                }
            }
        }
    }
    let generate = args.u64("generate", 1) == 1;

    let mut makers: Vec<(String, Box<dyn Fn() -> Target>)> = vec![];
    bb::targets(&mut makers);
    kb::targets(&mut makers);

    for (tname, mk) in makers {
        if let Some(o) = &only {
            if !tname.contains(o.as_str()) {
                continue;
            }
        }
        let wanted_by_corpus = corpus.iter().any(|(_, v)| v["target"].as_str() == Some(tname.as_str()));
        if !generate && !wanted_by_corpus {
            continue;
        }
        let t0 = std::time::Instant::now();
        let target = match catch_unwind(AssertUnwindSafe(|| mk())) {
            Ok(t) => t,
            Err(p) => {
                violations.push(json!({"property": "C01", "kind": "setup", "class": format!("setup-panic:{tname}"),
                    "detail": panic_msg(p), "replay": {"target": tname, "honest": true}}));
                continue;
            }
        };
        writeln!(cases, "{}", target.shape).unwrap();

        // honest: native must accept, circuit must be buildable and satisfied
        let hn = (target.native)(&target.honest).unwrap_or(Native::Panic("honest proof does not deserialise".into()));
        let hn = match hn {
            Native::Reject(t) => Native::Reject(t.split('|').next().unwrap_or("").to_string()),
            other => other,
        };
        let built = catch_unwind(AssertUnwindSafe(|| (target.build)(&target.honest)))
            .unwrap_or_else(|p| Err(Circ::BuildPanic(panic_msg(p))));
        let (hc, runner) = match built {
            Ok(run) => {
                let c = catch_unwind(AssertUnwindSafe(|| run(&target.honest))).unwrap_or_else(|p| Circ::RunPanic(panic_msg(p)));
                (c, Some(run))
            }
            Err(c) => (c, None),
        };
        evaluations += 1;
        writeln!(
            imp,
            "res pred={} trans={} elems={}",
            pred_of(&hc),
            target.transcript,
            inventory(&target.honest, target.pow_bits.0, target.pow_bits.1)
        )
        .unwrap();
        bump(&mut hist, &format!("honest:{}:{}/{}", tname, hn.tag(), hc.tag()));
        if hn.accepts() != hc.accepts() {
            violations.push(json!({"property": "C01", "kind": "honest-proof",
                "class": class_of(&tname, &format!("honest/{}", tname.rsplit('/').next().unwrap_or("")), &hn, &hc),
                "detail": {"native": hn.tag(), "circuit": hc.tag(), "circuit_detail": hc.detail()},
                "replay": {"target": tname, "honest": true}}));
        }
        if !hn.accepts() && !hc.accepts() {
            // a target whose honest proof the NATIVE verifier rejects exercises nothing (and is not a statement about
            // the circuit): the target itself is broken (e.g. a constraint degree the FRI blowup cannot carry)
            violations.push(json!({"property": "C01", "kind": "setup", "class": format!("setup-honest-proof-rejected-by-both:{tname}"),
                "detail": {"native": hn.tag(), "circuit": hc.tag(), "circuit_detail": hc.detail()},
                "replay": {"target": tname, "honest": true}}));
        }
        for (fname, v) in corpus.iter().filter(|(_, v)| v["target"].as_str() == Some(tname.as_str())) {
            if v["honest"].as_bool() == Some(true) && hn.accepts() != hc.accepts() {
                corpus_reproduced.push(fname.clone());
            }
        }
        let build_s = t0.elapsed().as_secs_f64();
        let Some(runner) = runner else {
            per_target.push(json!({"target": tname, "native": hn.tag(), "circuit": hc.tag(), "positions": 0, "features": target.features}));
            continue;
        };
        if !hn.accepts() {
            per_target.push(json!({"target": tname, "native": hn.tag(), "circuit": hc.tag(), "positions": 0, "features": target.features}));
            continue;
        }
        // The circuit could be built but rejects the honest proof (reported above). Element alterations and
        // false-statement forgeries say nothing then (the circuit rejects everything), but the wrong-AIR moves do:
        // a circuit that rejects the proofs of its own AIR may well accept those of a sibling — it then checks
        // *another* AIR, which is the soundness side of the same defect. Only those moves are run.
        let honest_broken = !hc.accepts();
        if honest_broken && !target.forge_ids.iter().any(|id| id.starts_with("wrongair:")) {
            per_target.push(json!({"target": tname, "native": hn.tag(), "circuit": hc.tag(), "positions": 0, "features": target.features}));
            continue;
        }

        let mut all = vec![];
        leaves(&target.honest, &mut vec![], &mut all);
        let mut by_kind: BTreeMap<String, Vec<usize>> = BTreeMap::new();
        for (i, (p, _)) in all.iter().enumerate() {
            let k = kind_of(p);
            if (target.include)(&k) {
                by_kind.entry(k).or_default().push(i);
            }
        }
        let mut rng = Rng::new(seed ^ (tname.bytes().fold(0u64, |a, b| a.wrapping_mul(131).wrapping_add(b as u64))));

        // judge one altered JSON; `rebuild` = build the circuit from the altered proof
        let judge = |j: &Value, rebuild: bool| -> Option<Judged> {
            let n = catch_unwind(AssertUnwindSafe(|| (target.native)(j))).unwrap_or_else(|p| Some(Native::Panic(panic_msg(p))))?;
            let c = if rebuild {
                match catch_unwind(AssertUnwindSafe(|| (target.build)(j))).unwrap_or_else(|p| Err(Circ::BuildPanic(panic_msg(p)))) {
                    Ok(run) => catch_unwind(AssertUnwindSafe(|| run(j))).unwrap_or_else(|p| Circ::RunPanic(panic_msg(p))),
                    Err(c) => c,
                }
            } else {
                catch_unwind(AssertUnwindSafe(|| runner(j))).unwrap_or_else(|p| Circ::RunPanic(panic_msg(p)))
            };
            // `Native::Reject` of batch targets is `tag|full debug text`; split it here
            let (n, native_full) = match n {
                Native::Reject(t) => match t.split_once('|') {
                    Some((tag, full)) => (Native::Reject(tag.to_string()), full.to_string()),
                    None => (Native::Reject(t.clone()), t),
                },
                other => (other, String::new()),
            };
            Some(Judged { native: n, native_full, circ: c, mode: if rebuild { "rebuilt" } else { "reused" } })
        };

        let mut positions = 0u64;
        let mut shape_kinds: Vec<String> = vec![];
        let mut record = |kind: &str, path: &[Seg], old: u64, new: u64, jd: &Judged,
                          hist: &mut BTreeMap<String, u64>, violations: &mut Vec<Value>, samples: &mut Vec<Value>| {
            bump(hist, &format!("verdict:{}/{}", jd.native.tag(), jd.circ.tag()));
            bump(hist, &format!("kind:{}:{}", tname.split('/').next().unwrap_or(""), kind));
            if jd.native.accepts() && jd.circ.accepts() {
                bump(hist, &format!("both-accept-altered:{}:{}:{}->{}", tname, kind, old, new));
            }
            if samples.len() < 8 {
                samples.push(json!({"target": tname, "path": kind, "old": old, "new": new,
                    "native": jd.native.tag(), "circuit": jd.circ.tag(), "circuit_mode": jd.mode}));
            }
            if jd.native.accepts() != jd.circ.accepts() {
                violations.push(json!({"property": "C01", "kind": "altered-element",
                    "class": class_of(&tname, kind, &jd.native, &jd.circ),
                    "detail": {"native": jd.native.tag(), "circuit": jd.circ.tag(), "circuit_detail": jd.circ.detail(),
                               "circuit_mode": jd.mode, "old": old, "new": new},
                    "replay": {"target": tname, "path": path_json(path), "new": new}}));
            }
        };

        // corpus first
        for (fname, v) in corpus.iter().filter(|(_, v)| v["target"].as_str() == Some(tname.as_str())) {
            if v["honest"].as_bool() == Some(true) || v.get("forge").is_some() || honest_broken {
                continue;
            }
            let path = path_from_json(&v["path"]);
            let new = v["new"].as_u64().unwrap_or(0);
            let Some(j) = with_leaf(&target.honest, &path, new) else { continue };
            let old = all.iter().find(|(p, _)| *p == path).map(|x| x.1).unwrap_or(0);
            let a = judge(&j, false);
            let b = judge(&j, true);
            if let (Some(a), Some(b)) = (a, b) {
                let jd = if a.circ.accepts() != b.circ.accepts() { b } else { a };
                evaluations += 1;
                positions += 1;
                if jd.native.accepts() != jd.circ.accepts() {
                    corpus_reproduced.push(fname.clone());
                }
                record(&kind_of(&path), &path, old, new, &jd, &mut hist, &mut violations, &mut samples);
            }
        }

        if generate && !honest_broken {
            for (kind, idxs) in by_kind.iter() {
                let chosen: Vec<usize> = if per_kind == 0 || idxs.len() <= per_kind {
                    idxs.clone()
                } else {
                    let mut pool = idxs.clone();
                    let mut c = vec![];
                    for _ in 0..per_kind {
                        let k = rng.usize(pool.len());
                        c.push(pool.swap_remove(k));
                    }
                    c.sort();
                    c
                };
                let mut is_shape: Option<bool> = None;
                for &li in &chosen {
                    let (path, old) = &all[li];
                    // candidate new values: +1, -1, then (value kinds only) a seeded random field
                    // element and 0; the first `nvals` that still deserialise are judged
                    let mut cands = vec![old.wrapping_add(1), old.wrapping_sub(1)];
                    // (random / zero values only once the kind is known not to be a shape parameter:
                    // a random 31-bit `degree_bits` or `log_arity` makes the builders allocate 2^k)
                    if is_shape == Some(false) && nvals > 1 {
                        cands.push(rng.below(field_p(&tname)));
                        cands.push(0);
                    } else {
                        cands.push(old.wrapping_add(2));
                    }
                    let mut done = false;
                    let mut judged = 0usize;
                    let mut seen: Vec<u64> = vec![];
                    for new in cands {
                        if judged >= nvals {
                            break;
                        }
                        if new == *old || (*old == 0 && new == u64::MAX) || seen.contains(&new) {
                            continue;
                        }
                        seen.push(new);
                        let Some(j) = with_leaf(&target.honest, path, new) else { continue };
                        let jd = match is_shape {
                            None => {
                                let Some(a) = judge(&j, false) else { continue };
                                let Some(b) = judge(&j, true) else { continue };
                                let shape = a.circ.accepts() != b.circ.accepts();
                                is_shape = Some(shape);
                                if shape {
                                    shape_kinds.push(kind.clone());
                                    b
                                } else {
                                    a
                                }
                            }
                            Some(sh) => {
                                let Some(a) = judge(&j, sh) else { continue };
                                a
                            }
                        };
                        evaluations += 1;
                        if judged == 0 {
                            positions += 1;
                            distinct += 1;
                        }
                        judged += 1;
                        record(kind, path, *old, new, &jd, &mut hist, &mut violations, &mut samples);
                        done = true;
                    }
                    if !done {
                        skipped_deser += 1;
                        bump(&mut hist, "skipped:altered-value-does-not-deserialise");
                    }
                }
            }
        }
        // prover-side forgeries: proofs made by the adversarial prover for false statements. Every
        // value in them is consistent with the transcript and the Merkle caps, so exactly the
        // algebraic check that the lie violates decides (OOD identity / terminal sum).
        let mut forged = 0u64;
        let mut forge_refused = 0u64;
        let mut wrong_air_judged = 0u64;
        if let Some(forge) = &target.forge {
            let fam = tname.split('/').next().unwrap_or("");
            if let Some(d) = &target.drift {
                violations.push(json!({"property": "C01", "kind": "campaign", "class": format!("forge-prover-drift:{fam}"),
                    "detail": {"native": "", "circuit": "", "circuit_detail": d}, "replay": {"target": tname, "forge": "none"}}));
            }
            let mut ids: Vec<(String, Option<String>)> = corpus
                .iter()
                .filter(|(_, v)| v["target"].as_str() == Some(tname.as_str()))
                .filter_map(|(f, v)| v["forge"].as_str().map(|id| (id.to_string(), Some(f.clone()))))
                .collect();
            if generate && target.drift.is_none() {
                let mut sel = if forge_all >= 1 { target.forge_ids.clone() } else { forge_quick_subset(&target.forge_ids, &mut rng) };
                if forge_all >= 2 {
                    let p = field_p(&tname);
                    let mut extra = vec![];
                    for id in &sel {
                        match ForgeSpec::parse(id) {
                            Some(ForgeSpec::Trace(i, c, _)) => extra.push(format!("trace:{i}:{c}:{}", 2 + rng.below(p - 2))),
                            Some(ForgeSpec::Perm(i, 0)) => extra.extend((0..8).map(|_| format!("perm:{i}:{}", rng.below(1 << 20)))),
                            Some(ForgeSpec::Quot(i, 0)) => extra.extend((0..8).map(|_| format!("quot:{i}:{}", rng.below(1 << 20)))),
                            _ => {}
                        }
                    }
                    // every pair of prover-side grinding bit counts up to one more than demanded
                    if sel.iter().any(|id| id.starts_with("grind:")) {
                        let (c, q) = target.pow_bits;
                        for pc in 0..=c + 1 {
                            for pq in 0..=q + 1 {
                                let id = format!("grind:{pc}:{pq}");
                                if (pc, pq) != (c, q) && !sel.contains(&id) && !extra.contains(&id) {
                                    extra.push(id);
                                }
                            }
                        }
                    }
                    sel.extend(extra);
                }
                if args.u64("grind-only", 0) == 1 {
                    // C07's use of this campaign: only the proof-of-work forgeries (every pair of prover-side bit counts)
                    let (c, q) = target.pow_bits;
                    sel.retain(|id| id.starts_with("grind:"));
                    if !sel.is_empty() {
                        for pc in 0..=c + 1 {
                            for pq in 0..=q + 1 {
                                let id = format!("grind:{pc}:{pq}");
                                if (pc, pq) != (c, q) && !sel.contains(&id) {
                                    sel.push(id);
                                }
                            }
                        }
                    }
                }
                ids.extend(sel.into_iter().map(|id| (id, None)));
            }
            if honest_broken {
                ids.retain(|(id, _)| id.starts_with("wrongair:"));
            }
            // checks seen decisive (native rejection names the check, both circuit modes reject)
            let mut decisive_ood: std::collections::BTreeSet<usize> = Default::default();
            let mut decisive_tsum = false;
            // proof-of-work phases seen decisive: an under-ground proof of that phase alone is rejected natively
            // with `InvalidPowWitness` and by both circuits (the honest proof being accepted by all)
            // (available: some such proof exists, i.e. the native rejection is the PoW check and nothing else;
            // decisive: every one of them is rejected by both circuits)
            let mut avail_pow = [false, false];
            let mut decisive_pow = [true, true];
            let has_grind = target.forge_ids.iter().any(|id| id.starts_with("grind:"));
            let full_campaign = generate && target.drift.is_none() && !honest_broken;
            for (id, from_corpus) in ids {
                let mut kind = id.split(':').next().unwrap_or("").to_string();
                let is_wrong_air = kind == "wrongair";
                if is_wrong_air {
                    // `wrongair:i:k:label` → `wrongair-label` (which part of the AIR the sibling differs in)
                    kind = format!("wrongair-{}", id.split(':').nth(3).unwrap_or("sibling"));
                }
                let j = match catch_unwind(AssertUnwindSafe(|| forge(&id))).unwrap_or_else(|p| Err(panic_msg(p))) {
                    Ok(j) => j,
                    Err(e) => {
                        forge_refused += 1;
                        bump(&mut hist, &format!("forge-prover-refused:{fam}:{kind}"));
                        if from_corpus.is_some() && is_wrong_air {
                            // a pinned wrong-AIR case that can no longer be produced must not vanish silently
                            violations.push(json!({"property": "C01", "kind": "campaign", "class": format!("pinned-forgery-not-producible:{fam}:{kind}"),
                                "detail": {"native": "", "circuit": "", "circuit_detail": e}, "replay": {"target": tname, "forge": id}}));
                        }
                        continue;
                    }
                };
                let (Some(a), Some(b)) = (judge(&j, true), judge(&j, false)) else { continue };
                evaluations += 1;
                distinct += 1;
                forged += 1;
                bump(&mut hist, &format!("forge:{fam}:{kind}:{}/{}", a.native.tag(), a.circ.tag()));
                bump(&mut hist, &format!("forge-native:{}", a.native.tag()));
                if is_wrong_air {
                    // the wrong-AIR campaign per PCS flavour: which sibling kinds were judged, and how
                    let verdict = match (a.native.accepts(), a.circ.accepts() && b.circ.accepts()) {
                        (false, false) => "both-reject",
                        (true, true) => "both-accept",
                        _ => "DISAGREE",
                    };
                    bump(&mut hist, &format!("wrong-air:{fam}:{}:{verdict}", kind.trim_start_matches("wrongair-")));
                    wrong_air_judged += 1;
                }
                if samples.len() < 12 && forged <= 2 {
                    samples.push(json!({"target": tname, "forge": id, "native": a.native.tag(), "circuit": a.circ.tag(),
                        "circuit_mode": a.mode}));
                }
                if let Some(ForgeSpec::Grind(pc, pq)) = ForgeSpec::parse(&id) {
                    let phase = grind_phase((pc, pq), target.pow_bits);
                    bump(&mut hist, &format!("forge-pow:{fam}:{phase}:{}/{}", a.native.tag(), a.circ.tag()));
                    let pow_reject = matches!(&a.native, Native::Reject(_)) && a.native_full.contains("InvalidPowWitness");
                    if pow_reject {
                        bump(&mut hist, &format!("forge-pow-native-reject:{fam}:{phase}"));
                    }
                    if let Some(k) = ["commit", "query"].iter().position(|p| *p == phase) {
                        if pow_reject {
                            avail_pow[k] = true;
                            decisive_pow[k] &= !a.circ.accepts() && !b.circ.accepts();
                        }
                    }
                }
                if !a.circ.accepts() && !b.circ.accepts() {
                    if let Native::Reject(r) = &a.native {
                        if r.contains("TerminalSumNonZero") {
                            decisive_tsum = true;
                        }
                        if let Some(i) = ood_index(&a.native_full) {
                            decisive_ood.insert(i);
                        }
                    }
                }
                let mut hit = false;
                for jd in [a, b] {
                    if jd.native.accepts() != jd.circ.accepts() && !hit {
                        hit = true;
                        let class = if jd.circ.accepts() {
                            // (the batch verifier nests the FRI error one level deeper than the tag shows)
                            let mut err = jd.native.tag().trim_start_matches("reject:").to_string();
                            if jd.native_full.contains("InvalidPowWitness") && !err.contains("InvalidPowWitness") {
                                err += "/InvalidPowWitness";
                            }
                            format!("native-rejects-circuit-accepts:{fam}:forged-{kind}:{err}")
                        } else {
                            format!("native-accepts-circuit-rejects:{fam}:forged-{kind}:{}", jd.circ.tag())
                        };
                        violations.push(json!({"property": "C01", "kind": "forged-proof", "class": class,
                            "detail": {"native": jd.native.tag(), "circuit": jd.circ.tag(), "circuit_detail": jd.circ.detail(),
                                       "circuit_mode": jd.mode},
                            "replay": {"target": tname, "forge": id}}));
                    }
                }
                if hit {
                    if let Some(f) = from_corpus {
                        corpus_reproduced.push(f);
                    }
                }
            }
            // model correspondence of the check list (driver command `checks`)
            if full_campaign {
                writeln!(cases, "{}", target.shape.replacen("shape", "checks", 1)).unwrap();
                let n_terminals = target.honest["proof"]["lookup_terminals"]
                    .as_array()
                    .map(|a| a.iter().filter(|t| !t.is_null()).count())
                    .unwrap_or(0);
                let ood = if decisive_ood.is_empty() {
                    "-".to_string()
                } else {
                    decisive_ood.iter().map(|i| i.to_string()).collect::<Vec<_>>().join(",")
                };
                writeln!(imp, "chk ood={} tsum={}", ood, if decisive_tsum { n_terminals } else { 0 }).unwrap();
                // model correspondence of the proof-of-work events (driver command `pows`): bit count × number of
                // witnesses per phase, as far as the under-ground proofs showed them decisive
                if has_grind {
                    // `pows <commit measurable> <query measurable> …shape…`: measurable = the native verifier rejected an
                    // under-ground proof of that phase alone with `InvalidPowWitness` (a fact about the inputs)
                    writeln!(cases, "{}", target.shape.replacen("shape", &format!("pows {} {}", avail_pow[0] as u8, avail_pow[1] as u8), 1)).unwrap();
                    let fri_rounds: usize = target.shape.split(' ').nth(6).and_then(|x| x.parse().ok()).unwrap_or(0);
                    let (c, q) = target.pow_bits;
                    let show = |k: usize, bits: usize, count: usize| -> String {
                        if !avail_pow[k] {
                            "-".to_string()
                        } else if decisive_pow[k] && count > 0 {
                            format!("{bits}x{count}")
                        } else {
                            "0x0".to_string()
                        }
                    };
                    writeln!(imp, "pw commit={} query={}", show(0, c, fri_rounds), show(1, q, 1)).unwrap();
                }
            }
        }
        per_target.push(json!({"target": tname, "native": hn.tag(), "circuit": hc.tag(), "leaves": all.len(),
            "forged_proofs": forged, "forgeries_refused_by_prover": forge_refused,
            "features": target.features, "wrong_air_proofs": wrong_air_judged,
            "kinds": by_kind.len(), "positions": positions, "shape_kinds": shape_kinds,
            "setup_s": (build_s * 100.0).round() / 100.0, "total_s": (t0.elapsed().as_secs_f64() * 100.0).round() / 100.0}));
    }

    // at most 3 violations per class go to the report
    let mut per_class: BTreeMap<String, usize> = BTreeMap::new();
    let mut class_counts: BTreeMap<String, u64> = BTreeMap::new();
    let mut kept = vec![];
    for v in violations {
        let c = v["class"].as_str().unwrap_or("").to_string();
        *class_counts.entry(c.clone()).or_default() += 1;
        let n = per_class.entry(c).or_default();
        *n += 1;
        if *n <= 3 {
            kept.push(v);
        }
    }
    let report = json!({
        "evaluations": evaluations, "distinct": distinct, "hist": hist, "samples": samples,
        "violations": kept, "violation_class_counts": class_counts, "skipped_deser": skipped_deser,
        "targets": per_target, "corpus_witnesses_reproduced": corpus_reproduced,
    });
    std::fs::write(format!("{out}/c01.report.json"), serde_json::to_string_pretty(&report).unwrap()).unwrap();
    cases.flush().unwrap();
    imp.flush().unwrap();
}
