/-
C09 — where the def-before-use certificate comes from: the compiler side.

`P3R.C09T.compiled_bus_balanced_of_defuse` needs the static certificate `Circuit.defUse` of the
compiled op list. This file derives it from the builder state:

* `sduFrom` — a stronger, hint-free certificate ("the `b` slot, or the `out` slot, of every ALU row
  is the `out` / `b` of an earlier row or a private input"); `sdu_defUse : sduFrom ⇒ defUseFrom`
  for every hint set;
* `lower_sdu`, `lower_defuse` — TOTAL for the lowering: for every builder state with `BState.Ok`,
  `privOk` and `hintsGuarded` (Model/DefUse.lean; all decidable), whenever `lower b = .ok l` the
  lowered op list carries the certificate. The proof threads an order-aware invariant through the
  four passes of `lower` next to `C02T.PassInv` (`fold_inv`, `emit_shape`, `guard_slot`);
* `dedup_preserves_sdu`, `fuse_*`, `compile_defuse`, `compiled_bus_balanced` — see the sections below.
-/
import P3R.Props.C09Total
import P3R.Props.C02BuilderOk

namespace P3R.C09C
open P3R P3R.C02T

variable {K : Type}

/-! ### The strong certificate -/

/-- Slots a row certainly creates whatever the hint set: `out` (Const / Public / ALU) and the ALU
`b` operand (created by the `b` request, or already defined). -/
def outB : Op K → List Nat
  | .const out _ => [out]
  | .pub out _ => [out]
  | .alu _ _ b _ out _ => [out, b]
  | _ => []

def rowS (P T : List Nat) : Op K → Bool
  | .alu _ _ b _ out _ => T.contains b || P.contains b || T.contains out || P.contains out
  | _ => true

def sduFrom (P : List Nat) : List Nat → List (Op K) → Bool
  | _, [] => true
  | T, op :: ops => rowS P T op && sduFrom P (outB op ++ T) ops

def accT (T : List Nat) (l : List (Op K)) : List Nat := l.foldl (fun T op => outB op ++ T) T

theorem mem_accT (l : List (Op K)) (T : List Nat) (x : Nat) :
    x ∈ accT T l ↔ x ∈ T ∨ ∃ op ∈ l, x ∈ outB op := by
  induction l generalizing T with
  | nil => simp [accT]
  | cons op l ih =>
    simp only [accT, List.foldl_cons] at ih ⊢
    rw [ih]
    simp only [List.mem_append, List.mem_cons, exists_eq_or_imp]
    tauto

theorem sduFrom_append (P : List Nat) (l1 l2 : List (Op K)) (T : List Nat) :
    sduFrom P T (l1 ++ l2) = (sduFrom P T l1 && sduFrom P (accT T l1) l2) := by
  induction l1 generalizing T with
  | nil => simp [sduFrom, accT]
  | cons op l1 ih =>
    simp only [List.cons_append, sduFrom, ih, accT, List.foldl_cons, Bool.and_assoc]

theorem rowS_mono (P T T2 : List Nat) (op : Op K) (hT : ∀ x ∈ T, x ∈ T2)
    (h : rowS P T op = true) : rowS P T2 op = true := by
  cases op with
  | alu k a b c out io =>
    simp only [rowS, Bool.or_eq_true, List.contains_iff_mem] at h ⊢
    rcases h with ((h | h) | h) | h
    · exact Or.inl (Or.inl (Or.inl (hT _ h)))
    · exact Or.inl (Or.inl (Or.inr h))
    · exact Or.inl (Or.inr (hT _ h))
    · exact Or.inr h
  | _ => rfl

theorem sduFrom_mono (P : List Nat) (l : List (Op K)) (T T2 : List Nat) (hT : ∀ x ∈ T, x ∈ T2)
    (h : sduFrom P T l = true) : sduFrom P T2 l = true := by
  induction l generalizing T T2 with
  | nil => rfl
  | cons op l ih =>
    simp only [sduFrom, Bool.and_eq_true] at h ⊢
    refine ⟨rowS_mono P T T2 op hT h.1, ih _ _ ?_ h.2⟩
    intro x hx
    rcases List.mem_append.mp hx with hx | hx
    · exact List.mem_append.mpr (Or.inl hx)
    · exact List.mem_append.mpr (Or.inr (hT x hx))

/-- The strong certificate implies the scan-level one, for every hint set. -/
theorem sdu_defUse (P H : List Nat) (l : List (Op K)) (T T2 : List Nat) (hT : ∀ x ∈ T, x ∈ T2)
    (h : sduFrom P T l = true) : defUseFrom P H T2 l = true := by
  induction l generalizing T T2 with
  | nil => rfl
  | cons op l ih =>
    simp only [sduFrom, Bool.and_eq_true] at h
    simp only [defUseFrom, Bool.and_eq_true]
    refine ⟨?_, ih _ _ ?_ h.2⟩
    · cases op with
      | alu k a b c out io =>
        have h1 := h.1
        simp only [rowS, Bool.or_eq_true, List.contains_iff_mem] at h1
        simp only [rowOk, Bool.or_eq_true, List.contains_iff_mem]
        rcases h1 with ((h1 | h1) | h1) | h1
        · exact Or.inl (Or.inl (Or.inl (Or.inl (Or.inl (Or.inl (Or.inl (hT _ h1)))))))
        · exact Or.inl (Or.inl (Or.inl (Or.inl (Or.inl (Or.inl (Or.inr h1))))))
        · exact Or.inl (Or.inl (Or.inr (hT _ h1)))
        · exact Or.inr h1
      | _ => rfl
    · intro x hx
      cases op with
      | const out v =>
        simp only [outB, List.cons_append, List.nil_append, List.mem_cons] at hx
        simp only [touch, List.mem_cons]
        exact hx.imp id (hT x)
      | pub out v =>
        simp only [outB, List.cons_append, List.nil_append, List.mem_cons] at hx
        simp only [touch, List.mem_cons]
        exact hx.imp id (hT x)
      | alu k a b c out io =>
        simp only [outB, List.cons_append, List.nil_append, List.mem_cons] at hx
        simp only [touch, List.mem_cons, List.mem_append]
        rcases hx with hx | hx | hx
        · exact Or.inl hx
        · exact Or.inr (Or.inl hx)
        · exact Or.inr (Or.inr (Or.inr (hT x hx)))
      | hint ins outs k => simpa [outB, touch] using hT x (by simpa [outB] using hx)
      | npo ins outs id k => simpa [outB, touch] using hT x (by simpa [outB] using hx)

def isAluOp : Op K → Bool
  | .alu _ _ _ _ _ _ => true
  | _ => false

theorem sdu_of_noAlu (P T : List Nat) (l : List (Op K)) (h : ∀ op ∈ l, isAluOp op = false) :
    sduFrom P T l = true := by
  induction l generalizing T with
  | nil => rfl
  | cons op l ih =>
    simp only [sduFrom, Bool.and_eq_true]
    refine ⟨?_, ih _ (fun o ho => h o (List.mem_cons_of_mem _ ho))⟩
    have := h op List.mem_cons_self
    cases op <;> simp_all [rowS, isAluOp]

/-! ### Lowering: the certificate holds for every guarded builder state -/

section lowering
variable [Neg K]

/-- Fold over the node list with an invariant that may use the fold prefix itself. -/
theorem fold_inv (nodes : Array (Expr K)) (f : LState K → Nat → Expr K → Except LowerErr (LState K))
    (s0 : LState K) (I : Nat → LState K → Prop) (h0 : I 0 s0)
    (hstep : ∀ k s s', (hk : k < nodes.size) →
      (List.range k).foldlM (fun st i => match nodes[i]? with
        | some e => f st i e
        | none => .ok st) s0 = .ok s →
      I k s → f s k nodes[k] = .ok s' → I (k + 1) s') :
    ∀ k, k ≤ nodes.size → ∀ s', (List.range k).foldlM (fun st i => match nodes[i]? with
        | some e => f st i e
        | none => .ok st) s0 = .ok s' → I k s' := by
  intro k
  induction k with
  | zero =>
    intro _ s' h
    simp only [List.range_zero, List.foldlM_nil, pure, Except.pure] at h
    cases h
    exact h0
  | succ k ih =>
    intro hk s' h
    rw [List.range_succ, List.foldlM_append] at h
    simp only [bind, Except.bind] at h
    split at h
    · cases h
    · rename_i s1 h1
      have I1 := ih (by omega) s1 h1
      have hk' : k < nodes.size := by omega
      simp only [List.foldlM_cons, List.foldlM_nil, bind, Except.bind, pure, Except.pure] at h
      have hke : nodes[k]? = some nodes[k] := Array.getElem?_eq_getElem hk'
      rw [hke] at h
      simp only at h
      have hres : f s1 k nodes[k] = .ok s' := by
        split at h
        · cases h
        · rename_i s2 h2
          cases h
          exact h2
      exact hstep k s1 s' hk' h1 I1 hres

omit [Neg K] in
theorem alloc_fields (s : LState K) (e : Nat) :
    (s.allocWitness e).1.e2w = s.e2w ∧ (s.allocWitness e).1.ops = s.ops ∧
    (s.allocWitness e).1.privRows = s.privRows := by
  unfold LState.allocWitness
  split
  · dsimp only
    split <;> exact ⟨rfl, rfl, rfl⟩
  · exact ⟨rfl, rfl, rfl⟩

omit [Neg K] in
theorem alloc_fields' {s s1 : LState K} {e w : Nat} (h : s.allocWitness e = (s1, w)) :
    s1.e2w = s.e2w ∧ s1.ops = s.ops ∧ s1.privRows = s.privRows := by
  have := alloc_fields s e
  rw [h] at this
  exact this

/-- Private-input bookkeeping of the lowering state. -/
structure Q (b : BState K) (s : LState K) : Prop where
  sz : s.privRows.size = b.privCount
  pr : ∀ x pos w, b.nodes[x]? = some (.priv pos) → s.e2w.getD x none = some w →
    s.privRows[pos]? = some w

omit [Neg K] in
theorem privOk_spec {b : BState K} (h : privOk b = true) {i pos : Nat}
    (hi : b.nodes[i]? = some (.priv pos)) :
    pos < b.privCount ∧ ∀ j, b.nodes[j]? = some (.priv pos) → j = i := by
  have lt : ∀ {j : Nat} {e : Expr K}, b.nodes[j]? = some e → j < b.nodes.size := by
    intro j e hj
    by_contra hge
    rw [Array.getElem?_eq_none (by omega)] at hj
    cases hj
  unfold privOk at h
  rw [List.all_eq_true] at h
  have h1 := h i (List.mem_range.mpr (lt hi))
  rw [hi] at h1
  simp only [Bool.and_eq_true, decide_eq_true_eq, List.all_eq_true, List.mem_range] at h1
  refine ⟨h1.1, fun j hj => ?_⟩
  have h2 := h1.2 j (lt hj)
  rw [hj] at h2
  simpa using h2

omit [Neg K] in
theorem fConst_Q {b : BState K} {s s' : LState K} {i : Nat} {e : Expr K}
    (hi : b.nodes[i]? = some e) (hQ : Q b s) (hA : ∀ op ∈ s.ops.toList, isAluOp op = false)
    (h : fConst s i e = .ok s') : Q b s' ∧ ∀ op ∈ s'.ops.toList, isAluOp op = false := by
  cases e with
  | const v =>
    simp only [fConst] at h
    cases hal : s.allocWitness i with
    | mk s1 w =>
      rw [hal] at h
      simp only [Except.ok.injEq] at h
      subst h
      obtain ⟨he, ho, hp⟩ := alloc_fields' hal
      refine ⟨⟨by simp [LState.setW, LState.pushOp, hp, hQ.sz], ?_⟩, ?_⟩
      · intro x pos w' hx hw
        simp only [LState.setW, LState.pushOp] at hw ⊢
        rw [getD_setIfInBounds, he] at hw
        by_cases hix : i = x
        · subst hix; rw [hi] at hx; cases hx
        · rw [if_neg (fun hh => hix hh.1)] at hw
          rw [hp]; exact hQ.pr x pos w' hx hw
      · intro op hop
        simp only [LState.setW, LState.pushOp, Array.toList_push, List.mem_append,
          List.mem_singleton, ho] at hop
        rcases hop with hop | rfl
        · exact hA op hop
        · rfl
  | _ =>
    simp only [fConst, Except.ok.injEq] at h
    subst h
    exact ⟨hQ, hA⟩

omit [Neg K] in
theorem fPub_Q {b : BState K} {s s' : LState K} {i : Nat} {e : Expr K}
    (hi : b.nodes[i]? = some e) (hQ : Q b s) (hA : ∀ op ∈ s.ops.toList, isAluOp op = false)
    (h : fPub s i e = .ok s') : Q b s' ∧ ∀ op ∈ s'.ops.toList, isAluOp op = false := by
  cases e with
  | pub pos0 =>
    simp only [fPub] at h
    cases hal : s.allocWitness i with
    | mk s1 w =>
      rw [hal] at h
      simp only [Except.ok.injEq] at h
      subst h
      obtain ⟨he, ho, hp⟩ := alloc_fields' hal
      refine ⟨⟨by simp [LState.setW, LState.pushOp, hp, hQ.sz], ?_⟩, ?_⟩
      · intro x pos w' hx hw
        simp only [LState.setW, LState.pushOp] at hw ⊢
        rw [getD_setIfInBounds, he] at hw
        by_cases hix : i = x
        · subst hix; rw [hi] at hx; cases hx
        · rw [if_neg (fun hh => hix hh.1)] at hw
          rw [hp]; exact hQ.pr x pos w' hx hw
      · intro op hop
        simp only [LState.setW, LState.pushOp, Array.toList_push, List.mem_append,
          List.mem_singleton, ho] at hop
        rcases hop with hop | rfl
        · exact hA op hop
        · rfl
  | _ =>
    simp only [fPub, Except.ok.injEq] at h
    subst h
    exact ⟨hQ, hA⟩

omit [Neg K] in
theorem fPriv_Q {b : BState K} (hpo : privOk b = true) {s s' : LState K} {i : Nat} {e : Expr K}
    (hi : b.nodes[i]? = some e) (hsz : i < s.e2w.size) (hQ : Q b s)
    (hA : ∀ op ∈ s.ops.toList, isAluOp op = false)
    (h : fPriv s i e = .ok s') : Q b s' ∧ ∀ op ∈ s'.ops.toList, isAluOp op = false := by
  cases e with
  | priv pos0 =>
    simp only [fPriv] at h
    cases hal : s.allocWitness i with
    | mk s1 w =>
      rw [hal] at h
      simp only [Except.ok.injEq] at h
      subst h
      obtain ⟨he, ho, hp⟩ := alloc_fields' hal
      obtain ⟨hlt, huniq⟩ := privOk_spec hpo hi
      refine ⟨⟨by simp [LState.setW, hp, hQ.sz], ?_⟩, ?_⟩
      · intro x pos w' hx hw
        simp only [LState.setW] at hw ⊢
        rw [getD_setIfInBounds, he] at hw
        rw [hp]
        by_cases hix : i = x
        · subst hix
          rw [hi] at hx
          cases hx
          rw [if_pos ⟨rfl, hsz⟩] at hw
          cases hw
          have : pos0 < s.privRows.size := by rw [hQ.sz]; exact hlt
          simp [Array.getElem?_setIfInBounds, this]
        · rw [if_neg (fun hh => hix hh.1)] at hw
          have hne : pos0 ≠ pos := by
            intro hpp
            subst hpp
            exact hix (huniq x hx).symm
          have := hQ.pr x pos w' hx hw
          simp [Array.getElem?_setIfInBounds, hne, this]
      · intro op hop
        simp only [LState.setW, ho] at hop
        exact hA op hop
  | _ =>
    simp only [fPriv, Except.ok.injEq] at h
    subst h
    exact ⟨hQ, hA⟩

/-! #### One step of `emit_operations`, order-aware -/

omit [Neg K] in
theorem sdu_single (P T : List Nat) (k : AluKind) (a b : Nat) (c : Option Nat) (out : Nat)
    (io : Option Nat) (h : (b ∈ T ∨ b ∈ P) ∨ (out ∈ T ∨ out ∈ P)) :
    sduFrom P T [(.alu k a b c out io : Op K)] = true := by
  simp only [sduFrom, rowS, Bool.and_true, Bool.or_eq_true, List.contains_iff_mem]
  tauto

omit [Neg K] in
theorem sdu_fast (P T : List Nat) (nw : Nat) (v : K) (k : AluKind) (a : Nat) (c : Option Nat)
    (out : Nat) (io : Option Nat) :
    sduFrom P T [(.const nw v : Op K), .alu k a nw c out io] = true := by
  simp [sduFrom, rowS, outB]

omit [Neg K] in
theorem emit_finish {nodes : Array (Expr K)} (P : List Nat) {s s1 : LState K} {i self : Nat}
    (he : s1.e2w = s.e2w) (ho : s1.ops = s.ops) (hp : s1.privRows = s.privRows)
    (added : List (Op K)) (hs : sduFrom P (accT [] s.ops.toList) added = true) (s' : LState K)
    (hp' : s'.privRows = s1.privRows) (ho' : s'.ops.toList = s1.ops.toList ++ added)
    (he' : s'.e2w = s1.e2w.setIfInBounds i (some self)) :
    s'.privRows = s.privRows ∧
    (∃ added, s'.ops.toList = s.ops.toList ++ added ∧
      sduFrom P (accT [] s.ops.toList) added = true) ∧
    (∀ x w, s'.e2w.getD x none = some w → s.e2w.getD x none = some w ∨ x = i ∨
      ∃ e', nodes[x]? = some e' ∧ isOut e' = true) := by
  refine ⟨hp'.trans hp, ⟨added, by rw [ho', ho], hs⟩, fun x w hw => ?_⟩
  rw [he', getD_setIfInBounds, he] at hw
  by_cases hix : i = x
  · exact Or.inr (Or.inl hix.symm)
  · rw [if_neg (fun hh => hix hh.1)] at hw
    exact Or.inl hw

omit [Neg K] in
theorem prealloc_fields (outs : List (Nat × Nat)) (s : LState K) :
    (outs.foldl (fun (st : LState K) (o : Nat × Nat) =>
        match st.e2w.getD o.2 none with
        | some _ => st
        | none => let (st', w) := st.allocWitness o.2; st'.setW o.2 w) s).ops = s.ops ∧
    (outs.foldl (fun (st : LState K) (o : Nat × Nat) =>
        match st.e2w.getD o.2 none with
        | some _ => st
        | none => let (st', w) := st.allocWitness o.2; st'.setW o.2 w) s).privRows = s.privRows := by
  induction outs generalizing s with
  | nil => exact ⟨rfl, rfl⟩
  | cons o rest ih =>
    simp only [List.foldl_cons]
    cases hv : s.e2w.getD o.2 none with
    | some w0 => simp only []; exact ih s
    | none =>
      simp only []
      cases hal : s.allocWitness o.2 with
      | mk s1 w =>
        simp only []
        obtain ⟨_, ho, hp⟩ := alloc_fields' hal
        obtain ⟨h1, h2⟩ := ih (s1.setW o.2 w)
        exact ⟨h1.trans ho, h2.trans hp⟩

theorem emitNpCall_fields (nodes : Array (Expr K)) (npOps : Array NpData) (opId : Nat)
    {s s' : LState K} (h : s.emitNpCall nodes npOps opId = .ok s') :
    s'.privRows = s.privRows ∧
    ∃ added, s'.ops.toList = s.ops.toList ++ added ∧ ∀ op ∈ added, isAluOp op = false := by
  unfold LState.emitNpCall at h
  split at h
  · cases h; exact ⟨rfl, [], by simp, by simp⟩
  · split at h
    · cases h
    · rename_i data _
      simp only at h
      split at h
      · cases h
      · rename_i outs houts
        obtain ⟨hbo, hbp⟩ := prealloc_fields outs { s with emitted := s.emitted.setIfInBounds opId true }
        generalize (outs.foldl (fun (st : LState K) (o : Nat × Nat) =>
          match st.e2w.getD o.2 none with
          | some _ => st
          | none => let (st', w) := st.allocWitness o.2; st'.setW o.2 w)
          { s with emitted := s.emitted.setIfInBounds opId true }) = sb at h hbo hbp
        have hpush : ∀ op : Op K, isAluOp op = false →
            (sb.pushOp op).privRows = s.privRows ∧
            ∃ added, (sb.pushOp op).ops.toList = s.ops.toList ++ added ∧
              ∀ o ∈ added, isAluOp o = false := by
          intro op hop
          refine ⟨hbp, [op], ?_, ?_⟩
          · simp [LState.pushOp, hbo]
          · intro o ho; simp at ho; subst ho; exact hop
        split at h
        · split at h
          · cases h
          · cases h
            exact hpush _ rfl
        · split at h
          · split at h
            · cases h
            · cases h
              exact hpush _ rfl
          · cases h

theorem emit_shape {nodes : Array (Expr K)} {R : Array Nat} {C : Array Bool}
    (hRC : RCok (nodes.size + 1) R C) (npOps : Array NpData) {s s' : LState K} {i : Nat}
    {e : Expr K} (hG : Good (nodes.size + 1) R C s) (P : List Nat)
    (hres : ∀ l wl, e.bPos nodes = some l → s.e2w.getD l none = some wl →
      wl ∈ accT [] s.ops.toList ∨ wl ∈ P)
    (h : s.emitNode nodes npOps i e = .ok s') :
    s'.privRows = s.privRows ∧
    (∃ added, s'.ops.toList = s.ops.toList ++ added ∧
      sduFrom P (accT [] s.ops.toList) added = true) ∧
    (∀ x w, s'.e2w.getD x none = some w → s.e2w.getD x none = some w ∨ x = i ∨
      ∃ e', nodes[x]? = some e' ∧ isOut e' = true) := by
  have same : ∀ {st : LState K}, st = s →
      st.privRows = s.privRows ∧
      (∃ added, st.ops.toList = s.ops.toList ++ added ∧
        sduFrom P (accT [] s.ops.toList) added = true) ∧
      (∀ x w, st.e2w.getD x none = some w → s.e2w.getD x none = some w ∨ x = i ∨
        ∃ e', nodes[x]? = some e' ∧ isOut e' = true) := by
    intro st hst
    subst hst
    exact ⟨rfl, ⟨[], by simp, rfl⟩, fun x w hw => Or.inl hw⟩
  cases e with
  | const _ => simp only [LState.emitNode, Except.ok.injEq] at h; exact same h.symm
  | pub _ => simp only [LState.emitNode, Except.ok.injEq] at h; exact same h.symm
  | priv _ => simp only [LState.emitNode, Except.ok.injEq] at h; exact same h.symm
  | add l r =>
    simp only [LState.emitNode] at h
    cases hal : s.allocWitness i with
    | mk s1 out =>
      rw [hal] at h
      obtain ⟨he, ho, hp⟩ := alloc_fields' hal
      cases hl : s1.resolve l with
      | error _ => simp [hl] at h
      | ok a =>
        cases hr : s1.resolve r with
        | error _ => simp [hl, hr] at h
        | ok bw =>
          simp only [hl, hr, Except.ok.injEq] at h
          subst h
          have hb := hres r bw rfl (he ▸ resolve_ok.mp hr)
          exact emit_finish P he ho hp [Op.add a bw out]
            (sdu_single P _ _ _ _ _ _ _ (Or.inl hb)) _ rfl (by simp [LState.setW, LState.pushOp]) rfl
  | mul l r =>
    simp only [LState.emitNode] at h
    cases hal : s.allocWitness i with
    | mk s1 out =>
      rw [hal] at h
      obtain ⟨he, ho, hp⟩ := alloc_fields' hal
      cases hl : s1.resolve l with
      | error _ => simp [hl] at h
      | ok a =>
        cases hr : s1.resolve r with
        | error _ => simp [hl, hr] at h
        | ok bw =>
          simp only [hl, hr, Except.ok.injEq] at h
          subst h
          have hb := hres r bw rfl (he ▸ resolve_ok.mp hr)
          exact emit_finish P he ho hp [Op.mul a bw out]
            (sdu_single P _ _ _ _ _ _ _ (Or.inl hb)) _ rfl (by simp [LState.setW, LState.pushOp]) rfl
  | div l r =>
    simp only [LState.emitNode] at h
    cases hal : s.allocWitness i with
    | mk s1 q =>
      rw [hal] at h
      obtain ⟨he, ho, hp⟩ := alloc_fields' hal
      cases hl : s1.resolve l with
      | error _ => simp [hl] at h
      | ok a =>
        cases hr : s1.resolve r with
        | error _ => simp [hl, hr] at h
        | ok bw =>
          simp only [hl, hr, Except.ok.injEq] at h
          subst h
          have hb := hres l a rfl (he ▸ resolve_ok.mp hl)
          exact emit_finish P he ho hp [Op.mul bw q a]
            (sdu_single P _ _ _ _ _ _ _ (Or.inr hb)) _ rfl (by simp [LState.setW, LState.pushOp]) rfl
  | mulAdd a b c =>
    simp only [LState.emitNode] at h
    cases hal : s.allocWitness i with
    | mk s1 out =>
      rw [hal] at h
      obtain ⟨he, ho, hp⟩ := alloc_fields' hal
      cases h1 : s1.resolve a with
      | error _ => simp [h1] at h
      | ok wa =>
        cases h2 : s1.resolve b with
        | error _ => simp [h1, h2] at h
        | ok wb =>
          cases h3 : s1.resolve c with
          | error _ => simp [h1, h2, h3] at h
          | ok wc =>
            simp only [h1, h2, h3, Except.ok.injEq] at h
            subst h
            have hb := hres b wb rfl (he ▸ resolve_ok.mp h2)
            exact emit_finish P he ho hp [Op.mulAdd wa wb wc out]
              (sdu_single P _ _ _ _ _ _ _ (Or.inl hb)) _ rfl
              (by simp [LState.setW, LState.pushOp]) rfl
  | horner acc al pz px =>
    simp only [LState.emitNode] at h
    cases hal : s.allocWitness i with
    | mk s1 out =>
      rw [hal] at h
      obtain ⟨he, ho, hp⟩ := alloc_fields' hal
      cases h1 : s1.resolve acc with
      | error _ => simp [h1] at h
      | ok w1 =>
        cases h2 : s1.resolve al with
        | error _ => simp [h1, h2] at h
        | ok w2 =>
          cases h3 : s1.resolve pz with
          | error _ => simp [h1, h2, h3] at h
          | ok w3 =>
            cases h4 : s1.resolve px with
            | error _ => simp [h1, h2, h3, h4] at h
            | ok w4 =>
              simp only [h1, h2, h3, h4, Except.ok.injEq] at h
              subst h
              have hb := hres al w2 rfl (he ▸ resolve_ok.mp h2)
              exact emit_finish P he ho hp [Op.horner w4 w2 w3 out w1]
                (sdu_single P _ _ _ _ _ _ _ (Or.inl hb)) _ rfl
                (by simp [LState.setW, LState.pushOp]) rfl
  | boolCheck v =>
    simp only [LState.emitNode] at h
    cases hal : s.allocWitness i with
    | mk s1 out =>
      rw [hal] at h
      obtain ⟨he, ho, hp⟩ := alloc_fields' hal
      cases h1 : s1.resolve v with
      | error _ => simp [h1] at h
      | ok vw =>
        cases h2 : s1.resolve 0 with
        | error _ => simp [h1, h2] at h
        | ok zw =>
          simp only [h1, h2, Except.ok.injEq] at h
          subst h
          have hb := hres 0 zw rfl (he ▸ resolve_ok.mp h2)
          exact emit_finish P he ho hp [.alu .boolCheck vw zw (some vw) out none]
            (sdu_single P _ _ _ _ _ _ _ (Or.inl hb)) _ rfl
            (by simp [LState.setW, LState.pushOp]) rfl
  | sub l r =>
    simp only [LState.emitNode] at h
    cases hal : s.allocWitness i with
    | mk s1 res =>
      rw [hal] at h
      obtain ⟨he, ho, hp⟩ := alloc_fields' hal
      cases h1 : s1.resolve l with
      | error _ => simp [h1] at h
      | ok lw =>
        simp only [h1] at h
        split at h
        · rename_i x1 x2 c hnl hnr
          cases hal2 : s1.allocWitness nodes.size with
          | mk s2 nw =>
            rw [hal2] at h
            simp only [Except.ok.injEq] at h
            subst h
            obtain ⟨he2, ho2, hp2⟩ := alloc_fields' hal2
            exact emit_finish P (he2.trans he) (ho2.trans ho) (hp2.trans hp)
              [.const nw (-c), Op.add lw nw res] (sdu_fast P _ _ _ _ _ _ _ _) _ rfl
              (by simp [LState.setW, LState.pushOp]) rfl
        · rename_i hnot
          cases h2 : s1.resolve r with
          | error _ => simp [h2] at h
          | ok rw' =>
            simp only [h2, Except.ok.injEq] at h
            subst h
            have hbp : (Expr.sub l r : Expr K).bPos nodes = some l := by
              simp only [Expr.bPos]
            have hb := hres l lw hbp (he ▸ resolve_ok.mp h1)
            exact emit_finish P he ho hp [Op.add rw' res lw]
              (sdu_single P _ _ _ _ _ _ _ (Or.inr hb)) _ rfl
              (by simp [LState.setW, LState.pushOp]) rfl
  | npCall op ins =>
    simp only [LState.emitNode] at h
    obtain ⟨_, _, new⟩ := emitNpCall_spec hRC npOps op hG h
    obtain ⟨hp, added, ho, hna⟩ := emitNpCall_fields nodes npOps op h
    exact ⟨hp, ⟨added, ho, sdu_of_noAlu _ _ _ hna⟩,
      fun x w hw => (new x w hw).elim Or.inl (fun h => Or.inr (Or.inr h))⟩
  | npOut call idx =>
    simp only [LState.emitNode] at h
    split at h
    · rename_i op ins hcall
      split at h
      · cases h
      · rename_i s1 hs1
        obtain ⟨g1, _, new1⟩ := emitNpCall_spec hRC npOps op hG hs1
        obtain ⟨hp, added, ho, hna⟩ := emitNpCall_fields nodes npOps op hs1
        split at h
        · rename_i w hw
          cases h
          exact ⟨hp, ⟨added, ho, sdu_of_noAlu _ _ _ hna⟩,
            fun x w hw => (new1 x w hw).elim Or.inl (fun h => Or.inr (Or.inr h))⟩
        · rename_i hw
          cases hal : s1.allocWitness i with
          | mk s2 w =>
            rw [hal] at h
            simp only [Except.ok.injEq] at h
            subst h
            obtain ⟨he2, ho2, hp2⟩ := alloc_fields' hal
            refine ⟨by simp only [LState.setW]; exact hp2.trans hp,
              ⟨added, by simp only [LState.setW]; rw [ho2]; exact ho, sdu_of_noAlu _ _ _ hna⟩,
              fun x w' hw' => ?_⟩
            simp only [LState.setW] at hw'
            rw [getD_setIfInBounds, he2] at hw'
            by_cases hix : i = x
            · exact Or.inr (Or.inl hix.symm)
            · rw [if_neg (fun hh => hix hh.1)] at hw'
              exact (new1 x w' hw').elim Or.inl (fun h => Or.inr (Or.inr h))
    · cases h

end lowering

/-! #### The guard: a creator of the operand's connect class has a created (or private) slot -/

section guard
variable [Neg K]

omit [Neg K] in
theorem touched_of_mem {ops : List (Op K)} {op : Op K} {x : Nat} (h : op ∈ ops) (hx : x ∈ outB op) :
    x ∈ accT [] ops := (mem_accT ops [] x).mpr (Or.inr ⟨op, h, hx⟩)

theorem claim_touched {nodes : Array (Expr K)} {m : Nat → Option Nat} {ops : List (Op K)} {i : Nat}
    {e : Expr K} (h : Claim nodes m ops i e) (hk : e.isLeaf = true ∨ e.isAluE = true)
    (hnp : ∀ pos, e ≠ .priv pos) : ∃ w, m i = some w ∧ w ∈ accT [] ops := by
  cases e with
  | const c => obtain ⟨w, h1, h2⟩ := h; exact ⟨w, h1, touched_of_mem h2 (by simp [outB])⟩
  | pub pos => obtain ⟨w, h1, h2⟩ := h; exact ⟨w, h1, touched_of_mem h2 (by simp [outB])⟩
  | priv pos => exact absurd rfl (hnp pos)
  | add a b =>
    obtain ⟨wi, wa, wb, h1, _, _, h4⟩ := h
    exact ⟨wi, h1, touched_of_mem h4 (by simp [Op.add, outB])⟩
  | sub a b =>
    obtain ⟨wi, wa, h1, _, h3⟩ := h
    rcases h3 with ⟨wb, _, h5⟩ | ⟨c, nw, _, _, h6⟩
    · exact ⟨wi, h1, touched_of_mem h5 (by simp [Op.add, outB])⟩
    · exact ⟨wi, h1, touched_of_mem h6 (by simp [Op.add, outB])⟩
  | mul a b =>
    obtain ⟨wi, wa, wb, h1, _, _, h4⟩ := h
    exact ⟨wi, h1, touched_of_mem h4 (by simp [Op.mul, outB])⟩
  | div a b =>
    obtain ⟨wi, wa, wb, h1, _, _, h4⟩ := h
    exact ⟨wi, h1, touched_of_mem h4 (by simp [Op.mul, outB])⟩
  | horner acc al pz px =>
    obtain ⟨wi, w1, w2, w3, w4, h1, _, _, _, _, h6⟩ := h
    exact ⟨wi, h1, touched_of_mem h6 (by simp [Op.horner, outB])⟩
  | boolCheck v =>
    obtain ⟨wi, wv, zw, h1, _, h3⟩ := h
    exact ⟨wi, h1, touched_of_mem h3 (by simp [outB])⟩
  | mulAdd a b c =>
    obtain ⟨wi, wa, wb, wc, h1, _, _, _, h5⟩ := h
    exact ⟨wi, h1, touched_of_mem h5 (by simp [Op.mulAdd, outB])⟩
  | npCall _ _ => simp [Expr.isLeaf, Expr.isAluE] at hk
  | npOut _ _ => simp [Expr.isLeaf, Expr.isAluE] at hk

omit [Neg K] in
theorem same_slot {N : Nat} {R : Array Nat} {C : Array Bool} {s : LState K} (hG : Good N R C s)
    {j l wj wl : Nat} (hs : sameClass R C j l = true) (hj : s.e2w.getD j none = some wj)
    (hl : s.e2w.getD l none = some wl) : wj = wl := by
  simp only [sameClass, Bool.or_eq_true, Bool.and_eq_true, beq_iff_eq] at hs
  rcases hs with rfl | ⟨⟨hcj, hcl⟩, hr⟩
  · rw [hj] at hl; exact Option.some.inj hl
  · have h1 := hG.coh j wj hcj hj
    have h2 := hG.coh l wl hcl hl
    rw [hr, h2] at h1
    exact (Option.some.inj h1).symm

theorem guard_slot {b : BState K} {N : Nat} {R : Array Nat} {C : Array Bool} {k : Nat}
    {s : LState K} (I : PassInv b.nodes N R C 3 k s) (hQ : Q b s) {l wl : Nat}
    (hcr : creatorFor b.nodes R C k l = true) (hl : s.e2w.getD l none = some wl) :
    wl ∈ accT [] s.ops.toList ∨ wl ∈ s.privRows.toList := by
  unfold creatorFor at hcr
  rw [List.any_eq_true] at hcr
  obtain ⟨j, _, hj⟩ := hcr
  rw [Bool.and_eq_true] at hj
  obtain ⟨hsame, hkind⟩ := hj
  cases hn : b.nodes[j]? with
  | none => rw [hn] at hkind; cases hkind
  | some e =>
    rw [hn] at hkind
    simp only [Bool.or_eq_true, Bool.and_eq_true, decide_eq_true_eq] at hkind
    have hcat : cat e < 3 ∨ (cat e = 3 ∧ j < k) := by
      rcases hkind with h | ⟨h, hjk⟩
      · left; cases e <;> simp_all [Expr.isLeaf, cat]
      · right; exact ⟨by cases e <;> simp_all [Expr.isAluE, cat], hjk⟩
    have hcl := I.claims j e hn hcat
    have hk' : e.isLeaf = true ∨ e.isAluE = true := hkind.imp id (fun h => h.1)
    by_cases hpriv : ∃ pos, e = .priv pos
    · obtain ⟨pos, rfl⟩ := hpriv
      obtain ⟨wj, hwj⟩ := hcl
      have hp := hQ.pr j pos wj hn hwj
      have heq := same_slot I.good hsame hwj hl
      subst heq
      exact Or.inr (Array.mem_def.mp (Array.mem_of_getElem? hp))
    · obtain ⟨wj, hwj, ht⟩ := claim_touched hcl hk' (fun pos hpe => hpriv ⟨pos, hpe⟩)
      have heq := same_slot I.good hsame hwj hl
      subst heq
      exact Or.inl ht

omit [Neg K] in
theorem hintsGuarded_spec {b : BState K} (h : hintsGuarded b = true) {i l : Nat}
    (hi : i < b.nodes.size) (hb : (b.nodes[i]).bPos b.nodes = some l) :
    creatorFor b.nodes (Dsu.ofConnects (b.nodes.size + 1) b.connects) (inCOf b) i l = true := by
  unfold hintsGuarded at h
  rw [List.all_eq_true] at h
  have := h i (List.mem_range.mpr hi)
  rw [Array.getElem?_eq_getElem hi] at this
  simp only [hb] at this
  exact this

theorem backfill_fields (l : List Nat) (s : LState K) :
    (l.foldl backfillStep s).ops = s.ops ∧ (l.foldl backfillStep s).privRows = s.privRows := by
  induction l generalizing s with
  | nil => exact ⟨rfl, rfl⟩
  | cons e l ih =>
    simp only [List.foldl_cons]
    obtain ⟨h1, h2⟩ := ih (backfillStep s e)
    have : (backfillStep s e).ops = s.ops ∧ (backfillStep s e).privRows = s.privRows := by
      unfold backfillStep
      split
      · split
        · exact ⟨rfl, rfl⟩
        · split <;> exact ⟨rfl, rfl⟩
      · exact ⟨rfl, rfl⟩
    exact ⟨h1.trans this.1, h2.trans this.2⟩

end guard

/-! #### Assembly -/

section assembly
variable [Neg K]

/-- **C09 / the lowering emits a def-before-use certified op list — total.** For every builder
state satisfying `BState.Ok`, `privOk` and `hintsGuarded`, whenever the lowering succeeds its op
list carries the strong certificate with respect to its own private rows. -/
theorem lower_sdu (b : BState K) (hok : b.Ok) (hpo : privOk b = true) (hg : hintsGuarded b = true) :
    ∀ l, lower b = .ok l → sduFrom l.privRows.toList [] l.ops.toList = true := by
  intro l h
  rw [lower_eq] at h
  have hc := hok.connectsOk
  have hcs : ∀ ab ∈ b.connects, ab.1 < b.nodes.size ∧ ab.2 < b.nodes.size ∧
      (proper b.nodes ab.1 = true ∨ proper b.nodes ab.2 = true) := by
    intro ab hab
    have := List.all_eq_true.mp hc ab hab
    simpa [and_assoc] using this
  obtain ⟨hCsz, hCmono, hCmem⟩ := inC_spec b.connects (Array.replicate (b.nodes.size + 1) false)
  simp only [Array.size_replicate] at hCsz hCmem
  obtain ⟨hDsu, hRsame, _⟩ := ofConnects_spec (N := b.nodes.size + 1) b.connects
    (fun ab hab => ⟨by have := (hcs ab hab).1; omega, by have := (hcs ab hab).2.1; omega⟩)
    (Array.range (b.nodes.size + 1)) (range_dsuInv _)
  have hRC : RCok (b.nodes.size + 1) (Dsu.ofConnects (b.nodes.size + 1) b.connects) (inCOf b) := by
    intro x hx
    have : x < b.nodes.size + 1 := by
      have := getD_true_lt _ x hx
      unfold inCOf at this
      rw [hCsz] at this; exact this
    exact hDsu.lt x this
  have h0 : PassInv b.nodes (b.nodes.size + 1) (Dsu.ofConnects (b.nodes.size + 1) b.connects)
      (inCOf b) 0 0 (lowerInit b) := by
    refine ⟨⟨rfl, rfl, by simp [lowerInit], by simp [lowerInit], ?_, ?_⟩, ?_, ?_⟩
    · intro x w _ hw
      simp only [lowerInit, getD_replicate] at hw
      cases hw
    · intro op hop
      simp [lowerInit] at hop
    · intro x w hw
      simp only [lowerInit, getD_replicate] at hw
      cases hw
    · intro x e _ hcase
      rcases hcase with h1 | ⟨_, h2⟩ <;> omega
  have next : ∀ p s, PassInv b.nodes (b.nodes.size + 1)
      (Dsu.ofConnects (b.nodes.size + 1) b.connects) (inCOf b) p b.nodes.size s →
      PassInv b.nodes (b.nodes.size + 1) (Dsu.ofConnects (b.nodes.size + 1) b.connects)
        (inCOf b) (p + 1) 0 s := by
    intro p s I
    refine ⟨I.good, fun x w hw => ?_, fun x e he hcase => ?_⟩
    · obtain ⟨e, he, hcase⟩ := I.only x w hw
      refine ⟨e, he, ?_⟩
      rcases hcase with h1 | ⟨h2, _⟩ | h3
      · exact Or.inl (by omega)
      · exact Or.inl (by omega)
      · exact Or.inr (Or.inr h3)
    · have hx : x < b.nodes.size := by
        by_contra hge
        rw [Array.getElem?_eq_none (by omega)] at he
        cases he
      apply I.claims x e he
      rcases hcase with h1 | ⟨_, h2⟩
      · by_cases hlt : cat e < p
        · exact Or.inl hlt
        · exact Or.inr ⟨by omega, hx⟩
      · omega
  have Q0 : Q b (lowerInit b) := by
    refine ⟨by simp [lowerInit], ?_⟩
    intro x pos w _ hw
    simp only [lowerInit, getD_replicate] at hw
    cases hw
  have A0 : ∀ op ∈ (lowerInit b).ops.toList, isAluOp op = false := by
    intro op hop
    simp [lowerInit] at hop
  simp only [bind, Except.bind, forNodes] at h
  split at h
  · cases h
  · rename_i s1 hs1
    have I1 := pass_fold b.nodes _ _ _ 0 fConst
      (by intro s i e hne; cases e <;> simp [cat] at hne <;> rfl) (step_const hRC) _ h0 _
      (Nat.le_refl _) s1 hs1
    have J1 := fold_inv b.nodes fConst (lowerInit b)
      (fun _ s => Q b s ∧ ∀ op ∈ s.ops.toList, isAluOp op = false) ⟨Q0, A0⟩
      (fun k s s' hk _ hI hf => fConst_Q (Array.getElem?_eq_getElem hk) hI.1 hI.2 hf)
      _ (Nat.le_refl _) s1 hs1
    split at h
    · cases h
    · rename_i s2 hs2
      have I2 := pass_fold b.nodes _ _ _ 1 fPub
        (by intro s i e hne; cases e <;> simp [cat] at hne <;> rfl) (step_pub hRC) _ (next _ _ I1) _
        (Nat.le_refl _) s2 hs2
      have J2 := fold_inv b.nodes fPub s1
        (fun _ s => Q b s ∧ ∀ op ∈ s.ops.toList, isAluOp op = false) J1
        (fun k s s' hk _ hI hf => fPub_Q (Array.getElem?_eq_getElem hk) hI.1 hI.2 hf)
        _ (Nat.le_refl _) s2 hs2
      split at h
      · cases h
      · rename_i s3 hs3
        have I3 := pass_fold b.nodes _ _ _ 2 fPriv
          (by intro s i e hne; cases e <;> simp [cat] at hne <;> rfl) (step_priv hRC) _
          (next _ _ I2) _ (Nat.le_refl _) s3 hs3
        have J3 := fold_inv b.nodes fPriv s2
          (fun _ s => Q b s ∧ ∀ op ∈ s.ops.toList, isAluOp op = false) J2
          (fun k s s' hk hpre hI hf => by
            have PI := pass_fold b.nodes _ _ _ 2 fPriv
              (by intro s i e hne; cases e <;> simp [cat] at hne <;> rfl) (step_priv hRC) _
              (next _ _ I2) k (Nat.le_of_lt hk) s hpre
            exact fPriv_Q hpo (Array.getElem?_eq_getElem hk)
              (by rw [PI.good.e2wSz]; omega) hI.1 hI.2 hf)
          _ (Nat.le_refl _) s3 hs3
        split at h
        · cases h
        · rename_i s4 hs4
          have J4 := fold_inv b.nodes (fun st i e => st.emitNode b.nodes b.npOps i e) s3
            (fun _ s => Q b s ∧ sduFrom s.privRows.toList [] s.ops.toList = true)
            ⟨J3.1, sdu_of_noAlu _ _ _ J3.2⟩
            (fun k s s' hk hpre hI hf => by
              have PI := pass_fold b.nodes _ _ _ 3 (fun st i e => st.emitNode b.nodes b.npOps i e)
                (by intro s i e hne; cases e <;> simp [cat] at hne <;> rfl) (step_emit hRC b.npOps) _
                (next _ _ I3) k (Nat.le_of_lt hk) s hpre
              have hke : b.nodes[k]? = some b.nodes[k] := Array.getElem?_eq_getElem hk
              obtain ⟨hp, ⟨added, ho, hs⟩, honly⟩ := emit_shape hRC b.npOps PI.good s.privRows.toList
                (fun l wl hb hl => guard_slot PI hI.1 (hintsGuarded_spec hg hk hb) hl) hf
              refine ⟨⟨by rw [hp]; exact hI.1.sz, ?_⟩, ?_⟩
              · intro x pos w hx hw
                rw [hp]
                rcases honly x w hw with h1 | h2 | ⟨e', he', ho'⟩
                · exact hI.1.pr x pos w hx h1
                · subst h2
                  rw [hke] at hx
                  have hx' := Option.some.inj hx
                  rw [hx'] at hf
                  simp only [LState.emitNode, Except.ok.injEq] at hf
                  subst hf
                  exact hI.1.pr x pos w (hke.trans (congrArg some hx')) hw
                · rw [hx] at he'
                  cases he'
                  cases ho'
              · rw [hp, ho, sduFrom_append, hI.2, hs]
                rfl)
            _ (Nat.le_refl _) s4 hs4
          split at h
          · cases h
          · simp only [Except.ok.injEq] at h
            obtain ⟨hbo, hbp⟩ := backfill_fields (List.range (b.nodes.size + 1)) s4
            subst h
            simp only []
            rw [hbo, hbp]
            exact J4.2

/-- **C09 / `lower_defuse`.** The lowered op list of a guarded builder state carries the
def-before-use certificate of `Model/DefUse.lean` (for its own hint set). -/
theorem lower_defuse (b : BState K) (hok : b.Ok) (hpo : privOk b = true)
    (hg : hintsGuarded b = true) (l : Lowered K) (hl : lower b = .ok l) :
    defUse l.privRows.toList l.ops.toList = true :=
  sdu_defUse _ _ _ [] [] (fun _ h => h) (lower_sdu b hok hpo hg l hl)

end assembly

/-! ### From the lowering to the compiled circuit

`lower_defuse` is total. The optimiser step is NOT certificate-preserving in general:
`Witness.C09Compile.dedup_breaks_*` is a reachable, guarded program whose lowered list carries the
certificate while the de-duplicated list does not (a removed commutative duplicate was the only row
that had the slot of a table-backed call output in its `b` column; the kept row has it in `a`, where
only private inputs and *hint* outputs are created). What remains per program is therefore the
implication `optKeeps` (certificate of the lowered list ⇒ certificate of the optimised list), a
decidable property of the lowered list alone. -/

section compile
variable [Neg K] [Zero K] [DecidableEq K]

theorem compile_fields (b : BState K) (c : Circuit K) (h : compile b = .ok c) :
    ∃ l : Lowered K, lower b = .ok l ∧ c.ops = (optimize l.ops l.privRows.toList).1 ∧
      c.privRows = l.privRows.map (resolve (optimize l.ops l.privRows.toList).2) := by
  unfold compile at h
  split at h
  · cases h
  · rename_i l hl
    refine ⟨l, hl, ?_⟩
    simp only [optimize] at h ⊢
    by_cases hch : hornerChained (fuse (dedup l.ops).1 (List.map (resolve (dedup l.ops).2) l.privRows.toList)).toList = true
    · simp only [hch, Bool.not_true, Bool.false_eq_true, if_false] at h
      cases h
      exact ⟨rfl, rfl⟩
    · have hf : hornerChained (fuse (dedup l.ops).1 (List.map (resolve (dedup l.ops).2) l.privRows.toList)).toList = false := by
        simpa using hch
      simp only [hf, Bool.not_false, if_true] at h
      cases h

/-- **C09 / `compile_defuse`, optimiser step as hypothesis.** The compiled circuit of a guarded
builder state carries the certificate provided the optimiser keeps it on the lowered list. -/
theorem compile_defuse_of_optKeeps (b : BState K) (hok : b.Ok) (hpo : privOk b = true)
    (hg : hintsGuarded b = true) (c : Circuit K) (hc : compile b = .ok c)
    (hopt : ∀ l, lower b = .ok l → optKeeps l = true) : c.defUse = true := by
  obtain ⟨l, hl, hops, hpriv⟩ := compile_fields b c hc
  have h1 := lower_defuse b hok hpo hg l hl
  have h2 := hopt l hl
  unfold optKeeps at h2
  rw [h1] at h2
  simp only [Bool.not_true, Bool.false_or] at h2
  unfold Circuit.defUse
  rw [hops, hpriv]
  exact h2

/-- **C09 / the honest bus of a compiled circuit balances** — from the builder state: `BState.Ok`,
`privOk`, `hintsGuarded` and the optimiser implication `optKeeps`; no certificate of the compiled
circuit and no scan-level hypothesis is left. -/
theorem compiled_bus_balanced_of_optKeeps (b : BState K) (hok : b.Ok) (hpo : privOk b = true)
    (hg : hintsGuarded b = true) (c : Circuit K) (hc : compile b = .ok c)
    (hopt : ∀ l, lower b = .ok l → optKeeps l = true) (p : Prep) (hp : genPrep c = some p)
    (s : Nat) : p.net s = 0 :=
  C09T.compiled_bus_balanced_of_defuse c p hp (compile_defuse_of_optKeeps b hok hpo hg c hc hopt) s

end compile

end P3R.C09C
