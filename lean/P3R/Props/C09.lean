/-
C09 — every witness slot has one creator and balanced multiplicities.
Property theorems for the model `P3R.Model.Roles` (L5), for every circuit (no bound on the
number of ops or slots).

* `one_creator` — no slot ever receives two creator interactions;
* `mult_eq_reads` — the multiplicity a creator sends (`reads slot`) equals the number of
  reader interactions on that slot;
* `created_iff_defined` — a slot has a creator iff it ended up in the `defined` set;
* `net_zero_iff` — the signed multiplicities on a slot sum to zero iff the slot has a creator
  or nobody reads it; hence (`bus_balanced`) if every slot that is read is defined, the bus
  of any execution that puts one value per slot balances.
The remaining hypothesis "every slot that is read has a creator" is decidable per circuit;
the driver prints the per-slot net multiplicity and the harness checks it on the real columns.
-/
import P3R.Model.Roles
import Mathlib.Tactic.Ring
import Mathlib.Tactic.Linarith

namespace P3R.C09
open P3R

def nReaders (evs : List (Nat × Role)) (x : Nat) : Nat := evs.countP fun e => e.1 == x && e.2 == .reader
def nCreators (evs : List (Nat × Role)) (x : Nat) : Nat := evs.countP fun e => e.1 == x && e.2 == .creator

/-- Invariant of the role scan. -/
structure Inv (s : RoleState) : Prop where
  reads_eq : ∀ x, readsOf s.reads x = nReaders s.events x
  defined_iff : ∀ x, x ∈ s.defined ↔ 1 ≤ nCreators s.events x
  creators_le : ∀ x, nCreators s.events x ≤ 1

theorem inv_init : Inv { defined := [], reads := [], events := [] } :=
  ⟨fun _ => by simp [readsOf, nReaders, List.lookup], fun _ => by simp [nCreators],
   fun _ => by simp [nCreators]⟩

theorem readsOf_incRead (m : List (Nat × Nat)) (s x : Nat) :
    readsOf (incRead m s) x = readsOf m x + (if x = s then 1 else 0) := by
  unfold incRead readsOf
  by_cases h : x = s
  · subst h; simp [List.lookup]
  · have : (x == s) = false := by simpa using h
    simp [List.lookup, this, h]

theorem serve_inv (s : RoleState) (r : Request) (h : Inv s) : Inv (s.serve r) := by
  unfold RoleState.serve
  cases hr : r.role s.defined with
  | reader =>
    refine ⟨fun x => ?_, fun x => ?_, fun x => ?_⟩
    · simp only [readsOf_incRead, nReaders, List.countP_append, h.reads_eq x]
      by_cases hx : x = r.slot
      · subst hx; simp [List.countP_cons, nReaders]
      · have : (r.slot == x) = false := by simpa using fun e => hx e.symm
        simp [List.countP_cons, this, hx]
    · simpa [nCreators, List.countP_append, List.countP_cons] using h.defined_iff x
    · simpa [nCreators, List.countP_append, List.countP_cons] using h.creators_le x
  | skip =>
    refine ⟨fun x => ?_, fun x => ?_, fun x => ?_⟩
    · simpa [nReaders, List.countP_append, List.countP_cons] using h.reads_eq x
    · simpa [nCreators, List.countP_append, List.countP_cons] using h.defined_iff x
    · simpa [nCreators, List.countP_append, List.countP_cons] using h.creators_le x
  | creator =>
    -- a creator role is only given when the slot is not yet defined
    have hnd : r.slot ∉ s.defined := by
      unfold Request.role at hr
      by_cases hc : r.slot ∈ s.defined
      · simp [hc] at hr
      · exact hc
    have h0 : nCreators s.events r.slot = 0 := by
      have := (h.defined_iff r.slot).not.mp hnd
      omega
    refine ⟨fun x => ?_, fun x => ?_, fun x => ?_⟩
    · simpa [nReaders, List.countP_append, List.countP_cons] using h.reads_eq x
    · by_cases hx : x = r.slot
      · subst hx; simp [nCreators, List.countP_append, List.countP_cons]
      · have : (r.slot == x) = false := by simpa using fun e => hx e.symm
        simp only [List.mem_cons, hx, false_or, nCreators, List.countP_append, List.countP_cons,
          this, Bool.false_and, List.countP_nil]
        simpa [nCreators] using h.defined_iff x
    · by_cases hx : x = r.slot
      · subst hx
        simp only [nCreators, List.countP_append, List.countP_cons, List.countP_nil] at h0 ⊢
        simp [h0]
      · have : (r.slot == x) = false := by simpa using fun e => hx e.symm
        simpa [nCreators, List.countP_append, List.countP_cons, this] using h.creators_le x

theorem serveAll_inv (reqs : List Request) (s : RoleState) (h : Inv s) :
    Inv (reqs.foldl RoleState.serve s) := by
  induction reqs generalizing s with
  | nil => simpa using h
  | cons r rs ih => exact ih _ (serve_inv s r h)

theorem step_inv {K} (privs hints : List Nat) (s : PrepState) (op : Op K) (h : Inv s.rs) :
    Inv (s.step privs hints op).rs := by
  unfold PrepState.step
  have := serveAll_inv (requestsOf privs hints s.rs.defined op) s.rs h
  cases op <;> simpa using this

theorem steps_inv {K} (privs hints : List Nat) (ops : List (Op K)) (s : PrepState) (h : Inv s.rs) :
    Inv (ops.foldl (PrepState.step privs hints) s).rs := by
  induction ops generalizing s with
  | nil => simpa using h
  | cons op ops ih => exact ih _ (step_inv privs hints s op h)

/-- The invariant holds for whatever `genPrep` returns. -/
theorem genPrep_inv {K} (c : Circuit K) (p : Prep) (h : genPrep c = some p) :
    Inv { defined := p.defined, reads := p.reads, events := p.events } := by
  unfold genPrep at h
  simp only at h
  split at h
  · cases h
    exact steps_inv _ _ _ _ inv_init
  · cases h

/-- **C09 / one creator.** -/
theorem one_creator {K} (c : Circuit K) (p : Prep) (h : genPrep c = some p) (s : Nat) :
    nCreators p.events s ≤ 1 := (genPrep_inv c p h).creators_le s

/-- **C09 / multiplicity = number of reads.** -/
theorem mult_eq_reads {K} (c : Circuit K) (p : Prep) (h : genPrep c = some p) (s : Nat) :
    readsOf p.reads s = nReaders p.events s := (genPrep_inv c p h).reads_eq s

theorem created_iff_defined {K} (c : Circuit K) (p : Prep) (h : genPrep c = some p) (s : Nat) :
    s ∈ p.defined ↔ nCreators p.events s = 1 := by
  have i := genPrep_inv c p h
  have := i.defined_iff s
  have := i.creators_le s
  constructor <;> intro <;> simp_all <;> omega

/-- Net multiplicity as creators·reads − readers (pure list algebra). -/
theorem netOf_formula (reads : List (Nat × Nat)) (evs : List (Nat × Role)) (s : Nat) :
    netOf reads evs s = (nCreators evs s : Int) * (readsOf reads s : Int) - (nReaders evs s : Int) := by
  unfold netOf nCreators nReaders
  induction evs with
  | nil => simp
  | cons e evs ih =>
    obtain ⟨x, r⟩ := e
    by_cases hx : x = s
    · subst hx
      cases r <;> simp [List.filter_cons, List.countP_cons, eventMult, ih] <;> ring
    · have : (x == s) = false := by simpa using hx
      simp [List.filter_cons, List.countP_cons, this, ih]

/-- **C09 / balance.** The signed multiplicities on a slot cancel iff it has a creator or
nobody reads it. -/
theorem net_zero_iff {K} (c : Circuit K) (p : Prep) (h : genPrep c = some p) (s : Nat) :
    p.net s = 0 ↔ (s ∈ p.defined ∨ readsOf p.reads s = 0) := by
  have i := genPrep_inv c p h
  unfold Prep.net
  rw [netOf_formula]
  have hr := i.reads_eq s
  have hd := i.defined_iff s
  have hc := i.creators_le s
  simp only at hr hd hc
  rw [← hr]
  constructor
  · intro hz
    by_cases hdef : s ∈ p.defined
    · exact Or.inl hdef
    · right
      have h0 : nCreators p.events s = 0 := by
        have := hd.not.mp hdef; omega
      rw [h0] at hz
      have : (readsOf p.reads s : Int) = 0 := by
        simp only [Nat.cast_zero, zero_mul, zero_sub, neg_eq_zero] at hz; exact hz
      exact_mod_cast this
  · rintro (hdef | hz)
    · have h1 : nCreators p.events s = 1 := by
        have := hd.mp hdef; omega
      rw [h1]; ring
    · rw [hz]; simp

/-- **C09 / honest bus balances.** If every slot that some row reads has been created, the
net multiplicity of every slot is zero. -/
theorem bus_balanced {K} (c : Circuit K) (p : Prep) (h : genPrep c = some p)
    (hwf : ∀ s, readsOf p.reads s ≠ 0 → s ∈ p.defined) (s : Nat) : p.net s = 0 := by
  rw [net_zero_iff c p h]
  by_cases hz : readsOf p.reads s = 0
  · exact Or.inr hz
  · exact Or.inl (hwf s hz)


/-! ### Non-primitive rows: the same invariant for the extended scan -/

theorem scanR_inv_aux {K} (privs hints : List Nat) (ops : List (ROp K)) (s : RoleState) (h : Inv s) :
    Inv (ops.foldl (fun s op => (op.requests privs hints s.defined).foldl RoleState.serve s) s) := by
  induction ops generalizing s with
  | nil => simpa using h
  | cons op ops ih => exact ih _ (serveAll_inv _ s h)

/-- The role scan over primitive *and* table-backed non-primitive ops keeps the invariant, whatever
the plug-ins' request functions return. -/
theorem scanR_inv {K} (privs hints : List Nat) (ops : List (ROp K)) : Inv (scanR privs hints ops) :=
  scanR_inv_aux privs hints ops _ inv_init

/-- **C09 / one creator, with non-primitive rows.** -/
theorem one_creator_npo {K} (privs hints : List Nat) (ops : List (ROp K)) (s : Nat) :
    nCreators (scanR privs hints ops).events s ≤ 1 := (scanR_inv privs hints ops).creators_le s

/-- **C09 / multiplicity = reads, with non-primitive rows**: the read count a creator is given
equals the number of reader events of the scan (plug-in reads and duplicate outputs included). -/
theorem mult_eq_reads_npo {K} (privs hints : List Nat) (ops : List (ROp K)) (s : Nat) :
    readsOf (scanR privs hints ops).reads s = nReaders (scanR privs hints ops).events s :=
  (scanR_inv privs hints ops).reads_eq s

/-- **C09 / balance of the extended scan**: with the scan's own multiplicities (`eventMult`) the net
multiplicity of a slot is zero iff it has a creator or no reader. The plug-in conversions are *not*
covered: `npoMult` / `freeMult` deviate from `eventMult` exactly in findings F-C09N-1 / F-C09N-3. -/
theorem net_zero_iff_npo {K} (privs hints : List Nat) (ops : List (ROp K)) (s : Nat) :
    netOf (scanR privs hints ops).reads (scanR privs hints ops).events s = 0 ↔
      (s ∈ (scanR privs hints ops).defined ∨ readsOf (scanR privs hints ops).reads s = 0) := by
  have i := scanR_inv privs hints ops
  rw [netOf_formula]
  have hr := i.reads_eq s
  have hd := i.defined_iff s
  have hc := i.creators_le s
  rw [← hr]
  constructor
  · intro hz
    by_cases hdef : s ∈ (scanR privs hints ops).defined
    · exact Or.inl hdef
    · right
      have h0 : nCreators (scanR privs hints ops).events s = 0 := by
        have := hd.not.mp hdef; omega
      rw [h0] at hz
      have : (readsOf (scanR privs hints ops).reads s : Int) = 0 := by
        simp only [Nat.cast_zero, zero_mul, zero_sub, neg_eq_zero] at hz; exact hz
      exact_mod_cast this
  · rintro (hdef | hz)
    · have h1 : nCreators (scanR privs hints ops).events s = 1 := by
        have := hd.mp hdef; omega
      rw [h1]; ring
    · rw [hz]; simp

/-- Non-vacuity / negation witness for the conversion (finding F-C09N-1): two rows of one table
exposing the same slot, one ALU reader. The scan is balanced; after the conversion's per-table
duplicate rule both rows send −1 and the slot has no creator. -/
example :
    let ops : List (ROp Nat) := [.npo ⟨1, [], [7], []⟩, .npo ⟨1, [], [7], []⟩, .prim (.alu .add 7 7 none 9 none)]
    let st := scanR [] [] ops
    let tags := ops.flatMap (ROp.tags [] [])
    netOf st.reads st.events 7 = 0 ∧
      ((st.events.zip tags).filter (fun et => et.1.1 == 7)).map
        (fun et => npoMult st.reads (dupsOf st.events tags) et.1 et.2) = [-1, -1, -1, -1] := by
  decide

end P3R.C09
