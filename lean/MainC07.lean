/-
Line-protocol driver for C07. One `fri …` case line on stdin → the verdict lines of the Lean
models of the native verifier (`P3R.Fri.verifyFri`) and of the circuit (`P3R.Fri.circuitOutcome`)
on that case, plus the values of the two shape predicates of `P3R/Props/C07.lean`. Every number
used (prime, extension constant, generators, parameters, proof data) is read from the line.
-/
import P3R.Model.Ext4
import P3R.Model.FriNative
import P3R.Model.FriCircuit
import P3R.Model.FriShape

open P3R P3R.Fri

/-- Token cursor. -/
abbrev Tok := StateT (List String) Option

def nextNat : Tok Nat := do
  match (← get) with
  | [] => failure
  | t :: ts =>
    if t == "|" then
      set ts
      match ts with
      | [] => failure
      | t' :: ts' => set ts'; (t'.toNat? : Option Nat)
    else
      set ts
      (t.toNat? : Option Nat)

def times {α} (n : Nat) (x : Tok α) : Tok (List α) := (List.range n).mapM fun _ => x

def runCase (toks : List String) : Option (List String) := do
  match toks with
  | "fri" :: id :: rest =>
    let prog : Tok (List String) := do
      let p ← nextNat
      let w ← nextNat
      let gen ← nextNat
      let maxbits ← nextNat
      let tws ← times (maxbits + 1) nextNat
      let base : Nat → BE4 p w := fun n => BE4.ofBase (PF.ofNat n)
      let ext : Tok (BE4 p w) := do
        let a ← nextNat; let b ← nextNat; let c ← nextNat; let d ← nextNat
        return ⟨PF.ofNat a, PF.ofNat b, PF.ofNat c, PF.ofNat d⟩
      let env : Env (BE4 p w) := { gen := base gen, tw := fun b => base (tws.getD b 0), twoAdicity := maxbits }
      let logBlowup ← nextNat
      let lfpl ← nextNat
      let maxLA ← nextNat
      let nq ← nextNat
      let params : Params := { logBlowup := logBlowup, logFinalPolyLen := lfpl, maxLogArity := maxLA, numQueries := nq }
      let alpha ← ext
      let nb ← nextNat
      let betas ← times nb ext
      let nbatches ← nextNat
      let batches ← times nbatches do
        let nm ← nextNat
        times nm do
          let ls ← nextNat
          let np ← nextNat
          let pts ← times np do
            let zid ← nextNat
            let z ← ext
            let nv ← nextNat
            let vs ← times nv ext
            return (zid, z, vs)
          return ({ logSize := ls, points := pts } : MatClaim (BE4 p w))
      let numCommits ← nextNat
      let numPow ← nextNat
      let nf ← nextNat
      let finalPoly ← times nf ext
      let nqp ← nextNat
      let queries ← times nqp do
        let index ← nextNat
        let nob ← nextNat
        let opened ← times nob do
          let nm ← nextNat
          times nm do
            let nc ← nextNat
            times nc (do let v ← nextNat; return base v)
        let nph ← nextNat
        let phases ← times nph do
          let la ← nextNat
          let ns ← nextNat
          let ss ← times ns ext
          return ({ logArity := la, siblings := ss } : Phase (BE4 p w))
        return ({ index := index, opened := opened, phases := phases } : Query (BE4 p w))
      let pf : Proof (BE4 p w) := { numCommits := numCommits, numPow := numPow, finalPoly := finalPoly, queries := queries }
      let native := match verifyFri env params alpha betas batches pf with
        | .ok _ => "ok"
        | .error e => s!"err:{e.name}"
      let circuit := (circuitOutcome env params alpha betas batches pf).name
      let sv := shapeOf params maxbits betas.length batches pf
      return [s!"fri {id}", s!"native {native}", s!"circuit {circuit}",
              s!"shape native={if nativeShapeOk sv then 1 else 0} circuit={if circuitShapeOk sv then 1 else 0}"]
    (prog.run rest).map (·.1)
  | _ => none

partial def loop (h : IO.FS.Stream) : IO Unit := do
  let line ← h.getLine
  if line.isEmpty then return ()
  let toks := (line.trimAscii.toString.splitOn " ").filter (· ≠ "")
  match toks with
  | [] => loop h
  | "fri" :: _ =>
    match runCase toks with
    | some outs => for o in outs do IO.println o
    | none => IO.println "bad-case"
    loop h
  | _ =>
    IO.println "bad-op"
    loop h

def main : IO Unit := do
  loop (← IO.getStdin)
