/-
C18 — closing the two gaps `P3R.Props.C18Order` left open, and the total theorem.

1. `expr_to_widx` round trip: `e2wCollect (e2wPairs m) = m.map (resolve)` (`e2wCollect_pairs`), so the
   ordered build's `expr_to_widx` is the array of the fixed-order `compile`
   (`finalE2w_eq`, `compileOrd_eq_fixed`, `compileOrd_core_e2w`).
2. The fusion invariant (`fusionInvariantOf`), derived:
   * distinct mul positions — for EVERY op list (`candidates_mulIdx_nodup`), from the invariants of
     `P3R.Props.C03FusionTotal` (`candidates_ok`: a candidate's product slot is read exactly once);
   * distinct outputs — NOT a consequence of a single-writer property of `out` slots (there is none: two
     `Add` ops of a lowered list share their `out` whenever their expressions are `connect`ed, see
     `Witness.C18Total.shared_out_reachable`). What protects the code is `track_backwards_op`: the later
     of two adds with one `out` is recorded as a backwards op when it is scanned (`scan_inv`), after which
     `try_fuse` accepts it only with the product as its *first* operand and its mul standing *after*
     it (`later_shared_out`, every op list). `Order.aDefined` — the first operand of every plain add is an
     input or is named (read / written) by an earlier op — excludes that (`no_shared_out`,
     `fusionInvariant_of_aDefined`); `Witness.C18Total.useBeforeDef_shared_out` shows it is needed.
   * `aDefined` holds for the de-duplicated lowered list of every builder state with `privOk`
     (`P3R.Props.C18Lower`, `P3R.Props.C18Dedup`), and `privOk` for every reachable state
     (`P3R.Props.C18Reach`).
3. `compile_order_independent_total` (hypotheses: `privOk`, distinct tags, at most one unmapped tag — each
   necessary) and `compile_order_independent_reachable` (reachable builder states: tags only).
-/
import P3R.Props.C18Order
import P3R.Props.C03FusionTotal
import P3R.Props.C18Dedup
import P3R.Props.C18Reach

namespace P3R.C18
open P3R P3R.Order

/-! ## 1. `expr_to_widx` round trip -/

theorem e2wStep_size (f : Nat → Nat) (pairs : List (Nat × Nat)) (acc : Array (Option Nat)) :
    (pairs.foldl (fun a p => a.setIfInBounds p.1 (some (f p.2))) acc).size = acc.size := by
  induction pairs generalizing acc with
  | nil => rfl
  | cons p ps ih => simp only [List.foldl_cons]; rw [ih]; simp

/-- Reading the collected array at an index no pair names. -/
theorem e2wStep_get_of_not_mem (f : Nat → Nat) (pairs : List (Nat × Nat)) (acc : Array (Option Nat)) (j : Nat)
    (h : ∀ w, (j, w) ∉ pairs) :
    (pairs.foldl (fun a p => a.setIfInBounds p.1 (some (f p.2))) acc)[j]? = acc[j]? := by
  induction pairs generalizing acc with
  | nil => rfl
  | cons p ps ih =>
    simp only [List.foldl_cons]
    rw [ih _ (fun w hw => h w (List.mem_cons_of_mem _ hw))]
    have hp : p.1 ≠ j := by
      intro he
      exact h p.2 (by rw [← he]; exact List.mem_cons_self)
    simp [hp]

/-- Reading the collected array at the index of a pair (keys distinct). -/
theorem e2wStep_get_of_mem (f : Nat → Nat) (pairs : List (Nat × Nat)) (acc : Array (Option Nat)) (j w : Nat)
    (hd : (pairs.map Prod.fst).Nodup) (hj : j < acc.size) (h : (j, w) ∈ pairs) :
    (pairs.foldl (fun a p => a.setIfInBounds p.1 (some (f p.2))) acc)[j]? = some (some (f w)) := by
  induction pairs generalizing acc with
  | nil => cases h
  | cons p ps ih =>
    simp only [List.foldl_cons]
    simp only [List.map_cons, List.nodup_cons] at hd
    rcases List.mem_cons.mp h with h | h
    · subst h
      rw [e2wStep_get_of_not_mem]
      · simp [hj]
      · intro w' hw'
        exact hd.1 (List.mem_map.mpr ⟨(j, w'), hw', rfl⟩)
    · exact ih _ hd.2 (by simpa using hj) h

theorem mem_e2wPairs (a : Array (Option Nat)) (j w : Nat) :
    (j, w) ∈ e2wPairs a ↔ a[j]? = some (some w) := by
  unfold e2wPairs
  rw [List.mem_filterMap]
  constructor
  · rintro ⟨⟨o, i⟩, hm, ho⟩
    have := List.mem_zipIdx_iff_getElem?.mp hm
    cases o with
    | none => simp at ho
    | some w' =>
      simp only [Option.map_some, Option.some.injEq, Prod.mk.injEq] at ho
      obtain ⟨rfl, rfl⟩ := ho
      simpa using this
  · intro h
    exact ⟨(some w, j), List.mem_zipIdx_iff_getElem?.mpr (by simpa using h), rfl⟩

/-- **`expr_to_widx` round trip.** Collecting the resolved `(expr, witness)` pairs of an array-indexed
map — `expr_to_widx.into_iter().map(|(e, w)| (e, resolve(w))).collect()` — gives the array with every
entry resolved: what the fixed-order `compile` stores. -/
theorem e2wCollect_pairs (f : Nat → Nat) (a : Array (Option Nat)) :
    e2wCollect a.size f (e2wPairs a) = a.map (·.map f) := by
  unfold e2wCollect
  apply Array.ext_getElem?
  intro j
  by_cases hj : j < a.size
  · cases haj : a[j] with
    | none =>
      rw [e2wStep_get_of_not_mem]
      · simp [hj, haj]
      · intro w hw
        have := (mem_e2wPairs a j w).mp hw
        rw [Array.getElem?_eq_getElem hj, haj] at this
        cases this
    | some w =>
      rw [e2wStep_get_of_mem f _ _ j w (e2wPairs_nodup a) (by simpa using hj)
        ((mem_e2wPairs a j w).mpr (by rw [Array.getElem?_eq_getElem hj, haj]))]
      simp [hj, haj]
  · have h1 : ¬ j < (List.foldl (fun a p => a.setIfInBounds p.1 (some (f p.2))) (Array.replicate a.size none)
        (e2wPairs a)).size := by rw [e2wStep_size]; simpa using hj
    rw [Array.getElem?_eq_none (Nat.le_of_not_lt h1), Array.getElem?_eq_none (by simpa using hj)]

/-- … for every hash order of `expr_to_widx`. -/
theorem e2wCollect_ord (enum : List (Nat × Nat) → List (Nat × Nat)) (hperm : ∀ l, (enum l).Perm l)
    (f : Nat → Nat) (a : Array (Option Nat)) :
    e2wCollect a.size f (enum (e2wPairs a)) = a.map (·.map f) := by
  rw [← e2wCollect_pairs]
  exact e2wCollect_perm _ _ (hperm _) (((hperm _).map _).nodup_iff.mpr (e2wPairs_nodup _))

section
variable {K : Type}

/-- The canonical `expr_to_widx` of the ordered model is the array `compile` stores. -/
theorem finalE2w_eq (l : Lowered K) : finalE2w l = l.e2w.map (·.map (resolve (dedup l.ops).2)) :=
  e2wCollect_pairs _ _

end

/-! ## 2. The fusion invariant -/

section fusion
variable {K : Type}
open P3R.C03

theorem filterMap_key_sublist {α β : Type} (g : α × Nat → Option β) (key : β → Nat) (l : List (α × Nat))
    (h : ∀ p ∈ l, ∀ c, g p = some c → key c = p.2) :
    ((l.filterMap g).map key).Sublist (l.map Prod.snd) := by
  induction l with
  | nil => simp
  | cons p l ih =>
    have ih' := ih fun q hq => h q (List.mem_cons_of_mem _ hq)
    cases hg : g p with
    | none =>
      simp only [List.filterMap_cons, hg, List.map_cons]
      exact ih'.trans (List.sublist_cons_self _ _)
    | some c =>
      simp only [List.filterMap_cons, hg, List.map_cons]
      rw [h p List.mem_cons_self c hg]
      exact ih'.cons_cons _

/-- Candidates are keyed by their add position (`candidates: HashMap<usize, _>`). -/
theorem candidates_addIdx_nodup (ops : Array (Op K)) (inputs : List Nat) :
    (((Fusion.new ops inputs).candidates ops).map (·.addIdx)).Nodup := by
  rw [candidates_eq]
  apply (filterMap_key_sublist (candOf (Fusion.new ops inputs)) (·.addIdx) _ ?_).nodup
  · rw [List.zipIdx_map_snd]; exact List.nodup_range'
  · intro p hp c hc
    exact (candOf_ok ops inputs p c (List.mem_zipIdx_iff_getElem?.mp hp) hc).1

theorem cand_eq_of_addIdx (ops : Array (Op K)) (inputs : List Nat) {c c' : Cand K}
    (hc : c ∈ (Fusion.new ops inputs).candidates ops) (hc' : c' ∈ (Fusion.new ops inputs).candidates ops)
    (he : c.addIdx = c'.addIdx) : c = c' := by
  obtain ⟨_, op, h1, h2⟩ := candidates_ok ops inputs c hc
  obtain ⟨_, op', h1', h2'⟩ := candidates_ok ops inputs c' hc'
  rw [he] at h1 h2
  rw [h1] at h1'
  simp only [Option.some.injEq] at h1'; subst h1'
  rw [h2] at h2'
  exact Option.some.inj h2'

/-- Two candidates with the same mul position are the same candidate: the product slot of a candidate
is read exactly once, so both adds are the same op. No hypothesis on the op list. -/
theorem cand_eq_of_mulIdx (ops : Array (Op K)) (inputs : List Nat) {c c' : Cand K}
    (hc : c ∈ (Fusion.new ops inputs).candidates ops) (hc' : c' ∈ (Fusion.new ops inputs).candidates ops)
    (he : c.mulIdx = c'.mulIdx) : c = c' := by
  apply cand_eq_of_addIdx ops inputs hc hc'
  obtain ⟨ma, mb, m, x, y, ioA, ioM, h_op, h_mul, h_add, h_or, h_r, h_w⟩ := (candidates_ok ops inputs c hc).1.ex
  obtain ⟨ma', mb', m', x', y', ioA', ioM', h_op', h_mul', h_add', h_or', h_r', h_w'⟩ :=
    (candidates_ok ops inputs c' hc').1.ex
  rw [he, h_mul'] at h_mul
  simp only [Option.some.injEq, Op.alu.injEq, true_and] at h_mul
  obtain ⟨_, _, hm, _⟩ := h_mul
  subst hm
  by_contra hne
  have h1 : 1 ≤ (reads (.alu .add x y none c.out ioA : Op K)).count m' := by
    rw [reads_add]; rcases h_or with ⟨rfl, _⟩ | ⟨_, rfl⟩ <;> simp [List.count_cons]
  have h2 : 1 ≤ (reads (.alu .add x' y' none c'.out ioA' : Op K)).count m' := by
    rw [reads_add]; rcases h_or' with ⟨rfl, _⟩ | ⟨_, rfl⟩ <;> simp [List.count_cons]
  have := two_le_sum (fun op => (reads op).count m') ops.toList c.addIdx c'.addIdx _ _ hne h_add h_add'
  omega

/-- **Half of the fusion invariant, for every op list**: the keys of `mul_replacements` (`apply`) are
pairwise distinct over the candidate set. -/
theorem candidates_mulIdx_nodup (ops : Array (Op K)) (inputs : List Nat) :
    (((Fusion.new ops inputs).candidates ops).map (·.mulIdx)).Nodup :=
  List.Nodup.map_on (fun _ hc _ hc' he => cand_eq_of_mulIdx ops inputs hc hc' he)
    (List.Nodup.of_map _ (candidates_addIdx_nodup ops inputs))

/-! ### `scan_defs`, position by position

`Sh n f f'`: what the non-`Const` part of one `scan_defs` iteration at position `n` does to the state:
new `defs` entries carry position `n`, are not `Const` and are for slots that are not `Const`-defined
(`insert_def` refuses those), new `backwards_computed` entries carry position `n`, `writer_counts` is
bumped for the slots `wr`. -/

def ncD : OpDef K → Bool
  | .const _ => false
  | _ => true

/-- `is_const` as a function of the `defs` map. -/
def isConstL (defs : List (Nat × (Nat × OpDef K))) (w : Nat) : Bool :=
  match defs.lookup w with
  | some (_, .const _) => true
  | _ => false

theorem isConst_eq (f : Fusion K) (w : Nat) : f.isConst w = isConstL f.defs w := rfl

theorem isConstL_cons (e : Nat × (Nat × OpDef K)) (l : List (Nat × (Nat × OpDef K))) (w : Nat) :
    isConstL (e :: l) w = if w = e.1 then !(ncD e.2.2) else isConstL l w := by
  obtain ⟨k, i, d⟩ := e
  unfold isConstL
  by_cases h : w = k
  · subst h
    cases d <;> simp [List.lookup, ncD]
  · have : (w == k) = false := by simpa using h
    simp [List.lookup, this, h]

theorem isConstL_append_nc (nd l : List (Nat × (Nat × OpDef K)))
    (hnd : ∀ e ∈ nd, ncD e.2.2 = true ∧ isConstL l e.1 = false) (w : Nat) :
    isConstL (nd ++ l) w = isConstL l w := by
  induction nd with
  | nil => rfl
  | cons e nd ih =>
    rw [List.cons_append, isConstL_cons]
    have he := hnd e List.mem_cons_self
    split
    · next h => subst h; rw [he.1, he.2]; rfl
    · exact ih fun e' he' => hnd e' (List.mem_cons_of_mem _ he')

structure Sh (n : Nat) (f f' : Fusion K) (nb : List (Nat × Nat)) (wr : List Nat) : Prop where
  defs : ∃ nd, f'.defs = nd ++ f.defs ∧ ∀ e ∈ nd, e.2.1 = n ∧ ncD e.2.2 = true ∧ f.isConst e.1 = false
  bw : f'.backwards = nb ++ f.backwards
  nb_ok : ∀ e ∈ nb, e.2 = n
  inputs : f'.inputs = f.inputs
  writers : ∀ x, cnt f'.writers x = cnt f.writers x + wr.count x

theorem Sh.isConst {n : Nat} {f f' : Fusion K} {nb : List (Nat × Nat)} {wr : List Nat} (h : Sh n f f' nb wr)
    (w : Nat) : f'.isConst w = f.isConst w := by
  obtain ⟨nd, hd, hnd⟩ := h.defs
  rw [isConst_eq, isConst_eq, hd]
  exact isConstL_append_nc nd f.defs (fun e he => ⟨(hnd e he).2.1, (hnd e he).2.2⟩) w

theorem Sh.refl (n : Nat) (f : Fusion K) : Sh n f f [] [] :=
  ⟨⟨[], rfl, by simp⟩, rfl, by simp, rfl, by simp⟩

theorem Sh.trans {n : Nat} {f f1 f2 : Fusion K} {nb1 nb2 : List (Nat × Nat)} {wr1 wr2 : List Nat}
    (h1 : Sh n f f1 nb1 wr1) (h2 : Sh n f1 f2 nb2 wr2) : Sh n f f2 (nb2 ++ nb1) (wr1 ++ wr2) := by
  obtain ⟨nd1, hd1, hnd1⟩ := h1.defs
  obtain ⟨nd2, hd2, hnd2⟩ := h2.defs
  refine ⟨⟨nd2 ++ nd1, by rw [hd2, hd1, List.append_assoc], ?_⟩, by rw [h2.bw, h1.bw, List.append_assoc], ?_,
    h2.inputs.trans h1.inputs, ?_⟩
  · intro e he
    rcases List.mem_append.mp he with he | he
    · have := hnd2 e he
      exact ⟨this.1, this.2.1, by rw [← h1.isConst]; exact this.2.2⟩
    · exact hnd1 e he
  · intro e he
    rcases List.mem_append.mp he with he | he
    · exact h2.nb_ok e he
    · exact h1.nb_ok e he
  · intro x
    rw [h2.writers, h1.writers, List.count_append]; omega

theorem Sh.insertDef (n : Nat) (f : Fusion K) (w : Nat) (d : OpDef K) (hd : ncD d = true) :
    Sh n f (f.insertDef w n d) [] [w] ∧
    (f.isConst w = false → (f.insertDef w n d).defs.lookup w = some (n, d)) := by
  unfold Fusion.insertDef
  dsimp only
  have hw : ∀ x, cnt (bump f.writers w) x = cnt f.writers x + [w].count x := by
    intro x
    rw [cnt_bump]
    by_cases hx : x = w
    · subst hx; simp
    · have : ¬ w = x := fun h => hx h.symm
      simp [hx, List.count_cons, this]
  split
  · next h =>
    have h' : f.isConst w = true := h
    exact ⟨⟨⟨[], rfl, by simp⟩, rfl, by simp, rfl, hw⟩, fun hc => by rw [h'] at hc; cases hc⟩
  · next h =>
    have h' : f.isConst w = false := by
      cases hh : f.isConst w
      · rfl
      · exact absurd hh h
    refine ⟨⟨⟨[(w, (n, d))], rfl, ?_⟩, rfl, by simp, rfl, hw⟩, fun _ => by simp [List.lookup]⟩
    intro e he
    simp only [List.mem_singleton] at he
    subst he
    exact ⟨rfl, hd, h'⟩

theorem Sh.foldInsert (n : Nat) (l : List Nat) (f : Fusion K) :
    Sh n f (l.foldl (fun f w => f.insertDef w n .other) f) [] l := by
  induction l generalizing f with
  | nil => exact Sh.refl n f
  | cons a l ih =>
    have h1 := (Sh.insertDef n f a .other rfl).1
    have := h1.trans (ih (f.insertDef a n .other))
    simpa using this

theorem Sh.track (n : Nat) (f : Fusion K) (out b : Nat) :
    (f.isBackwards n out = true ∧ Sh n f (f.trackBackwards n out b) [(b, n)] [b]) ∨
    (f.isBackwards n out = false ∧ f.trackBackwards n out b = f) := by
  unfold Fusion.trackBackwards
  by_cases h : f.isBackwards n out = true
  · left
    rw [if_pos h]
    refine ⟨h, ?_⟩
    have h0 : Sh n f ({ f with backwards := (b, n) :: f.backwards } : Fusion K) [(b, n)] [] :=
      ⟨⟨[], rfl, by simp⟩, rfl, by simp, rfl, by simp⟩
    have := h0.trans (Sh.insertDef n ({ f with backwards := (b, n) :: f.backwards } : Fusion K) b .other rfl).1
    simpa using this
  · right
    rw [if_neg h]
    exact ⟨by cases hh : f.isBackwards n out <;> simp_all, rfl⟩

theorem lookup_isSome_of_mem {β : Type} (l : List (Nat × β)) (k : Nat) (v : β) (h : (k, v) ∈ l) :
    ∃ v', l.lookup k = some v' := by
  induction l with
  | nil => cases h
  | cons a l ih =>
    obtain ⟨k', v'⟩ := a
    by_cases hk : k = k'
    · subst hk; exact ⟨v', by simp [List.lookup]⟩
    · have : (k == k') = false := by simpa using hk
      rcases List.mem_cons.mp h with h | h
      · cases h; exact absurd rfl hk
      · obtain ⟨v'', hv⟩ := ih h
        exact ⟨v'', by simp [List.lookup, this, hv]⟩

/-- Number of times an op writes slot `x` (`C03.wOut` plus the outputs of hints / table ops). -/
def wAll (x : Nat) : Op K → Nat
  | .hint _ outs _ => outs.count x
  | .npo _ outs _ _ => outs.flatten.count x
  | op => wOut x op

/-- What one iteration of `scan_defs` at position `n` does (every op kind). -/
theorem defStep_shape (f : Fusion K) (op : Op K) (n : Nat) :
    ∃ nb : List (Nat × Nat),
      (∃ nd, (defStep f (op, n)).defs = nd ++ f.defs ∧ ∀ e ∈ nd, e.2.1 = n) ∧
      (defStep f (op, n)).backwards = nb ++ f.backwards ∧ (∀ e ∈ nb, e.2 = n) ∧
      (defStep f (op, n)).inputs = f.inputs ∧
      (∀ w, f.isConst w = true → (defStep f (op, n)).isConst w = true) ∧
      (∀ x, cnt f.writers x + wAll x op + (nb.map Prod.fst).count x ≤ cnt (defStep f (op, n)).writers x) ∧
      (∀ a b o io, op = .alu .add a b none o io →
        (f.isBackwards n o = true → (b, n) ∈ nb) ∧
        ((defStep f (op, n)).isConst o = false → ∃ e, (defStep f (op, n)).defs.lookup o = some e)) := by
  -- from a `Sh` description
  have ofSh : ∀ (f' : Fusion K) (nb : List (Nat × Nat)) (wr : List Nat), Sh n f f' nb wr →
      (∃ nd, f'.defs = nd ++ f.defs ∧ ∀ e ∈ nd, e.2.1 = n) ∧
      f'.backwards = nb ++ f.backwards ∧ (∀ e ∈ nb, e.2 = n) ∧ f'.inputs = f.inputs ∧
      (∀ w, f.isConst w = true → f'.isConst w = true) := by
    intro f' nb wr h
    obtain ⟨nd, hd, hnd⟩ := h.defs
    exact ⟨⟨nd, hd, fun e he => (hnd e he).1⟩, h.bw, h.nb_ok, h.inputs, fun w hw => by rw [h.isConst]; exact hw⟩
  cases op with
  | const out v =>
    refine ⟨[], ⟨[(out, (n, .const v))], rfl, by simp⟩, rfl, by simp, rfl, ?_, ?_, ?_⟩
    · intro w hw
      show isConstL ((out, (n, OpDef.const v)) :: f.defs) w = true
      rw [isConstL_cons]
      split
      · rfl
      · exact hw
    · intro x
      simp only [defStep, wAll, wOut, outSlot, cnt_bump, List.map_nil, List.count_nil]
      by_cases hx : x = out
      · subst hx; simp
      · have : ¬ out = x := fun h => hx h.symm
        simp [hx, this]
    · intro a b o io h; cases h
  | pub out pos =>
    obtain ⟨h1, h2⟩ := Sh.insertDef n f out .other rfl
    obtain ⟨a1, a2, a3, a4, a5⟩ := ofSh _ _ _ h1
    refine ⟨[], a1, a2, a3, a4, a5, ?_, ?_⟩
    · intro x
      have := h1.writers x
      simp only [defStep, wAll, wOut, outSlot, List.map_nil, List.count_nil] at this ⊢
      rw [this]
      by_cases hx : out = x
      · subst hx; simp
      · simp [hx, List.count_cons]
    · intro a b o io h; cases h
  | hint ins outs kind =>
    have h1 := Sh.foldInsert n outs f
    obtain ⟨a1, a2, a3, a4, a5⟩ := ofSh _ _ _ h1
    refine ⟨[], a1, a2, a3, a4, a5, ?_, ?_⟩
    · intro x
      have := h1.writers x
      simp only [defStep, wAll, wOut, outSlot, List.map_nil, List.count_nil, reduceCtorEq, if_false] at this ⊢
      omega
    · intro a b o io h; cases h
  | npo ins outs opId kind =>
    have h1 := Sh.foldInsert n outs.flatten f
    obtain ⟨a1, a2, a3, a4, a5⟩ := ofSh _ _ _ h1
    refine ⟨[], a1, a2, a3, a4, a5, ?_, ?_⟩
    · intro x
      have := h1.writers x
      simp only [defStep, wAll, wOut, outSlot, List.map_nil, List.count_nil, reduceCtorEq, if_false] at this ⊢
      omega
    · intro a b o io h; cases h
  | alu k a b c out io =>
    -- the two generic shapes
    have direct : ∀ d : OpDef K, ncD d = true →
        ∃ nb : List (Nat × Nat),
          (∃ nd, (f.insertDef out n d).defs = nd ++ f.defs ∧ ∀ e ∈ nd, e.2.1 = n) ∧
          (f.insertDef out n d).backwards = nb ++ f.backwards ∧ (∀ e ∈ nb, e.2 = n) ∧
          (f.insertDef out n d).inputs = f.inputs ∧
          (∀ w, f.isConst w = true → (f.insertDef out n d).isConst w = true) ∧
          (∀ x, cnt f.writers x + (if out = x then 1 else 0) + (nb.map Prod.fst).count x
            ≤ cnt (f.insertDef out n d).writers x) := by
      intro d hd
      obtain ⟨h1, h2⟩ := Sh.insertDef n f out d hd
      obtain ⟨a1, a2, a3, a4, a5⟩ := ofSh _ _ _ h1
      refine ⟨[], a1, a2, a3, a4, a5, ?_⟩
      intro x
      have := h1.writers x
      simp only [List.map_nil, List.count_nil] at this ⊢
      rw [this]
      by_cases hx : out = x
      · subst hx; simp
      · simp [hx, List.count_cons]
    have viaTB : ∀ d : OpDef K, ncD d = true →
        ∃ nb : List (Nat × Nat),
          (∃ nd, ((f.trackBackwards n out b).insertDef out n d).defs = nd ++ f.defs ∧ ∀ e ∈ nd, e.2.1 = n) ∧
          ((f.trackBackwards n out b).insertDef out n d).backwards = nb ++ f.backwards ∧ (∀ e ∈ nb, e.2 = n) ∧
          ((f.trackBackwards n out b).insertDef out n d).inputs = f.inputs ∧
          (∀ w, f.isConst w = true → ((f.trackBackwards n out b).insertDef out n d).isConst w = true) ∧
          (∀ x, cnt f.writers x + (if out = x then 1 else 0) + (nb.map Prod.fst).count x
            ≤ cnt ((f.trackBackwards n out b).insertDef out n d).writers x) ∧
          (f.isBackwards n out = true → (b, n) ∈ nb) ∧
          (((f.trackBackwards n out b).insertDef out n d).isConst out = false →
            ∃ e, ((f.trackBackwards n out b).insertDef out n d).defs.lookup out = some e) := by
      intro d hd
      obtain ⟨k1, k2⟩ := Sh.insertDef n (f.trackBackwards n out b) out d hd
      have hlook : ((f.trackBackwards n out b).insertDef out n d).isConst out = false →
          ∃ e, ((f.trackBackwards n out b).insertDef out n d).defs.lookup out = some e := by
        intro hc
        rw [k1.isConst] at hc
        exact ⟨_, k2 hc⟩
      rcases Sh.track n f out b with ⟨hb, h1⟩ | ⟨hb, h1⟩
      · have h2 := h1.trans k1
        obtain ⟨a1, a2, a3, a4, a5⟩ := ofSh _ _ _ h2
        refine ⟨_, a1, a2, a3, a4, a5, ?_, fun _ => by simp, hlook⟩
        intro x
        have := h2.writers x
        rw [this]
        simp only [List.nil_append, List.map_cons, List.map_nil, List.count_cons, List.count_nil,
          List.cons_append, beq_iff_eq]
        by_cases hx : out = x <;> by_cases hbx : b = x <;> simp [hx, hbx]
      · rw [h1] at k1 hlook ⊢
        obtain ⟨a1, a2, a3, a4, a5⟩ := ofSh _ _ _ k1
        refine ⟨[], a1, a2, a3, a4, a5, ?_, fun h => (by rw [hb] at h; cases h), hlook⟩
        intro x
        have := k1.writers x
        simp only [List.map_nil, List.count_nil] at this ⊢
        rw [this]
        by_cases hx : out = x
        · subst hx; simp
        · simp [hx, List.count_cons]
    have noAdd : ∀ {k' : AluKind} {c' : Option Nat}, (k' ≠ .add ∨ c' ≠ none) →
        ∀ a' b' o' io', (Op.alu k' a b c' out io : Op K) = .alu .add a' b' none o' io' → False := by
      intro k' c' h a' b' o' io' he
      simp only [Op.alu.injEq] at he
      rcases h with h | h
      · exact h he.1
      · exact h he.2.2.2.1
    cases k with
    | add =>
      cases c with
      | none =>
        obtain ⟨nb, a1, a2, a3, a4, a5, a6, a7, a8⟩ := viaTB .other rfl
        refine ⟨nb, a1, a2, a3, a4, a5, ?_, ?_⟩
        · intro x; simpa [defStep, wAll, wOut, outSlot] using a6 x
        · intro a' b' o' io' he
          simp only [Op.alu.injEq, true_and] at he
          obtain ⟨rfl, rfl, rfl, rfl⟩ := he
          exact ⟨a7, a8⟩
      | some cv =>
        obtain ⟨nb, a1, a2, a3, a4, a5, a6⟩ := direct .other rfl
        refine ⟨nb, a1, a2, a3, a4, a5, ?_, fun a' b' o' io' he => (noAdd (Or.inr (by simp)) a' b' o' io' he).elim⟩
        intro x; simpa [defStep, wAll, wOut, outSlot] using a6 x
    | boolCheck =>
      obtain ⟨nb, a1, a2, a3, a4, a5, a6⟩ := direct .other rfl
      refine ⟨nb, a1, a2, a3, a4, a5, ?_, fun a' b' o' io' he => (noAdd (Or.inl (by simp)) a' b' o' io' he).elim⟩
      intro x; simpa [defStep, wAll, wOut, outSlot] using a6 x
    | mulAdd =>
      obtain ⟨nb, a1, a2, a3, a4, a5, a6⟩ := direct .other rfl
      refine ⟨nb, a1, a2, a3, a4, a5, ?_, fun a' b' o' io' he => (noAdd (Or.inl (by simp)) a' b' o' io' he).elim⟩
      intro x; simpa [defStep, wAll, wOut, outSlot] using a6 x
    | horner =>
      obtain ⟨nb, a1, a2, a3, a4, a5, a6⟩ := direct .other rfl
      refine ⟨nb, a1, a2, a3, a4, a5, ?_, fun a' b' o' io' he => (noAdd (Or.inl (by simp)) a' b' o' io' he).elim⟩
      intro x; simpa [defStep, wAll, wOut, outSlot] using a6 x
    | mul =>
      cases c with
      | none =>
        obtain ⟨nb, a1, a2, a3, a4, a5, a6, a7, a8⟩ := viaTB (.mul a b) rfl
        refine ⟨nb, a1, a2, a3, a4, a5, ?_, fun a' b' o' io' he => (noAdd (Or.inl (by simp)) a' b' o' io' he).elim⟩
        intro x; simpa [defStep, wAll, wOut, outSlot] using a6 x
      | some cv =>
        obtain ⟨nb, a1, a2, a3, a4, a5, a6⟩ := direct .other rfl
        refine ⟨nb, a1, a2, a3, a4, a5, ?_, fun a' b' o' io' he => (noAdd (Or.inl (by simp)) a' b' o' io' he).elim⟩
        intro x; simpa [defStep, wAll, wOut, outSlot] using a6 x

/-- Invariant of `scan_defs` after the ops `pre` (a prefix of `l`). -/
structure ScanInv (l pre : List (Op K)) (f : Fusion K) : Prop where
  defsLt : ∀ w i d, (w, (i, d)) ∈ f.defs → i < pre.length
  bwLt : ∀ x p, (x, p) ∈ f.backwards → p < pre.length
  /-- `backwards_computed.get(x)` is the *last* position recorded for `x` -/
  bwLast : ∀ x q, (x, q) ∈ f.backwards → ∃ p, f.backwards.lookup x = some p ∧ q ≤ p
  /-- `writer_counts` counts the writing ops *and* the backwards records -/
  wr : ∀ x, (pre.map (wAll x)).sum + (f.backwards.map Prod.fst).count x ≤ cnt f.writers x
  defd : ∀ i x y o io, i < pre.length → l[i]? = some (.alu .add x y none o io) → f.isConst o = false →
    ∃ e, f.defs.lookup o = some e
  /-- the later of two plain adds with one `out` is recorded as a backwards op -/
  recd : ∀ i j x y a b o io io', i < j → j < pre.length → l[i]? = some (.alu .add x y none o io) →
    l[j]? = some (.alu .add a b none o io') → f.isConst o = false → (b, j) ∈ f.backwards

theorem ScanInv.step (l pre rest : List (Op K)) (op : Op K) (hl : l = pre ++ op :: rest) (f : Fusion K)
    (h : ScanInv l pre f) : ScanInv l (pre ++ [op]) (defStep f (op, pre.length)) := by
  obtain ⟨nb, ⟨nd, hd, hnd⟩, hb, hnb, hin, hconst, hwr, hadd⟩ := defStep_shape f op pre.length
  have hln : l[pre.length]? = some op := by rw [hl]; simp
  have hlen : (pre ++ [op]).length = pre.length + 1 := by simp
  have hcf : ∀ o, (defStep f (op, pre.length)).isConst o = false → f.isConst o = false := by
    intro o ho
    cases hh : f.isConst o
    · rfl
    · rw [hconst o hh] at ho; cases ho
  refine ⟨?_, ?_, ?_, ?_, ?_, ?_⟩
  · intro w i d hm
    rw [hd] at hm
    rcases List.mem_append.mp hm with hm | hm
    · have := hnd _ hm; simp only at this; omega
    · have := h.defsLt w i d hm; omega
  · intro x p hm
    rw [hb] at hm
    rcases List.mem_append.mp hm with hm | hm
    · have := hnb _ hm; simp only at this; omega
    · have := h.bwLt x p hm; omega
  · intro x q hm
    rw [hb] at hm ⊢
    rw [List.lookup_append]
    cases hlk : nb.lookup x with
    | none =>
      simp only [Option.none_or]
      rcases List.mem_append.mp hm with hm | hm
      · obtain ⟨v, hv⟩ := lookup_isSome_of_mem nb x q hm
        rw [hlk] at hv; cases hv
      · exact h.bwLast x q hm
    | some p' =>
      simp only [Option.some_or]
      have hp' : p' = pre.length := hnb _ (lookup_mem nb x p' hlk)
      refine ⟨p', rfl, ?_⟩
      rcases List.mem_append.mp hm with hm | hm
      · have := hnb _ hm; simp only at this; omega
      · have := h.bwLt x q hm; omega
  · intro x
    have a := hwr x
    have b := h.wr x
    rw [hb]
    simp only [List.map_append, List.sum_append, List.count_append, List.map_cons, List.map_nil, List.sum_cons,
      List.sum_nil]
    omega
  · intro i x y o io hi hli hc
    rw [hlen] at hi
    by_cases hin' : i < pre.length
    · obtain ⟨e, he⟩ := h.defd i x y o io hin' hli (hcf o hc)
      rw [hd, List.lookup_append, he]
      cases nd.lookup o <;> simp
    · have : i = pre.length := by omega
      subst this
      rw [hln] at hli
      simp only [Option.some.injEq] at hli
      exact (hadd x y o io hli).2 hc
  · intro i j x y a b o io io' hij hj hli hlj hc
    rw [hlen] at hj
    rw [hb]
    by_cases hjn : j < pre.length
    · exact List.mem_append_right _ (h.recd i j x y a b o io io' hij hjn hli hlj (hcf o hc))
    · have : j = pre.length := by omega
      subst this
      rw [hln] at hlj
      simp only [Option.some.injEq] at hlj
      obtain ⟨e, he⟩ := h.defd i x y o io hij hli (hcf o hc)
      have hlt : e.1 < pre.length := h.defsLt o e.1 e.2 (lookup_mem _ _ _ he)
      have hbk : f.isBackwards pre.length o = true := by
        unfold Fusion.isBackwards Fusion.defIdx
        rw [he]
        simp [hlt]
      exact List.mem_append_left _ ((hadd a b o io' hlj).1 hbk)

theorem ScanInv.fold (l : List (Op K)) : ∀ (rest pre : List (Op K)) (f : Fusion K), l = pre ++ rest →
    ScanInv l pre f → ScanInv l l ((rest.zipIdx pre.length).foldl defStep f) := by
  intro rest
  induction rest with
  | nil =>
    intro pre f hl h
    simp only [List.append_nil] at hl
    subst hl
    exact h
  | cons op rest ih =>
    intro pre f hl h
    simp only [List.zipIdx_cons, List.foldl_cons]
    have := ih (pre ++ [op]) (defStep f (op, pre.length)) (by rw [hl]; simp) (ScanInv.step l pre rest op hl f h)
    simpa using this

/-- What `MulAddFusion::with_inputs` establishes beyond `C03.new_props`. -/
theorem scan_inv (ops : Array (Op K)) (inputs : List Nat) :
    ScanInv ops.toList ops.toList (Fusion.new ops inputs) := by
  unfold Fusion.new
  rw [scanDefs_eq]
  refine ScanInv.fold ops.toList ops.toList [] _ rfl ⟨?_, ?_, ?_, ?_, ?_, ?_⟩
  · intro w i d h; cases h
  · intro x p h; cases h
  · intro x q h; cases h
  · intro x; simp
  · intro i x y o io h; cases h
  · intro i j x y a b o io io' _ h; cases h

/-- What a successful `try_fuse` has checked (the parts `C03.tryFuse_some` does not export). -/
theorem tryFuse_some' (f : Fusion K) (mr ad out ai : Nat) (c : Cand K) (h : f.tryFuse mr ad out ai = some c) :
    ∃ mi ma mb, f.defs.lookup mr = some (mi, .mul ma mb) ∧ f.uses mr = 1 ∧ cnt f.writers mr = 1 ∧
      f.inputs.contains mr = false ∧ (∀ p, f.backwards.lookup ad = some p → p < mi) ∧ c.mulIdx = mi := by
  unfold Fusion.tryFuse at h
  split at h
  · next mi ma mb hl =>
    split_ifs at h with h1 h2 h3 h4 h5
    simp only [Option.some.injEq] at h
    simp only [Bool.or_eq_true, decide_eq_true_eq, not_or, ne_eq, Decidable.not_not] at h1 h2
    refine ⟨mi, ma, mb, hl, h1.1, h2.1, ?_, ?_, by rw [← h]⟩
    · cases hh : f.inputs.contains mr
      · rfl
      · exact absurd hh h2.2
    · intro p hp
      rw [hp] at h4
      simpa using h4
  · simp at h

theorem fold_inputs (ps : List (Op K × Nat)) (f : Fusion K) : (ps.foldl defStep f).inputs = f.inputs := by
  induction ps generalizing f with
  | nil => rfl
  | cons p ps ih =>
    rw [List.foldl_cons, ih]
    obtain ⟨_, _, _, _, hin, _⟩ := defStep_shape f p.1 p.2
    exact hin

theorem new_inputs (ops : Array (Op K)) (inputs : List Nat) : (Fusion.new ops inputs).inputs = inputs := by
  unfold Fusion.new
  rw [scanDefs_eq, fold_inputs]

/-- **Why two candidates cannot share an output.** If two candidates write the same slot, the later
add was recorded by `track_backwards_op` when it was scanned; `try_fuse` then accepts it only in the
orientation "first operand is the product", and only when its mul stands *after* it (in the other
orientation the record is a second writer of the product slot). No hypothesis on the op list. -/
theorem later_shared_out (ops : Array (Op K)) (inputs : List Nat) {c c' : Cand K}
    (hc : c ∈ (Fusion.new ops inputs).candidates ops) (hc' : c' ∈ (Fusion.new ops inputs).candidates ops)
    (ho : c.out = c'.out) (hlt : c.addIdx < c'.addIdx) :
    ∃ x' y' io ma mb ioM,
      ops.toList[c'.addIdx]? = some (.alu .add x' y' none c'.out io) ∧
      ops.toList[c'.mulIdx]? = some (.alu .mul ma mb none x' ioM) ∧ c'.addIdx < c'.mulIdx ∧
      (Fusion.new ops inputs).uses x' = 1 ∧ cnt (Fusion.new ops inputs).writers x' = 1 ∧
      inputs.contains x' = false := by
  have hinv := scan_inv ops inputs
  obtain ⟨hok, _⟩ := candidates_ok ops inputs c hc
  obtain ⟨hok', op', hop', hcand'⟩ := candidates_ok ops inputs c' hc'
  obtain ⟨ma, mb, m, x, y, ioA, ioM, h_op, h_mul, h_add, h_or, h_r, h_w⟩ := hok.ex
  obtain ⟨ma', mb', m', x', y', ioA', ioM', h_op', h_mul', h_add', h_or', h_r', h_w'⟩ := hok'.ex
  rw [h_add'] at hop'
  simp only [Option.some.injEq] at hop'
  subst hop'
  rw [ho] at h_add
  have hjlen : c'.addIdx < ops.toList.length := by
    by_contra hge
    rw [List.getElem?_eq_none (by omega)] at h_add'
    cases h_add'
  unfold candOf at hcand'
  simp only at hcand'
  split_ifs at hcand' with hcb
  have hnc : (Fusion.new ops inputs).isConst c'.out = false := by
    cases hh : (Fusion.new ops inputs).isConst c'.out
    · rfl
    · exact absurd (by simp [hh]) hcb
  have hrec := hinv.recd c.addIdx c'.addIdx x y x' y' c'.out ioA ioA' hlt hjlen h_add h_add' hnc
  obtain ⟨p, hp, hjp⟩ := hinv.bwLast _ _ hrec
  split at hcand'
  · next c'' ht =>
    simp only [Option.some.injEq] at hcand'
    subst hcand'
    obtain ⟨mi, ma2, mb2, hl, hu, hw, hi, hbw, hmi⟩ := tryFuse_some' _ _ _ _ _ _ ht
    obtain ⟨io2, hmulop⟩ := (new_props ops inputs).2.2 x' mi ma2 mb2 (lookup_mem _ _ _ hl)
    have := hbw p hp
    rw [new_inputs] at hi
    exact ⟨x', y', ioA', ma2, mb2, io2, h_add', by rw [hmi]; exact hmulop, by omega, hu, hw, hi⟩
  · exfalso
    obtain ⟨mi, ma2, mb2, hl, _, hw1, _, _, _⟩ := tryFuse_some' _ _ _ _ _ _ hcand'
    obtain ⟨io2, hmulop⟩ := (new_props ops inputs).2.2 y' mi ma2 mb2 (lookup_mem _ _ _ hl)
    have h1 := le_sum_of_getElem? (wAll y') ops.toList mi _ hmulop
    have h1' : wAll y' (.alu .mul ma2 mb2 none y' io2 : Op K) = 1 := by simp [wAll, wOut, outSlot]
    have h2 : 1 ≤ ((Fusion.new ops inputs).backwards.map Prod.fst).count y' :=
      List.count_pos_iff.mpr (List.mem_map.mpr ⟨_, hrec, rfl⟩)
    have := hinv.wr y'
    omega

theorem opReads_eq (op : Op K) : opReads op = reads op := by
  cases op <;> rfl

theorem wAll_eq (x : Nat) (op : Op K) : wAll x op = (opWrites op).count x := by
  cases op with
  | const out v => by_cases h : out = x <;> simp [wAll, wOut, outSlot, opWrites, h]
  | pub out pos => by_cases h : out = x <;> simp [wAll, wOut, outSlot, opWrites, h]
  | alu k a b c out io => by_cases h : out = x <;> simp [wAll, wOut, outSlot, opWrites, h]
  | hint _ _ _ => rfl
  | npo _ _ _ _ => rfl

/-- Under def-before-use of first add operands no two candidates share an output. -/
theorem no_shared_out (ops : Array (Op K)) (inputs : List Nat) (hA : aDefined inputs ops.toList = true)
    {c c' : Cand K} (hc : c ∈ (Fusion.new ops inputs).candidates ops)
    (hc' : c' ∈ (Fusion.new ops inputs).candidates ops) (ho : c.out = c'.out) (hlt : c.addIdx < c'.addIdx) :
    False := by
  obtain ⟨x', y', io, ma, mb, ioM, h_add, h_mul, hlt', hu, hw, hi⟩ := later_shared_out ops inputs hc hc' ho hlt
  unfold aDefined at hA
  rw [List.all_eq_true] at hA
  have h1 := hA (_, c'.addIdx) (List.mem_zipIdx_iff_getElem?.mpr h_add)
  simp only [Bool.or_eq_true, List.any_eq_true] at h1
  rcases h1 with h1 | ⟨op, hop, h1⟩
  · rw [hi] at h1; cases h1
  · obtain ⟨i, hi'⟩ := List.mem_iff_getElem?.mp hop
    rw [List.getElem?_take] at hi'
    split at hi'
    · next hij =>
      rcases h1 with h1 | h1
      · -- an earlier op reads the product slot: two reading occurrences
        rw [opReads_eq, List.contains_iff_mem] at h1
        have r1 : 1 ≤ (reads op).count x' := List.count_pos_iff.mpr h1
        have r2 : 1 ≤ (reads (.alu .add x' y' none c'.out io : Op K)).count x' := by
          rw [reads_add]; simp [List.count_cons]
        have := two_le_sum (fun op => (reads op).count x') ops.toList i c'.addIdx _ _ (by omega) hi' h_add
        have hs := (new_props ops inputs).1 x'
        omega
      · -- an earlier op writes the product slot: two writers
        rw [List.contains_iff_mem] at h1
        have w1 : 1 ≤ wAll x' op := by rw [wAll_eq]; exact List.count_pos_iff.mpr h1
        have w2 : wAll x' (.alu .mul ma mb none x' ioM : Op K) = 1 := by simp [wAll, wOut, outSlot]
        have := two_le_sum (wAll x') ops.toList i c'.mulIdx _ _ (by omega) hi' h_mul
        have hs := (scan_inv ops inputs).wr x'
        omega
    · cases hi'

/-- The keys of `fused_positions` are pairwise distinct over the candidate set. -/
theorem candidates_out_nodup (ops : Array (Op K)) (inputs : List Nat) (hA : aDefined inputs ops.toList = true) :
    (((Fusion.new ops inputs).candidates ops).map (·.out)).Nodup := by
  refine List.Nodup.map_on ?_ (List.Nodup.of_map _ (candidates_addIdx_nodup ops inputs))
  intro c hc c' hc' ho
  rcases Nat.lt_trichotomy c.addIdx c'.addIdx with h | h | h
  · exact (no_shared_out ops inputs hA hc hc' ho h).elim
  · exact cand_eq_of_addIdx ops inputs hc hc' h
  · exact (no_shared_out ops inputs hA hc' hc ho.symm h).elim

/-- **The fusion invariant from def-before-use of first add operands**, for every op list and input set. -/
theorem fusionInvariant_of_aDefined (ops : Array (Op K)) (inputs : List Nat)
    (h : aDefined inputs ops.toList = true) : fusionInvariant ops inputs = true := by
  unfold fusionInvariant
  rw [candsDistinct_iff]
  exact ⟨candidates_out_nodup ops inputs h, candidates_mulIdx_nodup ops inputs⟩

end fusion

/-! ## 3. The whole compile path -/

section
variable {K : Type} [Neg K] [Zero K] [DecidableEq K]

theorem fusionInvariantOf_of_aDefinedOf (l : Lowered K) (h : aDefinedOf l = true) : fusionInvariantOf l = true :=
  fusionInvariant_of_aDefined _ _ h

/-- **The ordered build is the fixed-order build.** For every builder state and every valid record of
hash orders, `compileOrd` returns exactly `compileFixed`: the circuit of `P3R.compile` — op list, witness
count, rows, rewrite map *and* `expr_to_widx` —, the sorted generator ids and the canonical tag map, or
the same error. -/
theorem compileOrd_eq_fixed (o : Orders K) (h : o.Valid) (b : BState K) (genKeys : List Nat)
    (tags : List (Nat × Nat))
    (hdef : ∀ l, lower b = .ok l → aDefinedOf l = true)
    (htags : (tags.map Prod.fst).Nodup)
    (htagErr : ∀ c, compile b = .ok c → ∀ x ∈ tags, ∀ y ∈ tags,
      c.e2w.getD x.2 none = none → c.e2w.getD y.2 none = none → x = y) :
    compileOrd o b genKeys tags = compileFixed b genKeys tags := by
  unfold compileOrd compileFixed
  rw [lowerOrd_eq_lower _ h.backfill]
  have hcomp : compile b = match lower b with
      | .error e => .error e
      | .ok l =>
        if !hornerChained (optimize l.ops l.privRows.toList).1.toList then .error .hornerNotChained else
        .ok { witnessCount := l.witnessCount, ops := (optimize l.ops l.privRows.toList).1,
              pubRows := l.pubRows.map (resolve (optimize l.ops l.privRows.toList).2),
              privRows := l.privRows.map (resolve (optimize l.ops l.privRows.toList).2),
              e2w := l.e2w.map (·.map (resolve (optimize l.ops l.privRows.toList).2)),
              rewrite := (optimize l.ops l.privRows.toList).2 } := rfl
  rw [hcomp] at htagErr ⊢
  cases hl : lower b with
  | error e => rfl
  | ok l =>
    rw [hl] at htagErr
    have hf := fusionInvariantOf_of_aDefinedOf l (hdef l hl)
    unfold fusionInvariantOf at hf
    simp only [] at htagErr ⊢
    rw [optimizeOrd_eq _ h.fuse _ _ hf]
    rw [show optimize l.ops l.privRows.toList =
      ((optimize l.ops l.privRows.toList).1, (optimize l.ops l.privRows.toList).2) from rfl]
    simp only []
    by_cases hh : (!hornerChained (optimize l.ops l.privRows.toList).1.toList) = true
    · simp only [hh, if_true]
    · simp only [hh] at htagErr ⊢
      rw [e2wCollect_ord _ h.e2w]
      have ht := tagTransfer_perm
        (fun e => (l.e2w.map (·.map (resolve (optimize l.ops l.privRows.toList).2))).getD e none)
        (h.tags tags) (((h.tags tags).map _).nodup_iff.mpr htags)
        (fun x hx y hy => htagErr _ rfl x ((h.tags _).mem_iff.mp hx) y ((h.tags _).mem_iff.mp hy))
      rw [ht, genOrder_perm (h.genKeys genKeys)]
      simp only [Bool.false_eq_true, if_false]

/-- **C18 — order independence from `aDefinedOf`.** For every builder state, all valid
records of hash orders give the same build — including `expr_to_widx` — and it is the fixed-order
build. Hypotheses left: the two tag hypotheses (both necessary: `Witness.C18Order.tag_error_order_dependent`,
`Witness.C18Total.duplicate_tags_order_dependent`) and `aDefinedOf` — def-before-use of the first
operand of plain adds in the de-duplicated lowered list, an elementary decidable property of the op
list that the driver evaluates per program (`c18inv`).

`aDefinedOf` is discharged for every builder state with `privOk` by `C18L.lower_aDefinedOf`
(`compile_order_independent_total` below); this form is kept for op lists that do not come from `lower`. -/
theorem compile_order_independent_total_partial (o₁ o₂ : Orders K) (h₁ : o₁.Valid) (h₂ : o₂.Valid)
    (b : BState K) (genKeys : List Nat) (tags : List (Nat × Nat))
    (hdef : ∀ l, lower b = .ok l → aDefinedOf l = true)
    (htags : (tags.map Prod.fst).Nodup)
    (htagErr : ∀ c, compile b = .ok c → ∀ x ∈ tags, ∀ y ∈ tags,
      c.e2w.getD x.2 none = none → c.e2w.getD y.2 none = none → x = y) :
    compileOrd o₁ b genKeys tags = compileOrd o₂ b genKeys tags ∧
    compileOrd o₁ b genKeys tags = compileFixed b genKeys tags := by
  rw [compileOrd_eq_fixed o₁ h₁ b genKeys tags hdef htags htagErr,
    compileOrd_eq_fixed o₂ h₂ b genKeys tags hdef htags htagErr]
  exact ⟨rfl, rfl⟩

/-- A successful ordered build *is* the circuit of the fixed-order `compile`, `expr_to_widx` included
(`C18.compileOrd_core` left that field out). -/
theorem compileOrd_core_e2w (o : Orders K) (h : o.Valid) (b : BState K) (genKeys : List Nat)
    (tags : List (Nat × Nat)) (hdef : ∀ l, lower b = .ok l → aDefinedOf l = true)
    (htags : (tags.map Prod.fst).Nodup)
    (htagErr : ∀ c, compile b = .ok c → ∀ x ∈ tags, ∀ y ∈ tags,
      c.e2w.getD x.2 none = none → c.e2w.getD y.2 none = none → x = y)
    (cx : CircuitX K) (hc : compileOrd o b genKeys tags = .ok cx) : compile b = .ok cx.core := by
  rw [compileOrd_eq_fixed o h b genKeys tags hdef htags htagErr] at hc
  unfold compileFixed at hc
  split at hc
  · cases hc
  · split at hc
    · cases hc
    · injection hc with hc
      subst hc
      assumption

/-- **C18 — `compile_order_independent_total`.** For EVERY builder state whose private-input nodes
carry distinct positions (`privOk`: what `alloc_private_input` constructs; decidable, evaluated per
program by the driver — no `BState.Ok`, no per-program fusion hypothesis), every list of generator ids and
every tag map with distinct tags of which at most one points at an expression without a witness: all
valid records of hash orders — `in_connect`, the fusion pass's `valid` set (three iterations per round),
`expr_to_widx`, the trace-generator keys, `tag_to_expr` — give the same build, and it is the
fixed-order build `compileFixed` (op list, witness numbering, rows, rewrite map, `expr_to_widx`,
generator order, tag map, or the same error).

The chain: `C18L.lower_ADef` (the lowering names every first add operand before it reads it) →
`C18L.dedup_ADef` (`Deduplicator::run` keeps that) → `fusionInvariant_of_aDefined` (then no two fusion
candidates share an output; distinct mul positions hold for every op list) → `fuseOrd_eq_fuse` →
`compileOrd_eq_fixed`. The two tag hypotheses are necessary:
`Witness.C18Order.tag_error_order_dependent`, `Witness.C18Total.duplicate_tags_order_dependent`. -/
theorem compile_order_independent_total (o₁ o₂ : Orders K) (h₁ : o₁.Valid) (h₂ : o₂.Valid)
    (b : BState K) (hpo : privOk b = true) (genKeys : List Nat) (tags : List (Nat × Nat))
    (htags : (tags.map Prod.fst).Nodup)
    (htagErr : ∀ c, compile b = .ok c → ∀ x ∈ tags, ∀ y ∈ tags,
      c.e2w.getD x.2 none = none → c.e2w.getD y.2 none = none → x = y) :
    compileOrd o₁ b genKeys tags = compileOrd o₂ b genKeys tags ∧
    compileOrd o₁ b genKeys tags = compileFixed b genKeys tags :=
  compile_order_independent_total_partial o₁ o₂ h₁ h₂ b genKeys tags
    (fun l hl => C18L.lower_aDefinedOf b hpo l hl) htags htagErr

/-- The fusion invariant — until now a per-program hypothesis of `compile_order_independent` — holds for
the lowering of every builder state with `privOk`. -/
theorem fusionInvariantOf_lower (b : BState K) (hpo : privOk b = true) (l : Lowered K)
    (hl : lower b = .ok l) : fusionInvariantOf l = true :=
  fusionInvariantOf_of_aDefinedOf l (C18L.lower_aDefinedOf b hpo l hl)

/-- **C18 for every reachable builder state.** For every builder state reachable from
`ExpressionBuilder::new` through the builder API of `Model/Builder.lean` (`C02T.Reachable`), all valid
records of hash orders give the same build, the fixed-order one. Only the two tag hypotheses are left. -/
theorem compile_order_independent_reachable [One K] [Add K] [Sub K] [Mul K]
    (o₁ o₂ : Orders K) (h₁ : o₁.Valid) (h₂ : o₂.Valid)
    (b : BState K) (hb : C02T.Reachable b) (genKeys : List Nat) (tags : List (Nat × Nat))
    (htags : (tags.map Prod.fst).Nodup)
    (htagErr : ∀ c, compile b = .ok c → ∀ x ∈ tags, ∀ y ∈ tags,
      c.e2w.getD x.2 none = none → c.e2w.getD y.2 none = none → x = y) :
    compileOrd o₁ b genKeys tags = compileOrd o₂ b genKeys tags ∧
    compileOrd o₁ b genKeys tags = compileFixed b genKeys tags :=
  compile_order_independent_total o₁ o₂ h₁ h₂ b (C18L.Reachable.privOk hb) genKeys tags htags htagErr

end

end P3R.C18

#print axioms P3R.C18.compile_order_independent_total
#print axioms P3R.C18.compile_order_independent_reachable
#print axioms P3R.C18.fusionInvariant_of_aDefined
#print axioms P3R.C18.e2wCollect_pairs
