/-
C08, circuit side: the row chain emitted by `add_mmcs_verify` (inject-before-compress, tail
digest after the last sibling) computes the native-order fold `pathSpec`
(compress with the sibling, then inject the next level's digest).
-/
import P3R.Lemmas.MmcsRows

namespace P3R.Mmcs
variable {K : Type} [Zero K] [One K] [DecidableEq K]

/-- 2-to-1 compression of the running digest with a sibling (direction `b`). -/
def comp2 (perm : List K → List K) (d : Nat) (b : Bool) (cur sib : List K) : List K :=
  (perm (pair2 b cur sib)).take d

/-- Injection of a level digest (skipped when the level has no matrices). -/
def injIf (perm : List K → List K) (d : Nat) (cur g : List K) : List K :=
  if g.isEmpty then cur else (perm (cur ++ g)).take d

/-- Native-order fold over the path: at each level compress with the sibling, then inject the
digest of the next level. `gs` = digests of levels 1, 2, …. -/
def pathSpec (perm : List K → List K) (d : Nat) :
    List K → List Bool → List (List K) → List (List K) → List K
  | cur, [], _, _ => cur
  | cur, b :: bs, sibs, gs =>
    pathSpec perm d (injIf perm d (comp2 perm d b cur (sibs.headD [])) (gs.headD [])) bs sibs.tail gs.tail

/-- The non-first part of the path loop followed by the tail injection. -/
def loopTail (perm : List K → List K) (pc : PermCfg) (digs : List (List K)) (dirs : List K)
    (sibs : List (Option (List K))) (st : ExecSt K) (out : List K) : Option (ExecSt K × List K) :=
  match pathLoop perm pc false digs dirs sibs st out with
  | none => none
  | some (st1, out1) =>
    if (digs.getD dirs.length []).isEmpty then some (st1, out1)
    else execRow perm pc st1 (injectRow pc (digs.getD dirs.length []))

omit [Zero K] [One K] [DecidableEq K] in
theorem headD_prop (digs : List (List K)) (r : Nat) (hd : ∀ g ∈ digs, g = [] ∨ g.length = r) :
    digs.headD [] = [] ∨ (digs.headD []).length = r := by
  cases digs with
  | nil => simp
  | cons a l => simpa using hd a (by simp)

/-- Optional injection of a level digest into the Merkle chain. -/
theorem optInject (perm : List K → List K) (pc : PermCfg) (h4 : pc.arity4 = false)
    (hW : pc.W = pc.rate + pc.capw) (hrc : pc.capw = pc.rate)
    (hperm : ∀ x, x.length = pc.W → (perm x).length = pc.W)
    (st : ExecSt K) (prev : List K) (hm : st.merkle = some prev) (hp : prev.length = pc.W)
    (g : List K) (hg : g = [] ∨ g.length = pc.rate) :
    ∃ st1 prev1,
      (if g.isEmpty then some (st, prev) else execRow perm pc st (injectRow pc g)) = some (st1, prev1) ∧
      st1.merkle = some prev1 ∧ prev1.length = pc.W ∧
      prev1.take pc.rate = injIf perm pc.rate (prev.take pc.rate) g := by
  by_cases he : g.isEmpty
  · exact ⟨st, prev, by simp [he], hm, hp, by simp [injIf, he]⟩
  · have hl : g.length = pc.rate := by
      rcases hg with h | h
      · simp [h] at he
      · exact h
    refine ⟨{ st with merkle := some (perm (prev.take pc.rate ++ g)), trace := (prev.take pc.rate ++ g) :: st.trace },
      perm (prev.take pc.rate ++ g), ?_, rfl, hperm _ (by simp [hl]; omega), by simp [injIf, he]⟩
    simp only [he, Bool.false_eq_true, if_false]
    exact execRow_inject perm pc h4 hW hrc st prev hp hm _ hl

theorem loopTail_spec (perm : List K → List K) (pc : PermCfg) (h4 : pc.arity4 = false)
    (hW : pc.W = pc.rate + pc.capw) (hrc : pc.capw = pc.rate)
    (hperm : ∀ x, x.length = pc.W → (perm x).length = pc.W) :
    ∀ (dirs : List K) (bs : List Bool), dirs.map toBool? = bs.map some →
    ∀ (digs sibs : List (List K)) (extra : List (Option (List K))) (st : ExecSt K) (prev : List K),
      st.merkle = some prev → prev.length = pc.W →
      (∀ g ∈ digs, g = [] ∨ g.length = pc.rate) → (∀ s ∈ sibs, s.length = pc.capw) →
      dirs.length ≤ sibs.length →
      ∃ st2 out2, loopTail perm pc digs dirs (sibs.map some ++ extra) st prev = some (st2, out2) ∧
        out2.length = pc.W ∧
        out2.take pc.rate = pathSpec perm pc.rate (injIf perm pc.rate (prev.take pc.rate) (digs.headD [])) bs sibs digs.tail := by
  intro dirs
  induction dirs with
  | nil =>
    intro bs hbs digs sibs extra st prev hm hp hd _ _
    have : bs = [] := by cases bs <;> simp_all
    subst this
    have hg0 : digs.getD 0 [] = digs.headD [] := by cases digs <;> simp
    obtain ⟨st1, prev1, h1, _, hp1, ht1⟩ := optInject perm pc h4 hW hrc hperm st prev hm hp _ (headD_prop digs _ hd)
    refine ⟨st1, prev1, ?_, hp1, ?_⟩
    · unfold loopTail pathLoop
      simp only [List.length_nil]
      rw [hg0]
      exact h1
    · simp only [pathSpec]; exact ht1
  | cons dir dirs ih =>
    intro bs hbs digs sibs extra st prev hm hp hd hs hlen
    cases bs with
    | nil => simp at hbs
    | cons bb bs =>
      simp only [List.map_cons, List.cons.injEq] at hbs
      obtain ⟨hb, hbs'⟩ := hbs
      cases sibs with
      | nil => simp at hlen
      | cons sib sibs =>
        have hsib : sib.length = pc.capw := hs sib (by simp)
        obtain ⟨st1, prev1, hst1, hm1, hp1, htake1⟩ :=
          optInject perm pc h4 hW hrc hperm st prev hm hp _ (headD_prop digs _ hd)
        have hstep := execRow_step perm pc h4 hW st1 prev1 hp1 hm1 dir bb hb sib hsib
        have hp2 : (perm (pair2 bb (prev1.take pc.rate) sib)).length = pc.W := by
          apply hperm
          cases bb <;> simp [pair2, hsib] <;> omega
        obtain ⟨st3, out3, h3, hl3, ht3⟩ := ih bs hbs' digs.tail sibs extra
          { st1 with merkle := some (perm (pair2 bb (prev1.take pc.rate) sib)),
                     trace := pair2 bb (prev1.take pc.rate) sib :: st1.trace }
          (perm (pair2 bb (prev1.take pc.rate) sib)) rfl hp2
          (fun g hg => hd g (List.mem_of_mem_tail hg)) (fun s hs' => hs s (by simp [hs']))
          (by simpa using hlen)
        refine ⟨st3, out3, ?_, hl3, ?_⟩
        · unfold loopTail at h3 ⊢
          unfold pathLoop
          simp only [List.map_cons, List.cons_append, List.headD_cons, List.tail_cons,
            Bool.not_false, Bool.true_and]
          have hst1' : (if (!(digs.headD []).isEmpty) = true then
              Option.map (fun x => x.1) (execRow perm pc st (injectRow pc (digs.headD []))) else some st) = some st1 := by
            by_cases he : (digs.headD []).isEmpty
            · simp only [he] at hst1 ⊢
              simp at hst1 ⊢
              exact hst1.1
            · simp only [he] at hst1 ⊢
              simp only [Bool.false_eq_true, if_false] at hst1
              simp only [Bool.not_false, if_true, hst1, Option.map_some]
          rw [hst1']
          simp only [Bool.false_eq_true, if_false]
          rw [hstep]
          simp only [List.length_cons]
          have hget : digs.getD (dirs.length + 1) [] = digs.tail.getD dirs.length [] := by
            cases digs <;> simp
          rw [hget]
          exact h3
        · rw [ht3]
          simp only [pathSpec, List.headD_cons, List.tail_cons, comp2, htake1]


theorem ite_ok_iff (p : Prop) [Decidable p] :
    (if p then CVerdict.ok else CVerdict.reject) = CVerdict.ok ↔ p := by
  by_cases h : p <;> simp [h]

/-- `add_mmcs_verify` + final `connect`: the runner accepts iff the native-order fold of the
level digests along the path equals the claimed root. -/
theorem mmcsVerify_spec (perm : List K → List K) (pc : PermCfg) (h4 : pc.arity4 = false)
    (hW : pc.W = pc.rate + pc.capw) (hrc : pc.capw = pc.rate)
    (hperm : ∀ x, x.length = pc.W → (perm x).length = pc.W)
    (dirs : List K) (bs : List Bool) (hbs : dirs.map toBool? = bs.map some)
    (g0 : List K) (gs sibs : List (List K)) (root : List K) (st : ExecSt K)
    (hg0 : g0.length = pc.rate) (hgs : ∀ g ∈ gs, g = [] ∨ g.length = pc.rate)
    (hs : ∀ s ∈ sibs, s.length = pc.capw) (hlen : dirs.length ≤ sibs.length)
    (hroot : root.length = pc.rate) :
    (mmcsVerify perm pc (g0 :: gs) dirs sibs root st).1 = .ok ↔
      pathSpec perm pc.rate g0 bs sibs gs = root := by
  cases dirs with
  | nil =>
    have : bs = [] := by cases bs <;> simp_all
    subst this
    unfold mmcsVerify
    simp only [List.isEmpty_nil, if_true, List.headD_cons, pathSpec, hg0, hroot, ne_eq, not_true_eq_false, if_false]
    exact ite_ok_iff _
  | cons dir dirs =>
    cases bs with
    | nil => simp at hbs
    | cons bb bs =>
      simp only [List.map_cons, List.cons.injEq] at hbs
      obtain ⟨hb, hbs'⟩ := hbs
      cases sibs with
      | nil => simp at hlen
      | cons sib sibs =>
        have hsib : sib.length = pc.capw := hs sib (by simp)
        have hfirst := execRow_first perm pc h4 hW st dir bb hb g0 sib hg0 hsib
        have hp2 : (perm (pair2 bb g0 sib)).length = pc.W := by
          apply hperm
          cases bb <;> simp [pair2, hsib, hg0] <;> omega
        obtain ⟨st3, out3, h3, hl3, ht3⟩ := loopTail_spec perm pc h4 hW hrc hperm dirs bs hbs' gs sibs
          (List.replicate (dir :: dirs).length none)
          { st with merkle := some (perm (pair2 bb g0 sib)), trace := pair2 bb g0 sib :: st.trace }
          (perm (pair2 bb g0 sib)) rfl hp2 hgs (fun s hs' => hs s (by simp [hs'])) (by simpa using hlen)
        have ho : (out3.take pc.rate).length = root.length := by simp [hl3, hroot]; omega
        unfold mmcsVerify
        unfold pathLoop
        simp only [List.isEmpty_cons, Bool.false_eq_true, if_false, List.headD_cons, Bool.not_true,
          Bool.false_and, if_true, List.map_cons, List.cons_append, List.tail_cons, List.length_cons]
        rw [hfirst]
        simp only [List.getD_cons_succ]
        unfold loopTail at h3
        cases hpl : pathLoop perm pc false gs dirs (List.map some sibs ++ List.replicate (dirs.length + 1) none)
            { st with merkle := some (perm (pair2 bb g0 sib)), trace := pair2 bb g0 sib :: st.trace }
            (perm (pair2 bb g0 sib)) with
        | none => simp [hpl] at h3
        | some r =>
          obtain ⟨st1, out1⟩ := r
          simp only [hpl, List.length_cons] at h3
          simp only [h3, ho, ne_eq, not_true_eq_false, if_false]
          rw [ht3]
          simp only [pathSpec, List.headD_cons, List.tail_cons, comp2]
          exact ite_ok_iff _

end P3R.Mmcs
