/-
C08, native side (arity 2): under the geometry gate the native walk
(`padded_len` ladder, `takeInjection` at `logical_next`, index arithmetic) computes the same
native-order fold `pathSpec` over the same level digests `levelSpec`, and the arity schedule
is `log2_ceil(max_height) - cap_height` binary steps.
-/
import P3R.Lemmas.MmcsLevels
import P3R.Lemmas.MmcsArith

namespace P3R.Mmcs
variable {K : Type} [Zero K] [One K] [DecidableEq K]

/-- Heights in the same power-of-two bucket are equal (a consequence of the geometry gate). -/
def UniqBuckets (l : List (Nat × Dim)) : Prop :=
  ∀ a ∈ l, ∀ b ∈ l, npt a.2.height = npt b.2.height → a.2.height = b.2.height

theorem span_loop_eq {α : Type} (p : α → Bool) (l acc : List α) :
    List.span.loop p l acc = (acc.reverse ++ l.takeWhile p, l.dropWhile p) := by
  induction l generalizing acc with
  | nil => simp [List.span.loop]
  | cons a l ih =>
    unfold List.span.loop
    cases h : p a
    · simp [List.takeWhile_cons, List.dropWhile_cons, h]
    · simp [List.takeWhile_cons, List.dropWhile_cons, h, ih]

theorem span_eq_tw_dw {α : Type} (p : α → Bool) (l : List α) :
    l.span p = (l.takeWhile p, l.dropWhile p) := by
  unfold List.span; rw [span_loop_eq]; simp

omit [Zero K] [One K] [DecidableEq K] in
theorem span_congr {α : Type} (p q : α → Bool) (l : List α) (h : ∀ x ∈ l, p x = q x) :
    l.span p = l.span q := by
  induction l with
  | nil => rfl
  | cons a l ih =>
    have ha := h a (by simp)
    have ih' := ih (fun x hx => h x (by simp [hx]))
    simp only [span_eq_tw_dw] at ih' ⊢
    simp only [List.takeWhile_cons, List.dropWhile_cons, ha]
    cases q a <;> simp_all

/-- Under `UniqBuckets`, the native injection group at `logicalNext` is the span by
"rounds up to `npt logicalNext`". -/
theorem takeInjection_eq_span (ln : Nat) (rem : List (Nat × Dim)) (hu : UniqBuckets rem) :
    takeInjection ln rem = rem.span (fun x => npt x.2.height == npt ln) := by
  unfold takeInjection
  cases rem with
  | nil => simp [span_eq_tw_dw]
  | cons x rest =>
    by_cases hx : (npt x.2.height == npt ln) = true
    · simp only [hx, if_true]
      apply span_congr
      intro y hy
      have hxe : npt x.2.height = npt ln := by simpa using hx
      by_cases hy2 : y.2.height = x.2.height
      · simp [hy2, hxe]
      · have : npt y.2.height ≠ npt ln := by
          intro h
          exact hy2 (hu y hy x (by simp) (by rw [h, hxe]))
        simp [hy2, this]
    · simp only [hx, Bool.false_eq_true, if_false]
      simp [span_eq_tw_dw, List.takeWhile_cons, List.dropWhile_cons, hx]

omit [Zero K] [One K] [DecidableEq K] in
theorem uniq_of_suffix {l : List (Nat × Dim)} (p : Nat × Dim → Bool) (hu : UniqBuckets l) :
    UniqBuckets (l.span p).2 := by
  intro a ha b hb
  rw [span_eq_tw_dw] at ha hb
  exact hu a ((List.dropWhile_sublist _).mem ha) b ((List.dropWhile_sublist _).mem hb)

/-- index bits consumed by the native walk, least significant first -/
def idxBits : Nat → Nat → List Bool
  | _, 0 => []
  | i, P + 1 => (i % 2 == 1) :: idxBits (i / 2) P

/-- Targets of the injection levels reached by `P` binary steps from a layer of log-size `j`. -/
def targets (j P : Nat) : List Nat := (List.range P).map fun i => 2 ^ (j - 1 - i)

theorem targets_succ (j P : Nat) : targets j (P + 1) = 2 ^ (j - 1) :: targets (j - 1) P := by
  unfold targets
  rw [List.range_succ_eq_map]
  simp only [List.map_cons, List.map_map, Nat.sub_zero]
  congr 1
  apply List.map_congr_left
  intro i _
  simp only [Function.comp]
  congr 1
  omega

/-- Positive widths: every opened stream of a listed matrix is non-empty. -/
def StreamsNonempty (streams : List (List K)) (l : List (Nat × Dim)) : Prop :=
  ∀ x ∈ l, streams.getD x.1 [] ≠ []

omit [Zero K] [One K] [DecidableEq K] in
theorem groupData_isEmpty (streams : List (List K)) (grp : List (Nat × Dim))
    (h : StreamsNonempty streams grp) : (groupData streams grp).isEmpty = grp.isEmpty := by
  cases grp with
  | nil => rfl
  | cons x rest =>
    have hx := h x (by simp)
    unfold groupData
    simp only [List.map_cons, List.flatten_cons, List.isEmpty_cons]
    cases hs : streams.getD x.1 [] with
    | nil => exact absurd hs hx
    | cons a l => simp

omit [One K] [DecidableEq K] in
theorem sponge_length (perm : List K → List K) (c : Cfg) (hperm : ∀ x, x.length = c.W → (perm x).length = c.W)
    (hr : c.rate ≤ c.W) (hdw : c.dig ≤ c.W) (inp : List K) : (sponge perm c inp).length = c.dig := by
  unfold sponge
  have : ∀ (f : Nat) (st inp : List K), st.length = c.W → (absorb perm c.rate f st inp).length = c.W := by
    intro f
    induction f with
    | zero => intro st inp h; simpa [absorb] using h
    | succ f ih =>
      intro st inp h
      unfold absorb
      split
      · exact h
      · apply ih
        apply hperm
        unfold overwrite
        simp; omega
  simp [this _ _ _ (by simp : (List.replicate c.W (0:K)).length = c.W)]
  exact hdw

/-- The native walk over `P` binary steps equals the native-order fold over the level digests. -/
theorem walk_spec (perm : List K → List K) (c : Cfg) (hN : c.N = 2) (hdig : 0 < c.dig)
    (hperm : ∀ x, x.length = c.W → (perm x).length = c.W) (hr : c.rate ≤ c.W) (hdw : c.dig ≤ c.W)
    (opened : List (List K)) :
    ∀ (P j m : Nat) (proof : List (List K)) (digest : List K) (index : Nat) (rem : List (Nat × Dim)),
      P ≤ j → (1 ≤ P → 2 ^ (j - 1) < m ∧ m ≤ 2 ^ j) → P ≤ proof.length →
      UniqBuckets rem → StreamsNonempty opened rem →
      walk perm c opened (List.replicate P 2) proof digest index (paddedLen m 2) rem
        = (pathSpec perm c.dig digest (idxBits index P) proof (levelSpec perm c opened (targets j P) rem),
           index / 2 ^ P) := by
  intro P
  induction P with
  | zero => intro j m proof digest index rem _ _ _ _ _; simp [walk, pathSpec, idxBits]
  | succ P ih =>
    intro j m proof digest index rem hPj hb hpl hu hsn
    obtain ⟨hlo, hhi⟩ := hb (by omega)
    have hj : 1 ≤ j := by omega
    have hm2 : 2 ≤ m := by
      have : 1 ≤ 2 ^ (j - 1) := Nat.one_le_two_pow
      omega
    obtain ⟨hnpt, hnext, _⟩ := half_bounds hj hlo hhi
    cases proof with
    | nil => simp at hpl
    | cons sib proof =>
      rw [List.replicate_succ, walk]
      simp only [Nat.add_one_sub_one, List.take_succ_cons, List.take_zero, List.drop_succ_cons, List.drop_zero]
      rw [paddedLen_two_half hm2, takeInjection_eq_span _ _ hu, hnpt, hN]
      have ih' := ih (j - 1) ((m + 1) / 2) proof
      rw [targets_succ, levelSpec, levelGroups]
      simp only [List.map_cons, idxBits, pathSpec, List.headD_cons, List.tail_cons]
      have hsn1 : StreamsNonempty opened (rem.span (fun x => npt x.2.height == 2 ^ (j - 1))).1 := by
        intro x hx
        rw [span_eq_tw_dw] at hx
        exact hsn x ((List.takeWhile_sublist _).mem hx)
      have hsn2 : StreamsNonempty opened (rem.span (fun x => npt x.2.height == 2 ^ (j - 1))).2 := by
        intro x hx
        rw [span_eq_tw_dw] at hx
        exact hsn x ((List.dropWhile_sublist _).mem hx)
      rw [ih' _ (index / 2) _ (by omega) (fun h => hnext (by omega)) (by simpa using hpl)
        (uniq_of_suffix _ hu) hsn2]
      have hpow : index / 2 / 2 ^ P = index / 2 ^ (P + 1) := by
        rw [Nat.div_div_eq_div_mul, pow_succ, Nat.mul_comm]
      rw [hpow]
      congr 2
      -- the two ways of writing "compress then inject" agree
      have hstep : compress perm c (stepInputs c 2 (index % 2) digest [sib])
          = comp2 perm c.dig (index % 2 == 1) digest sib := by
        unfold compress stepInputs comp2 pair2
        rw [hN]
        have h2 : List.range 2 = [0, 1] := by decide
        rw [h2]
        rcases Nat.mod_two_eq_zero_or_one index with h | h <;> simp [h]
      rw [hstep]
      unfold injIf levelDigest
      rw [groupData_isEmpty _ _ hsn1]
      by_cases he : (rem.span (fun x => npt x.2.height == 2 ^ (j - 1))).1.isEmpty
      · simp [he]
      · simp only [he, Bool.false_eq_true, if_false]
        have hsl : (sponge perm c (groupData opened (rem.span (fun x => npt x.2.height == 2 ^ (j - 1))).1)).isEmpty = false := by
          have := sponge_length perm c hperm hr hdw (groupData opened (rem.span (fun x => npt x.2.height == 2 ^ (j - 1))).1)
          cases hsp : sponge perm c (groupData opened (rem.span (fun x => npt x.2.height == 2 ^ (j - 1))).1) with
          | nil => rw [hsp] at this; simp at this; omega
          | cons a l => rfl
        simp only [hsl, Bool.false_eq_true, if_false]
        unfold compress groupData
        have h2 : List.range 2 = [0, 1] := by decide
        simp [h2]

end P3R.Mmcs
