/-
C20 line-protocol driver: one gadget evaluation per stdin line, one canonical result line out.
Runs the *model* definitions of `P3R.Model.Gadgets` (the `…C` circuit-side models) over the
executable extension fields of `P3R.Model.ExtField`. Every line is self-contained: the field
tag, every domain parameter, every constant (shift inverses, generators, basis elements) and
every input is on the line; nothing is defaulted. Unknown / malformed command → `bad-op`.

  exp2 F k x                       → exp2 v
  expc F n x                       → expc v | expc panic
  van  F g gInv logN x             → van v
  sel  F shiftInv genInv logN x    → sel f l t iv | sel err DivisionByZero
  quot F n D zeta (g gInv logN)*n (chunk: D elems)*n (basis: D elems)
                                   → quot v | quot err DivisionByZero
  per  F folds x m c0 … c(m-1)     → per v | per panic
  poly F x m c0 … c(m-1)           → poly v | poly panic
  idft F logM ω mInv s sInv col0 … col(m-1)   (m = 2^logM; base-field elements, lifted)
                                   → idft ok|hyp-fail c0 … c(m-1)
       the coefficient vector `P3R.Idft.cosetIdftLoop ω mInv sInv col` the MODEL computes from the
       column (compared with what `Radix2Dit::coset_idft(col, s)` returned), preceded by whether
       the hypotheses of `P3R.C20.cosetIdft_interpolates` hold for the constants the Rust used
       (`P3R.Idft.paramsOk`: ω primitive 2^logM-th root, mInv·m = 1, sInv·s = 1)
  fqp  F g logMax consumed b…      → fqp v          (b… = index_bits[consumed..logMax])
  evp  F gen g logGlobalMax hMax nh h1 … hnh b…   → evp h1:v1 … (ascending h)
                                                    (b… = all logGlobalMax index bits)
-/
import P3R.Model.Field
import P3R.Model.ExtField
import P3R.Model.Gadgets
import P3R.Model.Idft

open P3R P3R.Gadgets

namespace C20Driver

def optOut {α} [ToString α] (op : String) : Option α → String
  | some v => s!"{op} {v}"
  | none => s!"{op} err DivisionByZero"

def panicOut {α} [ToString α] (op : String) : Option α → String
  | some v => s!"{op} {v}"
  | none => s!"{op} panic"

/-- Split `l` into `n` consecutive groups of `k`. -/
def groups {α} (l : List α) (n k : Nat) : List (List α) :=
  (List.range n).map fun i => (l.drop (i * k)).take k

def run (p W D : Nat) (op : String) (args : List String) : Option String :=
  let E := Ext p W D
  let pe : String → Option E := Ext.parse?
  match op, args with
  | "exp2", [k, x] => do
    let k ← k.toNat?; let x ← pe x
    pure s!"exp2 {expPow2 x k}"
  | "expc", [n, x] => do
    let n ← n.toNat?; let x ← pe x
    pure (panicOut "expc" (expByConst x n))
  | "van", [g, gi, k, x] => do
    let g ← pe g; let gi ← pe gi; let k ← k.toNat?; let x ← pe x
    pure s!"van {vanishing ⟨g, gi, k⟩ x}"
  | "sel", [si, gi, k, x] => do
    let si ← pe si; let gi ← pe gi; let k ← k.toNat?; let x ← pe x
    match selectorsC si gi k x with
    | some s => pure s!"sel {s.isFirst} {s.isLast} {s.isTrans} {s.invVan}"
    | none => pure "sel err DivisionByZero"
  | "quot", n :: d :: zeta :: rest => do
    let n ← n.toNat?; let d ← d.toNat?; let zeta ← pe zeta
    if rest.length ≠ 3 * n + n * d + d then none
    let domToks := groups (rest.take (3 * n)) n 3
    let doms ← domToks.mapM fun t => match t with
      | [g, gi, k] => do
        let g ← pe g; let gi ← pe gi; let k ← k.toNat?
        pure (Dom.mk g gi k)
      | _ => none
    let chunkToks := groups ((rest.drop (3 * n)).take (n * d)) n d
    let chunks ← chunkToks.mapM fun ch => ch.mapM pe
    let basis ← (rest.drop (3 * n + n * d)).mapM pe
    if !recomposeShapeOk doms chunks basis then pure "quot panic"
    else pure (optOut "quot" (recomposeC doms chunks basis zeta))
  | "per", folds :: x :: m :: cs => do
    let folds ← folds.toNat?; let x ← pe x; let m ← m.toNat?
    if cs.length ≠ m then none
    let cs ← cs.mapM pe
    pure (panicOut "per" (periodicC cs folds x))
  | "poly", x :: m :: cs => do
    let x ← pe x; let m ← m.toNat?
    if cs.length ≠ m then none
    let cs ← cs.mapM pe
    pure (panicOut "poly" (evalPolyC cs x))
  | "idft", logM :: w :: mInv :: s :: sInv :: col => do
    let logM ← logM.toNat?; let w ← pe w; let mInv ← pe mInv; let s ← pe s; let sInv ← pe sInv
    if col.length ≠ 2 ^ logM then none
    let col ← col.mapM pe
    let ok := if P3R.Idft.paramsOk w mInv s sInv logM then "ok" else "hyp-fail"
    let cs := P3R.Idft.cosetIdftLoop w mInv sInv col
    pure (s!"idft {ok} " ++ " ".intercalate (cs.map toString))
  | "fqp", g :: logMax :: consumed :: bits => do
    let g ← pe g; let logMax ← logMax.toNat?; let consumed ← consumed.toNat?
    if bits.length + consumed ≠ logMax then none
    let bits ← bits.mapM pe
    pure s!"fqp {finalQueryPointC g logMax consumed bits}"
  | "evp", gen :: g :: lgm :: hMax :: nh :: rest => do
    let gen ← pe gen; let g ← pe g; let lgm ← lgm.toNat?; let hMax ← hMax.toNat?; let nh ← nh.toNat?
    if rest.length ≠ nh + lgm ∨ hMax > lgm then none
    let hs ← (rest.take nh).mapM String.toNat?
    let bits ← (rest.drop nh).mapM pe
    let revBits := ((bits.drop (lgm - hMax)).take hMax).reverse
    let hsAsc := hs.mergeSort (· ≤ ·)
    let outs := hsAsc.map fun h => s!"{h}:{evalPointC gen g hMax h revBits}"
    pure ("evp " ++ " ".intercalate outs)
  | _, _ => none

def step (line : String) : String :=
  match (line.trimAscii.toString.splitOn " ").filter (· ≠ "") with
  | op :: f :: args =>
    let r := match f with
      | "bb4" => run babyBearP 11 4 op args
      | "kb4" => run koalaBearP 3 4 op args
      | "bb1" => run babyBearP 0 1 op args
      | _ => none
    r.getD "bad-op"
  | _ => "bad-op"

end C20Driver

partial def loop (h : IO.FS.Stream) : IO Unit := do
  let line ← h.getLine
  if line.isEmpty then return ()
  if line.trimAscii.toString.isEmpty then loop h else
  IO.println (C20Driver.step line)
  loop h

def main : IO Unit := do
  loop (← IO.getStdin)
