/-
Helper lemmas for C20 (`P3R.Props.C20`): the straight-line gadget models of
`P3R.Model.Gadgets` rewritten as closed forms over a monoid / commutative ring / field.
-/
import P3R.Model.Gadgets
import Mathlib.Algebra.Field.Basic
import Mathlib.Algebra.BigOperators.Group.List.Basic
import Mathlib.Algebra.BigOperators.Group.Finset.Basic
import Mathlib.Algebra.BigOperators.Ring.Finset
import Mathlib.Algebra.GroupWithZero.Basic
import Mathlib.Tactic.Ring
import Mathlib.Tactic.FieldSimp

namespace P3R.Gadgets

/-! ### powers -/

theorem expPow2_eq {M : Type} [Monoid M] (x : M) (k : Nat) : expPow2 x k = x ^ (2 ^ k) := by
  induction k generalizing x with
  | zero => simp [expPow2]
  | succ k ih => rw [expPow2, ih, ← pow_two, ← pow_mul, ← pow_succ']

theorem powNat_eq {M : Type} [Monoid M] (x : M) (n : Nat) : powNat x n = x ^ n := by
  induction n with
  | zero => simp [powNat]
  | succ n ih => rw [powNat, ih, pow_succ]

theorem expByConstGo_eq {M : Type} [Monoid M] (x : M) :
    ∀ n, 1 ≤ n → expByConstGo x n = x ^ n := by
  intro n
  induction n using Nat.strong_induction_on with
  | _ n ih =>
    intro hn
    rw [expByConstGo]
    split
    · have : n = 1 := by omega
      subst this; simp
    · rename_i hgt
      have h2 : 1 ≤ n / 2 := by omega
      rw [ih (n / 2) (by omega) h2]
      have hsq : x ^ (n / 2) * x ^ (n / 2) = x ^ (2 * (n / 2)) := by
        rw [← pow_add]; congr 1; omega
      simp only [hsq]
      split
      · rename_i hodd
        rw [← pow_succ]; congr 1; omega
      · congr 1; omega

/-! ### polynomial evaluation -/

section ring
variable {R : Type} [CommRing R]

theorem polyEval_nil (x : R) : polyEval ([] : List R) x = 0 := rfl

theorem polyEval_cons (c : R) (cs : List R) (x : R) :
    polyEval (c :: cs) x = polyEval cs x * x + c := rfl

/-- `polyEval cs x = Σ_{i < |cs|} csᵢ · xⁱ`. -/
theorem polyEval_eq_sum (cs : List R) (x : R) :
    polyEval cs x = ∑ i ∈ Finset.range cs.length, cs.getD i 0 * x ^ i := by
  induction cs with
  | nil => simp [polyEval]
  | cons c cs ih =>
    rw [polyEval_cons, ih, List.length_cons, Finset.sum_range_succ', Finset.sum_mul]
    simp only [List.getD_cons_succ, List.getD_cons_zero, pow_zero, mul_one, pow_succ, mul_assoc]

/-- Left Horner fold from an accumulator = evaluation of the reversed list appended with it. -/
theorem foldl_horner (rest : List R) (lead zp : R) :
    rest.foldl (fun acc c => acc * zp + c) lead = polyEval (rest.reverse ++ [lead]) zp := by
  induction rest generalizing lead with
  | nil => simp [polyEval]
  | cons c rest ih =>
    rw [List.foldl_cons, ih]
    simp [polyEval, List.foldr_append]

end ring

/-! ### select chains -/

section chain
variable {R : Type} [CommRing R]

/-- The field element of a boolean. -/
def toK (b : Bool) : R := if b then 1 else 0

theorem select_toK (b : Bool) (t : R) : select (toK b) t 1 = if b then t else 1 := by
  cases b <;> simp [select, toK]

theorem selectChain_aux (bs : List Bool) (g r : R) (n : Nat) (h : bs.length ≤ n) :
    ((bs.map toK).zip (pow2Powers g n)).foldl (fun r bp => r * select bp.1 bp.2 1) r
      = r * g ^ bitsVal bs := by
  induction bs generalizing g r n with
  | nil => simp [bitsVal]
  | cons b bs ih =>
    cases n with
    | zero => simp at h
    | succ n =>
      simp only [List.map_cons, pow2Powers, List.zip_cons_cons, List.foldl_cons]
      rw [ih (g * g) _ n (by simpa using h), select_toK, bitsVal]
      cases b
      · simp only [Bool.false_eq_true, if_false, mul_one, zero_add]
        rw [← pow_two, ← pow_mul]
      · simp only [if_true]
        rw [← pow_two, ← pow_mul, pow_add, pow_one, mul_assoc]

theorem selectChain_eq (bs : List Bool) (g : R) (n : Nat) (h : bs.length ≤ n) :
    selectChain (bs.map toK) (pow2Powers g n) = g ^ bitsVal bs := by
  unfold selectChain
  rw [selectChain_aux bs g 1 n h, one_mul]

end chain

/-! ### products over "all but one" -/

section prod
variable {M : Type} [CommMonoid M]

theorem foldl_mul_eq {α : Type} (l : List α) (f : α → M) (a : M) :
    l.foldl (fun acc d => acc * f d) a = a * (l.map f).prod := by
  induction l generalizing a with
  | nil => simp
  | cons x l ih => rw [List.foldl_cons, ih, List.map_cons, List.prod_cons, mul_assoc]

theorem mulMany_eq (l : List M) : mulMany l = l.prod := by
  cases l with
  | nil => rfl
  | cons a rest =>
    unfold mulMany
    have := foldl_mul_eq rest (fun x => x) a
    simpa using this

/-- `∏ l = lᵢ · ∏ (l without position i)`. -/
theorem prod_eq_mul_others {α : Type} (l : List α) (f : α → M) (i : Nat) (x : α)
    (h : l[i]? = some x) : (l.map f).prod = f x * ((others l i).map f).prod := by
  induction l generalizing i with
  | nil => simp at h
  | cons a l ih =>
    cases i with
    | zero =>
      simp only [List.getElem?_cons_zero, Option.some.injEq] at h
      subst h
      simp [others]
    | succ i =>
      simp only [List.getElem?_cons_succ] at h
      have := ih i h
      simp only [others, List.take_succ_cons, List.drop_succ_cons, List.cons_append, List.map_cons,
        List.prod_cons] at this ⊢
      rw [this]
      exact mul_left_comm _ _ _

end prod

end P3R.Gadgets
