/-
Line-protocol driver for C08 (`p3r_driver_c08`). One command per stdin line:

  grp <gid> p <P> arity <2|4> width <W> rate <R> dig <DG> caph <h> perm <toy|table> nbits <n> checks <hwc>
                                      hwc = three 0/1 digits: gadget has the height gate / width check / cap-bits check
  mat <m> <height> <inner width>      claimed dimensions (inner view: base coefficients + salt)
  tab <W inputs> | <W outputs>        one recorded permutation pair (perm table mode)
  case <cid> idx <index>              start a case (clears rows / siblings / cap)
  row <m> <values…>                   opened stream of matrix m (row coefficients ++ salt)
  sib <DG values>                     next sibling digest
  cap <DG values>                     next cap entry
  pay <j> <values…>                   prover-chosen private payload (base coefficients) of path row j
  go                                  → `res <cid> native <verdict> circuit <verdict> ctrace <n> <fnv>`

Everything is computed by the definitions of `P3R.Model.MmcsNative` / `MmcsCircuit`
instantiated with `PF p`; nothing is defaulted: a `go` without a complete group / case prints
`bad-state`, an unknown command prints `bad-op`.
-/
import P3R.Model.Field
import P3R.Model.MmcsNative
import P3R.Model.MmcsCircuit
import Std.Data.HashMap

open P3R P3R.Mmcs

/-- The `toy` permutation of `harness/src/c08.rs`. -/
def toyPerm {p : Nat} (W : Nat) (x : List (PF p)) : List (PF p) := Id.run do
  let mut x := x
  for r in [0:3] do
    let y := (x.zipIdx).map fun (v, i) =>
      let t := v + PF.ofNat (r * W + i + 1)
      t * t * t
    let s := y.foldl (· + ·) (0 : PF p)
    x := (y.zipIdx).map fun (v, i) => s + v * PF.ofNat (i + 2)
  return x

structure Grp where
  p : Nat
  arity : Nat
  W : Nat
  rate : Nat
  dig : Nat
  caph : Nat
  table : Bool
  nbits : Nat
  chk : Checks
  dims : List Dim
  tab : Std.HashMap (List Nat) (List Nat)

structure Case where
  cid : String
  idx : Nat
  rows : List (Nat × List Nat)
  sibs : List (List Nat)
  cap : List (List Nat)
  pays : List (Nat × List Nat)

structure St where
  g : Option Grp
  c : Option Case

def parseNats (ws : List String) : Option (List Nat) := ws.mapM String.toNat?

def parseChecks (s : String) : Option Checks :=
  match s.toList with
  | [h, w, c] =>
    if [h, w, c].all (fun x => x == '0' || x == '1') then some ⟨h == '1', w == '1', c == '1'⟩ else none
  | _ => none

def fnv (trace : List (List Nat)) : UInt64 :=
  trace.foldl (fun h row => row.foldl (fun h x => (h ^^^ x.toUInt64) * 0x100000001b3) h) 0xcbf29ce484222325

def nerrStr : NErr → String
  | .wrongBatchSize => "WrongBatchSize" | .emptyBatch => "EmptyBatch"
  | .incompatibleHeights => "IncompatibleHeights" | .wrongHeight => "WrongHeight"
  | .wrongWidth => "WrongWidth" | .indexOutOfBounds => "IndexOutOfBounds"
  | .capMismatch => "CapMismatch" | .fuel => "model-fuel"

def cvStr : CVerdict → String
  | .ok => "ok" | .reject => "reject" | .buildErr => "build-err" | .panic => "panic"

def runCase (g : Grp) (c : Case) : String :=
  let K := PF g.p
  let lift (l : List Nat) : List K := l.map PF.ofNat
  let perm : List K → List K :=
    if g.table then fun x => match g.tab.get? (x.map (·.val)) with
      | some y => lift y
      | none => []
    else toyPerm g.W
  let streams : List (List K) := (List.range g.dims.length).map fun m =>
    match c.rows.find? (·.1 == m) with
    | some r => lift r.2
    | none => []
  let cap := c.cap.map lift
  let sibs := c.sibs.map lift
  let ncfg : Cfg := { W := g.W, rate := g.rate, dig := g.dig, N := g.arity }
  let nv := match verifyBatch perm ncfg g.caph cap g.dims c.idx streams sibs with
    | .ok _ => "ok"
    | .error e => nerrStr e
  let bits : List K := (List.range g.nbits).map fun k => PF.ofNat ((c.idx >>> k) % 2)
  let pc : PermCfg := { W := g.W, rate := g.rate, capw := g.dig, arity4 := g.arity == 4 }
  let pays : List (Nat × List K) := c.pays.map fun p => (p.1, lift p.2)
  let (cv, st) :=
    if pays.isEmpty then
      if g.arity == 2 then verifyCircuit2 g.chk perm pc cap g.dims bits streams sibs
      else verifyCircuit4 g.chk perm pc cap g.dims bits streams sibs
    else
      if g.arity == 2 then verifyCircuit2P g.chk perm pc pays cap g.dims bits streams sibs
      else verifyCircuit4P g.chk perm pc pays cap g.dims bits streams sibs
  let tr := st.trace.reverse.map (·.map (·.val))
  let (n, h) := match cv with
    | .ok | .reject => (tr.length, fnv tr)
    | _ => (0, (0 : UInt64))
  s!"res {c.cid} native {nv} circuit {cvStr cv} ctrace {n} {h}"

def step (st : St) (line : String) : St × List String :=
  let ws := ((line.replace "\n" "").splitOn " ").filter (· ≠ "")
  match ws with
  | [] => (st, [])
  | ["grp", _, "p", p, "arity", a, "width", w, "rate", r, "dig", d, "caph", ch, "perm", pm, "nbits", nb, "checks", ck] =>
    match parseNats [p, a, w, r, d, ch, nb], parseChecks ck with
    | some [p, a, w, r, d, ch, nb], some chk =>
      if (pm == "toy" || pm == "table") && (a == 2 || a == 4) then
        ({ g := some { p, arity := a, W := w, rate := r, dig := d, caph := ch, table := pm == "table", nbits := nb,
                       chk, dims := [], tab := {} }, c := none }, [])
      else (st, ["bad-op"])
    | _, _ => (st, ["bad-op"])
  | ["mat", m, h, w] =>
    match st.g, parseNats [m, h, w] with
    | some g, some [m, h, w] =>
      if m == g.dims.length then ({ st with g := some { g with dims := g.dims ++ [⟨h, w⟩] } }, [])
      else (st, ["bad-state"])
    | _, _ => (st, ["bad-state"])
  | "tab" :: rest =>
    match st.g with
    | some g =>
      match parseNats (rest.takeWhile (· ≠ "|")), parseNats ((rest.dropWhile (· ≠ "|")).drop 1) with
      | some i, some o => ({ st with g := some { g with tab := g.tab.insert i o } }, [])
      | _, _ => (st, ["bad-op"])
    | none => (st, ["bad-state"])
  | ["case", cid, "idx", i] =>
    match st.g, i.toNat? with
    | some _, some i => ({ st with c := some { cid, idx := i, rows := [], sibs := [], cap := [], pays := [] } }, [])
    | _, _ => (st, ["bad-state"])
  | "row" :: m :: vals =>
    match st.c, m.toNat?, parseNats vals with
    | some c, some m, some v => ({ st with c := some { c with rows := c.rows ++ [(m, v)] } }, [])
    | _, _, _ => (st, ["bad-state"])
  | "sib" :: vals =>
    match st.c, parseNats vals with
    | some c, some v => ({ st with c := some { c with sibs := c.sibs ++ [v] } }, [])
    | _, _ => (st, ["bad-state"])
  | "cap" :: vals =>
    match st.c, parseNats vals with
    | some c, some v => ({ st with c := some { c with cap := c.cap ++ [v] } }, [])
    | _, _ => (st, ["bad-state"])
  | "pay" :: j :: vals =>
    match st.c, j.toNat?, parseNats vals with
    | some c, some j, some v => ({ st with c := some { c with pays := c.pays ++ [(j, v)] } }, [])
    | _, _, _ => (st, ["bad-state"])
  | ["go"] =>
    match st.g, st.c with
    | some g, some c => ({ st with c := none }, [runCase g c])
    | _, _ => (st, ["bad-state"])
  | _ => (st, ["bad-op"])

partial def loop (h : IO.FS.Stream) (st : St) : IO Unit := do
  let line ← h.getLine
  if line.isEmpty then return ()
  let (st', outs) := step st line
  for o in outs do IO.println o
  loop h st'

def main : IO Unit := do
  loop (← IO.getStdin) { g := none, c := none }
