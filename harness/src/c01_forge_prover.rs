//! C01: an *adversarial* batch-STARK prover.
//!
//! `forge_prove_batch` is `p3_batch_stark::prove_batch` (p3-batch-stark 0.6.3, `src/prover.rs`,
//! function body copied verbatim) with
//!   * the three debug-only self-checks removed (`check_constraints`, `check_lookups`, the
//!     `num_constraints` hint): the stock prover, when compiled with debug assertions (as the
//!     harness is), refuses to prove a false statement; an attacker's prover does not;
//!   * tracing spans removed and the per-instance loop made sequential (no extra crates);
//!   * three hooks (`Forge`) that let the prover lie about a value it derives itself: a lookup
//!     terminal, a cell of the auxiliary trace, a cell of the quotient.
//! Everything else (transcript, commitments, openings) is the real p3 code, called through the
//! public API of p3-batch-stark (`BatchTranscript`, `quotient_values`, `symbolic::*`). The prover
//! is not what C01 is about (both verifiers are); any prover is a legitimate adversary. That the
//! copy has not drifted from the stock prover is checked on every run: for honest traces and an
//! empty `Forge` the proof must be byte-identical (serde_json) to `prove_batch`'s (c01.rs,
//! violation class `forge-prover-drift`).

use p3_air::symbolic::{AirLayout, SymbolicExpressionExt};
use p3_air::Air;
use p3_batch_stark::common::ProverData;
use p3_batch_stark::config::{Challenge, Domain, StarkGenericConfig as SGC, Val};
use p3_batch_stark::proof::{BatchCommitments, BatchOpenedValues, BatchProof, OpenedValuesWithLookups};
use p3_batch_stark::prover::quotient_values;
use p3_batch_stark::symbolic::get_log_num_quotient_chunks;
use p3_batch_stark::{BatchTranscript, StarkInstance};
use p3_commit::{Pcs, PolynomialSpace};
use p3_field::{Algebra, PrimeCharacteristicRing, PrimeField};
use p3_lookup::folder::ProverConstraintFolderWithLookups;
use p3_lookup::logup::LogUpGadget;
use p3_lookup::{InteractionSymbolicBuilder, Lookup, LookupProtocol, LookupTerminal, check_multiplicity_height_bound};
use p3_matrix::Matrix;
use p3_matrix::dense::RowMajorMatrix;
use p3_uni_stark::OpenedValues;
use p3_util::log2_strict_usize;

/// Per-instance quotient output: the chunk domains and their committed LDE matrices.
type InstanceQuotient<SC> = (Vec<Domain<SC>>, Vec<RowMajorMatrix<Val<SC>>>);

/// What the adversarial prover lies about (besides being fed traces of its choice).
pub struct Forge<SC: SGC> {
    /// `(instance, delta)`: the committed terminal of `instance` is its true running sum + delta.
    pub terminal_shift: Vec<(usize, SC::Challenge)>,
    /// `(instance, cell)`: add one to that cell of the instance's auxiliary trace.
    pub perm_cell: Option<(usize, usize)>,
    /// `(instance, cell)`: add one to that value of the instance's quotient.
    pub quotient_cell: Option<(usize, usize)>,
}

impl<SC: SGC> Forge<SC> {
    pub fn none() -> Self {
        Self { terminal_shift: vec![], perm_cell: None, quotient_cell: None }
    }
}

pub fn forge_prove_batch<
    SC,
    A: for<'a> Air<InteractionSymbolicBuilder<Val<SC>, SC::Challenge>>
        + for<'a> Air<ProverConstraintFolderWithLookups<'a, SC>>
        + Clone,
>(
    config: &SC,
    instances: &[StarkInstance<'_, SC, A>],
    prover_data: &ProverData<SC>,
    forge: &Forge<SC>,
) -> BatchProof<SC>
where
    SC: SGC,
    Val<SC>: PrimeField,
    SymbolicExpressionExt<Val<SC>, SC::Challenge>: Algebra<SC::Challenge>,
    Domain<SC>: Send + Sync,
    SC::Pcs: Sync,
    <SC::Pcs as p3_commit::Pcs<SC::Challenge, SC::Challenger>>::ProverData: Sync,
    <SC::Pcs as p3_commit::Pcs<SC::Challenge, SC::Challenger>>::Commitment: Sync,
{
    let common = &prover_data.common;
    // TODO: Extend if additional lookup gadgets are added.
    let lookup_gadget = LogUpGadget::new();

    let pcs = config.pcs();
    let mut transcript = BatchTranscript::<SC>::new(config.initialise_challenger());

    // Collect per-instance degree information.
    let degrees: Vec<usize> = instances.iter().map(|i| i.trace.height()).collect();
    let log_degrees: Vec<usize> = degrees.iter().copied().map(log2_strict_usize).collect();
    // Extended degree accounts for the ZK blinding factor (2x when ZK is enabled).
    let log_ext_degrees: Vec<usize> = log_degrees.iter().map(|&d| d + config.is_zk()).collect();

    // Fail fast: a wrapped multiplicity makes this proof unverifiable.
    // The verifier enforces the same bound.
    check_multiplicity_height_bound(&common.lookups, &degrees)
        .expect("LogUp multiplicity height-bound violated");

    // Read lookups from the keygen-cached CommonData (not from instances).
    let all_lookups: Vec<&[Lookup<Val<SC>>]> = common.lookups.iter().map(|l| &**l).collect();
    // Per-AIR lookup terminal: `Some(terminal)` once filled, `None` for AIRs with no lookups.
    let mut lookup_terminals: Vec<Option<LookupTerminal<SC::Challenge>>> =
        all_lookups.iter().map(|_| None).collect();

    // Base and extended domains for every instance.
    let (trace_domains, ext_trace_domains): (Vec<Domain<SC>>, Vec<Domain<SC>>) = degrees
        .iter()
        .map(|&deg| {
            (
                pcs.natural_domain_for_degree(deg),
                pcs.natural_domain_for_degree(deg * (config.is_zk() + 1)),
            )
        })
        .unzip();

    // Extract AIRs and borrow public values; consume traces later without cloning.
    let airs: Vec<&A> = instances.iter().map(|i| i.air).collect();
    let pub_vals: Vec<&[Val<SC>]> = instances
        .iter()
        .map(|i| i.public_values.as_slice())
        .collect();

    // Determine preprocessed widths and quotient chunk counts per instance.
    let mut preprocessed_widths = Vec::with_capacity(airs.len());
    let (log_num_quotient_chunks, num_quotient_chunks): (Vec<usize>, Vec<usize>) = airs
        .iter()
        .zip(pub_vals.iter())
        .enumerate()
        .map(|(i, (air, _pv))| {
            // Width of the preprocessed trace for this instance (0 if absent).
            let pre_w = common
                .preprocessed
                .as_ref()
                .and_then(|g| g.instances[i].as_ref().map(|m| m.width))
                .unwrap_or(0);
            preprocessed_widths.push(pre_w);

            let layout = AirLayout {
                preprocessed_width: pre_w,
                main_width: air.width(),
                num_public_values: air.num_public_values(),
                num_periodic_columns: air.num_periodic_columns(),
                ..Default::default()
            };

            // Infer the log of the quotient polynomial degree from symbolic analysis.
            let lq_chunks = get_log_num_quotient_chunks::<Val<SC>, SC::Challenge, A, LogUpGadget>(
                air,
                layout,
                all_lookups[i],
                config.is_zk(),
                &lookup_gadget,
            );
            // Actual number of quotient chunks (doubled when ZK is enabled).
            let n_chunks = 1 << (lq_chunks + config.is_zk());
            (lq_chunks, n_chunks)
        })
        .unzip();

    let n_instances = airs.len();
    let widths: Vec<usize> = airs.iter().map(|a| A::width(a)).collect();

    // Transcript: Observe instance count and per-instance bindings.
    transcript.observe_instance_count(n_instances);
    for i in 0..n_instances {
        transcript.observe_instance_binding(
            log_ext_degrees[i],
            log_degrees[i],
            widths[i],
            num_quotient_chunks[i],
        );
    }

    // Transcript: Main trace commitment

    // Build PCS inputs for every instance and commit in a single batch.
    let main_commit_inputs = instances
        .iter()
        .zip(ext_trace_domains.iter().cloned())
        .map(|(inst, dom)| (dom, inst.trace.clone()))
        .collect::<Vec<_>>();
    let (main_commit, main_data) = pcs.commit(main_commit_inputs);

    transcript.observe_main(&main_commit, &pub_vals);
    transcript.observe_preprocessed(&preprocessed_widths, common.preprocessed.as_ref());

    // Transcript: Lookup challenges and permutation traces

    // Draw per-instance challenges for the lookup argument.
    let challenges_per_instance = transcript.sample_perm_challenges(&all_lookups, &lookup_gadget);

    // Generate permutation traces for instances that have lookups.
    let mut permutation_commit_inputs = Vec::with_capacity(n_instances);
    instances
        .iter()
        .enumerate()
        .zip(ext_trace_domains.iter().cloned())
        .for_each(|((i, inst), ext_domain)| {
            if !all_lookups[i].is_empty() {
                // Compute the permutation argument trace and the AIR's single terminal.
                let (generated_perm, terminal) = lookup_gadget.generate_permutation::<SC>(
                    inst.trace,
                    &inst.air.preprocessed_trace(),
                    &inst.public_values,
                    all_lookups[i],
                    &challenges_per_instance[i],
                );

                // FORGE HOOK: alter one cell of the auxiliary (running-sum / fraction) trace.
                let mut generated_perm = generated_perm;
                if let Some((fi, cell)) = forge.perm_cell {
                    if fi == i {
                        let n = generated_perm.values.len();
                        generated_perm.values[cell % n] += SC::Challenge::ONE;
                    }
                }
                // FORGE HOOK: commit a terminal that is not the value of this AIR's running sum.
                let terminal = terminal.map(|t| {
                    let shift: SC::Challenge =
                        forge.terminal_shift.iter().filter(|(fi, _)| *fi == i).map(|(_, d)| *d).sum();
                    LookupTerminal(t.0 + shift)
                });

                // Record the AIR's terminal for transcript observation and proof emission.
                lookup_terminals[i] = terminal;

                // Consume the generated matrix directly; no extra clone before flattening.
                permutation_commit_inputs.push((ext_domain, generated_perm.flatten_to_base()));
            }
        });

    // (the stock prover's debug-only `check_lookups` is deliberately absent: this prover is the adversary)

    // Commit all permutation traces (if any).
    let permutation_commit_and_data = if !permutation_commit_inputs.is_empty() {
        Some(pcs.commit(permutation_commit_inputs))
    } else {
        None
    };

    // Transcript: observe permutation commitment + per-AIR terminals, sample alpha.
    let alpha: Challenge<SC> = transcript.observe_perm_and_sample_alpha(
        permutation_commit_and_data.as_ref().map(|(c, _)| c),
        &lookup_terminals,
    );

    // Capture only the permutation prover data;
    //
    // The commitment isn't read in the parallel closure below.
    let permutation_data = permutation_commit_and_data.as_ref().map(|(_, data)| data);

    // Permutation-matrix index per instance: the prefix count of prior instances
    // that contribute a permutation trace. Precomputing this removes the only
    // cross-iteration dependency, so each instance's quotient is independent.
    let perm_indices: Vec<usize> = all_lookups
        .iter()
        .scan(0usize, |next, lookups| {
            let idx = *next;
            if !lookups.is_empty() {
                *next += 1;
            }
            Some(idx)
        })
        .collect();

    // Each instance's quotient chunks are independent, so compute them in
    // parallel. `quotient_values` already parallelises over rows; with many
    // instances this fills the cores that a single instance leaves idle.
    let per_instance: Vec<InstanceQuotient<SC>> = (0..n_instances)
        .into_iter()
        .map(|i| {
            let log_chunks = log_num_quotient_chunks[i];
            let n_chunks = num_quotient_chunks[i];
            // Build the quotient domain: disjoint from the trace domain,
            // with size = ext_degree * num_quotient_chunks.
            let quotient_domain =
                ext_trace_domains[i].create_disjoint_domain(1 << (log_ext_degrees[i] + log_chunks));

            let sym_layout = AirLayout {
                preprocessed_width: preprocessed_widths[i],
                main_width: airs[i].width(),
                num_public_values: airs[i].num_public_values(),
                num_periodic_columns: airs[i].num_periodic_columns(),
                ..Default::default()
            };

            // Evaluate the committed main trace on the quotient domain via LDE.
            let trace_on_quotient_domain =
                pcs.get_evaluations_on_domain(&main_data, i, quotient_domain);

            // Evaluate the permutation trace on the quotient domain (if lookups exist).
            let permutation_on_quotient_domain = permutation_data
                .filter(|_| !all_lookups[i].is_empty())
                .map(|perm_data| {
                    pcs.get_evaluations_on_domain(perm_data, perm_indices[i], quotient_domain)
                });

            // Evaluate preprocessed columns on the quotient domain (if present).
            let preprocessed_on_quotient_domain = common
                .preprocessed
                .as_ref()
                .and_then(|g| g.instances[i].as_ref())
                .map(|meta| {
                    let preprocessed_prover_data = prover_data
                        .prover_only
                        .preprocessed_prover_data
                        .as_ref()
                        .expect(
                            "preprocessed_prover_data must exist when preprocessed columns exist",
                        );
                    pcs.get_evaluations_on_domain_no_random(
                        preprocessed_prover_data,
                        meta.matrix_index,
                        quotient_domain,
                    )
                });

            // Compute quotient(x) = constraints(x) / Z_H(x) on the quotient domain.
            let perm_vals: Vec<_> = lookup_terminals[i].iter().map(|t| t.0).collect();
            let q_values = quotient_values(
                pcs,
                airs[i],
                pub_vals[i],
                sym_layout,
                trace_domains[i],
                quotient_domain,
                &trace_on_quotient_domain,
                permutation_on_quotient_domain.as_ref(),
                all_lookups[i],
                &perm_vals,
                &lookup_gadget,
                &challenges_per_instance[i],
                preprocessed_on_quotient_domain.as_ref(),
                alpha,
            );

            // FORGE HOOK: commit a quotient that is not constraints / Z_H.
            let mut q_values = q_values;
            if let Some((fi, cell)) = forge.quotient_cell {
                if fi == i {
                    let n = q_values.len();
                    q_values[cell % n] += SC::Challenge::ONE;
                }
            }

            // Flatten extension values to base field and split into degree-bounded chunks.
            let q_flat = RowMajorMatrix::new_col(q_values).flatten_to_base();
            let chunk_mats = quotient_domain.split_evals(n_chunks, q_flat);
            let chunk_domains = quotient_domain.split_domains(n_chunks);

            // Compute low-degree extensions of each chunk for commitment.
            let evals = chunk_domains.iter().zip(chunk_mats).map(|(d, m)| (*d, m));
            let ldes = pcs.get_quotient_ldes(evals, n_chunks);

            (chunk_domains, ldes)
        })
        .collect();

    // Concatenate in instance order so the commit layout stays deterministic.
    let mut quotient_chunk_domains = Vec::new();
    let mut quotient_chunk_mats = Vec::new();
    let mut quotient_chunk_ranges = Vec::with_capacity(n_instances);
    for (chunk_domains, ldes) in per_instance {
        let start = quotient_chunk_domains.len();
        quotient_chunk_domains.extend(chunk_domains);
        quotient_chunk_mats.extend(ldes);
        let end = quotient_chunk_domains.len();
        quotient_chunk_ranges.push((start, end));
    }

    // Commit all quotient chunks in a single batch.
    let (quotient_commit, quotient_data) = pcs.commit_ldes(quotient_chunk_mats);
    transcript.observe_quotient_commitment(&quotient_commit);

    // Transcript: Optional ZK randomization polynomial
    //
    // When ZK is enabled, commit to a random extension-field polynomial of
    // degree 2n. The PCS later adds (R(X) - R(z)) / (X - z) to the batch,
    // hiding the trace values at the query points.
    //
    // TODO: This approach is only statistically ZK.
    // A perfectly-ZK version would use a true extension-field polynomial.
    let (opt_r_commit, opt_r_data) = if SC::Pcs::ZK {
        let (r_commit, r_data) = pcs
            .get_opt_randomization_poly_commitment(ext_trace_domains.iter().copied())
            .expect("ZK is enabled, so we should have randomization commitments");
        (Some(r_commit), Some(r_data))
    } else {
        (None, None)
    };

    if let Some(r_commit) = &opt_r_commit {
        transcript.observe_random_commitment(r_commit);
    }

    // Transcript: OOD opening

    // Sample the out-of-domain evaluation point.
    let zeta: Challenge<SC> = transcript.sample_zeta();

    // Build the opening rounds and produce the FRI opening proof.
    let (opened_values, opening_proof) = {
        let mut rounds = Vec::new();

        // Round 0 (optional): randomization polynomial opened at zeta per instance.
        let round0 = opt_r_data.as_ref().map(|r_data| {
            let round0_points = trace_domains.iter().map(|_| vec![zeta]).collect();
            (r_data, round0_points)
        });
        rounds.extend(round0);

        // Round 1: main trace. Open at zeta; also at the next domain point
        // if the AIR accesses the next row.
        let round1_points = trace_domains
            .iter()
            .enumerate()
            .map(|(i, dom)| {
                if !airs[i].main_next_row_columns().is_empty() {
                    vec![
                        zeta,
                        dom.next_point(zeta)
                            .expect("domain should support next_point operation"),
                    ]
                } else {
                    vec![zeta]
                }
            })
            .collect::<Vec<_>>();
        rounds.push((&main_data, round1_points));

        // Round 2: quotient chunks, each opened at zeta only.
        let round2_points = quotient_chunk_ranges
            .iter()
            .cloned()
            .flat_map(|(s, e)| (s..e).map(|_| vec![zeta]))
            .collect::<Vec<_>>();
        rounds.push((&quotient_data, round2_points));

        // Round 3 (optional): preprocessed columns. Open at zeta, and also
        // at the next-row point if the AIR reads preprocessed next-row columns.
        if let Some(global) = &common.preprocessed {
            let preprocessed_prover_data = prover_data
                .prover_only
                .preprocessed_prover_data
                .as_ref()
                .expect("preprocessed_prover_data must exist when preprocessed columns exist");
            let pre_points = global
                .matrix_to_instance
                .iter()
                .map(|&inst_idx| {
                    if !airs[inst_idx].preprocessed_next_row_columns().is_empty() {
                        let zeta_next_i = trace_domains[inst_idx]
                            .next_point(zeta)
                            .expect("domain should support next_point operation");
                        vec![zeta, zeta_next_i]
                    } else {
                        vec![zeta]
                    }
                })
                .collect();
            rounds.push((preprocessed_prover_data, pre_points));
        }

        // Round 4 (optional): permutation traces for instances with lookups.
        // Always opened at both zeta and the next-row point.
        let lookup_points: Vec<_> = trace_domains
            .iter()
            .zip(&all_lookups)
            .filter(|&(_, lookups)| !lookups.is_empty())
            .map(|(dom, _)| {
                vec![
                    zeta,
                    dom.next_point(zeta)
                        .expect("domain should support next_point operation"),
                ]
            })
            .collect();

        if let Some((_, perm_data)) = &permutation_commit_and_data {
            let lookup_round = (perm_data, lookup_points);
            rounds.push(lookup_round);
        }

        pcs.open_with_preprocessing(
            rounds,
            &mut transcript.challenger,
            common.preprocessed.is_some(),
        )
    };

    // Parse opened values into per-instance structures

    // Permutation round follows preprocessed (if present), else takes its slot.
    let permutation_idx = if common.preprocessed.is_some() {
        SC::Pcs::PREPROCESSED_TRACE_IDX + 1
    } else {
        SC::Pcs::PREPROCESSED_TRACE_IDX
    };

    // Main trace opened values: one entry per instance.
    let trace_values_for_mats = &opened_values[SC::Pcs::TRACE_IDX];
    assert_eq!(trace_values_for_mats.len(), n_instances);

    let mut per_instance = Vec::with_capacity(n_instances);

    // Preprocessed openings (if a global preprocessed commitment exists).
    let preprocessed_openings = common
        .preprocessed
        .as_ref()
        .map(|_| &opened_values[SC::Pcs::PREPROCESSED_TRACE_IDX]);

    // Iterator over permutation opened values (one per instance with lookups).
    let is_lookup = permutation_commit_and_data.is_some();
    let permutation_values_for_mats = if is_lookup {
        &opened_values[permutation_idx]
    } else {
        &vec![]
    };
    let mut permutation_values_for_mats = permutation_values_for_mats.iter();

    // Iterate over quotient chunk ranges to assemble per-instance opened values.
    let mut quotient_openings_iter = opened_values[SC::Pcs::QUOTIENT_IDX].iter();
    for (i, (s, e)) in quotient_chunk_ranges.iter().copied().enumerate() {
        // Optional randomization polynomial opening.
        let random = if opt_r_data.is_some() {
            Some(opened_values[0][i][0].clone())
        } else {
            None
        };

        // Main trace: local row always present; next row only if AIR uses it.
        let tv = &trace_values_for_mats[i];
        let trace_local = tv[0].clone();
        let trace_next = if !airs[i].main_next_row_columns().is_empty() {
            Some(tv[1].clone())
        } else {
            None
        };

        // Quotient chunks: collect the zeta-point opening of each chunk.
        let mut qcs = Vec::with_capacity(e - s);
        for _ in s..e {
            let mat_vals = quotient_openings_iter
                .next()
                .expect("chunk index in bounds");
            qcs.push(mat_vals[0].clone());
        }

        // Preprocessed openings: local and optionally next row.
        let (preprocessed_local, preprocessed_next) = if let (Some(global), Some(pre_round)) =
            (&common.preprocessed, preprocessed_openings)
        {
            global.instances[i].as_ref().map_or((None, None), |meta| {
                let vals = &pre_round[meta.matrix_index];
                if !airs[i].preprocessed_next_row_columns().is_empty() {
                    assert_eq!(
                        vals.len(),
                        2,
                        "expected two opening points (zeta, zeta_next) for preprocessed trace"
                    );
                    (Some(vals[0].clone()), Some(vals[1].clone()))
                } else {
                    assert_eq!(
                        vals.len(),
                        1,
                        "expected one opening point (zeta) for preprocessed trace"
                    );
                    (Some(vals[0].clone()), None)
                }
            })
        } else {
            (None, None)
        };

        // Permutation openings: present only for instances with lookups.
        let (permutation_local, permutation_next) = if !all_lookups[i].is_empty() {
            let perm_v = permutation_values_for_mats
                .next()
                .expect("instance should have permutation openings");
            (perm_v[0].clone(), perm_v[1].clone())
        } else {
            (vec![], vec![])
        };

        // Assemble the complete opened values for this instance.
        let base_opened = OpenedValues {
            trace_local,
            trace_next,
            preprocessed_local,
            preprocessed_next,
            quotient_chunks: qcs,
            random,
        };

        per_instance.push(OpenedValuesWithLookups {
            base_opened_values: base_opened,
            permutation_local,
            permutation_next,
        });
    }

    // Extract the permutation commitment (if any) for inclusion in the proof.
    let permutation = permutation_commit_and_data
        .as_ref()
        .map(|(comm, _)| comm.clone());

    // Assemble the final proof structure.
    BatchProof {
        commitments: BatchCommitments {
            main: main_commit,
            quotient_chunks: quotient_commit,
            random: opt_r_commit,
            permutation,
        },
        opened_values: BatchOpenedValues {
            instances: per_instance,
        },
        opening_proof,
        lookup_terminals,
        degree_bits: log_ext_degrees,
    }
}


/// The same for `p3_uni_stark::prove_with_preprocessed` (p3-uni-stark 0.6.3, `src/prover.rs`, body
/// copied verbatim): the debug-only `check_constraints` and the `num_constraints` hint are removed,
/// tracing spans removed, one hook (`quotient_cell`). Drift from the stock prover is checked the
/// same way (class `forge-prover-drift`).
pub mod uni {
    use p3_air::Air;
    use p3_air::symbolic::{AirLayout, SymbolicAirBuilder};
    use p3_challenger::{CanObserve, FieldChallenger};
    use p3_commit::{Pcs, PolynomialSpace};
    use p3_field::PrimeCharacteristicRing;
    use p3_matrix::Matrix;
    use p3_matrix::dense::RowMajorMatrix;
    use p3_uni_stark::{
        Commitments, OpenedValues, PreprocessedProverData, Proof, ProverConstraintFolder, StarkGenericConfig, Val,
        get_log_num_quotient_chunks,
    };
    use p3_util::log2_strict_usize;

    pub fn forge_prove_uni<
        SC,
        A,
    >(
        config: &SC,
        air: &A,
        trace: RowMajorMatrix<Val<SC>>,
        public_values: &[Val<SC>],
        preprocessed: Option<&PreprocessedProverData<SC>>,
        quotient_cell: Option<usize>,
    ) -> Proof<SC>
    where
        SC: StarkGenericConfig,
        A: Air<SymbolicAirBuilder<Val<SC>>> + for<'a> Air<ProverConstraintFolder<'a, SC>>,
    {
        // (the stock prover's debug-only `check_constraints` is deliberately absent: this prover is the adversary)

        // Compute the height `N = 2^n` and `log_2(height)`, `n`, of the trace.
        let degree = trace.height();
        let log_degree = log2_strict_usize(degree);
        let log_ext_degree = log_degree + config.is_zk();

        // Get preprocessed width for symbolic constraint evaluation.
        //
        // - If reusable preprocessed prover data is provided, trust its width and degree_bits
        //   (and enforce consistency).
        // - Otherwise, if the AIR defines preprocessed columns, we treat it as an error:
        //   callers must use `setup_preprocessed` and pass the resulting data in.
        let preprocessed_width = preprocessed.map_or_else(
            || {
                let width = air.preprocessed_width();
                if width > 0 {
                    panic!(
                        "AIR defines preprocessed columns (width = {width}), \
                         but no PreprocessedProverData was provided. \
                         Call `setup_preprocessed` and pass it to `prove_with_preprocessed`."
                    );
                }
                0
            },
            |pp| {
                assert_eq!(
                    pp.degree_bits, log_ext_degree,
                    "PreprocessedProverData degree_bits does not match trace degree_bits"
                );
                pp.width
            },
        );

        let layout = AirLayout {
            preprocessed_width,
            main_width: air.width(),
            num_public_values: air.num_public_values(),
            num_periodic_columns: air.num_periodic_columns(),
            ..Default::default()
        };

        // In debug builds, cross-check the static hint against symbolic evaluation.

        // Each constraint polynomial looks like `C_j(X_1, ..., X_w, Y_1, ..., Y_w, Z_1, ..., Z_j)`.
        // When evaluated on a given row, the X_i's will be the `i`'th element of the that row, the
        // Y_i's will be the `i`'th element of the next row and the Z_i's will be evaluations of
        // selector polynomials on the given row index.
        //
        // When we convert to working with polynomials, the `X_i`'s and `Y_i`'s will be replaced by the
        // degree `N - 1` polynomials `T_i(x)` and `T_i(hx)` respectively. The selector polynomials are
        // a little more complicated, however.
        //
        // In our case, the selector polynomials are `S_1(x) = is_first_row`, `S_2(x) = is_last_row`
        // and `S_3(x) = is_transition`. Both `S_1(x)` and `S_2(x)` are polynomials of degree `N - 1`
        // as they must be non-zero only at a single location in the initial domain. However,
        // `is_transition` is a polynomial of degree `1` as it simply needs to be `0` on the last row.
        //
        // The constraint degree (`deg(C)`) is the linear factor of `N` in the constraint polynomial. In other
        // words, it is roughly the total degree of `C`; however, we treat `Z_3` as a constant term which does
        // not contribute to the degree.
        //
        // E.g. `C_j = Z_1 * (X_1^3 - X_2 * X_3 * X_4)` would have degree `4`.
        //      `C_j = Z_3 * (X_1^3 - X_2 * X_3 * X_4)` would have degree `3`.
        //
        // The point of all this is that, defining:
        //          C(x) = C(T_1(x), ..., T_w(x), T_1(hx), ... T_w(hx), S_1(x), S_2(x), S_3(x))
        // We get the constraint bound:
        //          deg(C(x)) <= deg(C) * (N - 1) + 1
        // The `+1` is due to the `is_transition` selector which is not accounted for in `deg(C)`. Note
        // that S_i^2 should never appear in a constraint as it should just be replaced by `S_i`.
        //
        // For now in comments we assume that `deg(C) = 3` meaning `deg(C(x)) <= 3N - 2`

        // From the degree of the constraint polynomial, compute the number
        // of quotient polynomials we will split Q(x) into. This is chosen to
        // always be a power of 2.
        let log_num_quotient_chunks =
            get_log_num_quotient_chunks::<Val<SC>, A>(air, layout, config.is_zk());

        let num_quotient_chunks = 1 << (log_num_quotient_chunks + config.is_zk());

        // Initialize the PCS and the Challenger.
        let pcs = config.pcs();
        let mut challenger = config.initialise_challenger();

        // Get the subgroup `H` of size `N`. We treat each column `T_i` of
        // the trace as an evaluation vector of polynomials `T_i(x)` over `H`.
        // (In the Circle STARK case `H` is instead a standard position twin coset of size `N`)
        let trace_domain = pcs.natural_domain_for_degree(degree);

        // When ZK is enabled, we need to use an extended domain of size `2N` as we will
        // add random values to the trace.
        let ext_trace_domain = pcs.natural_domain_for_degree(degree * (config.is_zk() + 1));

        // Let `g` denote a generator of the multiplicative group of `F` and `H'` the unique
        // subgroup of `F` of size `N << (pcs.config.log_blowup + config.is_zk())`.
        // If `zk` is enabled, we double the trace length by adding random values.
        //
        // For each trace column `T_i`, we compute the evaluation vector of `T_i(x)` over `H'`. This
        // new extended trace `ET` is hashed into a Merkle tree with its rows bit-reversed.
        //      trace_commit contains the root of the tree
        //      trace_data contains the entire tree.
        //          - trace_data.leaves is the matrix containing `ET`.
        let (trace_commit, trace_data) =
            pcs.commit([(ext_trace_domain, trace)]);

        // Preprocessed commitment and prover data (if any).
        let (preprocessed_commit, preprocessed_data_ref) = preprocessed
            .map(|pp| (pp.commitment.clone(), &pp.prover_data))
            .unzip();

        // Observe the instance.
        // degree < 2^255 so we can safely cast log_degree to a u8.
        challenger.observe(Val::<SC>::from_u8(log_ext_degree as u8));
        challenger.observe(Val::<SC>::from_u8(log_degree as u8));
        challenger.observe(Val::<SC>::from_usize(preprocessed_width));
        // TODO: Might be best practice to include other instance data here; see verifier comment.

        // Observe the Merkle root of the trace commitment.
        challenger.observe(trace_commit.clone());
        if preprocessed_width > 0 {
            challenger.observe(preprocessed_commit.as_ref().unwrap().clone());
        }

        // Observe the public input values.
        challenger.observe_slice(public_values);

        // Get the first Fiat Shamir challenge which will be used to combine all constraint polynomials
        // into a single polynomial.
        //
        // Soundness Error:
        // If a prover is malicious, we can find a row `i` such that some of the constraints
        // C_0, ..., C_n are non 0 on this row. The malicious prover "wins" if the random challenge
        // alpha is such that:
        // (1): C_0(i) + alpha * C_1(i) + ... + alpha^n * C_n(i) = 0
        // This is a polynomial of degree n, so it has at most n roots. Thus the probability of this
        // occurring for a given trace and set of constraints is n/|EF|.
        //
        // Currently, we do not observe data about the constraint polynomials directly. In particular
        // a prover could take a trace and fiddle around with the AIR it claims to satisfy without
        // changing this sample alpha.
        //
        // In particular this means that a malicious prover could create a custom AIR for a given trace
        // such that equation (1) holds. However, such AIRs would need to be very specific and
        // so such tampering should be obvious to spot. The verifier needs to check the AIR anyway to
        // confirm that satisfying it indeed proves what the prover claims. Hence this should not be
        // a soundness issue.
        let alpha: SC::Challenge = challenger.sample_algebra_element();

        // A domain large enough to uniquely identify the quotient polynomial.
        // This domain must be contained in the domain over which `trace_data` is defined.
        // Explicitly it should be equal to `gK` for some subgroup `K` contained in `H'`.
        let quotient_domain =
            ext_trace_domain.create_disjoint_domain(1 << (log_ext_degree + log_num_quotient_chunks));

        // Return a the subset of the extended trace `ET` corresponding to the rows giving evaluations
        // over the quotient domain.
        //
        // This only works if the trace domain is `gH'` and the quotient domain is `gK` for some subgroup `K` contained in `H'`.
        // TODO: Make this explicit in `get_evaluations_on_domain` or otherwise fix this.
        let trace_on_quotient_domain = pcs.get_evaluations_on_domain(&trace_data, 0, quotient_domain);
        let preprocessed_on_quotient_domain = preprocessed_data_ref
            .map(|data| pcs.get_evaluations_on_domain_no_random(data, 0, quotient_domain));

        // Compute the quotient polynomial `Q(x)` by evaluating
        //          `C(T_1(x), ..., T_w(x), T_1(hx), ..., T_w(hx), selectors(x)) / Z_H(x)`
        // at every point in the quotient domain. The degree of `Q(x)` is `<= deg(C(x)) - N = 2N - 2` in the case
        // where `deg(C) = 3`. (See the discussion above constraint_degree for more details.)
        let quotient_values = p3_uni_stark::quotient_values(
            pcs,
            air,
            public_values,
            layout,
            trace_domain,
            quotient_domain,
            &trace_on_quotient_domain,
            preprocessed_on_quotient_domain.as_ref(),
            alpha,
        );

        // Due to `alpha`, evaluations of `Q` all lie in the extension field `E`.
        // We flatten this into a matrix of `F` values by treating `E` as an `F`
        // vector space and so separating each element of `E` into `e + 1 = [E: F]` elements of `F`.
        //
        // This is valid to do because our domain lies in the base field `F`. Hence we can split
        // `Q(x)` into `e + 1` polynomials `Q_0(x), ... , Q_e(x)` each contained in `F`.
        // such that `Q(x) = [Q_0(x), ... ,Q_e(x)]` holds for all `x` in `F`.
        // FORGE HOOK: commit a quotient that is not constraints / Z_H.
        let mut quotient_values = quotient_values;
        if let Some(cell) = quotient_cell {
            let n = quotient_values.len();
            quotient_values[cell % n] += SC::Challenge::ONE;
        }
        let quotient_flat = RowMajorMatrix::new_col(quotient_values).flatten_to_base();

        // Currently each polynomial `Q_i(x)` is of degree `<= 2(N - 1)` and
        // we have it's evaluations over a the coset `gK of size `2N`. Let `k` be the chosen
        // generator of `K` which satisfies `k^2 = h`.
        //
        // We can split this coset into the sub-cosets `gH` and `gkH` each of size `N`.
        // Define:  L_g(x)    = (x^N - (gk)^N)/(g^N - (gk)^N) = (x^N + g^N)/2g^N
        //          L_{gk}(x) = (x^N - g^N)/(g^N - (gk)^N)    = -(x^N - g^N)/2g^N.
        // Then `L_g` is equal to `1` on `gH` and `0` on `gkH` and `L_{gk}` is equal to `1` on `gkH` and `0` on `gH`.
        //
        // Thus we can decompose `Q_i(x) = L_{g}(x)q_{i0}(x) + L_{gk}(x)q_{i1}(x)` (Or an randomized version of this in the zk case)
        // where `q_{i0}(x)` and `q_{i1}(x)` are polynomials of degree `<= N - 1`.
        // Moreover the evaluations of `q_{i0}(x), q_{i1}(x)` on `gH` and `gkH` respectively are
        // exactly the evaluations of `Q_i(x)` on `gH` and `gkH`.
        // For each polynomial `q_{ij}`, compute the evaluation vector of `q_{ij}(x)` over `gH'`. We bit
        // reverse the rows and hash the resulting matrix into a merkle tree.
        //      quotient_commit contains the root of the tree
        //      quotient_data contains the entire tree.
        //          - quotient_data.leaves is a pair of matrices containing the `q_i0(x)` and `q_i1(x)`.
        let (quotient_commit, quotient_data) = pcs.commit_quotient(quotient_domain, quotient_flat, num_quotient_chunks);
        challenger.observe(quotient_commit.clone());

        // If zk is enabled, we generate random extension field values of the size of the randomized trace. If `n` is the degree of the initial trace,
        // then the randomized trace has degree `2n`. To randomize the FRI batch polynomial, we then need an extension field random polynomial of degree `2n -1`.
        // So we can generate a random polynomial of degree `2n`, and provide it to `open` as is.
        // Then the method will add `(R(X) - R(z)) / (X - z)` (which is of the desired degree `2n - 1`), to the batch of polynomials.
        // Since we need a random polynomial defined over the extension field, and the `commit` method is over the base field,
        // we actually need to commit to `SC::Challenge::D` base field random polynomials.
        // This is similar to what is done for the quotient polynomials.
        // TODO: This approach is only statistically zk. To make it perfectly zk, `R` would have to truly be an extension field polynomial.
        let (opt_r_commit, opt_r_data) = if SC::Pcs::ZK {
            let (r_commit, r_data) = pcs
                .get_opt_randomization_poly_commitment(core::iter::once(ext_trace_domain))
                .expect("ZK is enabled, so we should have randomization commitments");
            (Some(r_commit), Some(r_data))
        } else {
            (None, None)
        };

        // Combine our commitments to the trace and quotient polynomials into a single object which
        // will be passed to the verifier.
        let commitments = Commitments {
            trace: trace_commit,
            quotient_chunks: quotient_commit,
            random: opt_r_commit.clone(),
        };

        if let Some(r_commit) = opt_r_commit {
            challenger.observe(r_commit);
        }

        // Get an out-of-domain point to open our values at.
        //
        // Soundness Error:
        // This sample will be used to check the equality: `C(X) = ZH(X)Q(X)`. If a prover is malicious
        // and this equality is false, the probability that it is true at the point `zeta` will be
        // deg(C(X))/|EF| = dN/|EF| where `N` is the trace length and our constraints have degree `d`.
        //
        // Completeness Error:
        // If zeta happens to lie in the domain `gK`, then when opening at zeta we will run into division
        // by zero errors. This doesn't lead to a soundness issue as the verifier will just reject in those
        // cases but it is a completeness issue and contributes a completeness error of |gK| = 2N/|EF|.
        let zeta: SC::Challenge = challenger.sample_algebra_element();
        let zeta_next = trace_domain
            .next_point(zeta)
            .expect("domain should support next_point operation");

        let is_random = opt_r_data.is_some();
        let main_next = !air.main_next_row_columns().is_empty();
        let pre_next = !air.preprocessed_next_row_columns().is_empty();
        let (opened_values, opening_proof) = (|| {
            let round0 = opt_r_data.as_ref().map(|r_data| (r_data, vec![vec![zeta]]));
            let round1_points = if main_next {
                vec![zeta, zeta_next]
            } else {
                vec![zeta]
            };
            let round1 = (&trace_data, vec![round1_points]);
            let round2 = (&quotient_data, vec![vec![zeta]; num_quotient_chunks]); // open every chunk at zeta
            let round3 = preprocessed_data_ref.map(|data| {
                let pre_points = if pre_next {
                    vec![zeta, zeta_next]
                } else {
                    vec![zeta]
                };
                (data, vec![pre_points])
            });

            let rounds = round0
                .into_iter()
                .chain([round1, round2])
                .chain(round3)
                .collect();

            pcs.open_with_preprocessing(rounds, &mut challenger, preprocessed_data_ref.is_some())
        })();
        let trace_idx = SC::Pcs::TRACE_IDX;
        let quotient_idx = SC::Pcs::QUOTIENT_IDX;
        let trace_local = opened_values[trace_idx][0][0].clone();
        let trace_next = if main_next {
            Some(opened_values[trace_idx][0][1].clone())
        } else {
            None
        };
        let quotient_chunks = opened_values[quotient_idx]
            .iter()
            .map(|v| v[0].clone())
            .collect::<Vec<_>>();
        let random = if is_random {
            Some(opened_values[0][0][0].clone())
        } else {
            None
        };
        let (preprocessed_local, preprocessed_next) = if preprocessed_width > 0 {
            let local = Some(opened_values[SC::Pcs::PREPROCESSED_TRACE_IDX][0][0].clone());
            let next = if pre_next {
                Some(opened_values[SC::Pcs::PREPROCESSED_TRACE_IDX][0][1].clone())
            } else {
                None
            };
            (local, next)
        } else {
            (None, None)
        };
        let opened_values = OpenedValues {
            trace_local,
            trace_next,
            preprocessed_local,
            preprocessed_next,
            quotient_chunks,
            random,
        };
        Proof {
            commitments,
            opened_values,
            opening_proof,
            degree_bits: log_ext_degree,
        }
    }
}
