/-
C02 — "running the compiled circuit assigns to every expression the value that the expression
denotes mathematically over the field".

`denote` is the mathematical denotation of the expression graph (left-to-right evaluation of the
nodes over a field; free nodes — private inputs, non-primitive outputs, bool-check markers — take
their value from the environment `free`).

`nodeRel_denote`: an assignment of all nodes that satisfies every node's defining relation
(`C03.nodeRel`), on a topologically ordered graph and with non-zero divisors, *is* the
denotation.

`run_values_denote` composes this with the verified chain of C03 (`compile_chain_sound`:
lowering certificate, global de-duplication theorem, fusion certificate) and with
`run_ok_sat` (a successful run satisfies every emitted op): whenever the modelled `run`
succeeds on the compiled circuit, every expression's witness slot (through `expr_to_widx` and
the de-duplication rewrite) holds the expression's denotation. Fused product slots are the
only exception (they have no witness column; `w'` repairs them and is otherwise the witness).
-/
import P3R.Props.C02Run
import P3R.Props.C03Chain
import Mathlib.Tactic.FieldSimp
import Mathlib.Tactic.Ring

namespace P3R.C02
open P3R P3R.C03

variable {K : Type} [Field K] [DecidableEq K]

/-- Value of node `i` from the values `vals` of earlier nodes. -/
def evalExpr (pub free : Nat → K) (vals : Nat → K) (i : Nat) : Expr K → K
  | .const c => c
  | .pub p => pub p
  | .add a b => vals a + vals b
  | .sub a b => vals a - vals b
  | .mul a b => vals a * vals b
  | .div a b => vals a / vals b
  | .horner acc al pz px => vals acc * vals al + vals pz - vals px
  | .mulAdd a b c => vals a * vals b + vals c
  | .priv _ => free i
  | .boolCheck _ => free i
  | .npCall _ _ => free i
  | .npOut _ _ => free i

/-- Denotation of the first `n` nodes. -/
def denote (nodes : Array (Expr K)) (pub free : Nat → K) : Nat → List K
  | 0 => []
  | n + 1 =>
    let prev := denote nodes pub free n
    prev ++ [match nodes[n]? with
      | some e => evalExpr pub free (fun j => prev.getD j 0) n e
      | none => 0]

theorem denote_length (nodes : Array (Expr K)) (pub free : Nat → K) (n : Nat) :
    (denote nodes pub free n).length = n := by
  induction n with
  | zero => rfl
  | succ n ih => simp [denote, ih]

theorem dagOk_lt (nodes : Array (Expr K)) (h : dagOk nodes = true) (i : Nat) (e : Expr K)
    (hi : nodes[i]? = some e) : ∀ c ∈ e.arithChildren, c < i := by
  have hlt : i < nodes.size := by
    by_contra hge
    have : nodes[i]? = none := Array.getElem?_eq_none (by omega)
    rw [this] at hi; cases hi
  unfold dagOk at h
  simp only [List.all_eq_true, List.mem_range] at h
  have := h i hlt
  rw [hi] at this
  simpa using this

/-- **Determinism of the expression semantics.** An assignment satisfying every node relation on
a topologically ordered graph, with non-zero divisors, equals the denotation. -/
theorem nodeRel_denote (nodes : Array (Expr K)) (pub v : Nat → K)
    (hrel : ∀ i e, nodes[i]? = some e → nodeRel v pub i e)
    (hdag : dagOk nodes = true)
    (hdiv : ∀ (i a b : Nat), nodes[i]? = some (Expr.div a b : Expr K) → v b ≠ 0) :
    ∀ n, n ≤ nodes.size → ∀ i, i < n → (denote nodes pub v n).getD i 0 = v i := by
  intro n
  induction n with
  | zero => intro _ i hi; omega
  | succ n ih =>
    intro hn i hi
    have ihn := ih (by omega)
    have hlen := denote_length nodes pub v n
    simp only [denote]
    by_cases hin : i < n
    · rw [List.getD_eq_getElem?_getD, List.getElem?_append_left (by omega)]
      rw [← List.getD_eq_getElem?_getD]
      exact ihn i hin
    · have hieq : i = n := by omega
      subst hieq
      rw [List.getD_eq_getElem?_getD, List.getElem?_append_right (by omega)]
      simp only [hlen, Nat.sub_self, List.getElem?_cons_zero, Option.getD_some]
      have hsome : ∃ e, nodes[i]? = some e := by
        have : i < nodes.size := by omega
        exact ⟨nodes[i], by simp [this]⟩
      obtain ⟨e, he⟩ := hsome
      rw [he]
      have hr := hrel i e he
      have hc := dagOk_lt nodes hdag i e he
      cases e with
      | const c => simpa [evalExpr, nodeRel] using hr.symm
      | pub p => simpa [evalExpr, nodeRel] using hr.symm
      | priv _ => rfl
      | boolCheck _ => rfl
      | npCall _ _ => rfl
      | npOut _ _ => rfl
      | add a b =>
        simp only [Expr.arithChildren, List.mem_cons, List.not_mem_nil, or_false, forall_eq_or_imp, forall_eq] at hc
        simp only [evalExpr, nodeRel] at hr ⊢
        rw [ihn a hc.1, ihn b hc.2, hr]
      | sub a b =>
        simp only [Expr.arithChildren, List.mem_cons, List.not_mem_nil, or_false, forall_eq_or_imp, forall_eq] at hc
        simp only [evalExpr, nodeRel] at hr ⊢
        rw [ihn a hc.1, ihn b hc.2, hr]
      | mul a b =>
        simp only [Expr.arithChildren, List.mem_cons, List.not_mem_nil, or_false, forall_eq_or_imp, forall_eq] at hc
        simp only [evalExpr, nodeRel] at hr ⊢
        rw [ihn a hc.1, ihn b hc.2, hr]
      | div a b =>
        simp only [Expr.arithChildren, List.mem_cons, List.not_mem_nil, or_false, forall_eq_or_imp, forall_eq] at hc
        simp only [evalExpr, nodeRel] at hr ⊢
        rw [ihn a hc.1, ihn b hc.2, ← hr]
        have := hdiv i a b he
        field_simp
      | horner acc al pz px =>
        simp only [Expr.arithChildren, List.mem_cons, List.not_mem_nil, or_false, forall_eq_or_imp, forall_eq] at hc
        simp only [evalExpr, nodeRel] at hr ⊢
        rw [ihn acc hc.1, ihn al hc.2.1, ihn pz hc.2.2.1, ihn px hc.2.2.2, hr]
      | mulAdd a b c =>
        simp only [Expr.arithChildren, List.mem_cons, List.not_mem_nil, or_false, forall_eq_or_imp, forall_eq] at hc
        simp only [evalExpr, nodeRel] at hr ⊢
        rw [ihn a hc.1, ihn b hc.2.1, ihn c hc.2.2, hr]

/-- **C02 / value preservation.** If the modelled `run` of the compiled circuit succeeds, then
(up to the fused product slots, which have no witness column) the witness slot of every
expression — through `expr_to_widx` and the de-duplication rewrite — holds the value the
expression denotes. Hypotheses `hLC`, `hWF`, `hFC`, `hdag`, `hWFfin` are the certificate checks
the driver evaluates on every compiled program of the correspondence run; `hpub` says the public
rows carry the public inputs (established by `set_public_inputs`); `hbool` that the asserted
booleans are boolean on these inputs and `hdiv` that no divisor is zero (the property's own
premises). -/
theorem run_values_denote (canon : K → Nat) (b : BState K) (l : Lowered K) (inputs : List Nat)
    (c : Circuit K)
    (hops : c.ops = fuse (dedup l.ops).1 inputs)
    (hLC : lowerCheck b l = true)
    (hWF : ∀ o ∈ l.ops.toList, opWF o = true)
    (hWFfin : ∀ o ∈ c.ops.toList, opWF o = true)
    (hFC : fusionCheck (dedup l.ops).1.toList (fuseWithSites (dedup l.ops).1 inputs).1.toList
      (fuseWithSites (dedup l.ops).1 inputs).2 = true)
    (hdag : dagOk b.nodes = true)
    (w0 : Array (Option K)) (t : Traces K) (hrun : runFrom canon c w0 = .ok t) (pub : Nat → K)
    (hpub : ∀ out pos, Op.pub out pos ∈ c.ops.toList → t.witness.getD out 0 = pub pos)
    (hbool : ∀ a bb cc out io, Op.alu .boolCheck a bb cc out io ∈ c.ops.toList →
      t.witness.getD a 0 * (t.witness.getD a 0 - 1) = 0) :
    ∃ w' : Nat → K,
      (∀ x, (∀ s ∈ (fuseWithSites (dedup l.ops).1 inputs).2, s.m ≠ x) → w' x = t.witness.getD x 0) ∧
      ((∀ (i a d : Nat), b.nodes[i]? = some (Expr.div a d : Expr K) →
          w' (resolve (dedup l.ops).2 (l.slot d)) ≠ 0) →
        ∀ i, i < b.nodes.size →
          w' (resolve (dedup l.ops).2 (l.slot i)) =
            (denote b.nodes pub (fun e => w' (resolve (dedup l.ops).2 (l.slot e))) b.nodes.size).getD i 0) := by
  -- the run satisfies every emitted op
  have hwfh : ∀ op ∈ c.ops.toList, ∀ a bb cc out io, op = .alu .horner a bb cc out io →
      cc.isSome ∧ io.isSome := by
    intro op hop a bb cc out io he
    have := hWFfin op hop
    subst he
    simpa [opWF] using this
  obtain ⟨w3, _, hsat⟩ := run_ok_sat canon c w0 t hrun pub hwfh
  have hSat : Sat (fun j => t.witness.getD j 0) pub (fuse (dedup l.ops).1 inputs).toList := by
    intro op hop
    rw [← hops] at hop
    by_cases hp : ∃ out pos, op = .pub out pos
    · obtain ⟨out, pos, rfl⟩ := hp
      simpa [Op.holds] using hpub out pos hop
    · refine hsat op hop (fun out pos he => hp ⟨out, pos, he⟩) ?_
      intro a bb cc out io he
      subst he
      exact hbool a bb cc out io hop
  obtain ⟨w', hoff, hnodes, _⟩ := compile_chain_sound b l inputs hLC
    (fun o ho => opWF_sound o (hWF o ho)) hFC _ pub hSat
  refine ⟨w', hoff, fun hdiv i hi => ?_⟩
  exact (nodeRel_denote b.nodes pub _ hnodes hdag hdiv b.nodes.size (Nat.le_refl _) i hi).symm

end P3R.C02

namespace P3R.C02
open P3R

variable {K : Type} [Neg K] [Zero K] [DecidableEq K]

/-- The modelled `compile` produces exactly the op list the chain theorem speaks about, and that
list passed `validate_horner_chains`. -/
theorem compile_ops_eq (b : BState K) (c : Circuit K) (h : compile b = .ok c) :
    ∃ l : Lowered K, lower b = .ok l ∧
      c.ops = fuse (dedup l.ops).1 (l.privRows.toList.map (resolve (dedup l.ops).2)) ∧
      c.rewrite = (dedup l.ops).2 ∧ hornerChained c.ops.toList = true := by
  unfold compile at h
  split at h
  · cases h
  · rename_i l hl
    refine ⟨l, hl, ?_⟩
    simp only [optimize] at h
    by_cases hch : hornerChained (fuse (dedup l.ops).1 (List.map (resolve (dedup l.ops).2) l.privRows.toList)).toList = true
    · simp only [hch, Bool.not_true, Bool.false_eq_true, if_false] at h
      cases h
      exact ⟨rfl, rfl, hch⟩
    · have hf : hornerChained (fuse (dedup l.ops).1 (List.map (resolve (dedup l.ops).2) l.privRows.toList)).toList = false := by
        simpa using hch
      simp only [hf, Bool.not_false, if_true] at h
      cases h

end P3R.C02
