"""C11: ALU table constraints — value-exact correspondence of AluAir::eval with the Lean model
on random windows, relation oracle on structured rows and on scheduled honest traces with
single-cell tampering."""
import json, os
from checks import run_driver, read_lines

PROPERTY = "C11"


def run(ctx):
    tier, seed, work = ctx["tier"], ctx["seed"], ctx["work"]
    n_alu, n_sched, tampers = (4000, 1500, 12) if tier == "quick" else (200000, 60000, 24)
    violations, hist, samples = [], {}, []
    out = f"{work}/run0"
    evals = distinct = disagreements = blocks = 0
    rc, o = ctx["sh"]([ctx["harness"], "alu", "--seed", str(seed), "--cases", str(n_alu), "--out", out], timeout=7200)
    if rc != 0:
        violations.append({"class": "harness-crash", "what": f"harness alu exited {rc}: {o[-300:]}", "replay": {}, "no_input": True})
    else:
        rep = json.load(open(f"{out}/alu.report.json"))
        evals += rep["evaluations"]; distinct += rep["distinct"]; hist.update(rep["hist"]); samples += rep["samples"][:2]
        for v in rep["violations"]:
            violations.append({"class": v["class"], "what": v["kind"], "replay": v["replay"]})
        with open(f"{out}/alu.cases") as fin:
            rc, mo = ctx["sh"]([ctx["driver_dir"] + "/p3r_driver_c11"], stdin=fin, timeout=3600)
        open(f"{out}/alu.model", "w").write(mo)
        impl = read_lines(f"{out}/alu.impl"); model = read_lines(f"{out}/alu.model"); cases = read_lines(f"{out}/alu.cases")
        blocks = len(cases)
        for k in range(len(cases)):
            a = impl[2 * k:2 * k + 2]; b = model[2 * k:2 * k + 2]
            if a != b:
                disagreements += 1
                if disagreements <= 3:
                    ai = a[0].split() if a else []; bi = b[0].split() if b else []
                    pos = next((j for j, (x, y) in enumerate(zip(ai, bi)) if x != y), None)
                    violations.append({"class": "model-disagreement",
                        "what": f"correspondence AluAir::eval vs lean/P3R/Model/AluAir no longer checks (constraint/interaction #{pos} differs)",
                        "replay": {"correspondence": "AluAir::eval values on a window", "case": cases[k][:4000], "first_diff_index": pos},
                        "no_input": True})
    rc, o = ctx["sh"]([ctx["harness"], "alusched", "--seed", str(seed), "--cases", str(n_sched), "--tampers", str(tampers), "--out", out], timeout=7200)
    if rc != 0:
        violations.append({"class": "harness-crash", "what": f"harness alusched exited {rc}: {o[-300:]}", "replay": {}, "no_input": True})
    else:
        rep = json.load(open(f"{out}/alusched.report.json"))
        evals += rep["evaluations"]
        for k, v in rep["hist"].items():
            hist[k] = hist.get(k, 0) + v
        for v in rep["violations"]:
            violations.append({"class": v["class"], "what": v["kind"], "replay": v["replay"]})
        # schedule / scheduled preprocessed matrix: real AluAir vs lean/P3R/Model/AluSchedule.lean
        with open(f"{out}/alusched.cases") as fin:
            rc, mo = ctx["sh"]([ctx["driver_dir"] + "/p3r_driver_c11"], stdin=fin, timeout=3600)
        mlines = [l for l in mo.splitlines() if l.startswith("m ") or l == "bad-op"]
        ichk = [l for l in mo.splitlines() if l.startswith("ichk")]
        bad_ichk = [k for k, l in enumerate(ichk) if l != "ichk ok"]
        if bad_ichk or len(ichk) != len(mlines):
            violations.append({"class": "model-disagreement",
                "what": "certificate entryInters = aluInteractions on the scheduled rows (link between the scheduled matrix and theorem "
                        "schedule_preserves_bus) no longer checks",
                "replay": {"correspondence": "scheduled rows' interactions vs entryInters", "first_case": (read_lines(f"{out}/alusched.cases")[bad_ichk[0]] if bad_ichk else "")[:4000]},
                "no_input": True})
        ilines = read_lines(f"{out}/alusched.impl"); scases = read_lines(f"{out}/alusched.cases")
        blocks += len(scases)
        sd = 0
        for k in range(max(len(ilines), len(mlines))):
            a = ilines[k] if k < len(ilines) else None
            b = mlines[k] if k < len(mlines) else None
            if a != b:
                disagreements += 1; sd += 1
                if sd <= 3:
                    violations.append({"class": "model-disagreement",
                        "what": "correspondence compute_schedule + build_scheduled_preprocessed_trace (alu_air.rs) vs lean/P3R/Model/AluSchedule no longer checks",
                        "replay": {"correspondence": "scheduled preprocessed matrix", "case": (scases[k] if k < len(scases) else "")[:4000],
                                   "impl": (a or "")[:1500], "model": (b or "")[:1500]},
                        "no_input": True})
    cov = {"evaluations": evals, "distinct_nontrivial": distinct,
           "rule": "windows over D in {1,2,4,5(quintic),8}, lanes 1..3, K_max 2..6: fully random (dense/sparse selectors) for polynomial "
                   "identity, structured valid/invalid rows judged with p3-field extension arithmetic; scheduled honest traces built by the "
                   "real AluAir (packed Horner arities 1..K_max) with single-cell tampering judged by an independent relation decoder; "
                   "distinct = distinct window texts",
           "samples": samples, "input_distribution": hist,
           "traces_validated_against_impl": blocks, "disagreements_checked": disagreements}
    return violations, cov


CHECK = {
    "lean_modules": ["P3R.Props.C11", "P3R.Props.C11Packed", "P3R.Props.C11Sched"],
    "lean_exes": ["p3r_driver_c11"],
    "theorems": ["P3R.C11.laneAdd_iff", "P3R.C11.laneEq_iff", "P3R.C11.laneMulAdd_iff", "P3R.C11.laneBool_iff",
                 "P3R.C11.hornerSingle_iff", "P3R.C11.lane_zero_sel", "P3R.C11.send_accepts_every_row", "P3R.C11.send_value_is_main_cell", "P3R.C11.sep_out_zero", "P3R.C11.extMulBinomial_eval_D2",
                 "P3R.C11.extMulBinomial_eval_D4", "P3R.C11.extMulBinomial_eval_D5", "P3R.C11.extMulBinomial_eval_D8", "P3R.C11.extMulQuintic_eval", "P3R.C11.packed2_iff", "P3R.C11.packed3_iff",
                 # every arity: the `while s < kk` legs of the model (packedLegs, D = 1) accept exactly chains of single steps
                 "P3R.C11.packedLegs_one_succ", "P3R.C11.packedLegs_sound", "P3R.C11.packedLegs_complete", "P3R.C11.packed_row_sound",
                 # the Horner schedule (model of compute_schedule, tied to the real AluAir every run): packing preserves the bus
                 "P3R.C11.packed_net", "P3R.C11.sched_net", "P3R.C11.computeSchedule_tested", "P3R.C11.splitChains_cover",
                 "P3R.C11.computeSchedule_cover", "P3R.C11.schedule_preserves_bus"],
    "run": run,
    "trusted_base": ["the Poseidon1/Poseidon2 circuit AIRs are not modelled here (C06 models the sponge-chaining constraints of the compact D=1 table); Const / Public (WitnessSendAir) and recompose tables are modelled (no constraints, interactions) and compared value-by-value like the ALU table"],
    "assumptions": ["packed Horner legs are proved for every arity at D = 1 (packedLegs_sound/complete); for packed legs at D > 1 the tie is the value-exact correspondence and the tamper oracle only"],
}

MANIFEST_ENTRY = {
    "property_id": "C11", "quick_cmd": "bin/check C11 --tier quick", "thorough_cmd": "bin/check C11 --tier thorough",
    "evidence_file": "evidence/C11.json", "replay_cmd_template": "bin/check C11 --replay {path}", "engine": "lean-models",
    "technique": "Lean 4 iff-theorems over a model of AluAir::eval + value-exact correspondence with a recording AirBuilder",
    "level_claimed": {"category": "proof", "text": "per-kind row iff theorems (all D), extension product specs (binomial D=2,4,5,8, quintic trinomial), packed Horner legs of every arity (D=1: packedLegs_sound / packedLegs_complete over the model function itself); the model's constraint and interaction values equal the real AluAir::eval's on random windows for every configuration; relation oracles on structured rows and tampered scheduled traces.", "design_ref": "4/C11"},
    "level_note": "ALU, Const/Public and recompose tables modelled; Poseidon AIRs not modelled; packed arities at D>1 by correspondence only",
}
