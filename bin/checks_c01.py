"""C01 — in-circuit STARK verification agrees with native verification.

(also: prover-side forgeries — proofs of false statements made by an adversarial prover, the input region
in which a single algebraic check (OOD identity, cross-AIR terminal sum) is the only one that fails; and
verifying FRI parameters that are not the symmetric test defaults — asymmetric / zero / large grinding bit
counts, a second parameter set for the hiding PCS too — with a lazy prover that grinds fewer (or more) bits
than demanded, for every PCS flavour; see `rule` in the coverage and design_notes/C01.md)

Plug-in for bin/check (see bin/checks.py). One harness run (`p3r-harness starkfaults`):
real uni-STARK / batch-STARK proofs (BabyBear and KoalaBear; preprocessed columns, lookups, ZK,
two FRI parameter sets), the real native verifier and the real verification circuit on the honest
proof and on every single-element alteration of the serialised proof / public values / verifying
data (implementation oracle: the two verdicts must agree). The Lean driver `p3r_driver_c01`
evaluates `P3R.Model.VerifierScript` on the shape of every real proof; its prediction of the
honest outcome, the native transcript structure and the element inventory are compared line by
line with what the real code did (recording challenger on the native verifier, leaf counts of the
serialised proof).
"""
import json, os, re

PROPERTY = "C01"

CORRESPONDENCE = ("verifier scripts (p3_uni_stark::verify_with_preprocessed, p3_batch_stark::verify_batch + BatchTranscript, "
                  "TwoAdicFriPcs/HidingFriPcs::verify, p3_fri verify_fri; recursion/src/verifier/{stark,batch_stark}.rs, "
                  "types/challenges.rs, pcs/fri/targets.rs) vs lean/P3R/Model/VerifierScript.lean")


def _read(p):
    with open(p) as fh:
        return [l.rstrip("\n") for l in fh]


def run(ctx):
    tier, seed, work = ctx["tier"], ctx["seed"], ctx["work"]
    out = f"{work}/run0"
    violations = []
    if ctx.get("replay"):
        rp = json.load(open(ctx["replay"]))
        os.makedirs(f"{work}/replay_corpus", exist_ok=True)
        json.dump(rp.get("replay", rp), open(f"{work}/replay_corpus/r.json", "w"))
        corpus, generate, per_kind, values, forge_all = f"{work}/replay_corpus", 0, 1, 1, 0
    else:
        corpus, generate = f"{ctx['root']}/corpus/c01", 1
        # quick: every position, one altered value; thorough: every position, up to 4 altered values
        per_kind, values = (0, 1) if tier == "quick" else (0, 4)
        # prover-side forgeries: quick = every trace cell / public value / terminal forgery of every batch target
        # (+1), thorough = additionally a seeded random delta per cell and more auxiliary / quotient cells
        forge_all = 1 if tier == "quick" else 2
    cmd = [ctx["harness"], "starkfaults", "--seed", str(seed), "--per-kind", str(per_kind), "--values", str(values),
           "--out", out, "--corpus", corpus, "--generate", str(generate), "--forge-all", str(forge_all)]
    rc, o = ctx["sh"](cmd, timeout=7200)
    empty = {"evaluations": 0, "distinct_nontrivial": 0, "rule": "", "samples": [], "input_distribution": {},
             "traces_validated_against_impl": 0, "disagreements_checked": 0}
    if rc != 0 or not os.path.exists(f"{out}/c01.report.json"):
        violations.append({"class": "harness-crash", "what": f"harness starkfaults exited {rc}: {o[-300:]}",
                           "replay": {"cmd": cmd}, "no_input": True})
        return violations, empty
    rep = json.load(open(f"{out}/c01.report.json"))
    for v in rep["violations"]:
        violations.append({"class": v["class"],
                           "what": f"{v['kind']}: native={v['detail'].get('native')} circuit={v['detail'].get('circuit')} "
                                   f"{v['detail'].get('circuit_detail', '')[:120]} at {json.dumps(v['replay'])[:160]}",
                           "replay": v["replay"]})
    # model side
    driver = os.path.join(ctx["driver_dir"], "p3r_driver_c01")
    with open(f"{out}/c01.cases") as fin:
        rc, mo = ctx["sh"]([driver], stdin=fin, timeout=3600)
    with open(f"{out}/c01.model", "w") as fh:
        fh.write(mo)
    impl, model, cases = _read(f"{out}/c01.impl"), _read(f"{out}/c01.model"), _read(f"{out}/c01.cases")
    while model and model[-1] == "":
        model.pop()
    disagreements = 0
    for k in range(max(len(impl), len(model))):
        a = impl[k] if k < len(impl) else None
        b = model[k] if k < len(model) else None
        if a != b:
            disagreements += 1
            if disagreements <= 3:
                case = cases[k] if k < len(cases) else ""
                fa, fb = (a or "").split(" "), (b or "").split(" ")
                first = next(((x, y) for x, y in zip(fa, fb) if x != y), (a, b))
                violations.append({"class": "model-disagreement",
                                   "what": f"correspondence {CORRESPONDENCE} no longer checks: impl={first[0]!r} model={first[1]!r}",
                                   "replay": {"correspondence": CORRESPONDENCE, "case_line": case,
                                              "first_difference": list(first), "impl_line": a, "model_line": b},
                                   "no_input": True})
    hist = rep["hist"]
    # the forgery campaign must keep its teeth: some forged proof must be rejected natively by the terminal-sum
    # check and some by an out-of-domain check (otherwise those checks are no longer exercised in the circuit)
    forged_native = {k[len("forge-native:"):]: v for k, v in hist.items() if k.startswith("forge-native:")}
    if generate:
        for needle in ("TerminalSumNonZero", "OodEvaluationMismatch"):
            if not any(needle in k for k in forged_native):
                violations.append({"class": f"forge-campaign-lost-power:{needle}",
                                   "what": f"no forged proof is rejected natively with {needle}: the prover-side forgeries no "
                                           f"longer exercise that check (native verdicts seen: {forged_native})",
                                   "replay": {"cmd": cmd}, "no_input": True})
        # under-ground proofs: for every PCS flavour and each phase some proof must be rejected natively by the
        # proof-of-work check alone (otherwise the bit count the circuit uses there is no longer exercised)
        for fam in ("uni", "unizk", "batch", "batchzk"):
            for phase in ("commit", "query"):
                if not hist.get(f"forge-pow-native-reject:{fam}:{phase}"):
                    violations.append({"class": f"forge-campaign-lost-power:pow-{phase}:{fam}",
                                       "what": f"no proof under-ground in the {phase} phase is rejected natively with "
                                               f"InvalidPowWitness for PCS flavour {fam}",
                                       "replay": {"cmd": cmd}, "no_input": True})
        # … and honest proofs under asymmetric verifying parameters must exist for every flavour
        for fam in ("uni", "unizk", "batch", "batchzk", "tables"):
            if not any(k.startswith(f"honest:{fam}/") and re.search(r"-c\d+q\d+:", k) and k.endswith(":accept/accept")
                       for k in hist):
                violations.append({"class": f"forge-campaign-lost-power:asymmetric-pow-target:{fam}",
                                   "what": f"no accepted honest proof under asymmetric grinding bit counts for {fam}",
                                   "replay": {"cmd": cmd}, "no_input": True})
    cov = {"evaluations": rep["evaluations"], "distinct_nontrivial": rep["distinct"],
           "rule": "one evaluation = one (proof, public values, verifying data) triple judged by the real native verifier and by "
                   "the real verification circuit (build + pack_values + runner); distinct = distinct altered positions "
                   "(every numeric leaf of the serialised proof / public values / preprocessed commitment of every target; "
                   "altered value = old+1, else old-1; thorough also a seeded random field element and 0); shape "
                   "parameters (degree bits, FRI log-arities, preprocessed metadata) are judged with the circuit rebuilt from "
                   "the altered proof, which kinds are shape parameters is detected per kind by judging the first position both "
                   "ways; every position is non-trivial (it changes the verifier's input). "
                   "Plus prover-side forgeries on every batch target (incl. batches with global / local LogUp lookups "
                   "next to lookup-free instances): an adversarial prover (harness/src/c01_forge_prover.rs = "
                   "p3_batch_stark::prove_batch without its debug-only self-checks, byte-identical on honest "
                   "witnesses, checked each run) proves a FALSE statement — one trace cell / public value off by a "
                   "delta, a shifted lookup terminal (sum-preserving pair or single), an altered cell of the LogUp "
                   "auxiliary trace or of the quotient — so every transcript- and Merkle-bound value is consistent "
                   "and exactly one algebraic check (OOD identity of one instance / cross-AIR terminal sum) decides; "
                   "one evaluation = one forged proof judged natively, by a circuit rebuilt for it and by the honest "
                   "proof's circuit; distinct = distinct forgery ids per target. "
                   "Plus verifying FRI parameters that are not the symmetric test defaults, for every PCS flavour "
                   "(uni / batch x TwoAdicFriPcs / HidingFriPcs, and the circuit tables): commit < query bits (1+8), no "
                   "commit-phase grinding (0+3, 0+2), commit > query bits (3+1), 2+3, and the second parameter set "
                   "(blowup 2, arity 4, final polynomial of length 2, 3 queries) for the hiding PCS; on each of them and "
                   "on every target whose config is built by the harness the same adversarial prover proves the TRUE "
                   "statement but grinds other bit counts than the verifying parameters demand (forgery id grind:c:q — "
                   "one bit short, one bit only, none, per phase and for both phases, and more than demanded): the proof "
                   "is well formed except that a proof-of-work witness does not satisfy the demanded number of bits",
           "pow_under_ground_native_rejections": {k[len("forge-pow-native-reject:"):]: v for k, v in hist.items()
                                                  if k.startswith("forge-pow-native-reject:")},
           "forged_native_verdicts": forged_native,
           "forged_proofs": sum(t.get("forged_proofs") or 0 for t in rep["targets"]),
           "forgeries_refused_by_prover": sum(t.get("forgeries_refused_by_prover") or 0 for t in rep["targets"]),
           "samples": rep["samples"][:6], "input_distribution": hist,
           "targets": rep["targets"],
           "positions_skipped_altered_value_does_not_deserialise": rep.get("skipped_deser", 0),
           "violation_class_counts": rep.get("violation_class_counts", {}),
           "traces_validated_against_impl": len(impl), "disagreements_checked": disagreements,
           "corpus_witnesses_reproduced": rep.get("corpus_witnesses_reproduced", []),
           "known_not_reproduced": []}
    return violations, cov


CHECK = {
    "lean_modules": ["P3R.Props.C01", "P3R.Witness.C01"],
    "lean_exes": ["p3r_driver_c01"],
    "theorems": [
        "P3R.C01.batch_scripts_equal_partial", "P3R.C01.uni_scripts_equal_partial", "P3R.C01.uniAsBatch_rounds",
        "P3R.C01.observe_opened_zk", "P3R.C01.observe_opened_nozk", "P3R.C01.fri_events_equal",
        "P3R.C01.every_element_checked", "P3R.C01.pow_witness_bound",
        "P3R.C01.verdict_agree", "P3R.C01.batch_verdict_agree",
        "P3R.C01.terminal_mem_present", "P3R.C01.terminal_sum_checked", "P3R.C01.ood_checked",
        "P3R.C01.failing_check_rejected", "P3R.C01.unbalanced_bus_rejected",
        "P3R.C01.native_fri_pow", "P3R.C01.get_challenges_pow", "P3R.C01.circuit_batch_pow", "P3R.C01.circuit_uni_pow",
        "P3R.C01.failing_pow_rejected", "P3R.C01.under_ground_query_rejected", "P3R.C01.under_ground_commit_rejected",
        "P3R.C01.uni_under_ground_query_rejected", "P3R.C01.uni_under_ground_commit_rejected",
        "P3R.Witness.C01.zk_asym_pow_events",
        "P3R.Witness.C01.bus_mixed_terminal_sum",
        "P3R.Witness.C01.uni_zk_scripts_equal", "P3R.Witness.C01.uni_nonext_scripts_equal",
        "P3R.Witness.C01.uni_scripts_equal_full_false",
        "P3R.Witness.C01.batch_scripts_equal_full_false", "P3R.Witness.C01.witnesses_falsify_wf",
    ],
    "run": run,
    "trusted_base": [
        "the script abstraction: a verifier is its list of transcript events and checks over symbolic proof-element names; "
        "what happens inside a check (FRI folding, Merkle paths, constraint folding, quotient recomposition) and inside the "
        "sponge is properties C05, C07, C08, C12, C13, C14, C20 and enters `verdict_agree` as hypotheses",
        "the circuit side of the script is tied to the Rust by reading plus the triangle: model-native = real native "
        "(recording challenger, every target), real circuit accepts/rejects as the model predicts (every target), "
        "model-circuit = model-native (theorem); the circuit's own observe calls are not logged (CircuitChallenger is a "
        "concrete type inside verify_*_circuit)",
        "serde_json round trip of proofs (positions whose altered value does not deserialise are skipped and counted)",
        "under-ground proofs are made by giving the prover a config with other grinding bit counts than the verifier's "
        "(thread-local override read by the harness's own config makers; a target whose config ignores it yields no "
        "grind forgery, and the override is never alive while a verifier or a circuit is built)",
        "the adversarial prover harness/src/c01_forge_prover.rs (copy of p3_batch_stark::prove_batch / "
        "p3_uni_stark::prove_with_preprocessed 0.6.3 without the debug-only self-checks, plus hooks): it only has to "
        "produce proofs; that it has not drifted from the stock provers is checked on every run (byte-identical proof on "
        "the honest witness, else class forge-prover-drift)",
    ],
    "assumptions": [
        "WFUni (theorem hypothesis): if the AIR has preprocessed columns it opens their next row (hiding PCS allowed since "
        "/repo b026681, AIRs without next-row access since fixes/C01-1); outside it the current circuit rejects honest "
        "proofs (known finding F-C01-2)",
        "WFBatch (theorem hypothesis): at least one instance; every instance with preprocessed columns opens their next row "
        "(known finding F-C01-3)",
        "matrix_to_instance lists the instances with preprocessed columns in instance order (as "
        "ProverData::from_airs_and_degrees builds it; both verifiers check meta.matrix_index against it)",
        "proof-of-work witnesses are proof elements only when their bit count is positive (with 0 bits both verifiers ignore "
        "them: confirmed by both-accept verdicts of the fri2 targets)",
        "hiding PCS: the preprocessed round carries empty random vectors (commit_preprocessing pads with zero columns); "
        "validated by the element inventory and transcript of the unizk/mul-pre and batchzk/mixed-pre targets",
    ],
}

MANIFEST_ENTRY = {
    "property_id": "C01",
    "quick_cmd": "bin/check C01 --tier quick",
    "thorough_cmd": "bin/check C01 --tier thorough",
    "evidence_file": "evidence/C01.json",
    "replay_cmd_template": "bin/check C01 --replay {path}",
    "engine": "lean-models",
    "technique": "Lean 4 theorems over a verifier-script model (transcript events + checks per proof shape, native vs circuit) "
                 "+ exhaustive single-element fault enumeration on real proofs (native verdict vs circuit outcome) "
                 "+ prover-side forgeries (an adversarial copy of the p3 provers proves false statements: every algebraic "
                 "check — OOD identity per instance, cross-AIR LogUp terminal sum — is made the only failing one; native "
                 "verdict vs circuit outcome) "
                 "+ asymmetric / non-default verifying FRI parameters for every PCS flavour with a lazy prover grinding fewer "
                 "(or more) proof-of-work bits than demanded "
                 "+ differential correspondence of the model with the recorded native transcript and with the checks / "
                 "proof-of-work phases seen decisive on forged proofs",
    "level_claimed": {
        "category": "proof",
        "text": "for every proof shape (any number of instances, widths, chunk counts, lookups, preprocessed columns, ZK, FRI "
                "parameters) satisfying WFBatch / WFUni the circuit's script equals the native script (same events, order, "
                "encodings, checks, operands); every proof element is an operand of a check (or a bound PoW witness); verdict "
                "agreement follows from component agreement (C05, C07, C08, C12, C13, C14, C20) by `verdict_agree`; outside the "
                "hypotheses the negation is proved on witnesses and replayed on the real code (2 known findings; F-C01-1, F-C01-4 and "
                "F-C01-5 are fixed and their shapes are regression targets)",
        "design_ref": "4/C01",
    },
    "level_note": "Lean kernel + 3 standard axioms; composition level only (components are other properties); the model's "
                  "circuit side is tied to the code indirectly (see trusted base); fault enumeration covers every numeric "
                  "leaf of 58 real proofs (64 targets; single-element alterations) and ~2200 forged proofs (false statements: "
                  "trace / public value / terminal / auxiliary trace / quotient; true statements with under- / over-ground "
                  "proof-of-work witnesses) on the accepted targets; tiny FRI parameters (grinding bit counts 0..9); FRI-internal forgeries (inconsistent folding) are not produced (C07)",
}
