/-
L10 (circuit side) — value semantics of the circuit emitted by
`recursion/src/pcs/fri/verifier.rs::verify_fri_circuit` with `permutation_config = None`,
built the way `RecursivePcs::verify_circuit` (`pcs/fri/targets.rs`) builds it: the number of
index bits is `Σ log_arities + log_final_poly_len + log_blowup` with the arity schedule read from
the proof's first query.

Every builder call is modelled by the value it computes; every `connect` / `assert_bool` /
division is a constraint: the outcome is `ok` iff all constraints hold on the given inputs (that
is what the runner reports), `buildErr` when `verify_circuit` / `verify_fri_circuit` return
`InvalidProofShape`, `panic` where construction would index out of range.

Followed repairs in /repo: 93b4a80 / 9d0167a (`open_input`), f783d84 (`log_arity = 0`), c030fca
(`log_max_height` against the two-adicity), fc0321f (sibling count compared inside
`verify_fri_circuit`, checked arithmetic), 0e5036a (a proof without fold phase is verified, not
refused: `circuitRun` has no "at least one phase" test, `subgroupStartsC` / `foldChainC` over an
empty schedule are `[]` / the initial reduced opening).

Mirrored functions: shape validation (head of `verify_fri_circuit`), `open_input` (height grouping,
shared-opening-point fast path, per-matrix fallback, per-batch zero check at `log_blowup`),
`precompute_evaluation_points`, roll-in map, `precompute_subgroup_starts`, `reconstruct_evals`
(closed forms for arity 2/4/8 and the one-hot path), `fold_one_phase` (arity-2 formula and the
sequential arity-2 folds), `compute_final_query_point`, `evaluate_polynomial`. The part of a query
after `open_input` is `queryTailC` (`rollInsC`, `foldChainC`), so that theorems can speak about it
(`P3R.C07.query_tail_zero_phase`, `zero_phase_query_agree`).
-/
import P3R.Model.FriNative

namespace P3R.Fri

inductive COut where
  | ok | unsat | buildErr | panic
deriving Repr, DecidableEq

def COut.name : COut → String
  | .ok => "ok" | .unsat => "unsat" | .buildErr => "build-err" | .panic => "panic"

/-- Errors that stop circuit construction. -/
inductive CStop where
  | build | panic
deriving Repr, DecidableEq

section
variable {K : Type} [Zero K] [One K] [Add K] [Mul K] [Sub K] [Neg K] [Inv K] [DecidableEq K]

/-- `builder.select(b, t, s) = s + b·(t − s)`. -/
def sel (b t s : K) : K := b * (t - s) + s

/-- `exp_power_of_2`: `k` squarings. -/
def expPow2 (x : K) : Nat → K
  | 0 => x
  | k + 1 => expPow2 (x * x) k

/-- The select–multiply chain `∏ select(bitᵢ, g^(2^i), 1)` over a list of bit values. -/
def selChain (g : K) : List K → K
  | [] => 1
  | b :: bs => sel b g 1 * selChain (g * g) bs

/-- Partial products of the chain: element `m` is the product over the first `m` bits. -/
def selChainPrefix (g : K) (bits : List K) (m : Nat) : K := selChain g (bits.take m)

/-- `circuit_exp_by_constant(base, n)` for `n ≥ 1` (square-and-multiply from the top bit). -/
def expByConst (base : K) (n : Nat) : K := npow base n

/-- One `horner_acc_step(acc, alpha, p_at_z, p_at_x) = acc·alpha + p_at_z − p_at_x`. -/
def hornerStep (acc alpha pz px : K) : K := acc * alpha + pz - px

/-- Reverse Horner over the columns of one matrix, starting from `inner`. -/
def hornerCols (alpha : K) (inner : K) (pxs pzs : List K) : K :=
  ((pxs.zip pzs).reverse).foldl (fun acc c => hornerStep acc alpha c.2 c.1) inner

/-- `evaluate_polynomial`. -/
def evalPolyCircuit (coeffs : List K) (x : K) : K :=
  match coeffs with
  | [c] => c
  | _ => coeffs.reverse.foldl (fun acc c => hornerStep acc x c 0) 0

/-- `arity2_fold_at_point(e0, e1, beta, x0)`. Division by `x0`. -/
def fold2 (e0 e1 beta x0 : K) : K :=
  let inv : K := (-(1 : K) * ((1 : K) + 1)⁻¹) * x0⁻¹
  (beta - x0) * (e1 - e0) * inv + e0

/-- One level of the sequential fold on `2^(k+1)` values with points `s·ω^{br(2j)}`. -/
def foldStep (k : Nat) (data : List K) (beta s w : K) : List K :=
  (List.range (data.length / 2)).map fun j =>
    fold2 (data.getD (2 * j) 0) (data.getD (2 * j + 1) 0) beta (s * npow w (reverseBitsLen (2 * j) (k + 1)))

/-- `fold_one_phase` for `log_arity = k` on reconstructed `evals`: `k` sequential arity-2 folds
with `β, β², β⁴, …`, points from `s, s², …` and `ω, ω², …`. The unrolled arity-4 / arity-8 code
computes exactly these values. -/
def seqFold : Nat → List K → K → K → K → K
  | 0, data, _, _, _ => data.headD 0
  | k + 1, data, beta, s, w => seqFold k (foldStep k data beta s w) (beta * beta) (s * s) (w * w)

/-- The `log_arity = 1` branch of `fold_one_phase` (no `reconstruct_evals`). -/
def foldArity2Path (folded sibling bit beta x0 : K) : K :=
  let sir := 1 - bit
  let e0 := sel sir folded sibling
  let inv : K := (-(1 : K) * ((1 : K) + 1)⁻¹) * x0⁻¹
  let d := sibling - folded
  let twoBm1 := ((1 : K) + 1) * sir + (-(1 : K))
  (beta - x0) * (twoBm1 * d) * inv + e0

/-- `one_hot_from_bits` (every branch computes these products). -/
def oneHot (bits : List K) (j : Nat) : K :=
  (bits.zipIdx).foldl (fun acc bk => acc * (if (j / 2 ^ bk.2) % 2 = 1 then bk.1 else 1 - bk.1)) 1

/-- `reconstruct_evals`. -/
def reconstructEvals (folded : K) (sibs : List K) (bits : List K) : List K :=
  let s := fun i => sibs.getD i 0
  match bits with
  | [] => [folded]
  | [b0] => [sel b0 (s 0) folded, sel b0 folded (s 0)]
  | [b0, b1] =>
    let nb0 := 1 - b0; let nb1 := 1 - b1
    let h0 := nb0 * nb1; let h1 := b0 * nb1; let h2 := nb0 * b1; let h3 := b0 * b1
    [h0 * (folded - s 0) + s 0,
     (s 0 * h0 + folded * h1) + s 1 * (h2 + h3),
     s 2 * h3 + (folded * h2 + s 1 * (h0 + h1)),
     h3 * (folded - s 2) + s 2]
  | [_, _, _] =>
    let h := fun j => oneHot bits j
    let pre := fun j => ((List.range j).map h).foldl (· + ·) 0     -- Σ_{k<j} h_k
    let suf := fun j => ((List.range (7 - j)).map fun t => h (j + 1 + t)).foldl (· + ·) 0
    (List.range 8).map fun j =>
      h j * folded + ((if j < 7 then s j * suf j else 0) + (if 0 < j then s (j - 1) * pre j else 0))
  | _ =>
    let arity := 2 ^ bits.length
    let h := fun j => oneHot bits j
    let cum := fun j => ((List.range (j + 1)).map h).foldl (· + ·) 0
    (List.range arity).map fun j =>
      let left := if j > 0 then j - 1 else 0
      let right := if j < arity - 1 then j else arity - 2
      sel (h j) folded (sel (cum j) (s left) (s right))

/-- Mutable part of the evaluation: has some constraint failed so far? -/
structure CS where
  unsat : Bool := false

abbrev CM := StateT CS (Except CStop)

def need (b : Bool) : CM Unit := modify fun s => { s with unsat := s.unsat || !b }

/-- `builder.div(a, b)`: the runner fails on a zero divisor. -/
def cdiv (a b : K) : CM K := do
  need (decide (b ≠ 0))
  return a * b⁻¹

/-- `precompute_evaluation_points`: `x_h = GENERATOR · (chain over the first h reversed bits)^(2^(hmax−h))`. -/
def evalPointC (env : Env K) (bits : List K) (logMax hmax h : Nat) : K :=
  let rev := ((bits.drop (logMax - hmax)).take hmax).reverse
  env.gen * expPow2 (selChainPrefix (env.tw hmax) rev h) (hmax - h)

/-- Group the matrices of one batch by log-height, ascending (`BTreeMap` iteration order),
keeping batch order inside a group. -/
def groupByHeight (p : Params) (ms : List (List K × MatClaim K)) : List (Nat × List (List K × MatClaim K)) :=
  let hs := (ms.map fun m => m.2.logSize + p.logBlowup)
  let uniq := (hs.foldl (fun acc h => if acc.contains h then acc else acc ++ [h]) ([] : List Nat))
  let sorted := (sortDesc (uniq.map fun h => (h, (0 : K)))).reverse.map (·.1)
  sorted.map fun h => (h, ms.filter fun m => m.2.logSize + p.logBlowup = h)

/-- Circuit `open_input` for one query: per-height `(alpha_pow, ro)` accumulators across batches,
then the list sorted by descending height. -/
def openInputC (env : Env K) (p : Params) (logMax : Nat) (bits : List K) (alpha : K)
    (batches : List (List (MatClaim K))) (opened : List (List (List K))) :
    CM (List (Nat × K)) := do
  for b in bits do need (decide (b * (b - 1) = 0))
  let heights := batches.flatMap fun b => b.map fun m => m.logSize + p.logBlowup
  let hmax := heights.foldl max 0
  -- `bits_reduced = log_max − h_max`: a matrix taller than the global maximum is rejected with
  -- `InvalidProofShape` (repo fix 9d0167a for finding F9o; it used to underflow and panic)
  if ¬ heights.isEmpty ∧ hmax > logMax then throw .build
  if opened.length ≠ batches.length then throw .build
  let mut acc : List (Nat × K × K) := []
  for (bo, b) in opened.zip batches do
    if bo.length ≠ b.length then throw .build
    for (mo, m) in bo.zip b do
      for pt in m.points do
        if mo.length ≠ pt.2.2.length then throw .build
    for (h, ms) in groupByHeight p (bo.zip b) do
      let x := evalPointC env bits logMax hmax h
      let single := ms.all fun m => m.2.points.length = 1
      let z0id := ((ms.head?.bind fun m => m.2.points.head?).map (·.1)).getD 0
      let unified := single && ms.all fun m => (m.2.points.head?.map (·.1)) = some z0id
      if unified then
        let z := ((ms.head?.bind fun m => m.2.points.head?).map (·.2.1)).getD 0
        let inv ← cdiv (1 : K) (z - x)
        let inner := ms.reverse.foldl (fun inner m =>
          hornerCols alpha inner m.1 ((m.2.points.head?.map (·.2.2)).getD [])) (0 : K)
        let totalN := (ms.map fun m => m.1.length).foldl (· + ·) 0
        if totalN = 0 then throw .panic   -- circuit_exp_by_constant(alpha, 0) underflows
        acc := upsert acc h fun (ap, ro) => (ap * expByConst alpha totalN, (ap * inv) * inner + ro)
      else
        for m in ms do
          for pt in m.2.points do
            let inv ← cdiv (1 : K) (pt.2.1 - x)
            let n := m.1.length
            if n = 0 then
              acc := upsert acc h fun (ap, ro) => (ap, ro + 0)
            else
              let inner := hornerCols alpha 0 m.1 pt.2.2
              acc := upsert acc h fun (ap, ro) => (ap * expByConst alpha n, ro + (ap * inner) * inv)
    match lookupH acc p.logBlowup with
    | some (_, ro) => need (decide (ro = 0))
    | none => pure ()
  return sortDesc (acc.map fun e => (e.1, e.2.2))

/-- `precompute_subgroup_starts`. `cum i = Σ_{t<i} logArities[t]`. With no fold phase the result is
the empty list (repo fix 0e5036a: the function returns before touching `log_arities[0]`; here both
branches map over the empty schedule). -/
def subgroupStartsC (env : Env K) (bits : List K) (logMax : Nat) (logArities : List Nat) : List K :=
  let cum := fun i => (logArities.take i).foldl (· + ·) 0
  let lf := fun i => logMax - cum (i + 1)
  let L := lf 0
  if L = 0 then logArities.map fun _ => (1 : K) else
  let p0 := cum 1
  let chainBits := (List.range L).map fun j => bits.getD (p0 + L - 1 - j) 0
  (List.range logArities.length).map fun i =>
    if i = 0 then selChain (env.tw logMax) chainBits
    else if lf i > 0 then expPow2 (selChainPrefix (env.tw logMax) chainBits (lf i)) (cum i)
    else 1

/-- `compute_final_query_point`. -/
def finalPointC (env : Env K) (bits : List K) (logMax total : Nat) : K :=
  let rev := (List.replicate total (0 : K)) ++ ((bits.drop total).take (logMax - total)).reverse
  selChain (env.tw logMax) (rev.take logMax)

/-- The index bits of a query as the runner receives them (public inputs, little-endian). -/
def indexBits (logMax index : Nat) : List K :=
  (List.range logMax).map fun k => if (index / 2 ^ k) % 2 = 1 then 1 else 0

/-- Roll-in map of one query: every reduced opening below the maximum height is attached to the
phase whose folded height equals its height (two at one phase: `InvalidProofShape`); an opening at
a height no phase reaches is constrained to zero. -/
def rollInsC (foldedHeightAfter : List Nat) : List (Nat × K) → List (Nat × K) → CM (List (Nat × K))
  | [], acc => pure acc
  | (h, ro) :: rest, acc =>
    match foldedHeightAfter.idxOf? h with
    | some i =>
      if acc.any (·.1 = i) then throw .build
      else rollInsC foldedHeightAfter rest (acc ++ [(i, ro)])
    | none => do
      need (decide (ro = 0))
      rollInsC foldedHeightAfter rest acc

/-- The fold chain of one query (`fold_chain_circuit`, and the same `fold_one_phase` calls inside
the MMCS loop): `phases` are (phase index, opening) pairs, `consumed` the index bits used so far.
With no phase the result is the initial reduced opening itself. -/
def foldChainC (env : Env K) (bits betas starts : List K) (rollIns : List (Nat × K)) :
    List (Nat × Phase K) → Nat → K → CM K
  | [], _, folded => pure folded
  | (i, ph) :: rest, consumed, folded => do
    let la := ph.logArity
    let beta := betas.getD i 0
    let ss := starts.getD i 0
    let gbits := (bits.drop consumed).take la
    let f1 ← (if la = 1 then do
        need (decide (ss ≠ 0))
        pure (foldArity2Path folded (ph.siblings.getD 0 0) (gbits.getD 0 0) beta ss)
      else do
        let evals := reconstructEvals folded ph.siblings gbits
        if la ≠ 0 then need (decide (ss ≠ 0))
        pure (seqFold la evals beta ss (env.tw la)) : CM K)
    let f2 := match rollIns.find? (·.1 = i) with
      | some (_, ro) => expPow2 beta la * ro + f1
      | none => f1
    foldChainC env bits betas starts rollIns rest (consumed + la) f2

/-- Everything `verify_fri_circuit` does for one query after `open_input`: first reduced opening
at the maximum height, roll-in map, final query point, final polynomial evaluation, fold chain,
`connect(folded, final_poly_eval)`. -/
def queryTailC (env : Env K) (logMax total : Nat) (logArities : List Nat) (betas finalPoly bits : List K)
    (phases : List (Phase K)) (ros : List (Nat × K)) : CM Unit := do
  let numPhases := betas.length
  let cum := fun i => (logArities.take i).foldl (· + ·) 0
  let foldedHeightAfter := (List.range numPhases).map fun i => logMax - cum (i + 1)
  match ros with
  | [] => throw .build
  | (h0, ro0) :: rest =>
    if h0 ≠ logMax then throw .build
    let rollIns ← rollInsC foldedHeightAfter rest []
    let fpoint := finalPointC env bits logMax total
    let feval := evalPolyCircuit finalPoly fpoint
    let starts := subgroupStartsC env bits logMax logArities
    let folded ← foldChainC env bits betas starts rollIns ((List.range numPhases).zip phases) 0 ro0
    need (decide (folded = feval))

/-- The whole circuit on one case. -/
def circuitRun (env : Env K) (p : Params) (alpha : K) (betas : List K)
    (batches : List (List (MatClaim K))) (pf : Proof K) : CM Unit := do
  let logArities := match pf.queries with
    | [] => []
    | q :: _ => q.phases.map (·.logArity)
  let total := logArities.foldl (· + ·) 0
  let logMax := total + p.logFinalPolyLen + p.logBlowup
  -- `verify_circuit` (pcs/fri/targets.rs): the index must fit the base field's bit width …
  if logMax > 31 then throw .build
  -- … and the LDE domain must be a two-adic subgroup (repo fix c030fca for finding F9i; it used to
  -- reach `two_adic_generator`'s assertion)
  if logMax > env.twoAdicity then throw .build
  let numPhases := betas.length
  if numPhases ≠ pf.numCommits then throw .build
  if numPhases ≠ pf.numPow then throw .build
  if logArities.length ≠ numPhases then throw .build
  -- fixes/C07-2: a phase with `log_arity = 0` is rejected (native `checked_log_arity`)
  if logArities.any (· = 0) then throw .build
  if pf.queries.isEmpty then throw .build
  -- no "at least one fold phase" test any more (repo fix 0e5036a for finding C07-F4): a proof
  -- without fold phase is verified like any other, the fold chain is then empty
  for q in pf.queries do
    if q.phases.length ≠ numPhases then throw .build
    for (ph, la) in q.phases.zip logArities do
      if ph.logArity ≠ la then throw .build
      -- `verify_fri_circuit` compares the sibling coefficient count with
      -- `(2^log_arity − 1)·EF::DIMENSION`, computed with checked arithmetic (repo fix fc0321f for
      -- finding F9d; the targets are allocated from the proof's own count). `la ≤ logMax ≤ 31`
      -- here, so the checked computation never overflows and equals the ℕ value
      if ph.siblings.length ≠ 2 ^ la - 1 then throw .build
  if pf.finalPoly.length ≠ 2 ^ p.logFinalPolyLen then throw .build
  for q in pf.queries do
    let bits : List K := indexBits logMax q.index
    let ros ← openInputC env p logMax bits alpha batches q.opened
    queryTailC env logMax total logArities betas pf.finalPoly bits q.phases ros
  return ()

def circuitOutcome (env : Env K) (p : Params) (alpha : K) (betas : List K)
    (batches : List (List (MatClaim K))) (pf : Proof K) : COut :=
  match (circuitRun env p alpha betas batches pf).run {} with
  | .error .build => .buildErr
  | .error .panic => .panic
  | .ok (_, s) => if s.unsat then .unsat else .ok

end
end P3R.Fri
