/-
C07 — witnesses: the full-strength statement "the circuit accepts exactly when the native
verifier accepts" is false of the current code already at the level of shape validation.
Each theorem exhibits a concrete shape vector on which `CircuitShapeOk` and `NativeShapeOk`
differ, i.e. shows that a hypothesis of `P3R.C07.fri_shape_iff` cannot be dropped. The same
inputs are replayed on the real code on every run (`corpus/c07/f2…f5`), where the real
`verify_fri` rejects / accepts and the real circuit accepts / cannot be built.

Also: a non-vacuity example for the hypotheses of `fri_shape_iff`.
-/
import P3R.Props.C07

namespace P3R.C07.Witness
open P3R.Fri

def params (maxLA nq lfpl : Nat) : Params :=
  { logBlowup := 1, logFinalPolyLen := lfpl, maxLogArity := maxLA, numQueries := nq }

def q (ar : List Nat) (opened : List (List Nat)) : QShape :=
  { arities := ar, sibCounts := ar.map fun la => 2 ^ la - 1, opened := opened }

/-- Honest shape: one batch, one matrix of log size 2 and width 3 opened at one point, blow-up 2,
schedule [1,1], two queries. -/
def honest : ShapeVec :=
  { p := params 1 2 0, twoAdicity := 27, numBetas := 2, numCommits := 2, numPow := 2, finalLen := 1,
    batches := [[(2, [3])]], queries := [q [1, 1] [[3]], q [1, 1] [[3]]] }

/-- Non-vacuity: the hypotheses of `fri_shape_iff` hold on `honest`, and both sides accept it. -/
example : honest.queries.length = honest.p.numQueries ∧
    (∀ la ∈ honest.firstArities, la ≤ honest.p.maxLogArity) ∧
    (∀ b ∈ honest.batches, ∀ m ∈ b, m.2 ≠ []) ∧
    (∀ h ∈ honest.heights, h = honest.logMax ∨ h ∈ honest.foldedHeights) ∧
    honest.numBetas = honest.numCommits ∧ (honest.twoAdicity ≤ 31 ∧ honest.logMax ≤ honest.twoAdicity) ∧
    honest.numCommits ≠ 0 ∧ CircuitShapeOk honest ∧ NativeShapeOk honest := by decide

/-- H1 is necessary: the proof carries one query, the verifier's parameter says two. The circuit
has no `num_queries` parameter and accepts; native returns `QueryProofCountMismatch`. -/
theorem shape_needs_num_queries :
    let sv := { honest with queries := [q [1, 1] [[3]]] }
    CircuitShapeOk sv ∧ ¬ NativeShapeOk sv := by decide

/-- Regression for C07-F3c (fixed by fixes/C07-2): a `log_arity = 0` phase is now rejected by the
circuit's shape validation as well as by native (`InvalidLogArity`). -/
theorem arity_zero_rejected_by_both :
    let sv := { honest with numBetas := 3, numCommits := 3, numPow := 3,
                            queries := [q [0, 1, 1] [[3]], q [0, 1, 1] [[3]]] }
    ¬ CircuitShapeOk sv ∧ ¬ NativeShapeOk sv := by decide

/-- H2 is necessary: schedule `[2]` against `max_log_arity = 1`. -/
theorem shape_needs_arity_upper_bound :
    let sv := { honest with numBetas := 1, numCommits := 1, numPow := 1,
                            queries := [q [2] [[3]], q [2] [[3]]] }
    CircuitShapeOk sv ∧ ¬ NativeShapeOk sv := by decide

/-- H7 is necessary, in the other direction: only height-one matrices, no fold phase. Native
accepts the shape (and the honest proof); the circuit refuses to build
("FRI must have at least one fold phase"). -/
theorem shape_needs_phase :
    let sv : ShapeVec := { p := params 1 2 0, twoAdicity := 27, numBetas := 0, numCommits := 0, numPow := 0,
                           finalLen := 1, batches := [[(0, [3])]], queries := [q [] [[3]], q [] [[3]]] }
    NativeShapeOk sv ∧ ¬ CircuitShapeOk sv := by decide

/-- H4 is necessary: final polynomial length 4, matrices of log size 5 and 1: log-height 2 lies
below the final height 3 and is reached by no fold phase. Native: `UnconsumedReducedOpenings`;
the circuit builds (and only constrains that reduced opening to be zero). -/
theorem shape_needs_matched_heights :
    let sv : ShapeVec := { p := params 1 2 2, twoAdicity := 27, numBetas := 3, numCommits := 3, numPow := 3,
                           finalLen := 4, batches := [[(5, [2])], [(1, [2])]],
                           queries := [q [1, 1, 1] [[2], [2]], q [1, 1, 1] [[2], [2]]] }
    CircuitShapeOk sv ∧ ¬ NativeShapeOk sv := by decide

end P3R.C07.Witness
