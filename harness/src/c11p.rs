//! C11, Poseidon circuit tables (control part): evaluate the real `Poseidon2CircuitAir` /
//! `Poseidon1CircuitAir` `eval` with a value-recording `AirBuilder + InteractionBuilder` on concrete
//! two-row windows, print the *control* constraint values (everything asserted before the call into the
//! inner permutation AIR) and every WitnessChecks interaction for the Lean model
//! `lean/P3R/Model/PoseidonCtl.lean` to reproduce, and judge honest / tampered traces built by the real
//! `generate_trace_rows` + `extract_preprocessed_from_operations` against an independent decoder of the
//! *operation's* semantics (sponge chaining, Merkle placement, index accumulator).
//!
//! How the permutation's own constraints are stripped: `eval` asserts the control constraints first and
//! then calls `air.p3_poseidon2.eval(&mut SubAirBuilder(0..perm_cols))`. The harness evaluates that inner
//! AIR (`Poseidon2Air::new(same constants)`) on the same window restricted to the permutation columns with
//! the same recording builder; its list (N_inner values) must be the *tail* of the real list, value for
//! value. The control part is the real list minus that tail. If the tail does not match, the implementation
//! line is `c STRIP-FAIL …`, which the diff reports as a disagreement.

use std::borrow::Borrow;
use std::collections::BTreeMap;
use std::io::Write;
use std::marker::PhantomData;
use std::panic::{AssertUnwindSafe, catch_unwind};

use p3_air::{Air, AirBuilder, BaseAir, RowWindow};
use p3_baby_bear::{BabyBear, GenericPoseidon2LinearLayersBabyBear};
use p3_circuit::ops::Poseidon2CircuitRow;
use p3_field::{PrimeCharacteristicRing, PrimeField, PrimeField64};
use p3_goldilocks::{GenericPoseidon2LinearLayersGoldilocks, Goldilocks};
use p3_koala_bear::{GenericPoseidon2LinearLayersKoalaBear, KoalaBear};
use p3_lookup::{Count, InteractionBuilder};
use p3_matrix::Matrix;
use p3_poseidon2::GenericPoseidon2LinearLayers;
use p3_poseidon2_air::{Poseidon2Air, Poseidon2Cols, RoundConstants};
use p3_poseidon2_circuit_air::{Poseidon2CircuitAir, Poseidon2CircuitCols, extract_preprocessed_from_operations};
use serde_json::{Value, json};

use crate::rng::Rng;

#[path = "c11p_chain.rs"]
mod chain;
#[path = "c11p_p1.rs"]
mod p1;

// ---------------------------------------------------------------------------------------------
// recording builder, generic in the field; `is_transition` is a window input (random in the
// polynomial-identity leg, so that a constraint losing / gaining `when_transition()` shows)

pub struct VB<'a, F> {
    main: RowWindow<'a, F>,
    prep: RowWindow<'a, F>,
    tr: F,
    pub cons: Vec<F>,
    pub inter: Vec<(Vec<F>, F)>,
}

impl<'a, F: PrimeField> AirBuilder for VB<'a, F> {
    type F = F;
    type Expr = F;
    type Var = F;
    type PreprocessedWindow = RowWindow<'a, F>;
    type MainWindow = RowWindow<'a, F>;
    type PublicVar = F;
    type PeriodicVar = F;

    fn main(&self) -> Self::MainWindow {
        self.main
    }
    fn preprocessed(&self) -> &Self::PreprocessedWindow {
        &self.prep
    }
    fn is_first_row(&self) -> F {
        F::ZERO
    }
    fn is_last_row(&self) -> F {
        F::ONE - self.tr
    }
    fn is_transition(&self) -> F {
        self.tr
    }
    fn assert_zero<I: Into<F>>(&mut self, x: I) {
        self.cons.push(x.into());
    }
}

impl<F: PrimeField> InteractionBuilder for VB<'_, F> {
    fn push_interaction<E: Into<F>>(&mut self, _bus_name: &str, fields: impl IntoIterator<Item = E>, count: impl Into<Count<F>>) {
        let (m, _) = count.into().into_parts();
        self.inter.push((fields.into_iter().map(Into::into).collect(), m));
    }
    fn push_local_interaction(&mut self, tuples: impl IntoIterator<Item = (Vec<F>, Count<F>)>) {
        for (f, c) in tuples {
            let (m, _) = c.into_parts();
            self.inter.push((f, m));
        }
    }
}

// ---------------------------------------------------------------------------------------------
// field-erased view of one table configuration

#[derive(Clone, Copy, Debug)]
pub struct Layout {
    pub variant: &'static str, // "p2" | "p1"
    pub field: &'static str,   // "bb" | "kb" | "gl"
    pub modulus: u64,
    pub d: usize,
    pub we: usize,
    pub re: usize,
    pub ce: usize,
    pub wd: usize,
}

impl Layout {
    pub fn compact(&self) -> bool {
        self.d == 1 && self.we == 16 && self.re == 8
    }
    pub fn arity4(&self) -> bool {
        4 * self.ce == self.we
    }
    pub fn arity2(&self) -> bool {
        !self.arity4() && 2 * self.re == self.we
    }
    pub fn width(&self) -> usize {
        self.we * self.d
    }
    pub fn name(&self) -> String {
        format!("{}.{}.D{}.W{}.bus{}", self.variant, self.field, self.d, self.width(), self.wd)
    }
    pub fn head(&self) -> String {
        format!("{} {} {} {} {} {} {}", self.variant, self.field, self.d, self.we, self.re, self.ce, self.wd)
    }
}

/// Column indices (in the full main row) of the cells the control constraints read.
#[derive(Clone, Debug)]
pub struct Cols {
    pub inputs: Vec<usize>,
    pub outputs: Vec<usize>,
    pub bit: usize,
    pub extra: Vec<usize>, // arity 4: [bit2, bit_x_bit2]
    pub sum: usize,
    pub perm_cols: usize,
}

/// Field-erased `Poseidon2CircuitRow`.
#[derive(Clone, Debug)]
pub struct OpRow {
    pub new_start: bool,
    pub merkle: bool,
    pub bit: bool,
    pub bit2: bool,
    pub sum: u64,
    pub input: Vec<u64>,
    pub in_ctl: Vec<bool>,
    pub in_idx: Vec<u32>,
    pub out_ctl: Vec<bool>,
    pub out_idx: Vec<u32>,
    pub sum_idx: u32,
    pub sum_ctl: bool,
}

pub type Evald = (Vec<u64>, Vec<(Vec<u64>, u64)>);

pub trait Table {
    fn layout(&self) -> Layout;
    fn main_width(&self) -> usize;
    fn prep_width(&self) -> usize;
    fn cols(&self) -> Cols;
    /// the real `Air::eval`: every asserted constraint value, every pushed interaction
    fn eval(&self, tr: u64, ml: &[u64], mn: &[u64], pl: &[u64], pn: &[u64]) -> Option<Evald>;
    /// the inner permutation AIR alone on the permutation columns of the same window
    fn eval_inner(&self, tr: u64, ml: &[u64], mn: &[u64]) -> Option<Vec<u64>>;
    /// real trace generator + real preprocessed extraction: (main rows, preprocessed rows), same height
    fn build(&self, ops: &[OpRow], min_h: usize) -> Option<(Vec<Vec<u64>>, Vec<Vec<u64>>)>;
    /// reference permutation (via the real one-row trace generator)
    fn perm(&self, input: &[u64]) -> Vec<u64>;
    /// recompute the permutation block of a main row from its input cells (real generator)
    fn refill(&self, row: &mut [u64]);
}

struct P2<F: PrimeCharacteristicRing, LL, const D: usize, const WIDTH: usize, const WE: usize, const RE: usize, const CE: usize, const SD: u64, const SR: usize, const HFR: usize, const PR: usize, const WD: usize> {
    field: &'static str,
    constants: RoundConstants<F, WIDTH, HFR, PR>,
    _p: PhantomData<LL>,
}

pub fn fv<F: PrimeField64>(v: &[u64]) -> Vec<F> {
    v.iter().map(|x| F::from_u64(*x)).collect()
}
pub fn uv<F: PrimeField64>(v: &[F]) -> Vec<u64> {
    v.iter().map(|x| x.as_canonical_u64()).collect()
}

fn conv_op<F: PrimeField64>(o: &OpRow) -> Poseidon2CircuitRow<F> {
    Poseidon2CircuitRow {
        new_start: o.new_start,
        merkle_path: o.merkle,
        mmcs_bit: o.bit,
        mmcs_bit2: o.bit2,
        mmcs_index_sum: F::from_u64(o.sum),
        input_values: fv(&o.input),
        in_ctl: o.in_ctl.clone(),
        input_indices: o.in_idx.clone(),
        out_ctl: o.out_ctl.clone(),
        output_indices: o.out_idx.clone(),
        mmcs_index_sum_idx: o.sum_idx,
        mmcs_ctl_enabled: o.sum_ctl,
    }
}

pub fn filler(l: &Layout) -> OpRow {
    OpRow {
        new_start: true,
        merkle: false,
        bit: false,
        bit2: false,
        sum: 0,
        input: vec![0; l.width()],
        in_ctl: vec![false; l.we],
        in_idx: vec![0; l.we],
        out_ctl: vec![false; l.re],
        out_idx: vec![0; l.re],
        sum_idx: 0,
        sum_ctl: false,
    }
}

impl<F, LL, const D: usize, const WIDTH: usize, const WE: usize, const RE: usize, const CE: usize, const SD: u64, const SR: usize, const HFR: usize, const PR: usize, const WD: usize>
    P2<F, LL, D, WIDTH, WE, RE, CE, SD, SR, HFR, PR, WD>
where
    F: PrimeField64,
    LL: GenericPoseidon2LinearLayers<WIDTH> + Sync,
{
    fn air(&self, prep: Vec<F>, min_h: usize) -> Poseidon2CircuitAir<F, LL, D, WIDTH, WE, RE, CE, SD, SR, HFR, PR, WD> {
        Poseidon2CircuitAir::new_with_preprocessed(self.constants.clone(), prep).with_min_height(min_h)
    }
}

impl<F, LL, const D: usize, const WIDTH: usize, const WE: usize, const RE: usize, const CE: usize, const SD: u64, const SR: usize, const HFR: usize, const PR: usize, const WD: usize> Table
    for P2<F, LL, D, WIDTH, WE, RE, CE, SD, SR, HFR, PR, WD>
where
    F: PrimeField64,
    LL: GenericPoseidon2LinearLayers<WIDTH> + Sync,
{
    fn layout(&self) -> Layout {
        Layout { variant: "p2", field: self.field, modulus: F::ORDER_U64, d: D, we: WE, re: RE, ce: CE, wd: WD }
    }
    fn main_width(&self) -> usize {
        BaseAir::<F>::width(&self.air(vec![], 1))
    }
    fn prep_width(&self) -> usize {
        Poseidon2CircuitAir::<F, LL, D, WIDTH, WE, RE, CE, SD, SR, HFR, PR, WD>::preprocessed_width()
    }
    fn cols(&self) -> Cols {
        let n = self.main_width();
        let idx: Vec<usize> = (0..n).collect();
        let perm_cols = p3_poseidon2_air::num_cols::<WIDTH, SD, SR, HFR, PR>();
        if 4 * CE == WE {
            let c: &Poseidon2CircuitCols<usize, Poseidon2Cols<usize, WIDTH, SD, SR, HFR, PR>, 2> = idx[..].borrow();
            Cols { inputs: c.perm.inputs.to_vec(), outputs: c.perm.ending_full_rounds[HFR - 1].post.to_vec(), bit: c.mmcs_bit, extra: c.mmcs_extra.to_vec(), sum: c.mmcs_index_sum, perm_cols }
        } else {
            let c: &Poseidon2CircuitCols<usize, Poseidon2Cols<usize, WIDTH, SD, SR, HFR, PR>> = idx[..].borrow();
            Cols { inputs: c.perm.inputs.to_vec(), outputs: c.perm.ending_full_rounds[HFR - 1].post.to_vec(), bit: c.mmcs_bit, extra: vec![], sum: c.mmcs_index_sum, perm_cols }
        }
    }
    fn eval(&self, tr: u64, ml: &[u64], mn: &[u64], pl: &[u64], pn: &[u64]) -> Option<Evald> {
        let (ml, mn, pl, pn): (Vec<F>, Vec<F>, Vec<F>, Vec<F>) = (fv(ml), fv(mn), fv(pl), fv(pn));
        let air = self.air(vec![], 1);
        let run = || {
            let mut b = VB { main: RowWindow::from_two_rows(&ml, &mn), prep: RowWindow::from_two_rows(&pl, &pn), tr: F::from_u64(tr), cons: vec![], inter: vec![] };
            air.eval(&mut b);
            (uv(&b.cons), b.inter.iter().map(|(f, m)| (uv(f), m.as_canonical_u64())).collect::<Vec<_>>())
        };
        catch_unwind(AssertUnwindSafe(run)).ok()
    }
    fn eval_inner(&self, tr: u64, ml: &[u64], mn: &[u64]) -> Option<Vec<u64>> {
        let pc = p3_poseidon2_air::num_cols::<WIDTH, SD, SR, HFR, PR>();
        let (ml, mn): (Vec<F>, Vec<F>) = (fv(&ml[..pc]), fv(&mn[..pc]));
        let inner: Poseidon2Air<F, LL, WIDTH, SD, SR, HFR, PR> = Poseidon2Air::new(self.constants.clone());
        let e: Vec<F> = vec![];
        let run = || {
            let mut b = VB { main: RowWindow::from_two_rows(&ml, &mn), prep: RowWindow::from_two_rows(&e, &e), tr: F::from_u64(tr), cons: vec![], inter: vec![] };
            inner.eval(&mut b);
            uv(&b.cons)
        };
        catch_unwind(AssertUnwindSafe(run)).ok()
    }
    fn build(&self, ops: &[OpRow], min_h: usize) -> Option<(Vec<Vec<u64>>, Vec<Vec<u64>>)> {
        let run = || {
            let rows: Vec<Poseidon2CircuitRow<F>> = ops.iter().map(conv_op::<F>).collect();
            let prep = extract_preprocessed_from_operations::<WE, RE, F, F>(&rows, WD as u32, D);
            let air = self.air(prep, min_h);
            let pm = air.preprocessed_trace().unwrap();
            let h = pm.height();
            let mut padded = rows;
            padded.resize(h, conv_op::<F>(&filler(&self.layout())));
            let mm = air.generate_trace_rows(&padded, &self.constants, 0);
            let main: Vec<Vec<u64>> = (0..h).map(|r| uv(&mm.row_slice(r).unwrap())).collect();
            let prep: Vec<Vec<u64>> = (0..h).map(|r| uv(&pm.row_slice(r).unwrap())).collect();
            (main, prep)
        };
        catch_unwind(AssertUnwindSafe(run)).ok()
    }
    fn perm(&self, input: &[u64]) -> Vec<u64> {
        let mut o = filler(&self.layout());
        o.input = input.to_vec();
        let air = self.air(vec![], 1);
        let mm = air.generate_trace_rows(&[conv_op::<F>(&o)], &self.constants, 0);
        let row = uv::<F>(&mm.row_slice(0).unwrap());
        let c = self.cols();
        c.outputs.iter().map(|i| row[*i]).collect()
    }
    fn refill(&self, row: &mut [u64]) {
        let c = self.cols();
        let mut o = filler(&self.layout());
        o.input = c.inputs.iter().map(|i| row[*i]).collect();
        let air = self.air(vec![], 1);
        let mm = air.generate_trace_rows(&[conv_op::<F>(&o)], &self.constants, 0);
        let fresh = uv::<F>(&mm.row_slice(0).unwrap());
        row[..c.perm_cols].copy_from_slice(&fresh[..c.perm_cols]);
    }
}

macro_rules! p2 {
    ($field:expr, $F:ty, $LL:ty, $P:ty, $wd:expr, $consts:expr) => {{
        use p3_circuit::ops::Poseidon2Params as PP;
        Box::new(P2::<$F, $LL, { <$P as PP>::D }, { <$P as PP>::WIDTH }, { <$P as PP>::WIDTH_EXT }, { <$P as PP>::RATE_EXT }, { <$P as PP>::CAPACITY_EXT }, { <$P as PP>::SBOX_DEGREE }, { <$P as PP>::SBOX_REGISTERS }, { <$P as PP>::HALF_FULL_ROUNDS }, { <$P as PP>::PARTIAL_ROUNDS }, $wd> {
            field: $field,
            constants: $consts,
            _p: PhantomData,
        }) as Box<dyn Table>
    }};
}

pub fn tables() -> Vec<Box<dyn Table>> {
    use p3_poseidon2_circuit_air as pa;
    type LB = GenericPoseidon2LinearLayersBabyBear;
    type LK = GenericPoseidon2LinearLayersKoalaBear;
    type LG = GenericPoseidon2LinearLayersGoldilocks;
    let mut v: Vec<Box<dyn Table>> = vec![
        // generic layout, arity 2
        p2!("bb", BabyBear, LB, pa::BabyBearD4Width16, 4, pa::BabyBearD4Width16::round_constants()),
        // compact D = 1 width 16 (witness bus 1 and 5)
        p2!("bb", BabyBear, LB, pa::BabyBearD1Width16, 1, pa::BabyBearD1Width16::round_constants()),
        p2!("bb", BabyBear, LB, pa::BabyBearD1Width16, 5, pa::BabyBearD1Width16::round_constants()),
        // arity 4 (generic preprocessed layout): D = 4 and D = 1
        p2!("bb", BabyBear, LB, pa::BabyBearD4Width32, 4, pa::BabyBearD4Width32::round_constants()),
        p2!("kb", KoalaBear, LK, pa::KoalaBearD1Width32, 1, pa::KoalaBearD1Width32::round_constants()),
        // generic layout, arity 2, D = 2 over a 64-bit field
        p2!("gl", Goldilocks, LG, p3_circuit::ops::GoldilocksD2Width8, 2, pa::goldilocks_d2_width8_round_constants()),
        // neither arity 2 nor arity 4 (RATE_EXT 4, WIDTH_EXT 6)
        p2!("bb", BabyBear, LB, pa::BabyBearD4Width24, 4, pa::BabyBearD4Width24::round_constants()),
    ];
    v.extend(p1::tables());
    v
}

// ---------------------------------------------------------------------------------------------
// window text

fn vs(v: &[u64]) -> String {
    v.iter().map(|x| x.to_string()).collect::<Vec<_>>().join(" ")
}

fn pick(row: &[u64], idx: &[usize]) -> Vec<u64> {
    idx.iter().map(|i| row[*i]).collect()
}

pub fn ctl_cells(c: &Cols, row: &[u64]) -> Vec<u64> {
    let mut v = vec![row[c.bit]];
    v.extend(c.extra.iter().map(|i| row[*i]));
    v.push(row[c.sum]);
    v
}

pub fn case_line(l: &Layout, c: &Cols, tr: u64, ml: &[u64], mn: &[u64], pl: &[u64], pn: &[u64]) -> String {
    format!(
        "pos {} {} | {} | {} | {} | {} | {} | {} | {}",
        l.head(),
        tr,
        vs(&pick(ml, &c.inputs)),
        vs(&pick(ml, &c.outputs)),
        vs(&ctl_cells(c, ml)),
        vs(&pick(mn, &c.inputs)),
        vs(&ctl_cells(c, mn)),
        vs(pl),
        vs(pn)
    )
}

fn inter_str(inter: &[(Vec<u64>, u64)]) -> String {
    inter.iter().map(|(f, m)| format!("{}:{}", f.iter().map(|x| x.to_string()).collect::<Vec<_>>().join(","), m)).collect::<Vec<_>>().join(" ")
}

/// Real eval, inner tail verified and stripped. `Err` text goes to the impl stream as is.
pub fn control_part(t: &dyn Table, tr: u64, ml: &[u64], mn: &[u64], pl: &[u64], pn: &[u64]) -> Result<(Vec<u64>, Vec<(Vec<u64>, u64)>, usize), String> {
    let Some((cons, inter)) = t.eval(tr, ml, mn, pl, pn) else { return Err("panic".into()) };
    let Some(inner) = t.eval_inner(tr, ml, mn) else { return Err("panic-inner".into()) };
    if inner.len() > cons.len() || cons[cons.len() - inner.len()..] != inner[..] {
        return Err(format!("c STRIP-FAIL total={} inner={}", cons.len(), inner.len()));
    }
    let n = cons.len() - inner.len();
    Ok((cons[..n].to_vec(), inter, inner.len()))
}

/// class of an `eval` panic: the shapes whose rate is wider than half the state index `next_in` out of bounds in
/// the right-hand Merkle placement loop (one defect, both Poseidon AIRs); anything else is named by its layout
pub fn panic_class(l: &Layout) -> String {
    if !l.arity4() && 2 * l.re > l.we {
        "panic:poseidon-air-eval:merkle-right-placement-out-of-bounds".into()
    } else {
        format!("panic:poseidon-air-eval:{}", l.name())
    }
}

fn rand_cell(rng: &mut Rng, p: u64) -> u64 {
    match rng.below(6) {
        0 => 0,
        1 => 1,
        2 => p - 1,
        _ => rng.below(p),
    }
}

pub fn main(args: &crate::Args) {
    let seed = args.u64("seed", 1);
    let n = args.u64("cases", 1500) as usize;
    let nsched = args.u64("chains", 150) as usize;
    let tampers = args.u64("tampers", 10) as usize;
    let out = args.str("out", "/tmp/p3r");
    std::fs::create_dir_all(&out).unwrap();
    let mut cases = std::io::BufWriter::new(std::fs::File::create(format!("{out}/poseidonctl.cases")).unwrap());
    let mut implo = std::io::BufWriter::new(std::fs::File::create(format!("{out}/poseidonctl.impl")).unwrap());
    let mut rng = Rng::new(seed ^ 0x9051d0);
    let mut hist: BTreeMap<String, u64> = BTreeMap::new();
    let mut violations: Vec<Value> = vec![];
    let mut samples: Vec<Value> = vec![];
    let mut distinct = std::collections::HashSet::new();
    let tabs = tables();
    let mut evals = 0usize;
    let mut stripped: BTreeMap<String, (usize, usize)> = BTreeMap::new();
    let mut emit = |cases: &mut dyn Write, implo: &mut dyn Write, t: &dyn Table, line: String, tr: u64, ml: &[u64], mn: &[u64], pl: &[u64], pn: &[u64], violations: &mut Vec<Value>, samples: &mut Vec<Value>, stripped: &mut BTreeMap<String, (usize, usize)>| {
        let mut h = 0xcbf29ce484222325u64;
        for b in line.bytes() {
            h = (h ^ b as u64).wrapping_mul(0x100000001b3);
        }
        distinct.insert(h);
        writeln!(cases, "{line}").unwrap();
        match control_part(t, tr, ml, mn, pl, pn) {
            Err(e) => {
                writeln!(implo, "{e}").unwrap();
                writeln!(implo, "i").unwrap();
                if e.starts_with("panic") {
                    violations.push(json!({"property":"C11","kind":"poseidon-air-eval-panic","class": panic_class(&t.layout()), "replay":{"case": line.chars().take(3000).collect::<String>()}}));
                }
            }
            Ok((cons, inter, ninner)) => {
                writeln!(implo, "c {}", vs(&cons)).unwrap();
                writeln!(implo, "i {}", inter_str(&inter)).unwrap();
                stripped.insert(t.layout().name(), (cons.len(), ninner));
                if samples.len() < 2 {
                    samples.push(json!({"layout": t.layout().name(), "control_constraints": cons.len(), "inner_constraints_stripped": ninner, "interactions": inter.len()}));
                }
            }
        }
    };
    // leg 1: fully random windows (polynomial identity testing of every control constraint)
    for i in 0..n {
        let t = tabs[i % tabs.len()].as_ref();
        let l = t.layout();
        let c = t.cols();
        let (mw, pw) = (t.main_width(), t.prep_width());
        let p = l.modulus;
        let sparse = rng.chance(1, 2);
        let boolsel = rng.chance(1, 3);
        let mut row = |rng: &mut Rng, n: usize, sparse: bool, boolsel: bool| -> Vec<u64> {
            (0..n).map(|_| if sparse && rng.chance(3, 4) { 0 } else if boolsel { rng.below(2) } else { rand_cell(rng, p) }).collect()
        };
        let ml = row(&mut rng, mw, false, false);
        let mn = row(&mut rng, mw, false, false);
        let pl = row(&mut rng, pw, sparse, boolsel);
        let pn = row(&mut rng, pw, sparse, boolsel);
        let tr = match rng.below(4) {
            0 => 0,
            1 | 2 => 1,
            _ => rng.below(p),
        };
        *hist.entry(format!("random.{}.{}", l.name(), if sparse { "sparse" } else { "dense" })).or_default() += 1;
        let line = case_line(&l, &c, tr, &ml, &mn, &pl, &pn);
        evals += 1;
        emit(&mut cases, &mut implo, t, line, tr, &ml, &mn, &pl, &pn, &mut violations, &mut samples, &mut stripped);
    }
    // leg 2: honest chains from the real trace generator, every window compared with the model,
    // then tampering judged by the operation decoder
    let mut tam_evals = 0usize;
    for i in 0..nsched {
        let cands: Vec<&Box<dyn Table>> = tabs.iter().filter(|t| chain::supported(&t.layout())).collect();
        let t = cands[i % cands.len()].as_ref();
        let r = chain::chain_case(t, &mut rng, tampers, &mut hist, &mut violations);
        tam_evals += r.evals;
        for (tr, ml, mn, pl, pn) in r.windows {
            let line = case_line(&t.layout(), &t.cols(), tr, &ml, &mn, &pl, &pn);
            evals += 1;
            emit(&mut cases, &mut implo, t, line, tr, &ml, &mn, &pl, &pn, &mut violations, &mut samples, &mut stripped);
        }
    }
    // pinned witnesses (Lean: P3R.Witness.C11P), replayed on the real AIR on every run
    chain::replay_witnesses(&tabs, &mut hist, &mut violations);
    // systematic coordinated selector forgeries (every Merkle layout, every selector-like prover cell)
    tam_evals += chain::selector_sweep(&tabs, &mut hist, &mut violations);
    cases.flush().unwrap();
    implo.flush().unwrap();
    // keep at most 25 replays per class (the counts stay exact)
    let mut class_counts: BTreeMap<String, u64> = BTreeMap::new();
    violations.retain(|v| {
        let n = class_counts.entry(v["class"].as_str().unwrap_or("").to_string()).or_default();
        *n += 1;
        *n <= 25
    });
    let report = json!({"violation_counts": class_counts, "evaluations": evals + tam_evals, "windows": evals, "tamper_evaluations": tam_evals, "distinct": distinct.len(), "hist": hist,
        "violations": violations, "samples": samples, "seed": seed,
        "constraint_counts": stripped.iter().map(|(k, (a, b))| (k.clone(), json!({"control": a, "inner_stripped": b}))).collect::<BTreeMap<_, _>>()});
    std::fs::write(format!("{out}/poseidonctl.report.json"), serde_json::to_string_pretty(&report).unwrap()).unwrap();
    println!("poseidonctl: windows={} tamper_evals={} violations={}", evals, tam_evals, violations.len());
}
