/-
L4 — the circuit runner (checked semantics).
Mirrors `circuit/src/tables/runner.rs`: `set_public_inputs`, `set_private_inputs`,
`execute_all`, `execute_alu_op` (forward / backward branches) and the rewrite post-pass of
`run`, plus the two hint executors of `circuit_builder.rs` for a degree-1 field.
-/
import P3R.Model.Optimize

namespace P3R

inductive RunErr where
  | publicLen | privateLen | missingPublicRows | missingPrivateRows
  | publicNotSet (w : Nat)
  | witnessNotSet (w : Nat)
  | conflict (w : Nat)
  | outOfBounds (w : Nat)
  | divByZero
  | notSetForIndex (i : Nat)
  | unsupported
deriving Repr, DecidableEq

/-- One ALU record (`AluOpRecord`): what the ALU table row will carry. -/
structure AluRec (K : Type) where
  kind : AluKind
  a : Nat
  b : Nat
  c : Nat
  out : Nat
  aVal : K
  bVal : K
  cVal : K
  outVal : K
deriving Repr, DecidableEq

structure RState (K : Type) where
  w : Array (Option K)
  recs : Array (AluRec K)

section
variable {K : Type} [Zero K] [One K] [Add K] [Sub K] [Mul K] [Inv K] [DecidableEq K]

/-- Content of witness slot `i` (`none` when unset or out of range). -/
def slot (w : Array (Option K)) (i : Nat) : Option K :=
  match w[i]? with
  | some x => x
  | none => none

/-- `set_witness`: write-once with equality re-check. -/
def setW (w : Array (Option K)) (i : Nat) (v : K) : Except RunErr (Array (Option K)) :=
  match w[i]? with
  | none => .error (.outOfBounds i)
  | some (some old) => if old = v then .ok w else .error (.conflict i)
  | some none => .ok (w.setIfInBounds i (some v))

def getW (w : Array (Option K)) (i : Nat) : Except RunErr K :=
  match slot w i with
  | some v => .ok v
  | none => .error (.witnessNotSet i)

/-- `execute_alu_op`. -/
def execAlu (w : Array (Option K)) (k : AluKind) (a b : Nat) (c : Option Nat) (out : Nat)
    (io : Option Nat) : Except RunErr (Array (Option K) × AluRec K) :=
  let ci := c.getD 0
  match k with
  | .add => do
    let av ← getW w a
    match slot w b with
    | some bv =>
      let r := av + bv
      let w ← setW w out r
      pure (w, ⟨k, a, b, ci, out, av, bv, 0, r⟩)
    | none =>
      let ov ← getW w out
      let bv := ov - av
      let w ← setW w b bv
      pure (w, ⟨k, a, b, ci, out, av, bv, 0, ov⟩)
  | .mul => do
    let av ← getW w a
    match slot w b with
    | some bv =>
      let r := av * bv
      let w ← setW w out r
      pure (w, ⟨k, a, b, ci, out, av, bv, 0, r⟩)
    | none =>
      let ov ← getW w out
      if av = 0 then .error .divByZero else
      let bv := ov * av⁻¹
      let w ← setW w b bv
      pure (w, ⟨k, a, b, ci, out, av, bv, 0, ov⟩)
  | .boolCheck => do
    let av ← getW w a
    let w ← setW w out av
    pure (w, ⟨k, a, b, ci, out, av, 0, av, av⟩)
  | .mulAdd => do
    let av ← getW w a
    let bv ← getW w b
    let ab := av * bv
    let w ← (match io with
      | some i => setW w i ab
      | none => pure w)
    let cv ← (match c with
      | some ci => getW w ci
      | none => pure 0)
    let ov := ab + cv
    let w ← setW w out ov
    pure (w, ⟨k, a, b, ci, out, av, bv, cv, ov⟩)
  | .horner =>
    match io, c with
    | some acc, some cId => do
      let accv ← getW w acc
      let av ← getW w a
      let bv ← getW w b
      let cv ← getW w cId
      let r := accv * bv + cv - av
      let w ← setW w out r
      pure (w, ⟨k, a, b, ci, out, av, bv, cv, r⟩)
    | _, _ => .error .unsupported

end

section
variable {K : Type} [Zero K] [One K] [Add K] [Sub K] [Mul K] [Inv K] [DecidableEq K]

/-- `BinaryDecompositionHint::execute` for a degree-1 field: `canon x` is the canonical
representative, bit `i` of it goes to output `i`. -/
def execHintBits (canon : K → Nat) (w : Array (Option K)) (ins outs : List Nat) :
    Except RunErr (Array (Option K)) :=
  match ins with
  | [x] => do
    let xv ← getW w x
    let n := canon xv
    (outs.zipIdx).foldlM (fun w (oi : Nat × Nat) =>
      setW w oi.1 (if (n >>> oi.2) % 2 = 1 then (1 : K) else 0)) w
  | _ => .error .unsupported

/-- `ExtDecompositionHint::execute` for a degree-1 field: the single coefficient is the value. -/
def execHintExt (w : Array (Option K)) (ins outs : List Nat) : Except RunErr (Array (Option K)) :=
  match ins, outs with
  | [x], [o] => do
    let xv ← getW w x
    setW w o xv
  | _, _ => .error .unsupported

/-- One step of `execute_all`. Table-backed non-primitive ops are outside this layer. -/
def execOp (canon : K → Nat) (s : RState K) (op : Op K) : Except RunErr (RState K) :=
  match op with
  | .const out v => do
    let w ← setW s.w out v
    pure { s with w := w }
  | .pub out _ =>
    match slot s.w out with
    | some _ => .ok s
    | none => .error (.publicNotSet out)
  | .alu k a b c out io => do
    let (w, r) ← execAlu s.w k a b c out io
    pure { w := w, recs := s.recs.push r }
  | .hint ins outs .hintBits => do
    let w ← execHintBits canon s.w ins outs
    pure { s with w := w }
  | .hint ins outs .hintExt => do
    let w ← execHintExt s.w ins outs
    pure { s with w := w }
  | _ => .error .unsupported

/-- Result of a run: the full witness and the ALU records. -/
structure Traces (K : Type) where
  witness : Array K
  alu : Array (AluRec K)

/-- `set_public_inputs`. -/
def setPublics (c : Circuit K) (w : Array (Option K)) (pubs : List K) : Except RunErr (Array (Option K)) :=
  if pubs.length ≠ c.pubRows.size then .error .publicLen else
  (pubs.zipIdx).foldlM (fun w (vi : K × Nat) => setW w (c.pubRows.getD vi.2 0) vi.1) w

/-- `set_private_inputs`. -/
def setPrivates (c : Circuit K) (w : Array (Option K)) (privs : List K) : Except RunErr (Array (Option K)) :=
  if privs.length ≠ c.privRows.size then .error .privateLen else
  (privs.zipIdx).foldlM (fun w (vi : K × Nat) => setW w (c.privRows.getD vi.2 0) vi.1) w

/-- A caller's session: any sequence of `set_public_inputs` (`true`) / `set_private_inputs`
(`false`) calls — possibly none, possibly repeated — followed by `run`. -/
def applyCalls (c : Circuit K) (w : Array (Option K)) : List (Bool × List K) → Except RunErr (Array (Option K))
  | [] => .ok w
  | (true, vs) :: rest => do
    let w ← setPublics c w vs
    applyCalls c w rest
  | (false, vs) :: rest => do
    let w ← setPrivates c w vs
    applyCalls c w rest

/-- `runner.run()` on a witness table prepared by the caller. -/
def runFrom (canon : K → Nat) (c : Circuit K) (w2 : Array (Option K)) : Except RunErr (Traces K) := do
  let s ← c.ops.toList.foldlM (execOp canon) ({ w := w2, recs := #[] } : RState K)
  -- rewrite post-pass: every removed duplicate slot receives (or is checked against) the
  -- value of its root
  let w3 ← c.rewrite.foldlM (fun w (dc : Nat × Nat) =>
    match slot w (resolve c.rewrite dc.2) with
    | some v => setW w dc.1 v
    | none => pure w) s.w
  let vals ← (List.range w3.size).mapM fun i =>
    match slot w3 i with
    | some v => pure v
    | none => .error (.notSetForIndex i)
  pure { witness := vals.toArray, alu := s.recs }

end

end P3R

namespace P3R
section
variable {K : Type} [Zero K] [One K] [Add K] [Sub K] [Mul K] [Inv K] [DecidableEq K]

/-- A session: input-supplying calls, then `run`. -/
def session (canon : K → Nat) (c : Circuit K) (calls : List (Bool × List K)) : Except RunErr (Traces K) := do
  let w ← applyCalls c (Array.replicate c.witnessCount none) calls
  runFrom canon c w

/-- `set_public_inputs` then `set_private_inputs` then `run` (the usual session). -/
def run (canon : K → Nat) (c : Circuit K) (pubs privs : List K) : Except RunErr (Traces K) :=
  session canon c [(true, pubs), (false, privs)]

end
end P3R
