/-
C07 — witnesses: the full-strength statement "the circuit accepts exactly when the native
verifier accepts" is false of the current code already at the level of shape validation.
Each `shape_needs_*` theorem exhibits a concrete shape vector on which `CircuitShapeOk` and
`NativeShapeOk` differ, i.e. shows that a hypothesis of `P3R.C07.fri_shape_iff` cannot be dropped.
The same inputs are replayed on the real code on every run (`corpus/c07/f2, f3, f5`), where the
real `verify_fri` rejects and the real circuit accepts.

Regression records of repaired defects (the former negation witnesses, restated): 
`arity_zero_rejected_by_both` (C07-F3c, f783d84), `zero_phase_accepted_by_both` and
`zero_phase_altered_final_poly_rejected_by_both` (C07-F4, 0e5036a; `corpus/c07/f4_zero_phase.json`
must now be accepted by both verifiers).

Also: non-vacuity examples for the hypotheses of `fri_shape_iff` (with and without fold phases) and
of the two rejection theorems `height_above_two_adicity_rejected_by_both`,
`sibling_count_mismatch_rejected_by_both`.
-/
import P3R.Props.C07

namespace P3R.C07.Witness
open P3R.Fri

def params (maxLA nq lfpl : Nat) : Params :=
  { logBlowup := 1, logFinalPolyLen := lfpl, maxLogArity := maxLA, numQueries := nq }

def q (ar : List Nat) (opened : List (List Nat)) : QShape :=
  { arities := ar, sibCounts := ar.map fun la => 2 ^ la - 1, opened := opened }

/-- Honest shape: one batch, one matrix of log size 2 and width 3 opened at one point, blow-up 2,
schedule [1,1], two queries. -/
def honest : ShapeVec :=
  { p := params 1 2 0, twoAdicity := 27, numBetas := 2, numCommits := 2, numPow := 2, finalLen := 1,
    batches := [[(2, [3])]], queries := [q [1, 1] [[3]], q [1, 1] [[3]]] }

/-- Non-vacuity: the hypotheses of `fri_shape_iff` hold on `honest`, and both sides accept it. -/
example : honest.queries.length = honest.p.numQueries ∧
    (∀ la ∈ honest.firstArities, la ≤ honest.p.maxLogArity) ∧
    (∀ b ∈ honest.batches, ∀ m ∈ b, m.2 ≠ []) ∧
    (∀ h ∈ honest.heights, h = honest.logMax ∨ h ∈ honest.foldedHeights) ∧
    honest.numBetas = honest.numCommits ∧ honest.twoAdicity ≤ 31 ∧
    CircuitShapeOk honest ∧ NativeShapeOk honest := by decide

/-- H1 is necessary: the proof carries one query, the verifier's parameter says two. The circuit
has no `num_queries` parameter and accepts; native returns `QueryProofCountMismatch`. -/
theorem shape_needs_num_queries :
    let sv := { honest with queries := [q [1, 1] [[3]]] }
    CircuitShapeOk sv ∧ ¬ NativeShapeOk sv := by decide

/-- Regression for C07-F3c (fixed by fixes/C07-2): a `log_arity = 0` phase is now rejected by the
circuit's shape validation as well as by native (`InvalidLogArity`). -/
theorem arity_zero_rejected_by_both :
    let sv := { honest with numBetas := 3, numCommits := 3, numPow := 3,
                            queries := [q [0, 1, 1] [[3]], q [0, 1, 1] [[3]]] }
    ¬ CircuitShapeOk sv ∧ ¬ NativeShapeOk sv := by decide

/-- H2 is necessary: schedule `[2]` against `max_log_arity = 1`. -/
theorem shape_needs_arity_upper_bound :
    let sv := { honest with numBetas := 1, numCommits := 1, numPow := 1,
                            queries := [q [2] [[3]], q [2] [[3]]] }
    CircuitShapeOk sv ∧ ¬ NativeShapeOk sv := by decide

/-- Only height-one matrices, constant final polynomial, no fold phase (the shape of
`corpus/c07/f4_zero_phase.json`). -/
def zeroPhase : ShapeVec :=
  { p := params 1 2 0, twoAdicity := 27, numBetas := 0, numCommits := 0, numPow := 0,
    finalLen := 1, batches := [[(0, [3])]], queries := [q [] [[3]], q [] [[3]]] }

/-- Regression for C07-F4 (repo fix 0e5036a). This vector used to witness
`NativeShapeOk sv ∧ ¬ CircuitShapeOk sv` (`shape_needs_phase`: the circuit refused to build, "FRI
must have at least one fold phase"); now both sides accept it, and it satisfies every hypothesis of
`fri_shape_iff` — that theorem, which no longer assumes a fold phase, covers it. -/
theorem zero_phase_accepted_by_both :
    NativeShapeOk zeroPhase ∧ CircuitShapeOk zeroPhase ∧
    zeroPhase.queries.length = zeroPhase.p.numQueries ∧
    (∀ la ∈ zeroPhase.firstArities, la ≤ zeroPhase.p.maxLogArity) ∧
    (∀ b ∈ zeroPhase.batches, ∀ m ∈ b, m.2 ≠ []) ∧
    (∀ h ∈ zeroPhase.heights, h = zeroPhase.logMax ∨ h ∈ zeroPhase.foldedHeights) ∧
    zeroPhase.numBetas = zeroPhase.numCommits ∧ zeroPhase.twoAdicity ≤ 31 := by decide

/-- The other half of the C07-F4 regression: without fold phase a final polynomial `[c]` different
from the reduced opening is refused by both models (circuit: a violated `connect`, i.e. the runner
fails; native: `FinalPolyMismatch`) — every field, index and height. -/
theorem zero_phase_altered_final_poly_rejected_by_both {K : Type} [Field K] [DecidableEq K]
    (env : Env K) (p : Params) (logMax index : Nat) (phases : List (Phase K)) (c ro0 : K) (h : ro0 ≠ c) :
    (queryTailC env logMax 0 [] [] [c] (indexBits logMax index) phases [(logMax, ro0)]).run {} =
        .ok ((), { unsat := true }) ∧
      queryCheckN env p [] 0 [c] 0 logMax logMax index phases [(logMax, ro0)] = .error .finalPolyMismatch := by
  have h' : ¬ c = ro0 := fun e => h e.symm
  rw [query_tail_zero_phase, query_check_zero_phase]
  simp [evalPoly, h, h']

/-- …and the honest value is accepted by both. -/
theorem zero_phase_honest_final_poly_accepted_by_both {K : Type} [Field K] [DecidableEq K]
    (env : Env K) (p : Params) (logMax index : Nat) (phases : List (Phase K)) (c : K) :
    (queryTailC env logMax 0 [] [] [c] (indexBits logMax index) phases [(logMax, c)]).run {} =
        .ok ((), { unsat := false }) ∧
      queryCheckN env p [] 0 [c] 0 logMax logMax index phases [(logMax, c)] = .ok () := by
  rw [query_tail_zero_phase, query_check_zero_phase]
  simp [evalPoly]

/-- Non-vacuity of `height_above_two_adicity_rejected_by_both` (F9i): `log_max_height = 28` on a
field of two-adicity 27 — below the 31-bit bound, so only the new test refuses it. -/
example :
    let sv := { honest with p := { honest.p with logBlowup := 26 } }
    sv.twoAdicity < sv.logMax ∧ sv.logMax ≤ 31 := by decide

/-- Non-vacuity of `sibling_count_mismatch_rejected_by_both` (F9d): one sibling value too many. -/
example :
    let bad : QShape := { arities := [1, 1], sibCounts := [2, 1], opened := [[3]] }
    let sv := { honest with queries := [bad, q [1, 1] [[3]]] }
    bad ∈ sv.queries ∧ ¬ SibsOk bad := by decide

/-- H4 is necessary: final polynomial length 4, matrices of log size 5 and 1: log-height 2 lies
below the final height 3 and is reached by no fold phase. Native: `UnconsumedReducedOpenings`;
the circuit builds (and only constrains that reduced opening to be zero). -/
theorem shape_needs_matched_heights :
    let sv : ShapeVec := { p := params 1 2 2, twoAdicity := 27, numBetas := 3, numCommits := 3, numPow := 3,
                           finalLen := 4, batches := [[(5, [2])], [(1, [2])]],
                           queries := [q [1, 1, 1] [[2], [2]], q [1, 1, 1] [[2], [2]]] }
    CircuitShapeOk sv ∧ ¬ NativeShapeOk sv := by decide

end P3R.C07.Witness
