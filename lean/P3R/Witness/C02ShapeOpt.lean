/-
Witnesses for `P3R.C02O` (Props/C02ShapeOpt.lean).

* `good_pubsFirst` — the reachable example of `Witness.C09Total` (public, private, hint, `assert_bool`,
  a fusable mul+add, a backward `sub` row) satisfies `pubsFirst` and the guard `pubFull`;
  so `compile_shape_ok` applies to it (the example compiles: `C02ShapeTotal.good_compiles`), and the
  pass really fuses there (`good_fuses`: the compiled list is shorter than the de-duplicated one).
* `pubsFirst_needed` — list level: `PubAt` (what `pubsFirst` provides) is necessary for `fuse_keeps_shape`:
  a backward `Add` whose `out` is a public slot with its `Public` row *after* the add is not seen as backward
  by `scan_defs`; the pass fuses it and the shape run of the fused list fails although the input list runs.
-/
import P3R.Props.C02ShapeOptLower
import P3R.Witness.C02ShapeTotal
open P3R P3R.C02T P3R.C02S P3R.C02O P3R.Witness.C09Total P3R.Witness.C09Compile

namespace P3R.Witness.C02ShapeOpt

theorem good_pubsFirst :
    (match lower bGood with
     | .ok l => pubsFirst l
     | .error _ => false) = true := by decide +kernel

theorem good_fuses :
    (match lower bGood with
     | .ok l => decide ((optimize l.ops l.privRows.toList).1.size < (dedup l.ops).1.size)
     | .error _ => false) = true := by decide +kernel

theorem good_pubFull : pubFull bGood = true := by decide +kernel

/-- `compile_shape_ok` applies to the example (all guards hold, no per-circuit hypothesis). -/
example (c : Circuit Int) (hc : compile bGood = .ok c) : runShape c (allInputsSet c) = true :=
  compile_shape_ok bGood good_reachable.ok
    P3R.Witness.C02ShapeTotal.good_guards.1 P3R.Witness.C02ShapeTotal.good_guards.2.1
    P3R.Witness.C02ShapeTotal.good_guards.2.2 good_pubFull c hc

/-- Slots: 0 = public (its `Public` row comes last), 1, 2 = private, 3 = product, 4 = addend computed
backward by the add (`4 = 0 - 3`), 5 = a later reader of 4. -/
def lateOps : Array (Op Int) :=
  #[.alu .mul 1 2 none 3 none, .alu .add 3 4 none 0 none, .alu .add 4 1 none 5 none, .pub 0 0]

def lateT0 : Array Bool := #[true, true, true, false, false, false]

theorem pubsFirst_needed :
    (runOps lateT0 lateOps.toList).isSome = true ∧
    (runOps lateT0 (fuse lateOps [1, 2]).toList).isSome = false := by decide +kernel

end P3R.Witness.C02ShapeOpt
