/-
C16 manifest leg — non-vacuity: concrete metadata of a KoalaBear quintic (`D = 5`) proof with one
`poseidon2_perm/koala_bear_d1_w16` table and the two recompose tables, the manifest derived for
it, and the alterations of seed C16-d (same-family relabelling) on both sides. All by evaluation
of the model (`decide`), replayed on the real `VerifierManifest::matches` by the harness
(`p3r-harness metadata`, `manifest …` lines of every NPO base).
-/
import P3R.Props.C16Manifest

namespace P3R.Witness.C16Manifest
open P3R.Metadata P3R.C16

def nm (s : String) : Name := s.toList.map Char.toNat

def d1w16 : Name := nm "poseidon2_perm/koala_bear_d1_w16"
def d4w16 : Name := nm "poseidon2_perm/koala_bear_d4_w16"
def rec_ : Name := nm "recompose"
def recCoeff : Name := nm "recompose/coeff"

def proofMeta : Meta :=
  { packing := ⟨1, 1, [], 4, 2⟩, rows := (2, 5, 6), aluVariant := 1, d := 5, w := none, quintic := true,
    entries := [⟨d1w16, 1, 1, [], 0⟩, ⟨rec_, 1, 1, [], 0⟩, ⟨recCoeff, 1, 1, [], 0⟩], common := none }

def man : Manifest := manifestOf .quintic proofMeta

theorem honest_matches : manifestMatches man proofMeta = .ok () := by decide

/-- the hypotheses of `manifest_matches_self` are satisfiable -/
example : manifestMatches (manifestOf .quintic proofMeta) proofMeta = .ok () :=
  manifest_matches_self .quintic proofMeta rfl rfl

/-- proof side: the Poseidon2 entry relabelled to another config of the same family -/
theorem same_family_relabel_rejected :
    manifestMatches man { proofMeta with entries := [⟨d4w16, 1, 1, [], 0⟩, ⟨rec_, 1, 1, [], 0⟩, ⟨recCoeff, 1, 1, [], 0⟩] }
      = .error (.npoOp 0) := by decide

/-- `recompose` and `recompose/coeff` are different tables -/
theorem recompose_coeff_not_recompose :
    manifestMatches man { proofMeta with entries := [⟨d1w16, 1, 1, [], 0⟩, ⟨rec_, 1, 1, [], 0⟩, ⟨rec_, 1, 1, [], 0⟩] }
      = .error (.npoOp 2) := by decide

/-- verifier side: a manifest written for the D=4 table does not accept the honest D=1 proof -/
theorem other_config_manifest_rejects :
    manifestMatches { man with npo := [⟨d4w16, 0, 0⟩, ⟨rec_, 0, 0⟩, ⟨recCoeff, 0, 0⟩] } proofMeta = .error (.npoOp 0) := by decide

/-- the general theorem applies to this instance (hypotheses satisfiable) -/
example : manifestMatches man { proofMeta with entries := [] ++ { (⟨d1w16, 1, 1, [], 0⟩ : Entry) with op := d4w16 } ::
      [⟨rec_, 1, 1, [], 0⟩, ⟨recCoeff, 1, 1, [], 0⟩] } = .error (.npoOp 0) :=
  manifest_op_relabel_rejected man proofMeta [] [⟨rec_, 1, 1, [], 0⟩, ⟨recCoeff, 1, 1, [], 0⟩] ⟨d1w16, 1, 1, [], 0⟩ d4w16 rfl
    honest_matches (by decide)

/-- order matters: two tables swapped -/
theorem swap_rejected :
    manifestMatches man { proofMeta with entries := [⟨rec_, 1, 1, [], 0⟩, ⟨d1w16, 1, 1, [], 0⟩, ⟨recCoeff, 1, 1, [], 0⟩] }
      = .error (.npoOp 0) := by decide

theorem dropped_rejected :
    manifestMatches man { proofMeta with entries := [⟨d1w16, 1, 1, [], 0⟩, ⟨rec_, 1, 1, [], 0⟩] } = .error .npoCount := by decide

theorem variant_rejected :
    manifestMatches man { proofMeta with entries := [⟨d1w16, 1, 1, [], 0⟩, ⟨rec_, 1, 1, [], 1⟩, ⟨recCoeff, 1, 1, [], 0⟩] }
      = .error (.npoVariant 1) := by decide

theorem pvlen_rejected :
    manifestMatches man { proofMeta with entries := [⟨d1w16, 1, 1, [], 0⟩, ⟨rec_, 1, 1, [], 0⟩, ⟨recCoeff, 1, 1, [7], 0⟩] }
      = .error (.npoPvLen 2) := by decide

/-- rows / lanes do not matter to `matches` (instance of `manifest_insensitive`) -/
example : manifestMatches man { proofMeta with entries := [⟨d1w16, 9, 3, [], 0⟩, ⟨rec_, 1, 2, [], 0⟩, ⟨recCoeff, 4, 1, [], 0⟩] } = .ok () := by
  decide

end P3R.Witness.C16Manifest

#print axioms P3R.Witness.C16Manifest.honest_matches
#print axioms P3R.Witness.C16Manifest.same_family_relabel_rejected
#print axioms P3R.Witness.C16Manifest.recompose_coeff_not_recompose
#print axioms P3R.Witness.C16Manifest.other_config_manifest_rejects
