/-
Helper lemmas for C07: arity-2 fold, sequential folds, Horner chains.
-/
import P3R.Lemmas.FriBits
import Mathlib.Tactic.FieldSimp
import Mathlib.Tactic.LinearCombination

namespace P3R.C07
open P3R.Fri

variable {K : Type} [Field K]

/-- `arity2_fold_at_point` in the usual even/odd form. -/
theorem fold2_eq (e0 e1 β x0 : K) (hx : x0 ≠ 0) (h2 : (2 : K) ≠ 0) :
    fold2 e0 e1 β x0 = (e0 + e1) / 2 + β * ((e0 - e1) / (2 * x0)) := by
  have h11 : (1 : K) + 1 ≠ 0 := by rwa [one_add_one_eq_two]
  unfold fold2
  field_simp
  ring

theorem evalPoly_append_single (a : List K) (c x : K) :
    evalPoly (a ++ [c]) x = evalPoly a x + x ^ a.length * c := by
  induction a with
  | nil => simp [evalPoly]
  | cons a0 a ih => simp [evalPoly, ih, pow_succ]; ring

/-- Coefficients of `p_e + β·p_o`. -/
def combine (β : K) : List K → List K
  | [] => []
  | [a0] => [a0]
  | a0 :: a1 :: t => (a0 + β * a1) :: combine β t

theorem combine_length_le (β : K) : ∀ (a : List K) (n : Nat), a.length ≤ 2 * n → (combine β a).length ≤ n
  | [], n, _ => by simp [combine]
  | [_], n, h => by simp [combine] at *; omega
  | _ :: _ :: t, n, h => by
    cases n with
    | zero => simp at h
    | succ n =>
      simp only [combine, List.length_cons] at *
      have := combine_length_le β t n (by omega)
      omega

/-- `p(x) = p_e(x²) + x·p_o(x²)`, stated through `combine`:
`½(p(x)+p(−x)) + β·(p(x)−p(−x))/(2x) = (p_e + β p_o)(x²)`. -/
theorem fold2_evalPoly (β : K) (x : K) (hx : x ≠ 0) (h2 : (2 : K) ≠ 0) :
    ∀ a : List K, fold2 (evalPoly a x) (evalPoly a (-x)) β x = evalPoly (combine β a) (x * x)
  | [] => by rw [fold2_eq _ _ _ _ hx h2]; simp [evalPoly, combine]
  | [a0] => by rw [fold2_eq _ _ _ _ hx h2]; simp [evalPoly, combine]; field_simp; ring
  | a0 :: a1 :: t => by
    have ih := fold2_evalPoly β x hx h2 t
    rw [fold2_eq _ _ _ _ hx h2] at ih ⊢
    simp only [evalPoly, combine]
    rw [← ih]
    field_simp
    ring


theorem evalPoly_combine (β : K) : ∀ a : List K, evalPoly (combine β a) (β * β) = evalPoly a β
  | [] => by simp [combine, evalPoly]
  | [a0] => by simp [combine, evalPoly]
  | a0 :: a1 :: t => by
    simp only [combine, evalPoly, evalPoly_combine β t]
    ring

theorem rb_even (j k : Nat) : reverseBitsLen (2 * j) (k + 1) = reverseBitsLen j k := by
  simp [reverseBitsLen]

theorem rb_odd (j k : Nat) : reverseBitsLen (2 * j + 1) (k + 1) = 2 ^ k + reverseBitsLen j k := by
  have h1 : (2 * j + 1) / 2 = j := by omega
  have h2 : (2 * j + 1) % 2 = 1 := by omega
  simp [reverseBitsLen, h1, h2]

theorem brPoints_length (s w : K) (k : Nat) : (brPoints s w k).length = 2 ^ k := by
  simp [brPoints]

/-- One level of the sequential fold maps the evaluations of `p` on the bit-reversed coset
`s·⟨ω⟩` (size `2^(k+1)`) to the evaluations of `p_e + β·p_o` on `s²·⟨ω²⟩` (size `2^k`). -/
theorem foldStep_evals (a : List K) (β s ω : K) (k : Nat) (hs : s ≠ 0) (h2 : (2 : K) ≠ 0)
    (hω : ω ^ (2 ^ k) = -1) :
    foldStep k ((brPoints s ω (k + 1)).map (evalPoly a)) β s ω =
      (brPoints (s * s) (ω * ω) k).map (evalPoly (combine β a)) := by
  have hω0 : ω ≠ 0 := by
    intro h
    rw [h, zero_pow (by positivity)] at hω
    exact one_ne_zero (neg_eq_zero.mp hω.symm)
  unfold foldStep
  simp only [List.length_map, brPoints_length]
  have hhalf : 2 ^ (k + 1) / 2 = 2 ^ k := by rw [pow_succ]; simp
  rw [hhalf]
  simp only [brPoints, List.map_map]
  apply List.map_congr_left
  intro j hj
  have hj' : j < 2 ^ k := List.mem_range.mp hj
  have h1 : 2 * j < 2 ^ (k + 1) := by rw [pow_succ]; omega
  have h3 : 2 * j + 1 < 2 ^ (k + 1) := by rw [pow_succ]; omega
  have g1 : ∀ (F : Nat → K) (i : Nat), i < 2 ^ (k + 1) →
      (List.map F (List.range (2 ^ (k + 1)))).getD i 0 = F i := by
    intro F i hi
    simp [List.getD_eq_getElem?_getD, hi]
  rw [g1 _ _ h1, g1 _ _ h3]
  simp only [Function.comp, rb_even, rb_odd, npow_eq]
  have hx : s * ω ^ reverseBitsLen j k ≠ 0 := mul_ne_zero hs (pow_ne_zero _ hω0)
  have hneg : s * ω ^ (2 ^ k + reverseBitsLen j k) = -(s * ω ^ reverseBitsLen j k) := by
    rw [pow_add, hω]; ring
  rw [hneg, fold2_evalPoly β _ hx h2 a]
  congr 1
  rw [mul_pow]; ring

/-- **General arity.** For every `k`, the `k` sequential arity-2 folds of `fold_one_phase`
(challenges `β, β², β⁴, …`, points from `s, s², …` and `ω, ω², …`) applied to the evaluations of
any polynomial `p` of degree `< 2^k` on the bit-reversed coset `s·⟨ω⟩` return `p(β)` — the value
at `β` of the unique interpolant, which is what native `fold_row` computes by Lagrange
interpolation. -/
theorem seqFold_evals : ∀ (k : Nat) (a : List K) (β s ω : K), a.length ≤ 2 ^ k → s ≠ 0 →
    (2 : K) ≠ 0 → (k = 0 ∨ ω ^ (2 ^ (k - 1)) = -1) →
    seqFold k ((brPoints s ω k).map (evalPoly a)) β s ω = evalPoly a β
  | 0, a, β, s, ω, hlen, _, _, _ => by
    simp only [seqFold, brPoints, pow_zero, List.range_one, List.map_cons, List.map_nil,
      List.headD_cons]
    match a, hlen with
    | [], _ => simp [evalPoly]
    | [a0], _ => simp [evalPoly]
    | _ :: _ :: _, h => simp at h
  | k + 1, a, β, s, ω, hlen, hs, h2, hω => by
    have hω' : ω ^ (2 ^ k) = -1 := by
      rcases hω with h | h
      · omega
      · simpa using h
    rw [seqFold, foldStep_evals a β s ω k hs h2 hω']
    have hlen' : (combine β a).length ≤ 2 ^ k := combine_length_le β a _ (by rw [pow_succ] at hlen; omega)
    have hω'' : k = 0 ∨ (ω * ω) ^ (2 ^ (k - 1)) = -1 := by
      rcases Nat.eq_zero_or_pos k with h | h
      · exact Or.inl h
      · right
        rw [← pow_two, ← pow_mul, ← pow_succ']
        have : k - 1 + 1 = k := by omega
        rw [this]; exact hω'
    rw [seqFold_evals k (combine β a) (β * β) (s * s) (ω * ω) hlen' (mul_ne_zero hs hs) h2 hω'']
    exact evalPoly_combine β a

end P3R.C07
