/-
C11 — whole windows of the ALU table at ring level, every extension degree `D`.

`Props/C11Gen` / `Props/C11PackedGen` are stated about the constraint *vectors* (`laneMulAdd`,
`hornerSingle`, `packedLegs`, …). Here they are connected to the model's complete constraint list
`aluConstraints D lanes kmax kind ml mn pl pn` — the function whose values the correspondence run
compares with the real `AluAir::eval`, constraint by constraint:

* `laneBlocks_sub`, `wC1_sub … wC4_sub` — each vector (per-lane ADD / MUL / MUL_ADD; lane 0's `b²`
  constraint `c1`, inter-row packed constraint `c2`, single Horner step `c3`, intra-row legs `c4`) is a
  part of `aluConstraints`, at the offsets of `alu_columns.rs`;
* `window_add_ring`, `window_mul_ring`, `window_mulAdd_ring`, `window_hornerSingle_ring` — all
  constraints of a window vanish + the kind's selector is non-zero ⟹ the ring-level relation between
  the lane's segments;
* `packed_window_sound_gen` — rows `r0, r1, r2`, all constraints of the windows `(r0,r1)`, `(r1,r2)`
  vanish, `r1` carries exactly one non-zero arity selector `kk ∈ 2..K_max` ⟹ `r1`'s lane-0 `out` is
  `kk` chained single Horner steps from `r0`'s `out`, in the extension ring (every `D`, every kind,
  every lane count, every `K_max`).
-/
import P3R.Props.C11PackedGen

set_option linter.unusedSectionVars false

namespace P3R.C11
open P3R

section Window
variable {K : Type} [Field K]
variable (D lanes kmax : ℕ) (kind : ExtKind K)

def wEM : ℕ := lanes * 4 * D
def wEP : ℕ := lanes * prepLaneWidth
def wAc : ℕ := lanes * 4 * D + numInt kmax * D
def wBs : ℕ := lanes * 4 * D + numInt kmax * D + 2 * (kmax - 1) * D
def wKs : List ℕ := (List.range (kmax - 1)).map (· + 2)

def wC1 (ml pl : List K) : List K :=
  (List.range D).map fun i =>
    lsum ((wKs kmax).map fun kk => vget pl (wEP lanes + selKIdx kk)) *
      (vget (seg ml (wBs D lanes kmax) D) i - vget (extMul D kind (seg ml D D) (seg ml D D)) i)

def wC2 (ml mn pn : List K) : List K :=
  (List.range D).flatMap fun i =>
    [vget pn (wEP lanes + selKIdx 2) *
      (firstPoly D kind (seg ml (3 * D) D) (seg mn 0 D) (seg mn (2 * D) D) (seg mn D D)
          (seg mn (wBs D lanes kmax) D) (seg mn (wAc D lanes kmax) D)
          (seg mn (wAc D lanes kmax + D) D) i - vget (seg mn (3 * D) D) i),
     lsum (((wKs kmax).filter (· ≥ 3)).map fun kk => vget pn (wEP lanes + selKIdx kk)) *
      (firstPoly D kind (seg ml (3 * D) D) (seg mn 0 D) (seg mn (2 * D) D) (seg mn D D)
          (seg mn (wBs D lanes kmax) D) (seg mn (wAc D lanes kmax) D)
          (seg mn (wAc D lanes kmax + D) D) i - vget (seg mn (wEM D lanes) D) i)]

def wC4 (ml pl : List K) : List K :=
  ((wKs kmax).filter (· ≥ 3)).flatMap fun kk =>
    packedLegs D kmax kind ml (wEM D lanes) (wAc D lanes kmax) (seg ml D D)
      (seg ml (wBs D lanes kmax) D) (seg ml (3 * D) D) (vget pl (wEP lanes + selKIdx kk)) kk
      (kk + 1) 2 0

theorem wC1_sub (hl : 0 < lanes) (ml mn pl pn : List K) :
    ∀ x ∈ wC1 D lanes kmax kind ml pl, x ∈ aluConstraints D lanes kmax kind ml mn pl pn := by
  intro x hx
  unfold aluConstraints
  rw [List.mem_flatMap]
  refine ⟨0, List.mem_range.mpr hl, ?_⟩
  simp only [↓reduceIte, Nat.zero_mul, Nat.zero_add, List.mem_append]
  refine Or.inr (Or.inl (Or.inl (Or.inl ?_)))
  exact hx

theorem wC2_sub (hl : 0 < lanes) (ml mn pl pn : List K) :
    ∀ x ∈ wC2 D lanes kmax kind ml mn pn, x ∈ aluConstraints D lanes kmax kind ml mn pl pn := by
  intro x hx
  unfold aluConstraints
  rw [List.mem_flatMap]
  refine ⟨0, List.mem_range.mpr hl, ?_⟩
  simp only [↓reduceIte, Nat.zero_mul, Nat.zero_add, List.mem_append]
  refine Or.inr (Or.inl (Or.inl (Or.inr ?_)))
  exact hx

def wC3 (ml mn pn : List K) : List K :=
  hornerSingle D
    (vget pn 4 - lsum ((wKs kmax).map fun kk => vget pn (wEP lanes + selKIdx kk)))
    (extMul D kind (seg ml (3 * D) D) (seg mn D D)) (seg mn (2 * D) D) (seg mn 0 D) (seg mn (3 * D) D)

theorem wC3_sub (hl : 0 < lanes) (ml mn pl pn : List K) :
    ∀ x ∈ wC3 D lanes kmax kind ml mn pn, x ∈ aluConstraints D lanes kmax kind ml mn pl pn := by
  intro x hx
  unfold aluConstraints
  rw [List.mem_flatMap]
  refine ⟨0, List.mem_range.mpr hl, ?_⟩
  simp only [↓reduceIte, Nat.zero_mul, Nat.zero_add, List.mem_append]
  refine Or.inr (Or.inl (Or.inr ?_))
  exact hx

theorem wC4_sub (hl : 0 < lanes) (ml mn pl pn : List K) :
    ∀ x ∈ wC4 D lanes kmax kind ml pl, x ∈ aluConstraints D lanes kmax kind ml mn pl pn := by
  intro x hx
  unfold aluConstraints
  rw [List.mem_flatMap]
  refine ⟨0, List.mem_range.mpr hl, ?_⟩
  simp only [↓reduceIte, Nat.zero_mul, Nat.zero_add, List.mem_append]
  refine Or.inr (Or.inr ?_)
  exact hx

/-- The per-lane blocks (every lane): ADD, MUL, MUL_ADD constraint vectors are part of the window's
constraint list. -/
theorem laneBlocks_sub (lane : ℕ) (hl : lane < lanes) (ml mn pl pn : List K) :
    (∀ x ∈ laneAdd D (vget pl (lane * prepLaneWidth + 1)) (seg ml (lane * 4 * D) D)
        (seg ml (lane * 4 * D + D) D) (seg ml (lane * 4 * D + 3 * D) D),
      x ∈ aluConstraints D lanes kmax kind ml mn pl pn) ∧
    (∀ x ∈ laneEq D ((0 : K) - vget pl (lane * prepLaneWidth) - vget pl (lane * prepLaneWidth + 2) -
          vget pl (lane * prepLaneWidth + 3) - vget pl (lane * prepLaneWidth + 4) -
          vget pl (lane * prepLaneWidth + 1))
        (extMul D kind (seg ml (lane * 4 * D) D) (seg ml (lane * 4 * D + D) D))
        (seg ml (lane * 4 * D + 3 * D) D),
      x ∈ aluConstraints D lanes kmax kind ml mn pl pn) ∧
    (∀ x ∈ laneMulAdd D (vget pl (lane * prepLaneWidth + 3))
        (extMul D kind (seg ml (lane * 4 * D) D) (seg ml (lane * 4 * D + D) D))
        (seg ml (lane * 4 * D + 2 * D) D) (seg ml (lane * 4 * D + 3 * D) D),
      x ∈ aluConstraints D lanes kmax kind ml mn pl pn) := by
  refine ⟨?_, ?_, ?_⟩ <;> intro x hx <;> unfold aluConstraints <;> rw [List.mem_flatMap] <;>
    refine ⟨lane, List.mem_range.mpr hl, ?_⟩ <;> simp only [List.mem_append]
  · exact Or.inl (Or.inl (Or.inl (Or.inl (Or.inr hx))))
  · exact Or.inl (Or.inl (Or.inl (Or.inr hx)))
  · exact Or.inl (Or.inr hx)

theorem sum_filter_map' {M : Type} [AddCommMonoid M] (l : List ℕ) (p : ℕ → Bool) (f : ℕ → M) :
    ((l.filter p).map f).sum = (l.map fun k => if p k then f k else 0).sum := by
  induction l with
  | nil => simp
  | cons a l ih =>
    by_cases h : p a = true
    · simp [h, ih]
    · simp [h, ih]

/-- One-hot arity selectors: the sum over `kk ∈ 2..K_max` is the one non-zero selector. -/
theorem lsum_onehot (f : ℕ → K) (kk : ℕ) (h2 : 2 ≤ kk) (hm : kk ≤ kmax)
    (hz : ∀ k', 2 ≤ k' → k' ≤ kmax → k' ≠ kk → f k' = 0) :
    lsum ((wKs kmax).map f) = f kk := by
  unfold wKs
  rw [lsum_eq_sum, List.map_map, sum_map_range, Finset.sum_eq_single (kk - 2)]
  · simp only [Function.comp]
    congr 1; omega
  · intro t ht hne
    have := Finset.mem_range.mp ht
    exact hz (t + 2) (by omega) (by omega) (by omega)
  · intro h; exact absurd (Finset.mem_range.mpr (by omega)) h

theorem lsum_onehot_ge3 (f : ℕ → K) (kk : ℕ) (h2 : 2 ≤ kk) (hm : kk ≤ kmax)
    (hz : ∀ k', 2 ≤ k' → k' ≤ kmax → k' ≠ kk → f k' = 0) :
    lsum (((wKs kmax).filter (· ≥ 3)).map f) = if 3 ≤ kk then f kk else 0 := by
  rw [lsum_eq_sum, sum_filter_map', ← lsum_eq_sum,
    lsum_onehot kmax (fun k => if (decide (k ≥ 3)) = true then f k else 0) kk h2 hm
      (fun k' a b c => by simp [hz k' a b c])]
  simp

theorem pairs_split {β : Type} [Zero β] (f g : ℕ → β)
    (h : ∀ x ∈ (List.range D).flatMap (fun i => [f i, g i]), x = 0) :
    (∀ x ∈ (List.range D).map f, x = 0) ∧ (∀ x ∈ (List.range D).map g, x = 0) := by
  constructor <;> intro x hx <;> obtain ⟨i, hi, rfl⟩ := List.mem_map.mp hx <;>
    exact h _ (List.mem_flatMap.mpr ⟨i, hi, by simp⟩)

variable {L : Type} [CommRing L] (φ : K →+* L) (α : L)

/-- **Whole windows, MUL_ADD lane (every lane, every `D`).** If every constraint of the model's
`aluConstraints` vanishes on a window and the lane's MUL_ADD selector is non-zero, the lane's cells
satisfy `out = a·b + c` in the extension ring. -/
theorem window_mulAdd_ring (hk : KindRoot φ D kind α) (ml mn pl pn : List K)
    (H : ∀ x ∈ aluConstraints D lanes kmax kind ml mn pl pn, x = 0) (lane : ℕ) (hl : lane < lanes)
    (hs : vget pl (lane * prepLaneWidth + 3) ≠ 0) :
    ev φ α D (seg ml (lane * 4 * D + 3 * D) D) =
      ev φ α D (seg ml (lane * 4 * D) D) * ev φ α D (seg ml (lane * 4 * D + D) D) +
        ev φ α D (seg ml (lane * 4 * D + 2 * D) D) :=
  laneMulAdd_ring φ α D kind hk _ hs _ _ _ _
    (fun x hx => H x ((laneBlocks_sub D lanes kmax kind lane hl ml mn pl pn).2.2 x hx))

/-- **Whole windows, ADD lane.** -/
theorem window_add_ring (ml mn pl pn : List K)
    (H : ∀ x ∈ aluConstraints D lanes kmax kind ml mn pl pn, x = 0) (lane : ℕ) (hl : lane < lanes)
    (hs : vget pl (lane * prepLaneWidth + 1) ≠ 0) :
    ev φ α D (seg ml (lane * 4 * D + 3 * D) D) =
      ev φ α D (seg ml (lane * 4 * D) D) + ev φ α D (seg ml (lane * 4 * D + D) D) :=
  laneAdd_ring φ α D _ hs _ _ _
    (fun x hx => H x ((laneBlocks_sub D lanes kmax kind lane hl ml mn pl pn).1 x hx))

/-- **Whole windows, MUL lane** (the MUL selector is the derived `active − bool − muladd − horner − add`). -/
theorem window_mul_ring (hk : KindRoot φ D kind α) (ml mn pl pn : List K)
    (H : ∀ x ∈ aluConstraints D lanes kmax kind ml mn pl pn, x = 0) (lane : ℕ) (hl : lane < lanes)
    (hs : (0 : K) - vget pl (lane * prepLaneWidth) - vget pl (lane * prepLaneWidth + 2) -
          vget pl (lane * prepLaneWidth + 3) - vget pl (lane * prepLaneWidth + 4) -
          vget pl (lane * prepLaneWidth + 1) ≠ 0) :
    ev φ α D (seg ml (lane * 4 * D + 3 * D) D) =
      ev φ α D (seg ml (lane * 4 * D) D) * ev φ α D (seg ml (lane * 4 * D + D) D) :=
  laneMul_ring φ α D kind hk _ hs _ _ _
    (fun x hx => H x ((laneBlocks_sub D lanes kmax kind lane hl ml mn pl pn).2.1 x hx))

/-- **Whole windows, single Horner step on lane 0**: the next row is a non-packed HORNER row
(`sel_horner − Σ sel_k ≠ 0`) ⟹ `out' = out·b' + c' − a'` in the extension ring. -/
theorem window_hornerSingle_ring (hk : KindRoot φ D kind α) (hl : 0 < lanes) (ml mn pl pn : List K)
    (H : ∀ x ∈ aluConstraints D lanes kmax kind ml mn pl pn, x = 0)
    (hs : vget pn 4 - lsum ((wKs kmax).map fun kk => vget pn (wEP lanes + selKIdx kk)) ≠ 0) :
    ev φ α D (seg mn (3 * D) D) =
      ev φ α D (seg ml (3 * D) D) * ev φ α D (seg mn D D) + ev φ α D (seg mn (2 * D) D) -
        ev φ α D (seg mn 0 D) :=
  hornerSingle_ring φ α D kind hk _ hs _ _ _ _ _
    (fun x hx => H x (wC3_sub D lanes kmax kind hl ml mn pl pn x hx))

/-- **Whole windows, packed Horner row of any arity, every `D`.** Rows `r0, r1, r2` (main `m·`,
preprocessed `p·`); every constraint of the model's `aluConstraints` vanishes on the windows
`(r0, r1)` and `(r1, r2)`; `r1` is a packed row of arity `kk` (its arity selector is the only non-zero
one). Then lane 0's `out` of `r1` is, in the extension ring, the value of `kk` chained single Horner
steps `x ↦ x·b + c_t − a_t` started from `r0`'s `out` (step 0 reads the lane's own `a`, `c`; steps
`t ≥ 1` the extra columns). -/
theorem packed_window_sound_gen (hk : KindRoot φ D kind α) (hl : 0 < lanes)
    (m0 m1 m2 p0 p1 p2 : List K)
    (H01 : ∀ x ∈ aluConstraints D lanes kmax kind m0 m1 p0 p1, x = 0)
    (H12 : ∀ x ∈ aluConstraints D lanes kmax kind m1 m2 p1 p2, x = 0)
    (kk : ℕ) (hk2 : 2 ≤ kk) (hkm : kk ≤ kmax)
    (hs : vget p1 (wEP lanes + selKIdx kk) ≠ 0)
    (hoth : ∀ k', 2 ≤ k' → k' ≤ kmax → k' ≠ kk → vget p1 (wEP lanes + selKIdx k') = 0) :
    ev φ α D (seg m1 (3 * D) D) =
      hchainR (ev φ α D (seg m1 D D))
        (rowAg φ α D (ev φ α D (seg m1 0 D)) m1 (wAc D lanes kmax))
        (rowCg φ α D (ev φ α D (seg m1 (2 * D) D)) m1 (wAc D lanes kmax)) kk 0
        (ev φ α D (seg m0 (3 * D) D)) := by
  have hany := lsum_onehot kmax (fun k => vget p1 (wEP lanes + selKIdx k)) kk hk2 hkm hoth
  have hge3 := lsum_onehot_ge3 kmax (fun k => vget p1 (wEP lanes + selKIdx k)) kk hk2 hkm hoth
  -- b² column
  have h1 : ∀ x ∈ wC1 D lanes kmax kind m1 p1, x = 0 :=
    fun x hx => H12 x (wC1_sub D lanes kmax kind hl m1 m2 p1 p2 x hx)
  unfold wC1 at h1
  rw [hany] at h1
  have hbsq := bsq_ring φ α D kind hk _ hs (seg m1 D D) (seg m1 (wBs D lanes kmax) D) h1
  -- inter-row constraint
  have h2 : ∀ x ∈ wC2 D lanes kmax kind m0 m1 p1, x = 0 :=
    fun x hx => H01 x (wC2_sub D lanes kmax kind hl m0 m1 p0 p1 x hx)
  unfold wC2 at h2
  rw [hge3] at h2
  obtain ⟨h2a, h2b⟩ := pairs_split D _ _ h2
  have hfirst : ev φ α D (seg m0 (3 * D) D) * ev φ α D (seg m1 (wBs D lanes kmax) D) +
        ev φ α D (seg m1 (2 * D) D) * ev φ α D (seg m1 D D) -
        ev φ α D (seg m1 0 D) * ev φ α D (seg m1 D D) +
        gC φ α D m1 (wAc D lanes kmax) 1 - gA φ α D m1 (wAc D lanes kmax) 1 =
      (if kk = 2 then ev φ α D (seg m1 (3 * D) D) else gI φ α D m1 (wEM D lanes) 0) := by
    rw [gC_one, gA_one, gI_zero]
    by_cases hkk : kk = 2
    · rw [if_pos hkk]
      subst hkk
      exact firstLeg_ring φ α D kind hk _ hs _ _ _ _ _ _ _ _ h2a
    · rw [if_neg hkk]
      rw [if_pos (by omega)] at h2b
      exact firstLeg_ring φ α D kind hk _ hs _ _ _ _ _ _ _ _ h2b
  -- intra-row legs
  have hlegs : ∀ x ∈ packedLegs D kmax kind m1 (wEM D lanes) (wAc D lanes kmax) (seg m1 D D)
      (seg m1 (wBs D lanes kmax) D) (seg m1 (3 * D) D) (vget p1 (wEP lanes + selKIdx kk)) kk
      (kk + 1) 2 0, x = 0 := by
    intro x hx
    by_cases hkk : kk = 2
    · subst hkk
      rw [packedLegs_done_gen D _ _ _ _ _ _ _ _ _ _ _ _ _ (by omega)] at hx
      cases hx
    · refine H12 x (wC4_sub D lanes kmax kind hl m1 m2 p1 p2 x ?_)
      unfold wC4
      refine List.mem_flatMap.mpr ⟨kk, ?_, hx⟩
      unfold wKs
      simp only [List.mem_filter, List.mem_map, List.mem_range, decide_eq_true_eq]
      exact ⟨⟨kk - 2, by omega, by omega⟩, by omega⟩
  exact packed_row_sound_gen φ α D kind hk kmax m1 (wEM D lanes) (wAc D lanes kmax)
    (seg m0 (3 * D) D) (seg m1 0 D) (seg m1 (2 * D) D) (seg m1 D D) (seg m1 (wBs D lanes kmax) D)
    (seg m1 (3 * D) D) _ hs hbsq kk hk2 hfirst hlegs

end Window
end P3R.C11
