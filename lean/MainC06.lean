/-
Driver for C06. One case per line:
  c06 <id> d=<D> hist=<o|s...> shape=<canonical rows of the real circuit> w=<slot:c0.c1..,...> cap0=<c.c...> perm=<in>out;...>
Answer: `<id> shape=<ok|DIFF:model shape> accept=<0|1> bound=<0|1> samples=<...> native=<...>`
where the model emits the rows itself (`Transcript.emit`), judges acceptance by its own
acceptance conditions under the given assignment and computes the native challenges with its
own `DuplexChallenger` model; the permutation is the recorded input→output table.
-/
import P3R.Model.Transcript
import P3R.Model.Field

open P3R P3R.Transcript

abbrev F := PF babyBearP

def dots (s : String) : List F :=
  ((s.splitOn ".").filter (· ≠ "")).filterMap fun t => t.toNat?.map (PF.ofNat (p := babyBearP))

def showV (l : List F) : String := ".".intercalate (l.map toString)

def field (toks : List String) (key : String) : Option String :=
  toks.findSome? fun t => if t.startsWith (key ++ "=") then some ((t.drop (key.length + 1)).toString) else none

def handle (line : String) : List String :=
  let toks := (line.trimAscii.toString.splitOn " ").filter (· ≠ "")
  match toks with
  | "c06" :: id :: rest =>
    match field rest "d" >>= String.toNat?, field rest "hist", field rest "shape", field rest "w", field rest "cap0", field rest "perm" with
    | some d, some hist, some shape, some ws, some cap0, some perm =>
      let cfg : Cfg := { width := 16, rate := 8, d := d }
      let h : List HOp := hist.toList.filterMap fun c => if c = 'o' then some HOp.obs else if c = 's' then some HOp.smp else none
      let e := emit cfg h
      let ms := shapeStr cfg e
      let wl : List (String × List F) := ((ws.splitOn ",").filter (· ≠ "")).filterMap fun t =>
        match t.splitOn ":" with
        | [n, v] => some (n, dots v)
        | _ => none
      let wN : Slot → List F := fun x => (wl.lookup x.str).getD []
      let w1 : Slot → F := fun x => (wN x).headD 0
      let tbl : List (List F × List F) := ((perm.splitOn ";").filter (· ≠ "")).filterMap fun t =>
        match t.splitOn ">" with
        | [i, o] => some (dots i, dots o)
        | _ => none
      let π : List F → List F := fun l => (tbl.lookup l).getD []
      let obs : Nat → F := fun i => w1 (.o i)
      let nat := native cfg π obs h
      let (acc, smp, bound) : Bool × List (List F) × Bool :=
        if d = 1 then
          let s := e.2.map (ev1 w1)
          (accD1 cfg π w1 (.first (dots cap0)) e.1, s.map fun x => [x], decide (s = nat))
        else
          let s := e.2.map (evN wN)
          (accDn cfg π wN e.1, s, decide (s = nat.map (embed d)))
      let sh := if ms = shape then "ok" else s!"DIFF:{ms}"
      [s!"{id} shape={sh} accept={if acc then 1 else 0} bound={if bound then 1 else 0} samples={",".intercalate (smp.map showV)} native={",".intercalate (nat.map toString)}"]
    | _, _, _, _, _, _ => ["bad-op"]
  | [] => []
  | _ => ["bad-op"]

partial def loop (h : IO.FS.Stream) : IO Unit := do
  let line ← h.getLine
  if line.isEmpty then return ()
  for o in handle line do IO.println o
  loop h

def main : IO Unit := do loop (← IO.getStdin)
