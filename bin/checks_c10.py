"""C10 / C04 share the real-prover harness (`prove` subcommand)."""
import json, os


def read_lines(path):
    try:
        return [l.rstrip() for l in open(path)]
    except FileNotFoundError:
        return []

PROPERTY = "C10"


def prove_run(ctx, want, forge):
    tier, seed, work = ctx["tier"], ctx["seed"], ctx["work"]
    nprog, max_calls = (110, 22) if tier == "quick" else (3000, 40)
    out = f"{work}/run0"
    cmd = [ctx["harness"], "prove", "--seed", str(seed), "--programs", str(nprog), "--max-calls", str(max_calls),
           "--forge", str(forge), "--out", out, "--corpus", f"{ctx['root']}/corpus/prove"]
    if ctx.get("replay"):
        rp = json.load(open(ctx["replay"]))
        os.makedirs(f"{work}/replay_corpus", exist_ok=True)
        json.dump(rp.get("replay", rp), open(f"{work}/replay_corpus/r.json", "w"))
        cmd = [ctx["harness"], "prove", "--seed", str(seed), "--programs", "0", "--forge", str(max(forge, 8)),
               "--out", out, "--corpus", f"{work}/replay_corpus"]
    shards = 1 if (tier == "quick" or ctx.get("replay")) else 8
    if shards == 1:
        rc, o = ctx["sh"](cmd, timeout=14400)
        if rc != 0:
            return [{"class": "harness-crash", "what": f"harness prove exited {rc}: {o[-300:]}", "replay": {"cmd": cmd}, "no_input": True}], {}
        rep = json.load(open(f"{out}/prove.report.json"))
    else:
        # thorough: independent shards (distinct PRNG seeds) in parallel, reports merged; shard 0 replays the corpus
        import subprocess
        procs = []
        for k in range(shards):
            o_k = f"{work}/run{k}"
            c_k = [ctx["harness"], "prove", "--seed", str(seed * 1000 + k), "--programs", str(1000), "--max-calls", str(max_calls),
                   "--forge", str(forge), "--out", o_k] + (["--corpus", f"{ctx['root']}/corpus/prove"] if k == 0 else [])
            procs.append((c_k, o_k, subprocess.Popen(c_k, stdout=subprocess.PIPE, stderr=subprocess.STDOUT, text=True)))
        rep = {"violations": [], "evaluations": 0, "distinct": 0, "samples": [], "hist": {}}
        for c_k, o_k, pr in procs:
            o, _ = pr.communicate(timeout=14400)
            if pr.returncode != 0:
                return [{"class": "harness-crash", "what": f"harness prove exited {pr.returncode}: {o[-300:]}", "replay": {"cmd": c_k}, "no_input": True}], {}
            r = json.load(open(f"{o_k}/prove.report.json"))
            rep["violations"] += r["violations"]; rep["evaluations"] += r["evaluations"]; rep["distinct"] += r["distinct"]
            rep["samples"] = (rep["samples"] + r["samples"])[:4]
            for hk, hv in r["hist"].items():
                rep["hist"][hk] = rep["hist"].get(hk, 0) + hv
    violations = []
    for v in rep["violations"]:
        if v["property"] != want:
            continue
        violations.append({"class": v["class"], "what": f"{v['kind']} {v.get('detail', '')}"[:220], "replay": v["replay"]})
    cov = {"evaluations": rep["evaluations"], "distinct_nontrivial": rep["distinct"],
           "rule": "generated builder programs with satisfying inputs, compiled and run by the real code, proved and verified by the real "
                   "BatchStarkProver over BabyBear (lanes 1..3, Horner K 2..5, min height 1..4 chosen per program); "
                   + ("forged traces: consistent re-execution with a substituted constant / hint output, single ALU or Const cell edits; "
                      "accepted forgeries judged by an independent sat check; " if forge else "")
                   + "distinct = distinct program texts proved",
           "samples": rep["samples"], "input_distribution": rep["hist"],
           "explanation": "the Lean models these theorems speak about are tied to the code by the correspondence runs of C09 (roles / multiplicities: "
                          "Model/Roles), C11 (row constraints, interactions and the Horner schedule: Model/AluAir, Model/AluSchedule) and C02 (runner: "
                          "Model/Runner); this check adds the end-to-end oracle on the real prover and verifier"
                          + ("; forgery modes: constant substitution, single ALU / Const cell edits, hint-output substitution, and the table's own "
                             "reading of HornerAcc steps (accumulator from the previous row) replayed against the op relation (finding F20)" if forge else "")}
    return violations, cov


def sched_violations(ctx, classes):
    """The scheduled-trace oracle of the C11 harness (honest traces laid out by the real AluAir::trace_to_matrix
    incl. packed Horner rows, lanes, separators; single-cell tampering of *matrix* cells — intermediates and b^2
    columns that no `Traces`-level forgery can reach). Returns the violations of the given classes."""
    tier, seed, work = ctx["tier"], ctx["seed"], ctx["work"]
    n_sched, tampers = (1500, 12) if tier == "quick" else (60000, 24)
    out = f"{work}/sched"
    rc, o = ctx["sh"]([ctx["harness"], "alusched", "--seed", str(seed), "--cases", str(n_sched), "--tampers", str(tampers), "--out", out], timeout=7200)
    if rc != 0:
        return [{"class": "harness-crash", "what": f"harness alusched exited {rc}: {o[-300:]}", "replay": {}, "no_input": True}], 0
    rep = json.load(open(f"{out}/alusched.report.json"))
    return [{"class": v["kind"] if v["kind"] in classes else v["class"], "what": v["kind"], "replay": v["replay"]}
            for v in rep["violations"] if v["class"] in classes or v["kind"] in classes], rep["evaluations"]


def npolanes_violations(ctx):
    """Lane-packed NPO table (recompose, D=4): real RecomposeAir::trace_to_matrix vs Model/NpoLanes.laneMatrix line by
    line, and the honest circuit built / run / proved / verified for lane counts that do and do not divide the op count."""
    tier, seed, work = ctx["tier"], ctx["seed"], ctx["work"]
    ncases, nprove = (200, 14) if tier == "quick" else (6000, 150)
    out = f"{work}/npolanes"
    os.makedirs(out, exist_ok=True)
    rc, o = ctx["sh"]([ctx["harness"], "npolanes", "--seed", str(seed), "--cases", str(ncases), "--prove", str(nprove), "--out", out], timeout=7200)
    if rc != 0:
        return [{"class": "harness-crash", "what": f"harness npolanes exited {rc}: {o[-300:]}", "replay": {}, "no_input": True}], {}
    with open(f"{out}/npolanes.cases") as fin:
        rc, mo = ctx["sh"]([ctx["driver_dir"] + "/p3r_driver_c11"], stdin=fin, timeout=3600)
    open(f"{out}/npolanes.model", "w").write(mo)
    cases = read_lines(f"{out}/npolanes.cases")

    def blocks(lines):
        bl, cur = [], None
        for l in lines:
            if l.startswith("h ") or l == "panic" or l == "bad-op":
                cur = [l]; bl.append(cur)
            elif cur is not None:
                cur.append(l)
        return bl
    impl, model = blocks(read_lines(f"{out}/npolanes.impl")), blocks(read_lines(f"{out}/npolanes.model"))
    violations, dis, hist = [], 0, {}
    outcomes = read_lines(f"{out}/npolanes.outcomes")
    bad_cases = {}
    for l in outcomes:
        head, res = l.rsplit(" -> ", 1)
        t = dict(x.split("=", 1) for x in head.split()[2:])
        key = "divides" if int(t["n"]) % int(t["lanes"]) == 0 else "partial-last-row"
        hist[f"prove.{key}.{res.split(':')[0]}"] = hist.get(f"prove.{key}.{res.split(':')[0]}", 0) + 1
        if res != "accepted":
            bad_cases[int(head.split()[1])] = (t, res)
    for k in range(len(cases)):
        a = impl[k] if k < len(impl) else None
        b = model[k] if k < len(model) else None
        if a != b:
            dis += 1
            if dis <= 3:
                # a concrete failing input if the honest circuit of this very case is no longer provable
                t_res = bad_cases.get(k)
                v = {"class": "model-disagreement",
                     "what": "correspondence RecomposeAir::trace_to_matrix vs lean/P3R/Model/NpoLanes.laneMatrix no longer checks "
                             "(theorems P3R.NpoLanes.matrix_cell / matrix_has_every_op speak about the model's layout)",
                     "replay": {"correspondence": "RecomposeAir::trace_to_matrix", "case": cases[k][:2000], "impl": a, "model": b}}
                if not t_res:
                    v["no_input"] = True
                violations.append(v)
    for k, (t, res) in sorted(bad_cases.items())[:3]:
        violations.append({"class": "honest-run-not-provable:npo-lanes",
                           "what": f"an honest satisfying run of a circuit with {t['n']} recompose ops packed {t['lanes']} per row "
                                   f"(min height {t['minh']}) is not proved/verified: {res[:160]}",
                           "replay": {"kind": "npolanes", "n": int(t["n"]), "lanes": int(t["lanes"]), "min_height": int(t["minh"]),
                                      "extra_alu": int(t["extra"]), "coefficients": t["vals"], "outcome": res}})
    return violations, {"npolanes.matrix_cases": len(cases), "npolanes.disagreements": dis, "npolanes.proved": len(outcomes), **hist}


def c10_run(ctx):
    violations, cov = prove_run(ctx, "C10", 0)
    if not ctx.get("replay"):
        v2, n = sched_violations(ctx, {"honest-scheduled-trace-rejected", "trace-build-panic", "height-mismatch"})
        violations += v2
        if cov:
            cov["evaluations"] += n
            cov["rule"] += "; plus honest scheduled ALU traces (real trace_to_matrix: packed Horner arities, lanes, separators) that the real AluAir::eval must accept"
        v3, c3 = npolanes_violations(ctx)
        violations += v3
        if cov:
            cov["evaluations"] += c3.get("npolanes.matrix_cases", 0) + c3.get("npolanes.proved", 0)
            cov["input_distribution"] = {**cov.get("input_distribution", {}), **{k: v for k, v in c3.items()}}
            cov["rule"] += ("; plus lane-packed recompose tables (D=4): the real main trace equals Model/NpoLanes line by line and honest "
                            "circuits are proved and verified for lane counts that do / do not divide the op count")
    return violations, cov


CHECK = {
    "lean_modules": ["P3R.Props.C10", "P3R.Props.C10Full", "P3R.Props.C11Sched", "P3R.Props.C10Lanes", "P3R.Props.C10Gen", "P3R.Witness.C04Gen",
                     "P3R.Props.EndToEnd", "P3R.Props.EndToEndReach", "P3R.Witness.EndToEnd",
                     "P3R.Props.C04LateFresh", "P3R.Witness.C04LateFresh"],
    "lean_exes": ["p3r_driver_c11"],
    "theorems": ["P3R.C10.record_row_add", "P3R.C10.record_row_mul", "P3R.C10.record_row_muladd", "P3R.C10.record_row_bool",
                 "P3R.C10.honest_bus_balanced",
                 # model-level completeness: the honest trace meets both acceptance conditions of C04.accepted_sat
                 "P3R.C10.holds_rowOk", "P3R.C10.honest_rows", "P3R.C10.honest_tupleNet", "P3R.C10.honest_bus",
                 "P3R.C10.honest_accepted", "P3R.C10.run_honest_accepted",
                 # the same for every extension degree D (D coefficient cells per operand, D-tuples on the bus), under power-basis
                 # independence (C11.CoeffIndep, proved for K[X]/(g)) — the converse of C04.accepted_sat_gen; D = 2 witness over F_49
                 "P3R.C10.holds_rowOk_gen", "P3R.C10.honest_rows_gen", "P3R.C10.honest_tupleNet_gen", "P3R.C10.honest_bus_gen",
                 "P3R.C10.honest_accepted_gen", "P3R.C10.run_honest_accepted_gen", "P3R.Witness.C04Gen.honest_rows_gen_nonvacuous",
                 # the scheduled / packed layout keeps every index's net multiplicity (proved over the schedule model of C11)
                 "P3R.C11.schedule_preserves_bus",
                 # lane-packed NPO main trace: the write loop of trace_to_matrix yields the op-major layout, every op present
                 "P3R.NpoLanes.flatOps_getD", "P3R.NpoLanes.cellAt_flatOps", "P3R.NpoLanes.writeLoop_get", "P3R.NpoLanes.writeOps_getD",
                 "P3R.NpoLanes.numRows_enough", "P3R.NpoLanes.matrix_cell", "P3R.NpoLanes.matrix_has_every_op", "P3R.NpoLanes.prep_cell",
                 # END TO END (Props/EndToEnd): completeness C02 o C09 o C10 — for every ReachablePrim program (+ pubOk, primOk, pubFull), its compiled
                 # circuit and every assignment satisfying the compiled ops with the inputs supplied: the modelled run succeeds
                 # (run_total_on_satisfying_inputs), its trace satisfies every row constraint and the bus balances tuple by tuple
                 # (compiled_bus_balanced_reachable), i.e. it meets exactly the acceptance conditions e2e_soundness starts from; D = 1 and every D;
                 # bridging lemmas run_pub_in_range (public rows of a successful run are set), compile_ops_wf (compiled ops well formed)
                 "P3R.E2E.run_pub_in_range", "P3R.E2E.compile_ops_wf", "P3R.E2E.e2e_completeness", "P3R.E2E.e2e_completeness_gen",
                 "P3R.E2E.e2e_soundness", "P3R.E2E.e2e_soundness_gen", "P3R.E2E.e2e_roundtrip",
                 "P3R.Witness.EndToEnd.completeness_applies", "P3R.Witness.EndToEnd.e2e_nonvacuous",
                 "P3R.Witness.EndToEnd.roundtrip_applies", "P3R.Witness.EndToEnd.run_evaluated",
                 # Props/EndToEndReach: the runner-side guards are consequences of reachability (pubOk / pubFull for every Reachable state: only
                 # alloc_public_input creates a public node and hands out the next position; primOk for every ReachablePrim state: its only
                 # non-primitive ops are the decompose_to_bits hints, one input preceding the call node) => completeness from ReachablePrim alone
                 "P3R.E2ER.Reachable.pubOk", "P3R.E2ER.Reachable.pubFull", "P3R.E2EN.NInv.frame", "P3R.E2EN.NInv.pushNp",
                 "P3R.E2EN.ReachablePrim.NInv", "P3R.E2EN.ReachablePrim.primOk",
                 "P3R.E2E.e2e_completeness_reachable", "P3R.E2E.e2e_roundtrip_reachable",
                 "P3R.Witness.EndToEnd.completeness_reachable_applies", "P3R.Witness.EndToEnd.guards_from_reachability",
                 "P3R.Witness.EndToEnd.gen_applies",
                 # Props/C04LateFresh: the round trip without hnoskip — ReachablePrim b is the only hypothesis on the program (compile_lateFresh
                 # discharges the lateFresh hypothesis of C04NoSkip's e2e_roundtrip_reachable_partial)
                 "P3R.C04L.compile_lateFresh", "P3R.C04L.e2e_roundtrip_reachable'", "P3R.Witness.C04LateFresh.roundtrip_applies"],
    "run": c10_run,
    "trusted_base": ["STARK completeness: a trace satisfying all row constraints with a balanced bus is provable (also exercised for real by every run)"],
    "assumptions": ["generated programs: BabyBear D=1 circuits of primitive ops and hints (the Lean completeness theorem run_honest_accepted_gen covers every extension degree D, given power-basis independence CoeffIndep and a coefficient map of the extension field); the scheduled/packed ALU layout: bus preservation is proved over the Lean schedule model (C11.schedule_preserves_bus, model tied to the real AluAir by C11's run), the main-trace layout (intermediate accumulators) is tied by C11's scheduled-trace oracle; END TO END (Props/EndToEnd, e2e_completeness / _gen): from the builder program — hypotheses ReachablePrim b (the decidable runner-side guards pubOk / primOk / pubFull of e2e_completeness are derived from reachability in Props/EndToEndReach: e2e_completeness_reachable), compile b = ok c, genPrep c = some p, and the hypotheses of C02.run_total_on_satisfying_inputs on the assignment (every compiled op holds, RunnerWrites incl. a non-zero a operand of every Mul row, hints agree, the table holds exactly the inputs); hcreated / hwf / hchain / hpub of run_honest_accepted are derived"],
}

MANIFEST_ENTRY = {
    "property_id": "C10", "quick_cmd": "bin/check C10 --tier quick", "thorough_cmd": "bin/check C10 --tier thorough",
    "evidence_file": "evidence/C10.json", "replay_cmd_template": "bin/check C10 --replay {path}", "engine": "lean-models",
    "technique": "Lean 4 theorems linking runner records to ALU row constraints and bus balance + real prove/verify of generated circuits",
    "level_claimed": {"category": "proof", "text": "run_honest_accepted: a successful modelled run with satisfying inputs yields a trace whose row constraints vanish (ADD/MUL/BOOL/MUL_ADD/chained single-step HORNER) and whose WitnessChecks bus balances tuple by tuple — proved for every circuit with Horner chains and created read slots, for D = 1 (run_honest_accepted) and for every extension degree D with D coefficient cells per operand (run_honest_accepted_gen, under power-basis independence); the scheduled/packed part is proved over the schedule model and, like real prover success, exercised by proving and verifying every generated satisfying program.", "design_ref": "4/C10"},
    "level_note": "STARK completeness assumed and exercised; F7 (Horner steps that are not chains) repaired in /repo (build() rejects them); known finding F17 (unused private input) reported as KNOWN-FINDING; NPO tables: recompose lane packing only (Poseidon tables have one op per row)",
}
