/-
Non-vacuity of `P3R.C04.scheduled_accepted_sat_bus`: the circuit of `Witness/C04Sched` (packed Horner
chain, `lanes = 2`, `K_max = 2`, `D = 1` over `ℤ/7`) with its Const table cells and the packed bus.
-/
import P3R.Witness.C04Sched
import P3R.Props.C04SchedBus

namespace P3R.Witness.C04Sched
open P3R P3R.C04 P3R.C09 P3R.C11

/-- reader events per slot: `b = s1` ×3, `c = s2` ×3, `a = s3` ×2; the Horner outputs are read by
nobody on the bus (the `acc` operand is not a lookup). -/
def reads : List (ℕ × ℕ) := [(1, 3), (2, 3), (3, 2)]

/-- Const table cells. -/
def others : List (Cell (List K)) :=
  [⟨0, .creator, [0]⟩, ⟨1, .creator, [2]⟩, ⟨2, .creator, [3]⟩, ⟨3, .creator, [1]⟩]

theorem tupleNet_all_of_mem {V : Type} [DecidableEq V] (l : List (C04.Inter V))
    (h : ∀ i ∈ l, tupleNet l i.slot i.val = 0) : ∀ s v, tupleNet l s v = 0 := by
  intro s v
  by_cases hex : ∃ i ∈ l, i.slot = s ∧ i.val = v
  · obtain ⟨i, hi, rfl, rfl⟩ := hex
    exact h i hi
  · unfold tupleNet
    have : l.filter (fun i => i.slot = s ∧ i.val = v) = [] := by
      rw [List.filter_eq_nil_iff]
      intro i hi hd
      exact hex ⟨i, hi, by simpa using hd⟩
    rw [this]; rfl

/-- Hypothesis (b): the packed bus (ONE `b` tuple `(s1, [2])` with multiplicity −2 for the packed row,
no tuple for the silent `s4`) balances. -/
theorem bus_ok : ∀ s v, tupleNet
    (schedBus 1 2 2 (ExtKind.base : ExtKind K) Mr sched reads others ops rl) s v = 0 :=
  tupleNet_all_of_mem _ (by decide)

theorem evs_eq : (others ++ schedCells 1 2 2 (ExtKind.base : ExtKind K) Mr sched ops rl).map evOf =
    [(0, .creator), (1, .creator), (2, .creator), (3, .creator),
     (6, .creator), (1, .reader), (2, .reader),
     (4, .creator), (3, .reader), (2, .reader), (1, .reader),
     (5, .creator), (3, .reader), (2, .reader), (1, .reader)] := by decide

theorem creators_ok : ∀ s,
    nCreators ((others ++ schedCells 1 2 2 (ExtKind.base : ExtKind K) Mr sched ops rl).map evOf) s ≤ 1 := by
  intro s
  rw [evs_eq]
  unfold nCreators
  simp only [List.countP_cons, List.countP_nil]
  rcases Nat.lt_or_ge s 7 with h | h
  · interval_cases s <;> simp
  · have : ∀ k, k < 7 → (k == s) = false := fun k hk => by simp; omega
    simp [this]

/-- **Non-vacuity of `scheduled_accepted_sat_bus`**: all hypotheses hold for the scheduled matrix with
a packed Horner row at `lanes = 2`; the theorem yields a satisfying assignment. -/
theorem scheduled_accepted_sat_nonvacuous :
    ∃ cv : ℕ → List K,
      (∀ c ∈ others ++ schedCells 1 2 2 (ExtKind.base : ExtKind K) Mr sched ops rl, c.role ≠ .skip →
        c.val = cv c.slot) ∧
      Sat (fun s => ev (RingHom.id K) 0 1 (cv s)) (fun _ => 0) ops := by
  refine scheduled_accepted_sat_bus (RingHom.id K) (0 : K) 1 2 2 ExtKind.base Mr preps sched 2
    Nat.one_pos rfl (by decide) (fun _ => 0) ops rl reads sched_eq (by decide) (by decide) ?_ ?_ wf_ok
    win_ok (by decide) (fun j => by simp [rl]) others creators_ok ?_ bus_ok ?_ ?_
  · intro j k a b c out io h
    rw [aluOps_eq] at h
    rcases j with _ | _ | _ | j
    · simp at h
      obtain ⟨rfl, _⟩ := h
      exact ⟨by decide, fun c h1 h4 => by interval_cases c <;> decide⟩
    · simp at h
      obtain ⟨rfl, _⟩ := h
      exact ⟨by decide, fun c h1 h4 => by interval_cases c <;> decide⟩
    · simp at h
      obtain ⟨rfl, _⟩ := h
      exact ⟨by decide, fun c h1 h4 => by interval_cases c <;> decide⟩
    · simp at h
  · intro k a b out io hm
    simp [ops] at hm
    obtain ⟨rfl, _⟩ := hm
    exact ⟨by decide, by decide⟩
  · intro p f k hp he
    have hp4 : p < 4 := hp
    interval_cases p
    · simp [entryAt, sched] at he
    · simp [entryAt, sched] at he
    · simp [entryAt, sched] at he
      obtain ⟨rfl, rfl⟩ := he
      refine ⟨by decide, by decide, fun t ht => ?_⟩
      have : t = 0 := by omega
      subst this
      decide
    · simp [entryAt, sched] at he
  · intro out v hm
    simp [ops] at hm
    rcases hm with ⟨rfl, rfl⟩ | ⟨rfl, rfl⟩ | ⟨rfl, rfl⟩ | ⟨rfl, rfl⟩
    · exact ⟨⟨0, .creator, [0]⟩, by simp [others], rfl, by decide, ev_one_single _ _⟩
    · exact ⟨⟨1, .creator, [2]⟩, by simp [others], rfl, by decide, ev_one_single _ _⟩
    · exact ⟨⟨2, .creator, [3]⟩, by simp [others], rfl, by decide, ev_one_single _ _⟩
    · exact ⟨⟨3, .creator, [1]⟩, by simp [others], rfl, by decide, ev_one_single _ _⟩
  · intro out pos hm
    simp [ops] at hm

end P3R.Witness.C04Sched
