/-
Witnesses for `Props/C04SchedCols` on the packed-chain circuit of `Witness/C04Sched` (`K = ℤ/7`,
`lanes = 2`, `K_max = 2`): the column encoding `PrepBus` holds of the witness's preprocessed columns, the
"below the characteristic" conditions hold (slots < 7, multiplicities of absolute value < 7), the row
reading `aluInteractions_prepRow` / `lane_op_image` instantiated, and
`scheduled_accepted_sat_nonvacuous''` — every hypothesis of `scheduled_accepted_sat_bus''` is met.
-/
import P3R.Witness.C04SchedWF
import P3R.Props.C04SchedCols

namespace P3R.Witness.C04Sched
open P3R P3R.C04 P3R.C09 P3R.C11

theorem prepBus_ok : ∀ j, j < preps.length → PrepBus preps reads ops rl j := by
  intro j hj
  have hj3 : j < 3 := hj
  unfold PrepBus
  rw [aluOps_eq]
  interval_cases j
  · refine ⟨by decide, by decide, by decide, by decide, by decide, by decide, ?_⟩
    show vget (prepOf preps 0) 7 = natK 2 ∧ _
    decide
  · refine ⟨by decide, by decide, by decide, by decide, by decide, by decide, ?_⟩
    show vget (prepOf preps 1) 7 = natK 2 ∧ _
    decide
  · refine ⟨by decide, by decide, by decide, by decide, by decide, by decide, ?_⟩
    show vget (prepOf preps 2) 7 = 0 ∧ _
    decide

/-- slot indices are below the characteristic 7 -/
theorem slots_inj : ∀ i j, i < preps.length → j < preps.length →
    (natK (opB ((aluOps ops).getD i dOp)) : K) = natK (opB ((aluOps ops).getD j dOp)) →
    opB ((aluOps ops).getD i dOp) = opB ((aluOps ops).getD j dOp) := by
  intro i j hi hj h
  have hb : ∀ i, i < preps.length → opB ((aluOps ops).getD i dOp) < 7 := by
    intro i hi
    have hi3 : i < 3 := hi
    rw [aluOps_eq]
    interval_cases i <;> decide
  exact natK_inj_below 7 _ _ (hb i hi) (hb j hj) h

/-- read counts are below the characteristic 7 -/
theorem mults_faithful : ∀ j, j < preps.length →
    ((eventMult reads (opOut ((aluOps ops).getD j dOp), (rl j).1) : ℤ) : K) = 0 →
    eventMult reads (opOut ((aluOps ops).getD j dOp), (rl j).1) = 0 := by
  intro j hj h
  refine intCast_zero_below 7 _ ?_ h
  have hj3 : j < 3 := hj
  rw [aluOps_eq]
  interval_cases j <;> decide

/-- Row 0 of the committed matrix, lane 1 (the ADD op 2): the four tuples `aluInteractions` declares are
the images of the op's integer-level interactions. -/
theorem row0_lane1_image :
    laneInters 1 (Mr 0) 1 (entryCols preps 2 1 (entryAt sched (0 * 2 + 1))).1 =
      (opStep reads ((aluOps ops).getD 2 dOp) (rl 2) (cO 1 2 Mr (0 * 2 + 1)) (cA 1 2 Mr (0 * 2 + 1))
        (cC 1 2 Mr (0 * 2 + 1)) (cB 1 2 Mr (0 * 2 + 1))).all.map interK :=
  lane_op_image preps 1 2 2 Mr (by decide) reads ops rl 0 1 2 (by decide) (prepBus_ok 2 (by decide))

/-- **Non-vacuity of `scheduled_accepted_sat_bus''`** (neither `SchedWF` nor `hpk` assumed). -/
theorem scheduled_accepted_sat_nonvacuous'' :
    ∃ cv : ℕ → List K,
      (∀ c ∈ others ++ schedCells 1 2 2 (ExtKind.base : ExtKind K) Mr sched ops rl, c.role ≠ .skip →
        c.val = cv c.slot) ∧
      Sat (fun s => ev (RingHom.id K) 0 1 (cv s)) (fun _ => 0) ops := by
  refine scheduled_accepted_sat_bus'' (RingHom.id K) (0 : K) 1 2 2 ExtKind.base Mr preps sched 2
    Nat.one_pos rfl (by decide) (fun _ => 0) ops rl reads sched_eq (by decide) (by decide) ?_ ?_
    win_ok (by decide) (fun j => by simp [rl]) others creators_ok prepBus_ok slots_inj mults_faithful
    bus_ok ?_ ?_
  · intro j k a b c out io h
    rw [aluOps_eq] at h
    rcases j with _ | _ | _ | j
    · simp at h
      obtain ⟨rfl, _⟩ := h
      exact ⟨by decide, fun c h1 h4 => by interval_cases c <;> decide⟩
    · simp at h
      obtain ⟨rfl, _⟩ := h
      exact ⟨by decide, fun c h1 h4 => by interval_cases c <;> decide⟩
    · simp at h
      obtain ⟨rfl, _⟩ := h
      exact ⟨by decide, fun c h1 h4 => by interval_cases c <;> decide⟩
    · simp at h
  · intro k a b out io hm
    simp [ops] at hm
    obtain ⟨rfl, _⟩ := hm
    exact ⟨by decide, by decide⟩
  · intro out v hm
    simp [ops] at hm
    rcases hm with ⟨rfl, rfl⟩ | ⟨rfl, rfl⟩ | ⟨rfl, rfl⟩ | ⟨rfl, rfl⟩
    · exact ⟨⟨0, .creator, [0]⟩, by simp [others], rfl, by decide, ev_one_single _ _⟩
    · exact ⟨⟨1, .creator, [2]⟩, by simp [others], rfl, by decide, ev_one_single _ _⟩
    · exact ⟨⟨2, .creator, [3]⟩, by simp [others], rfl, by decide, ev_one_single _ _⟩
    · exact ⟨⟨3, .creator, [1]⟩, by simp [others], rfl, by decide, ev_one_single _ _⟩
  · intro out pos hm
    simp [ops] at hm

end P3R.Witness.C04Sched
