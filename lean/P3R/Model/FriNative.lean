/-
L10 (native side) — the arithmetic of `p3_fri::verifier::{verify_fri, verify_query, open_input}`
(p3-fri 0.6.3) and of `TwoAdicFriFolding::fold_row` / `lagrange_interpolate_at`
(`two_adic_pcs.rs`), with the MMCS checks, the proof-of-work checks and the transcript taken as
given: `alpha`, the `betas` and the query indices are inputs. The harness runs the real
`verify_fri` in exactly this configuration (accept-everything MMCS, scripted challenger), so the
model's verdict — including *which* `FriError` variant — is compared with the real code.

Import-free; polymorphic in the arithmetic instances so that the same definitions are used by the
driver (with `P3R.BE4 p W`) and by the theorems (with a Mathlib `Field`).
-/
namespace P3R.Fri

/-- `p3_util::reverse_bits_len(n, len)`: the low `len` bits of `n`, reversed. -/
def reverseBitsLen (n : Nat) : Nat → Nat
  | 0 => 0
  | len + 1 => (n % 2) * 2 ^ len + reverseBitsLen (n / 2) len

/-- The verifier's parameters that enter the arithmetic (`FriParameters`). -/
structure Params where
  logBlowup : Nat
  logFinalPolyLen : Nat
  maxLogArity : Nat
  numQueries : Nat
deriving Repr, DecidableEq

/-- One committed matrix of a batch: `log2` of its domain size and, per opening point, the point
and the claimed evaluations. `zid` identifies the *target* used for the point on the circuit
side (equal ids = one shared target); the native side ignores it. -/
structure MatClaim (K : Type) where
  logSize : Nat
  points : List (Nat × K × List K)

/-- `CommitPhaseProofStep` without the Merkle proof. -/
structure Phase (K : Type) where
  logArity : Nat
  siblings : List K

/-- `QueryProof` without Merkle proofs, plus the sampled query index. -/
structure Query (K : Type) where
  index : Nat
  opened : List (List (List K))
  phases : List (Phase K)

/-- `FriProof` as far as the arithmetic reads it. -/
structure Proof (K : Type) where
  numCommits : Nat
  numPow : Nat
  finalPoly : List K
  queries : List (Query K)

/-- Field constants: `Val::GENERATOR`, `Val::two_adic_generator(bits)`, `Val::TWO_ADICITY`. -/
structure Env (K : Type) where
  gen : K
  tw : Nat → K
  twoAdicity : Nat

/-- `FriError` variants reachable without MMCS / PoW failures. -/
inductive NErr where
  | zeroQueries | queryCommitPhaseOpeningsCountMismatch | invalidLogArity
  | queryLogAritiesMismatch | globalMaxHeightTooLarge | globalMaxHeightMismatch
  | commitPowWitnessCountMismatch | finalPolyLengthMismatch | queryProofCountMismatch
  | inputProofBatchCountMismatch | openingPointMatchesQueryPoint
  | batchOpenedValuesCountMismatch | matrixWithoutOpeningPoints
  | pointEvaluationCountMismatch | finalPolyMismatch | missingInitialReducedOpening
  | initialReducedOpeningHeightMismatch | siblingValuesLengthMismatch
  | finalFoldHeightMismatch | unconsumedReducedOpenings
deriving Repr, DecidableEq

def NErr.name : NErr → String
  | .zeroQueries => "ZeroQueries"
  | .queryCommitPhaseOpeningsCountMismatch => "QueryCommitPhaseOpeningsCountMismatch"
  | .invalidLogArity => "InvalidLogArity"
  | .queryLogAritiesMismatch => "QueryLogAritiesMismatch"
  | .globalMaxHeightTooLarge => "GlobalMaxHeightTooLarge"
  | .globalMaxHeightMismatch => "GlobalMaxHeightMismatch"
  | .commitPowWitnessCountMismatch => "CommitPowWitnessCountMismatch"
  | .finalPolyLengthMismatch => "FinalPolyLengthMismatch"
  | .queryProofCountMismatch => "QueryProofCountMismatch"
  | .inputProofBatchCountMismatch => "InputProofBatchCountMismatch"
  | .openingPointMatchesQueryPoint => "OpeningPointMatchesQueryPoint"
  | .batchOpenedValuesCountMismatch => "BatchOpenedValuesCountMismatch"
  | .matrixWithoutOpeningPoints => "MatrixWithoutOpeningPoints"
  | .pointEvaluationCountMismatch => "PointEvaluationCountMismatch"
  | .finalPolyMismatch => "FinalPolyMismatch"
  | .missingInitialReducedOpening => "MissingInitialReducedOpening"
  | .initialReducedOpeningHeightMismatch => "InitialReducedOpeningHeightMismatch"
  | .siblingValuesLengthMismatch => "SiblingValuesLengthMismatch"
  | .finalFoldHeightMismatch => "FinalFoldHeightMismatch"
  | .unconsumedReducedOpenings => "UnconsumedReducedOpenings"

section
variable {K : Type} [Zero K] [One K] [Add K] [Mul K] [Sub K] [Neg K] [Inv K] [DecidableEq K]

/-- `x^n` by repeated multiplication (`exp_u64`). -/
def npow (x : K) : Nat → K
  | 0 => 1
  | n + 1 => npow x n * x

/-- `F::from_usize(n)`. -/
def ofNat : Nat → K
  | 0 => 0
  | n + 1 => ofNat n + 1

/-- `coeffs.iter().horner(x)`: `c₀ + x·(c₁ + x·(…))`. -/
def evalPoly : List K → K → K
  | [], _ => 0
  | c :: cs, x => c + x * evalPoly cs x

/-- Association-list update used for the per-height accumulators (`BTreeMap<usize, (EF, EF)>`). -/
def upsert (m : List (Nat × K × K)) (h : Nat) (f : K × K → K × K) : List (Nat × K × K) :=
  match m with
  | [] => [(h, f (1, 0))]
  | (h', v) :: rest => if h' = h then (h', f v) :: rest else (h', v) :: upsert rest h f

def lookupH (m : List (Nat × K × K)) (h : Nat) : Option (K × K) :=
  match m with
  | [] => none
  | (h', v) :: rest => if h' = h then some v else lookupH rest h

/-- Insertion into a list kept sorted by *descending* key (`BTreeMap::into_iter().rev()`). -/
def insertDesc (x : Nat × K) : List (Nat × K) → List (Nat × K)
  | [] => [x]
  | y :: ys => if y.1 < x.1 then x :: y :: ys else y :: insertDesc x ys

def sortDesc (l : List (Nat × K)) : List (Nat × K) := l.foldr insertDesc []

/-- The query point of a matrix of log-height `lh` (native `open_input`). -/
def queryPoint (env : Env K) (logMax index lh : Nat) : K :=
  env.gen * npow (env.tw lh) (reverseBitsLen (index / 2 ^ (logMax - lh)) lh)

/-- Columns of one (matrix, point): `ro += αᵖ·(p(z) − p(x))·q; αᵖ *= α`. -/
def accumCols (alpha q : K) : List K → List K → K × K → K × K
  | px :: pxs, pz :: pzs, (ap, ro) => accumCols alpha q pxs pzs (ap * alpha, ro + ap * (pz - px) * q)
  | _, _, acc => acc

/-- Native `open_input` for one query. Returns the reduced openings, descending by height. -/
def openInput (env : Env K) (p : Params) (logMax index : Nat) (alpha : K)
    (batches : List (List (MatClaim K))) (opened : List (List (List K))) :
    Except NErr (List (Nat × K)) := do
  if opened.length ≠ batches.length then throw .inputProofBatchCountMismatch
  -- denominators, rejecting a coinciding opening point
  for b in batches do
    for m in b do
      let lh := m.logSize + p.logBlowup
      let x := queryPoint env logMax index lh
      for pt in m.points do
        if pt.2.1 - x = 0 then throw .openingPointMatchesQueryPoint
  let mut acc : List (Nat × K × K) := []
  for (bo, b) in opened.zip batches do
    if bo.length ≠ b.length then throw .batchOpenedValuesCountMismatch
    for m in b do
      if m.points.isEmpty then throw .matrixWithoutOpeningPoints
    for (mo, m) in bo.zip b do
      let lh := m.logSize + p.logBlowup
      let x := queryPoint env logMax index lh
      for pt in m.points do
        if mo.length ≠ pt.2.2.length then throw .pointEvaluationCountMismatch
        let q : K := (pt.2.1 - x)⁻¹
        acc := upsert acc lh (accumCols alpha q mo pt.2.2)
  match lookupH acc p.logBlowup with
  | some (_, ro) => if ro ≠ 0 then throw .finalPolyMismatch
  | none => pure ()
  return sortDesc (acc.map fun e => (e.1, e.2.2))

/-- `evals[index_in_group] = folded`, the siblings fill the other slots in order. -/
def placeEvals (folded : K) (sibs : List K) (pos : Nat) : Nat → List K
  | 0 => []
  | n + 1 =>
    -- built from the back: slot `n`
    let j := n
    let rest := placeEvals folded sibs pos n
    rest ++ [if j = pos then folded else sibs.getD (if j < pos then j else j - 1) 0]

/-- `xs[i] = s·ω^{br(i)}` for `i < 2^k` (`shifted_powers` then `reverse_slice_index_bits`). -/
def brPoints (s w : K) (k : Nat) : List K :=
  (List.range (2 ^ k)).map fun i => s * npow w (reverseBitsLen i k)

def prodList : List K → K
  | [] => 1
  | x :: xs => x * prodList xs

/-- `lagrange_interpolate_at(xs, ys, z)` of `two_adic_pcs.rs`, including the early return when
`z` is one of the points. -/
def lagrangeAt (xs ys : List K) (z : K) : K :=
  let n := xs.length
  if n = 0 then 0 else
  match (xs.zip ys).find? (fun xy => z - xy.1 = 0) with
  | some xy => xy.2
  | none =>
    let cosetPower := npow (xs.headD 0) n
    let ws : K := (ofNat n * cosetPower)⁻¹
    let diffs := xs.map fun x => z - x
    let lz := prodList diffs
    let terms := (xs.zip ys).map fun xy => xy.2 * (xy.1 * ws) * (z - xy.1)⁻¹
    (terms.foldl (· + ·) 0) * lz

/-- `TwoAdicFriFolding::fold_row(index, log_height, log_arity, beta, evals)`. -/
def foldRow (env : Env K) (index logHeight logArity : Nat) (beta : K) (evals : List K) : K :=
  let s := npow (env.tw (logHeight + logArity)) (reverseBitsLen index logHeight)
  lagrangeAt (brPoints s (env.tw logArity) logArity) evals beta

/-- `verify_query`: fold chain of one query. `rounds` = (beta, opening) pairs. -/
def verifyQuery (env : Env K) (p : Params) (index : Nat) (rounds : List (K × Phase K))
    (ros : List (Nat × K)) (logMax logFinal : Nat) : Except NErr K := do
  match ros with
  | [] => throw .missingInitialReducedOpening
  | (h0, ro0) :: rest =>
    if h0 ≠ logMax then throw .initialReducedOpeningHeightMismatch
    let mut folded := ro0
    let mut idx := index
    let mut cur := logMax
    let mut pending := rest
    for (beta, ph) in rounds do
      let maxLA := min p.maxLogArity cur
      if ¬ (1 ≤ ph.logArity ∧ ph.logArity ≤ maxLA) then throw .invalidLogArity
      let arity := 2 ^ ph.logArity
      if ph.siblings.length ≠ arity - 1 then throw .siblingValuesLengthMismatch
      let evals := placeEvals folded ph.siblings (idx % arity) arity
      let lf := cur - ph.logArity
      idx := idx / arity
      folded := foldRow env idx lf ph.logArity beta evals
      cur := lf
      match pending with
      | (h, ro) :: more =>
        if h = lf then
          folded := folded + npow beta (2 ^ ph.logArity) * ro
          pending := more
      | [] => pure ()
    if cur ≠ logFinal then throw .finalFoldHeightMismatch
    if ¬ pending.isEmpty then throw .unconsumedReducedOpenings
    return folded

/-- `Option`-valued `checked_log_arity` applied to a whole query. -/
def checkedArities (maxLA : Nat) (q : Query K) : Option (List Nat) :=
  q.phases.mapM fun ph => if 1 ≤ ph.logArity ∧ ph.logArity ≤ maxLA then some ph.logArity else none

/-- One query of `verify_fri` after `open_input`: the fold chain (`verify_query`), then the final
polynomial evaluated at the query's point of the final domain must equal the folded value. With no
commit phase (`numCommits = 0`) the fold chain is empty and the first reduced opening is compared
with the final polynomial directly. -/
def queryCheckN (env : Env K) (p : Params) (betas : List K) (numCommits : Nat) (finalPoly : List K)
    (total logMax logFinal : Nat) (index : Nat) (phases : List (Phase K)) (ros : List (Nat × K)) :
    Except NErr Unit := do
  let rounds := ((List.range numCommits).map fun i => betas.getD i 0).zip phases
  let folded ← verifyQuery env p index rounds ros logMax logFinal
  let domainIndex := index / 2 ^ total
  let x := npow (env.tw logMax) (reverseBitsLen domainIndex logMax)
  if evalPoly finalPoly x ≠ folded then throw .finalPolyMismatch

/-- `verify_fri` with MMCS and PoW checks passing; `alpha`, `betas`, indices supplied. `betas`
is indexed by commitment (the verifier samples one per commitment). -/
def verifyFri (env : Env K) (p : Params) (alpha : K) (betas : List K)
    (batches : List (List (MatClaim K))) (pf : Proof K) : Except NErr Unit := do
  if p.numQueries = 0 then throw .zeroQueries
  for q in pf.queries do
    if q.phases.length ≠ pf.numCommits then throw .queryCommitPhaseOpeningsCountMismatch
  let logArities ← match pf.queries with
    | [] => pure []
    | q :: _ => match checkedArities p.maxLogArity q with
      | some l => pure l
      | none => throw NErr.invalidLogArity
  for q in pf.queries.drop 1 do
    match checkedArities p.maxLogArity q with
    | none => throw .invalidLogArity
    | some l => if l ≠ logArities then throw .queryLogAritiesMismatch
  let total := logArities.foldl (· + ·) 0
  let logMax := total + p.logBlowup + p.logFinalPolyLen
  if logMax > env.twoAdicity then throw .globalMaxHeightTooLarge
  let heights := batches.flatMap fun b => b.map fun m => m.logSize + p.logBlowup
  match heights with
  | [] => pure ()
  | h :: hs => if logMax ≠ hs.foldl max h then throw .globalMaxHeightMismatch
  if pf.numPow ≠ pf.numCommits then throw .commitPowWitnessCountMismatch
  if pf.finalPoly.length ≠ 2 ^ p.logFinalPolyLen then throw .finalPolyLengthMismatch
  if pf.queries.length ≠ p.numQueries then throw .queryProofCountMismatch
  let logFinal := p.logBlowup + p.logFinalPolyLen
  for q in pf.queries do
    let ros ← openInput env p logMax q.index alpha batches q.opened
    queryCheckN env p betas pf.numCommits pf.finalPoly total logMax logFinal q.index q.phases ros
  return ()

end
end P3R.Fri
