/-
C12 line-protocol driver: one command per stdin line, one canonical result line each.
Runs the definitions of `P3R.Model.Decomp` on the executable prime fields `PF p`.

  hint <fld> <n> <x>                          -> hint <b_0 … b_{n-1}>         honest bit hint
  recon <fld> : <v_0 … v_{m-1}>               -> recon <value>                 mul_add chain value
  bitsrun <fld> <n> <x> : <v_0 … v_{n-1}>     -> bitsrun run=<ok|WitnessConflict> canon=<0|1>
  bits    <fld> <n> <x> : <v_0 … v_{n-1}>     -> bits run=… accept=<0|1> canon=<0|1>
  ehint <fld> <D> : <x limbs>                 -> ehint <c_0 limbs | … >       honest coefficient hint
  erecon <fld> <D> <W> : <c_0 limbs … c_{D-1} limbs>  -> erecon <limbs>       ALU chain value
  coefrun <fld> <D> <W> <alu|npo|npoc> <a|b> <x limbs> : <c limbs (D*D)> -> coefrun run=… canon=…
  coef    …same…                              -> coef run=… accept=… canon=…
General modulus `X^D = Σ r_k X^k` (any D; binomial of any degree, KoalaBear quintic trinomial) and
multi-limb bits (`P3R.Model.DecompGen`, executable extension `EV`):
  gerecon <fld> <D> <r_0 … r_{D-1}> : <c limbs (D*D)>            -> gerecon <limbs>
  gcoefrun <fld> <D> <r…> <alu|npo|npoc> <a|b> <x limbs> : <c limbs (D*D)> -> gcoefrun run=… canon=…
  gcoef    …same…                                                -> gcoef run=… accept=… canon=…
  mhint <fld> <D> <n> : <x limbs>                                -> mhint <b_0 … b_{n-1}>   honest multi-limb hint
  mrecon <fld> <D> <r…> : <slots, D limbs each>                  -> mrecon <limbs>          all-limb mul_add chain
  mbitsrun <fld> <D> <r…> <n> <x limbs> : <n slots, D limbs each> -> mbitsrun run=… canon=…  (| mbitsrun err)
  mbits    …same…                                                -> mbits run=… accept=… canon=…
Anything else -> bad-op.
-/
import P3R.Model.Field
import P3R.Model.Decomp
import P3R.Model.DecompGen
import P3R.Model.ExtPoly

open P3R P3R.Decomp

def fieldOf : String → Option Nat
  | "bb" => some babyBearP
  | "kb" => some koalaBearP
  | "gl" => some goldilocksP
  | _ => none

def modeOf : String → Option Mode
  | "alu" => some .alu
  | "npo" => some .npo
  | "npoc" => some .npoCoeff
  | _ => none

def nats (ws : List String) : Option (List Nat) := ws.mapM String.toNat?

def b01 (b : Bool) : String := if b then "1" else "0"

def natsStr (l : List Nat) : String := " ".intercalate (l.map toString)

def splitColon (ws : List String) : List String × List String :=
  (ws.takeWhile (· != ":"), (ws.dropWhile (· != ":")).drop 1)

/-- limb function of a list (0 outside) -/
def limbFn {p : Nat} (l : List (PF p)) : Nat → PF p := fun j => l.getD j 0

def chunk {α} (d : Nat) : Nat → List α → List (List α)
  | 0, _ => []
  | k + 1, l => l.take d :: chunk d k (l.drop d)

/-- `BF::bits()`: bit length of the modulus. -/
def bitLen (p : Nat) : Nat := Nat.log2 p + 1

def bitsCmd (p : Nat) (full : Bool) (n x : Nat) (vs : List Nat) : String :=
  let xs : PF p := PF.ofNat x
  let bits : List (PF p) := vs.map PF.ofNat
  let runOk := bitsRunOkFixed p (bitLen p) xs bits
  let acc := bitsAcceptFixed p (bitLen p) xs bits
  let canon := bits == (canonBits n xs.val : List (PF p))
  let run := if runOk then "ok" else "WitnessConflict"
  if full then s!"bits run={run} accept={b01 acc} canon={b01 canon}"
  else s!"bitsrun run={run} canon={b01 canon}"

def coefCmd (p : Nat) (full : Bool) (D W : Nat) (m : Mode) (bound : Bool) (xl cl : List Nat) : String :=
  let x := limbFn (xl.map (PF.ofNat (p := p)))
  let csL := chunk D D (cl.map (PF.ofNat (p := p)))
  let cs : Nat → Nat → PF p := fun i => limbFn (csL.getD i [])
  let w : PF p := PF.ofNat W
  let runOk := match m with
    | .alu => limbsEq D (extRecompose w D cs) x
    | _ => limbsEq D (fun i => cs i 0) x
  let acc := coefAccept w D m bound x cs
  let canon := coeffsEq D cs (canonCoeffs x)
  let run := if runOk then "ok" else "WitnessConflict"
  if full then s!"coef run={run} accept={b01 acc} canon={b01 canon}"
  else s!"coefrun run={run} canon={b01 canon}"

def gcoefCmd (p : Nat) (full : Bool) (D : Nat) (rl : List Nat) (m : Mode) (bound : Bool)
    (xl cl : List Nat) : String :=
  let x := limbFn (xl.map (PF.ofNat (p := p)))
  let csL := chunk D D (cl.map (PF.ofNat (p := p)))
  let cs : Nat → Nat → PF p := fun i => limbFn (csL.getD i [])
  let r : Nat → PF p := EV.redFn rl
  let runOk := coefRunOkG r D m x cs
  let acc := coefAcceptG r D m bound x cs
  let canon := coeffsEq D cs (canonCoeffs x)
  let run := if runOk then "ok" else "WitnessConflict"
  if full then s!"gcoef run={run} accept={b01 acc} canon={b01 canon}"
  else s!"gcoefrun run={run} canon={b01 canon}"

def mbitsCmd (p : Nat) (full : Bool) (D : Nat) (rl : List Nat) (n : Nat) (xl sl : List Nat) : String :=
  let w := bitLen p
  let c := if full then "mbits" else "mbitsrun"
  -- builder guard `n_bits > F::bits()`
  if n > bitLen (p ^ D) then s!"{c} err" else
  let x : EV p D rl := EV.ofLimbs xl
  let bits : List (EV p D rl) := (chunk D n sl).map EV.ofLimbs
  let e : Nat → EV p D rl := EV.basis
  let runOk := bitsRunOkMulti p w D e x bits
  let acc := bitsAcceptMulti p w D e x bits
  let canon := bits == (canonBitsMulti w D n (fun i => (x.fn i).val) : List (EV p D rl))
  let run := if runOk then "ok" else "WitnessConflict"
  if full then s!"mbits run={run} accept={b01 acc} canon={b01 canon}"
  else s!"mbitsrun run={run} canon={b01 canon}"

def stepG (hd tl : List String) : String :=
  match hd with
  | "gerecon" :: f :: d :: rs =>
    match fieldOf f, d.toNat?, nats rs, nats tl with
    | some p, some D, some rl, some cl =>
      if rl.length != D || cl.length != D * D then "bad-op" else
      let csL := chunk D D (cl.map (PF.ofNat (p := p)))
      let cs : Nat → Nat → PF p := fun i => limbFn (csL.getD i [])
      let r := extRecomposeG (EV.redFn rl) D cs
      s!"gerecon {natsStr ((List.range D).map fun j => (r j).val)}"
    | _, _, _, _ => "bad-op"
  | c :: f :: d :: rest =>
    match fieldOf f, d.toNat? with
    | some p, some D =>
      if c == "gcoef" || c == "gcoefrun" then
        match nats (rest.take D), rest.drop D, nats tl with
        | some rl, m :: cons :: xs, some cl =>
          match modeOf m, nats xs with
          | some m, some xl =>
            if rl.length != D || xl.length != D || cl.length != D * D || (cons != "a" && cons != "b") then "bad-op"
            else gcoefCmd p (c == "gcoef") D rl m (cons == "b") xl cl
          | _, _ => "bad-op"
        | _, _, _ => "bad-op"
      else if c == "mhint" then
        match rest, nats tl with
        | [n], some xl =>
          match n.toNat? with
          | some n =>
            if xl.length != D then "bad-op" else
            let x := limbFn (xl.map (PF.ofNat (p := p)))
            let bs : List (PF p) := canonBitsMulti (bitLen p) D n (fun i => (x i).val)
            s!"mhint {natsStr (bs.map (·.val))}"
          | none => "bad-op"
        | _, _ => "bad-op"
      else if c == "mrecon" then
        match nats rest, nats tl with
        | some rl, some sl =>
          if rl.length != D || sl.length % D != 0 then "bad-op" else
          let bits : List (EV p D rl) := (chunk D (sl.length / D) sl).map EV.ofLimbs
          let r : EV p D rl := reconMulti (bitLen p) D EV.basis bits
          s!"mrecon {natsStr r.limbs}"
        | _, _ => "bad-op"
      else if c == "mbits" || c == "mbitsrun" then
        match nats (rest.take D), nats (rest.drop D), nats tl with
        | some rl, some (n :: xl), some sl =>
          if rl.length != D || xl.length != D || sl.length != n * D then "bad-op"
          else mbitsCmd p (c == "mbits") D rl n xl sl
        | _, _, _ => "bad-op"
      else "bad-op"
    | _, _ => "bad-op"
  | _ => "bad-op"

def isG (c : String) : Bool :=
  ["gerecon", "gcoef", "gcoefrun", "mhint", "mrecon", "mbits", "mbitsrun"].contains c

def stepOld (line : String) : String :=
  let ws := (line.trimAscii.toString.splitOn " ").filter (· != "")
  let (hd, tl) := splitColon ws
  match hd with
  | ["hint", f, n, x] =>
    match fieldOf f, n.toNat?, x.toNat? with
    | some p, some n, some x =>
      let bs : List (PF p) := canonBits n (PF.ofNat (p := p) x).val
      s!"hint {natsStr (bs.map (·.val))}"
    | _, _, _ => "bad-op"
  | ["recon", f] =>
    match fieldOf f, nats tl with
    | some p, some vs => s!"recon {(reconBits (vs.map (PF.ofNat (p := p)))).val}"
    | _, _ => "bad-op"
  | ["ehint", f, d] =>
    match fieldOf f, d.toNat?, nats tl with
    | some p, some D, some xl =>
      let x := limbFn (xl.map (PF.ofNat (p := p)))
      let cs := canonCoeffs x
      let row (i : Nat) := natsStr ((List.range D).map fun j => (cs i j).val)
      s!"ehint {" | ".intercalate ((List.range D).map row)}"
    | _, _, _ => "bad-op"
  | ["erecon", f, d, w] =>
    match fieldOf f, d.toNat?, w.toNat?, nats tl with
    | some p, some D, some W, some cl =>
      if cl.length != D * D then "bad-op" else
      let csL := chunk D D (cl.map (PF.ofNat (p := p)))
      let cs : Nat → Nat → PF p := fun i => limbFn (csL.getD i [])
      let r := extRecompose (PF.ofNat (p := p) W) D cs
      s!"erecon {natsStr ((List.range D).map fun j => (r j).val)}"
    | _, _, _, _ => "bad-op"
  | [c, f, n, x] =>
    if c != "bits" && c != "bitsrun" then "bad-op" else
    match fieldOf f, n.toNat?, x.toNat?, nats tl with
    | some p, some n, some x, some vs => if vs.length != n then "bad-op" else bitsCmd p (c == "bits") n x vs
    | _, _, _, _ => "bad-op"
  | c :: f :: d :: w :: m :: cons :: xl =>
    if (c != "coef" && c != "coefrun") || (cons != "a" && cons != "b") then "bad-op" else
    match fieldOf f, d.toNat?, w.toNat?, modeOf m, nats xl, nats tl with
    | some p, some D, some W, some m, some xl, some cl =>
      if xl.length != D || cl.length != D * D then "bad-op"
      else coefCmd p (c == "coef") D W m (cons == "b") xl cl
    | _, _, _, _, _, _ => "bad-op"
  | _ => "bad-op"

def step (line : String) : String :=
  let ws := (line.trimAscii.toString.splitOn " ").filter (· != "")
  let (hd, tl) := splitColon ws
  match hd with
  | c :: _ => if isG c then stepG hd tl else stepOld line
  | [] => stepOld line

partial def loop (h : IO.FS.Stream) : IO Unit := do
  let line ← h.getLine
  if line.isEmpty then return ()
  IO.println (step line)
  loop h

def main : IO Unit := do
  loop (← IO.getStdin)
