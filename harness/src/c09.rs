//! C09: role assignment and bus multiplicities of compiled circuits, dumped from the real
//! `generate_preprocessed_columns` and `get_airs_and_degrees_with_prep`, plus the per-slot
//! balance oracle.

use std::collections::BTreeMap;
use std::io::Write;
use std::panic::{AssertUnwindSafe, catch_unwind};

use p3_baby_bear::BabyBear;
use p3_circuit::ops::Op;
use p3_circuit::Circuit;
use p3_circuit_prover::common::get_airs_and_degrees_with_prep;
use p3_circuit_prover::config::BabyBearConfig;
use p3_circuit_prover::{ConstraintProfile, TablePacking};
use p3_field::{PrimeCharacteristicRing, PrimeField64};
use serde_json::{Value, json};

use crate::prog::*;
use crate::rng::Rng;

type F = BabyBear;
const P: u64 = 2013265921;

fn signed(x: F) -> i64 {
    let v = x.as_canonical_u64();
    if v > P / 2 { v as i64 - P as i64 } else { v as i64 }
}

/// Lines in the Lean driver's `prep` format, plus the implementation oracle's verdict.
pub fn prep_lines(c: &Circuit<F>, lanes: usize) -> (Vec<String>, Option<Value>) {
    let prep = match c.generate_preprocessed_columns::<1>() {
        Ok(p) => p,
        Err(_) => return (vec!["prep err".into()], None),
    };
    let packing = TablePacking::new(lanes, lanes);
    let conv = get_airs_and_degrees_with_prep::<BabyBearConfig, F, 1>(c, &packing, &[], &[], ConstraintProfile::Standard);
    let Ok((_airs, base_prep, _np)) = conv else {
        return (vec!["prep conv-err".into()], None);
    };
    let mut out = vec!["prep ok".to_string()];
    let nums = |v: &[F]| v.iter().map(|x| x.as_canonical_u64().to_string()).collect::<Vec<_>>().join(" ");
    out.push(format!("pc {}", nums(&prep.primitive[0])));
    out.push(format!("pp {}", nums(&prep.primitive[1])));
    let alu12 = &prep.primitive[2];
    let alu13 = &base_prep[2];
    let wc = c.witness_count as usize;
    let mut net = vec![0i64; wc];
    let mut creators = vec![0u32; wc];
    let mut readers = vec![0u32; wc];
    let mut touch = |slot: u64, m: i64| {
        let s = slot as usize;
        if s < wc {
            net[s] += m;
            if m > 0 {
                creators[s] += 1;
            } else if m < 0 {
                readers[s] += (-m) as u32;
            }
        }
    };
    let has_alu = !alu12.is_empty();
    let mut off_bus: Option<Value> = None;
    for (i, r) in alu12.chunks_exact(12).enumerate() {
        let kind = if r[0] == F::ONE {
            "add"
        } else if r[1] == F::ONE {
            "bool"
        } else if r[2] == F::ONE {
            "muladd"
        } else if r[3] == F::ONE {
            "horner"
        } else {
            "mul"
        };
        let v: Vec<u64> = r.iter().map(|x| x.as_canonical_u64()).collect();
        let r13 = &alu13[i * 13..(i + 1) * 13];
        // [mult_a, sel*4, a,b,c,out, mult_b, mult_out, a_reader, c_reader]
        let (mult_a, mb, mo, ar, cr) = (signed(r13[0]), signed(r13[9]), signed(r13[10]), signed(r13[11]), signed(r13[12]));
        out.push(format!(
            "pa {} {} {} {} {} {} {} {} {} | {} {} {} {}",
            kind, v[4], v[5], v[6], v[7], v[8], v[9], v[10], v[11], mb, mo, ar, cr
        ));
        // every operand the row's relation depends on must be on the bus
        let needs_c = kind == "muladd" || kind == "horner";
        if mult_a != 0 && (v[8] == 0 || (needs_c && v[10] == 0)) && off_bus.is_none() {
            off_bus = Some(json!({"row": i, "kind": kind, "a_col": ar, "c_col": cr, "class": "operand-off-bus"}));
        }
        touch(r13[5].as_canonical_u64(), mult_a * ar);
        touch(r13[6].as_canonical_u64(), mb);
        touch(r13[7].as_canonical_u64(), mult_a * cr);
        touch(r13[8].as_canonical_u64(), mo);
    }
    let _ = has_alu;
    let mut reads: Vec<u32> = prep.ext_reads.clone();
    reads.resize(wc, 0);
    out.push(format!("reads {}", reads.iter().map(|x| x.to_string()).collect::<Vec<_>>().join(" ")));
    let c2 = &base_prep[0];
    let p2 = &base_prep[1];
    out.push(format!("cmult {}", c2.chunks_exact(2).map(|x| signed(x[0]).to_string()).collect::<Vec<_>>().join(" ")));
    out.push(format!("pmult {}", p2.chunks_exact(2).map(|x| signed(x[0]).to_string()).collect::<Vec<_>>().join(" ")));
    for x in c2.chunks_exact(2).chain(p2.chunks_exact(2)) {
        touch(x[1].as_canonical_u64(), signed(x[0]));
    }
    // a creator with multiplicity 0 (nobody reads) is still a creator for the counting below
    out.push(format!("net {}", net.iter().map(|x| x.to_string()).collect::<Vec<_>>().join(" ")));
    let bad: Vec<usize> = (0..wc).filter(|&s| net[s] != 0).collect();
    let verdict = if bad.is_empty() {
        off_bus
    } else {
        let s = bad[0];
        let class = if creators[s] >= 2 {
            "multiple-creators"
        } else if creators[s] == 0 {
            "read-without-creator"
        } else {
            "multiplicity-mismatch"
        };
        Some(json!({"slot": s, "net": net[s], "creators": creators[s], "readers": readers[s], "class": class}))
    };
    (out, verdict)
}

pub fn main(args: &crate::Args) {
    let seed = args.u64("seed", 1);
    let nprog = args.u64("programs", 200) as usize;
    let max_calls = args.u64("max-calls", 40) as usize;
    let out = args.str("out", "/tmp/p3r");
    std::fs::create_dir_all(&out).unwrap();
    let mut cases = std::io::BufWriter::new(std::fs::File::create(format!("{out}/roles.cases")).unwrap());
    let mut implo = std::io::BufWriter::new(std::fs::File::create(format!("{out}/roles.impl")).unwrap());
    let mut rng = Rng::new(seed);
    let mut hist: BTreeMap<String, u64> = BTreeMap::new();
    let mut violations: Vec<Value> = vec![];
    let mut samples: Vec<Value> = vec![];
    let mut distinct = std::collections::HashSet::new();
    let mut programs = 0usize;
    let mut todo: Vec<(Vec<Call>, String)> = vec![];
    if let Some(dir) = args.opt("corpus") {
        let mut files: Vec<_> = std::fs::read_dir(&dir).map(|d| d.filter_map(|e| e.ok()).map(|e| e.path()).collect()).unwrap_or_default();
        files.sort();
        for f in files {
            let Ok(txt) = std::fs::read_to_string(&f) else { continue };
            let Ok(v) = serde_json::from_str::<Value>(&txt) else { continue };
            let v = if v.get("program").is_some() { v } else { v["replay"].clone() };
            if v["field"].as_str().unwrap_or("bb") != "bb" {
                continue;
            }
            let calls: Option<Vec<Call>> = v["program"].as_array().map(|a| a.iter().filter_map(|l| crate::c02::parse_call(l.as_str()?)).collect());
            if let Some(c) = calls {
                todo.push((c, format!("corpus:{}", f.file_name().unwrap().to_string_lossy())));
            }
        }
    }
    for i in 0..nprog {
        let mut r = rng.fork();
        if let Some((prog, _)) = generate::<F>(&mut r, &GenCfg { max_calls, allow_zero_div: false }) {
            todo.push((prog.calls, format!("gen:{seed}:{i}")));
        }
    }
    for (calls, id) in todo {
        programs += 1;
        let text: String = calls.iter().map(|c| c.line()).collect::<Vec<_>>().join("\n");
        let mut h = 0xcbf29ce484222325u64;
        for b in text.bytes() {
            h = (h ^ b as u64).wrapping_mul(0x100000001b3);
        }
        distinct.insert(h);
        let (_, builder) = rebuild::<F>(&calls);
        writeln!(cases, "prog bb").unwrap();
        writeln!(implo, "prog bb").unwrap();
        for c in &calls {
            writeln!(cases, "{}", c.line()).unwrap();
        }
        writeln!(cases, "build\nprep").unwrap();
        let Ok(Ok(circuit)) = catch_unwind(AssertUnwindSafe(|| builder.build())) else {
            writeln!(implo, "build err").unwrap();
            continue;
        };
        let lanes = 1 + (h % 3) as usize;
        let res = catch_unwind(AssertUnwindSafe(|| prep_lines(&circuit, lanes)));
        let Ok((lines, verdict)) = res else {
            writeln!(implo, "prep panic").unwrap();
            violations.push(json!({"property":"C09","kind":"prep-panic","class":"panic","replay":{"field":"bb","program":calls.iter().map(|c| c.line()).collect::<Vec<_>>(),"pubs":[],"privs":[],"id":id}}));
            continue;
        };
        for l in &lines {
            writeln!(implo, "{}", l.trim_end()).unwrap();
        }
        *hist.entry(lines[0].clone()).or_default() += 1;
        let n_alu = circuit.ops.iter().filter(|o| matches!(o, Op::Alu { .. })).count();
        *hist.entry(format!("alu_rows.{}", (n_alu / 10) * 10)).or_default() += 1;
        for l in &lines {
            if let Some(rest) = l.strip_prefix("pa ") {
                let t: Vec<&str> = rest.split_whitespace().collect();
                *hist.entry(format!("role.a{}.b{}.c{}.o{}", t[5], t[6], t[7], t[8])).or_default() += 1;
            }
        }
        if let Some(v) = verdict {
            *hist.entry(format!("unbalanced.{}", v["class"].as_str().unwrap())).or_default() += 1;
            violations.push(json!({"property":"C09","kind":"unbalanced-slot","class":v["class"],"detail":v,
                "replay":{"field":"bb","program":calls.iter().map(|c| c.line()).collect::<Vec<_>>(),"pubs":[],"privs":[],"id":id}}));
        }
        if samples.len() < 3 {
            samples.push(json!({"program": calls.iter().map(|c| c.line()).collect::<Vec<_>>(), "prep": lines}));
        }
    }
    cases.flush().unwrap();
    implo.flush().unwrap();
    let report = json!({"programs": programs, "distinct_programs": distinct.len(), "hist": hist,
        "violations": violations, "samples": samples, "seed": seed});
    std::fs::write(format!("{out}/roles.report.json"), serde_json::to_string_pretty(&report).unwrap()).unwrap();
    println!("roles: programs={} violations={}", programs, violations.len());
}

/// Class of the first unbalanced slot of the circuit compiled from `calls`, if any.
pub fn unbalanced_class(calls: &[Call]) -> Option<String> {
    let r = catch_unwind(AssertUnwindSafe(|| {
        let (_, builder) = rebuild::<F>(calls);
        let circuit = builder.build().ok()?;
        let (_, v) = prep_lines(&circuit, 1);
        v.map(|v| v["class"].as_str().unwrap_or("").to_string())
    }));
    r.ok().flatten()
}
