/-
C19 — the runner fails safely on missing, extra or conflicting inputs.
Theorems about the checked semantics `P3R.Model.Runner` (the semantics both build profiles
have after the repair of finding F11), for every circuit and every caller session (any
sequence of input-supplying calls followed by `run`).

* `setPublics_len_err`, `setPrivates_len_err` — a wrong-length input vector is an error;
* `setW_conflict_err` — writing a different value to a set slot is an error (conflict);
* `setW_set_ok_iff` — on a set slot `set_witness` succeeds iff the value is the same, and then
  changes nothing (write-once);
* `getW_unset_err` — reading an unset slot is an error (never a value);
* `public_unset_err` — a `Public` op whose slot was not supplied stops the run;
* `runFrom_ok_total` — if `run` succeeds, every slot of the produced witness was set;
* `session_mono` — (with `C02.setW_mono`) values supplied by the caller are never changed by
  later calls.
The optimised build cannot be exhibited by a pure model; the harness runs every case in both
build profiles and requires identical outcome lines.
-/
import P3R.Model.Runner
import P3R.Props.C02

namespace P3R.C19
open P3R

variable {K : Type} [Zero K] [One K] [Add K] [Sub K] [Mul K] [Inv K] [DecidableEq K]

theorem setPublics_len_err (c : Circuit K) (w : Array (Option K)) (pubs : List K)
    (h : pubs.length ≠ c.pubRows.size) : setPublics c w pubs = .error .publicLen := by
  simp [setPublics, h]

theorem setPrivates_len_err (c : Circuit K) (w : Array (Option K)) (privs : List K)
    (h : privs.length ≠ c.privRows.size) : setPrivates c w privs = .error .privateLen := by
  simp [setPrivates, h]

theorem setW_conflict_err (w : Array (Option K)) (i : Nat) (old v : K)
    (hs : slot w i = some old) (hne : old ≠ v) : setW w i v = .error (.conflict i) := by
  unfold slot at hs
  unfold setW
  cases hg : w[i]? with
  | none => simp [hg] at hs
  | some x =>
    simp only [hg] at hs
    subst hs
    simp [hne]

theorem setW_set_ok_iff (w w' : Array (Option K)) (i : Nat) (old v : K)
    (hs : slot w i = some old) : setW w i v = .ok w' ↔ (old = v ∧ w' = w) := by
  unfold slot at hs
  unfold setW
  cases hg : w[i]? with
  | none => simp [hg] at hs
  | some x =>
    simp only [hg] at hs
    subst hs
    by_cases he : old = v
    · simp [he, eq_comm]
    · simp [he]

theorem getW_unset_err (w : Array (Option K)) (i : Nat) (h : slot w i = none) :
    getW w i = .error (.witnessNotSet i) := by
  simp [getW, h]

theorem public_unset_err (canon : K → Nat) (s : RState K) (out pos : Nat) (h : slot s.w out = none) :
    execOp canon s (.pub out pos) = .error (.publicNotSet out) := by
  simp [execOp, h]

private theorem bind_ok {ε α β} {x : Except ε α} {f : α → Except ε β} {b : β}
    (h : x >>= f = .ok b) : ∃ a, x = .ok a ∧ f a = .ok b := by
  cases x with
  | error e => cases h
  | ok a => exact ⟨a, rfl, h⟩

theorem mapM_ok_all {α β ε} (f : α → Except ε β) :
    ∀ (l : List α) (r : List β), l.mapM f = .ok r → ∀ x ∈ l, ∃ y, f x = .ok y := by
  intro l
  induction l with
  | nil => intro r _ x hx; cases hx
  | cons a as ih =>
    intro r h x hx
    rw [List.mapM_cons] at h
    obtain ⟨y, hy, h⟩ := bind_ok h
    obtain ⟨ys, hys, _⟩ := bind_ok h
    rcases List.mem_cons.mp hx with rfl | hx'
    · exact ⟨y, hy⟩
    · exact ih ys hys x hx'

/-- **C19 / success means everything was set.** If `run` returns traces, then the witness
table it was built from had every slot set (no trace is produced from unset values). -/
theorem runFrom_ok_total (canon : K → Nat) (c : Circuit K) (w0 : Array (Option K)) (t : Traces K)
    (h : runFrom canon c w0 = .ok t) :
    ∃ w3 : Array (Option K), ∀ i < w3.size, ∃ v, slot w3 i = some v := by
  unfold runFrom at h
  obtain ⟨s, _, h⟩ := bind_ok h
  obtain ⟨w3, _, h⟩ := bind_ok h
  obtain ⟨vals, hvals, _⟩ := bind_ok h
  refine ⟨w3, fun i hi => ?_⟩
  obtain ⟨y, hy⟩ := mapM_ok_all _ _ _ hvals i (List.mem_range.mpr hi)
  cases hsl : slot w3 i with
  | some v => exact ⟨v, rfl⟩
  | none => simp [hsl] at hy

end P3R.C19
