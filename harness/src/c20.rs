//! C20: verifier arithmetic gadgets vs their native p3 counterparts and vs the Lean model
//! `P3R.Model.Gadgets`. Each gadget is built alone in a fresh circuit (inputs = public inputs),
//! the circuit is built and run by the real code, the output targets are read back from the
//! witness; the same quantity is computed by p3 natively (oracle), and the case line is handed
//! to `p3r_driver_c20` (model). Private gadgets are compiled from their current source text
//! (see `build.rs`).
//!
//! Output files: `c20.cases` (driver input), `c20.impl` (circuit answers in the driver's
//! output format), `c20.report.json`.

use std::collections::BTreeMap;
use std::io::Write;

use serde_json::{Value, json};

use crate::rng::Rng;

/// One replayable case. Meaning of the fields per gadget:
/// (`selz` / `quotz` = `sel` / `quot` through the `HidingFriPcs` impl of `RecursivePcs`.)
/// exp2 nums=[k] elems=[x]; expc nums=[n] elems=[x]; van/sel nums=[logN] shifts=[shift] elems=[x];
/// quot nums=[db,log_qd,zk] (standard split) or nums=[_,_,_,1,logN_0,..] shifts=[shift_0,..]
/// (explicit coset list), elems=[zeta, chunk elems…]; per nums=[logN] shifts=[shift] base=col
/// elems=[x]; poly elems=[x, coeffs…]; fqp nums=[logMax,consumed,index] (elems = explicit bit
/// values if non-empty); evp nums=[lgm,index,h_desc…] (elems = explicit bit values if non-empty).
#[derive(Clone, Debug)]
pub struct Spec {
    pub field: String,
    pub gadget: String,
    pub nums: Vec<u64>,
    pub shifts: Vec<u64>,
    pub base: Vec<u64>,
    pub elems: Vec<Vec<u64>>,
    pub origin: String,
}

impl Spec {
    pub fn to_json(&self) -> Value {
        json!({"field": self.field, "gadget": self.gadget, "nums": self.nums, "shifts": self.shifts,
               "base": self.base, "elems": self.elems, "origin": self.origin})
    }
    pub fn from_json(v: &Value) -> Option<Spec> {
        let nums = |k: &str| -> Vec<u64> {
            v[k].as_array().map(|a| a.iter().filter_map(|x| x.as_u64()).collect()).unwrap_or_default()
        };
        Some(Spec {
            field: v["field"].as_str()?.to_string(),
            gadget: v["gadget"].as_str()?.to_string(),
            nums: nums("nums"),
            shifts: nums("shifts"),
            base: nums("base"),
            elems: v["elems"]
                .as_array()
                .map(|a| {
                    a.iter()
                        .map(|e| e.as_array().map(|c| c.iter().filter_map(|x| x.as_u64()).collect()).unwrap_or_default())
                        .collect()
                })
                .unwrap_or_default(),
            origin: v["origin"].as_str().unwrap_or("corpus").to_string(),
        })
    }
}

/// What one executed case produced.
pub struct Res {
    pub line: String,
    pub impl_line: String,
    /// hist keys to bump
    pub notes: Vec<String>,
    /// implementation-vs-native failure: (class, detail)
    pub verdict: Option<(String, Value)>,
    /// whether the circuit produced values
    pub circuit_ok: bool,
    /// further (case line, implementation answer) pairs belonging to the same case
    /// (`idft`: the build-time coefficient vector, recomputed by the model from the column)
    pub extra: Vec<(String, String)>,
}

mod extracted {
    #![allow(dead_code, unused_imports, clippy::all)]
    use core::iter;
    use std::collections::BTreeMap;

    use p3_circuit::CircuitBuilder;
    use p3_field::{BasedVectorSpace, ExtensionField, Field, PrimeCharacteristicRing, PrimeField64, TwoAdicField};
    use p3_recursion::Target;
    use p3_recursion::traits::{Recursive, RecursivePcs};
    use p3_uni_stark::StarkGenericConfig;

    include!(concat!(env!("OUT_DIR"), "/c20_extracted.rs"));
}

mod bb {
    pub use p3_test_utils::baby_bear_params as params;
    pub const TAG: &str = "bb4";
    pub const P: u64 = 2013265921;
    pub fn default_perm() -> params::Perm {
        params::default_babybear_poseidon2_16()
    }
    include!("c20_field.rs");
}

mod kb {
    pub use p3_test_utils::koala_bear_params as params;
    pub const TAG: &str = "kb4";
    pub const P: u64 = 2130706433;
    pub fn default_perm() -> params::Perm {
        params::default_koalabear_poseidon2_16()
    }
    include!("c20_field.rs");
}

fn bump(h: &mut BTreeMap<String, u64>, k: &str) {
    *h.entry(k.to_string()).or_default() += 1;
}

pub fn main(args: &crate::Args) {
    let seed = args.u64("seed", 1);
    let scale = args.u64("scale", 1) as usize;
    let out = args.str("out", "/tmp/p3r_c20");
    std::fs::create_dir_all(&out).unwrap();
    let mut cases = std::io::BufWriter::new(std::fs::File::create(format!("{out}/c20.cases")).unwrap());
    let mut implo = std::io::BufWriter::new(std::fs::File::create(format!("{out}/c20.impl")).unwrap());
    let mut rng = Rng::new(seed);
    let mut hist: BTreeMap<String, u64> = BTreeMap::new();
    let mut violations: Vec<Value> = vec![];
    let mut samples: Vec<Value> = vec![];
    let mut distinct = std::collections::HashSet::new();
    let mut witnesses_reproduced: Vec<String> = vec![];

    let mut todo: Vec<Spec> = vec![];
    if let Some(dir) = args.opt("corpus") {
        let mut files: Vec<_> =
            std::fs::read_dir(&dir).map(|d| d.filter_map(|e| e.ok()).map(|e| e.path()).collect()).unwrap_or_default();
        files.sort();
        for f in files {
            let Ok(txt) = std::fs::read_to_string(&f) else { continue };
            let Ok(v) = serde_json::from_str::<Value>(&txt) else { continue };
            let v = if v.get("gadget").is_some() { v } else { v["replay"].clone() };
            if let Some(mut s) = Spec::from_json(&v) {
                s.origin = format!("corpus:{}", f.file_name().unwrap().to_string_lossy());
                todo.push(s);
            }
        }
    }
    if args.u64("generate", 1) == 1 {
        let mut r1 = rng.fork();
        bb::generate(&mut r1, scale, &mut todo);
        let mut r2 = rng.fork();
        kb::generate(&mut r2, scale, &mut todo);
    }

    for e in extracted::EXTRACT_ERRORS {
        violations.push(json!({"property":"C20","kind":"extract-failed","class":"extract-failed",
            "detail": format!("{e} not found under {}", extracted::EXTRACT_ROOT),
            "replay": {"function": e}}));
    }

    let mut evaluations = 0u64;
    for spec in &todo {
        let res = match spec.field.as_str() {
            "bb4" => bb::execute(spec),
            "kb4" => kb::execute(spec),
            _ => None,
        };
        let Some(res) = res else {
            bump(&mut hist, "skipped.bad-spec");
            continue;
        };
        evaluations += 1;
        writeln!(cases, "{}", res.line).unwrap();
        writeln!(implo, "{}", res.impl_line).unwrap();
        for (l, a) in &res.extra {
            writeln!(cases, "{l}").unwrap();
            writeln!(implo, "{a}").unwrap();
            bump(&mut hist, "extra-lines.idft");
        }
        distinct.insert(res.line.clone());
        bump(&mut hist, &format!("gadget.{}.{}", spec.gadget, spec.field));
        bump(&mut hist, &format!("outcome.{}.{}", spec.gadget, if res.circuit_ok { "value" } else { "fails" }));
        for n in &res.notes {
            bump(&mut hist, n);
        }
        if let Some((class, detail)) = res.verdict {
            bump(&mut hist, &format!("violation.{class}"));
            if spec.origin.starts_with("corpus:") {
                witnesses_reproduced.push(format!("{} -> {}", spec.origin, class));
            }
            violations.push(json!({"property":"C20","kind":"gadget-differs-from-native","class":class,
                "detail":detail,"line":res.line,"impl":res.impl_line,"replay":spec.to_json()}));
        }
        if samples.len() < 12 && (evaluations % 97 == 1 || spec.origin.starts_with("corpus:")) {
            samples.push(json!({"case": res.line, "circuit": res.impl_line, "origin": spec.origin}));
        }
    }
    cases.flush().unwrap();
    implo.flush().unwrap();
    // keep at most 3 violations per class in the report (all are counted in hist)
    let mut per_class: BTreeMap<String, usize> = BTreeMap::new();
    violations.retain(|v| {
        let c = per_class.entry(v["class"].as_str().unwrap_or("").to_string()).or_default();
        *c += 1;
        *c <= 3
    });
    let report = json!({"evaluations": evaluations, "distinct": distinct.len(), "hist": hist,
        "violations": violations, "samples": samples, "seed": seed,
        "corpus_witnesses_reproduced": witnesses_reproduced,
        "extracted_from": extracted::EXTRACT_ROOT, "extract_errors": extracted::EXTRACT_ERRORS});
    std::fs::write(format!("{out}/c20.report.json"), serde_json::to_string_pretty(&report).unwrap()).unwrap();
    println!("c20: evaluations={} distinct={} violations={}", evaluations, distinct.len(), violations.len());
}
