/-
Relations denoted by the emitted ops (`sat w ops` of DESIGN §4).
-/
import P3R.Model.Runner
import Mathlib.Algebra.Ring.Defs

namespace P3R

variable {K : Type} [CommRing K]

/-- The relation an op imposes on an assignment `w` of all witness slots, `pub` being the
public input vector. Hints and table-backed ops impose none at this layer. For a fused
`MulAdd` the product slot `io` is *not* constrained (the row has no column for it). -/
def Op.holds (w : Nat → K) (pub : Nat → K) : Op K → Prop
  | .const out v => w out = v
  | .pub out pos => w out = pub pos
  | .alu .add a b _ out _ => w a + w b = w out
  | .alu .mul a b _ out _ => w a * w b = w out
  | .alu .boolCheck a _ _ _ _ => w a * (w a - 1) = 0
  | .alu .mulAdd a b (some c) out _ => w a * w b + w c = w out
  | .alu .mulAdd a b none out _ => w a * w b = w out
  | .alu .horner a b (some c) out (some acc) => w acc * w b + w c - w a = w out
  | .alu .horner _ _ _ _ _ => False
  | .hint _ _ _ => True
  | .npo _ _ _ _ => True

def Sat (w : Nat → K) (pub : Nat → K) (ops : List (Op K)) : Prop := ∀ op ∈ ops, op.holds w pub

end P3R
