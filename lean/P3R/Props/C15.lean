/-
C15 — malformed proofs are rejected with an error, never a panic or a weaker circuit.

Theorems about the guarded-step model `P3R.Shape` (`Model/Shape.lean`) of the recursive
verifier's circuit builders, for EVERY shape vector and EVERY environment (no bound on list
lengths, counts, degrees, word size, field parameters).

This is the variant for the tree with fixes C15-1, C15-2, C15-3 applied (C15-2 touches only the
batch builder, which is not modelled). Findings F9b, F9c, F9o and the overflow part of F9i are
repaired: what used to be a hypothesis inside `PanicGuards` is now proved for every shape
(`fri_pow_mismatch_err`, `fri_height_overflow_err`, `open_input_height_err`,
`uni_pow_mismatch_err`, `uni_pow_mismatch_outcome`).

FULL STATEMENTS (the property as worded) — both are still FALSE of the patched code (the
unrepaired findings F9a, F9d–F9i remain); their negations are proved on concrete witnesses in
`P3R/Witness/C15.lean` and replayed on the real builders:

    no_panic           : ∀ e s, verifyUni e s ≠ .panic
    malformed_rejected : ∀ e s, ¬ WellFormed e s → verifyUni e s = .err

What is proved here:

* `run_ok_iff`, `run_panic_iff`, `run_no_panic` — semantics of an ordered list of guarded steps:
  accepted iff every step's condition holds; panics iff the first failing step is a partial
  (unchecked) operation; never panics if every partial step's condition holds.
* `uni_ok_validated` — if the uni-STARK builder accepts, every component the explicit validation
  covers has its expected value: trace openings have the AIR width, the quotient opening is
  exactly `2^logQd` chunks of `dim` coefficients, no ZK parts, local/next preprocessed widths
  agree and are present iff the verifier holds a preprocessed commitment, `degree_bits` is in
  range (this is "validate ok → expected shape" for the STARK layer).
* `uni_ok_fri_validated` — … and the FRI layer: as many PoW witnesses as commit-phase
  commitments (≥ 1), every query carries exactly that many openings with the schedule of the
  first query, every `log_arity` is at least 1, the final polynomial has `2^logFinalPolyLen` coefficients, at least one query,
  every query opens exactly one batch per commitment round, and every commit cap is a non-empty
  power of two when MMCS verification is on.
  NOT implied (and false today, see the witnesses): the number of queries and the cap sizes are
  whatever the proof says.
* `uni_no_panic_partial` — under the decidable hypothesis `PanicGuards e s` (every unchecked
  partial step of the builder goes through on this shape) the builder does not panic;
  `panicGuards_necessary` spells out the arithmetic facts `PanicGuards` contains; the converse
  `uni_panic_iff_not_guards_prefix` is `run_panic_iff`.
* `uni_malformed_rejected_partial` — under `PanicGuards`, a shape that violates any validated
  component is rejected with an error.
* `fri_pow_mismatch_err`, `uni_pow_mismatch_err`, `uni_pow_mismatch_outcome` — F9b / F9c repaired:
  a commitments / PoW-witnesses count mismatch is an error for every environment and shape.
* `fri_height_overflow_err` — F9i overflow part repaired: out-of-range FRI parameters whose sum
  overflows a word are an error (the `two_adic_generator` part of F9i remains a panic).
* `open_input_height_err` — F9o repaired: a matrix taller than the folding schedule reaches is an
  error.
* `honest_shapes_ok` — non-vacuity: the honest shapes of the three uni bases used by the
  correspondence satisfy `PanicGuards` and are accepted.
-/
import P3R.Model.Shape

namespace P3R.C15
open P3R.Shape

/-! ## Ordered guarded steps -/

theorem run_ok_iff (cs : List Check) : run cs = .ok ↔ ∀ c ∈ cs, c.holds = true := by
  induction cs with
  | nil => simp [run]
  | cons c cs ih =>
    unfold run
    by_cases h : c.holds = true
    · simp [h, ih]
    · have hk : c.kind.out ≠ .ok := by cases c.kind <;> simp [FailKind.out]
      simp [h, hk]

theorem run_panic_iff (cs : List Check) :
    run cs = .panic ↔ ∃ pre c post, cs = pre ++ c :: post ∧ (∀ d ∈ pre, d.holds = true) ∧
      c.holds = false ∧ c.kind = .panic := by
  induction cs with
  | nil => simp [run]
  | cons c cs ih =>
    unfold run
    by_cases h : c.holds = true
    · simp only [h, if_true, ih]
      constructor
      · rintro ⟨pre, d, post, rfl, hp, hd, hk⟩
        exact ⟨c :: pre, d, post, rfl, by
          intro x hx; rcases List.mem_cons.mp hx with rfl | hx
          · exact h
          · exact hp x hx, hd, hk⟩
      · rintro ⟨pre, d, post, heq, hp, hd, hk⟩
        cases pre with
        | nil =>
          simp only [List.nil_append, List.cons.injEq] at heq
          rw [← heq.1] at hd; simp [h] at hd
        | cons a pre =>
          simp only [List.cons_append, List.cons.injEq] at heq
          exact ⟨pre, d, post, heq.2, fun x hx => hp x (List.mem_cons_of_mem _ hx), hd, hk⟩
    · have hf : c.holds = false := by simpa using h
      simp only [hf]
      constructor
      · intro hk
        refine ⟨[], c, cs, rfl, by simp, hf, ?_⟩
        cases hkk : c.kind <;> simp_all [FailKind.out]
      · rintro ⟨pre, d, post, heq, hp, hd, hk⟩
        cases pre with
        | nil =>
          simp only [List.nil_append, List.cons.injEq] at heq
          rw [heq.1, hk]; simp [FailKind.out]
        | cons a pre =>
          simp only [List.cons_append, List.cons.injEq] at heq
          have := hp a (List.mem_cons_self ..)
          rw [← heq.1] at this; simp [hf] at this

theorem run_no_panic (cs : List Check)
    (h : ∀ c ∈ cs, c.kind = .panic → c.holds = true) : run cs ≠ .panic := by
  intro hp
  obtain ⟨pre, c, post, rfl, _, hc, hk⟩ := (run_panic_iff cs).mp hp
  have := h c (by simp) hk
  simp [hc] at this

theorem run_trichotomy (cs : List Check) : run cs = .ok ∨ run cs = .err ∨ run cs = .panic := by
  cases h : run cs <;> simp

/-! ## Uni-STARK builder -/

/-- Every unchecked partial step of the builder goes through on this shape (decidable; computed
from the model's own step list, so it is exactly the set of shapes on which no step panics). -/
def PanicGuards (e : Env) (s : UniShape) : Bool :=
  (uniChecks e s).all fun c => c.kind != .panic || c.holds

theorem uni_no_panic_partial (e : Env) (s : UniShape) (h : PanicGuards e s = true) :
    verifyUni e s ≠ .panic := by
  apply run_no_panic
  intro c hc hk
  have := (List.all_eq_true.mp h) c hc
  simpa [hk] using this

/-- What `PanicGuards` still contains for the STARK and FRI layers: the arithmetic side conditions
the Rust never checks. After fixes C15-1 / C15-3 the challenge-slice condition
(`commitCaps.length ≤ powWitnesses`), the `log_max_height` overflow and the matrix-height
subtraction are no longer among them; what is left of the second is the unchecked
`log_arities.iter().sum()`. -/
theorem panicGuards_necessary (e : Env) (s : UniShape) (h : PanicGuards e s = true) :
    s.degreeBits < e.wordBits ∧ e.airPrepWidth ≤ s.prepWidth ∧
    s.degreeBits + e.logQd ≤ e.twoAdicity ∧
    sum s.fri.logArities < 2 ^ e.wordBits ∧ logMaxHeight e s.fri ≤ e.twoAdicity ∧
    (∀ q ∈ s.fri.queries, ∀ la ∈ q.steps,
      la < e.wordBits ∧ (2 ^ la - 1) * e.dim < 2 ^ e.wordBits ∧ (2 ^ la - 1) * e.dim ≤ e.maxAlloc) := by
  have hall := List.all_eq_true.mp h
  have key : ∀ b : Bool, partialStep b ∈ uniChecks e s → b = true := by
    intro b hb
    have := hall _ hb
    simpa [partialStep] using this
  refine ⟨?_, ?_, ?_, ?_, ?_, ?_⟩
  · have := key _ (by simp [uniChecks, uniPrefix] : partialStep (decide (s.degreeBits < e.wordBits)) ∈ uniChecks e s)
    simpa using this
  · have := key _ (by simp [uniChecks, uniPrefix] : partialStep (decide (e.airPrepWidth ≤ s.prepWidth)) ∈ uniChecks e s)
    simpa using this
  · have := key _ (by simp [uniChecks, uniPrefix] :
      partialStep (decide (s.degreeBits + e.logQd ≤ e.twoAdicity)) ∈ uniChecks e s)
    simpa using this
  · have := key _ (by simp [uniChecks, friVerifyChecks] :
      partialStep (decide (sum s.fri.logArities < 2 ^ e.wordBits)) ∈ uniChecks e s)
    simpa using this
  · have := key _ (by simp [uniChecks, friVerifyChecks] :
      partialStep (decide (logMaxHeight e s.fri ≤ e.twoAdicity)) ∈ uniChecks e s)
    simpa using this
  · intro q hq la hla
    have mem : ∀ c ∈ allocStep e la, c ∈ uniChecks e s := by
      intro c hc
      simp only [uniChecks, uniPrefix, allocFri, List.mem_append, List.mem_flatMap]
      exact Or.inl (Or.inl (Or.inl (Or.inl (Or.inl ⟨q, hq, la, hla, hc⟩))))
    refine ⟨?_, ?_, ?_⟩
    · have := key _ (mem (partialStep (decide (la < e.wordBits))) (by simp [allocStep]))
      simpa using this
    · have := key _ (mem (partialStep (decide ((2 ^ la - 1) * e.dim < 2 ^ e.wordBits))) (by simp [allocStep]))
      simpa using this
    · have := key _ (mem (partialStep (decide ((2 ^ la - 1) * e.dim ≤ e.maxAlloc))) (by simp [allocStep]))
      simpa using this

/-- The STARK-layer components the explicit validation pins down. -/
structure Validated (e : Env) (s : UniShape) : Prop where
  traceLocal : s.traceLocal = e.airWidth
  traceNext : s.traceNext = e.airWidth
  chunks : s.quotientChunks = List.replicate (2 ^ e.logQd) e.dim
  noRandom : s.random = none ∧ s.randomCap = none
  prepAgree : s.prepLocal.getD 0 = s.prepNext.getD 0
  prepIff : e.prepCommit.isSome = true ↔ 0 < s.prepWidth
  powBits : e.queryPowBits ≤ e.valBits

private theorem all_beq_replicate (l : List Nat) (d : Nat) (h : l.all (· == d) = true) :
    l = List.replicate l.length d := by
  induction l with
  | nil => simp
  | cons a l ih =>
    simp only [List.all_cons, Bool.and_eq_true, beq_iff_eq] at h
    simp only [List.length_cons, List.replicate_succ, List.cons.injEq]
    exact ⟨h.1, ih h.2⟩

theorem uni_ok_validated (e : Env) (s : UniShape) (h : verifyUni e s = .ok) : Validated e s := by
  have hall := (run_ok_iff _).mp h
  have key : ∀ b : Bool, must b ∈ uniChecks e s → b = true := by
    intro b hb
    have := hall _ hb
    simpa [must] using this
  have h1 := key _ (by simp [uniChecks, uniPrefix, validateUniShape] :
    must (s.traceLocal == e.airWidth && s.traceNext == e.airWidth) ∈ uniChecks e s)
  have h2 := key _ (by simp [uniChecks, uniPrefix, validateUniShape] :
    must (s.quotientChunks.length == 2 ^ e.logQd) ∈ uniChecks e s)
  have h3 := key _ (by simp [uniChecks, uniPrefix, validateUniShape] :
    must (s.quotientChunks.all (· == e.dim)) ∈ uniChecks e s)
  have h4 := key _ (by simp [uniChecks, uniPrefix] :
    must (s.random.isNone && s.randomCap.isNone) ∈ uniChecks e s)
  have h5 := key _ (by simp [uniChecks, uniPrefix, validateUniShape] :
    must (s.prepWidth == s.prepLocal.getD 0 && s.prepWidth == s.prepNext.getD 0) ∈ uniChecks e s)
  have h6 := key _ (by simp [uniChecks, uniPrefix, validateUniShape] :
    must (!(e.prepCommit.isSome && s.prepWidth == 0)) ∈ uniChecks e s)
  have h7 := key _ (by simp [uniChecks, uniPrefix, validateUniShape] :
    must (!(e.prepCommit.isNone && decide (s.prepWidth > 0))) ∈ uniChecks e s)
  have h8 := key _ (by simp [uniChecks, uniPrefix, friChallengeChecks] :
    must (decide (e.queryPowBits ≤ e.valBits)) ∈ uniChecks e s)
  simp only [Bool.and_eq_true, beq_iff_eq] at h1 h2 h5
  refine ⟨h1.1, h1.2, ?_, ?_, ?_, ?_, by simpa using h8⟩
  · have := all_beq_replicate _ _ h3
    rw [h2] at this; exact this
  · simp only [Bool.and_eq_true, Option.isNone_iff_eq_none] at h4; exact h4
  · unfold UniShape.prepWidth at h5; rw [← h5.2]
  · constructor
    · intro hs
      cases hw : s.prepWidth with
      | zero => simp [hs, hw] at h6
      | succ n => omega
    · intro hpos
      cases hc : e.prepCommit with
      | some c => simp
      | none => simp [hc, hpos] at h7

/-- The FRI-layer components the explicit validation pins down. -/
structure FriValidated (e : Env) (f : FriShape) : Prop where
  powEq : f.commitCaps.length = f.powWitnesses
  phases : f.logArities.length = f.commitCaps.length
  arityPos : ∀ la ∈ f.logArities, 1 ≤ la
  somePhase : f.commitCaps ≠ []
  someQuery : f.queries ≠ []
  schedule : ∀ q ∈ f.queries, q.steps = f.logArities
  finalPoly : f.finalPolyLen = 2 ^ e.logFinalPolyLen
  height : logMaxHeight e f ≤ e.valBits

theorem uni_ok_fri_validated (e : Env) (s : UniShape) (h : verifyUni e s = .ok) :
    FriValidated e s.fri ∧
    (∀ q ∈ s.fri.queries, q.inputProof.length = (uniRounds e s).length) := by
  have hall := (run_ok_iff _).mp h
  have key : ∀ b : Bool, must b ∈ uniChecks e s → b = true := by
    intro b hb
    have := hall _ hb
    simpa [must] using this
  have g1 := key _ (by simp [uniChecks, friVerifyChecks] :
    must (s.fri.commitCaps.length == s.fri.powWitnesses) ∈ uniChecks e s)
  have g2 := key _ (by simp [uniChecks, friVerifyChecks] :
    must (s.fri.logArities.length == s.fri.commitCaps.length) ∈ uniChecks e s)
  have g2' := key _ (by simp [uniChecks, friVerifyChecks] :
    must (s.fri.logArities.all (· != 0)) ∈ uniChecks e s)
  have g3 := key _ (by simp [uniChecks, friVerifyChecks] :
    must (s.fri.queries.length != 0) ∈ uniChecks e s)
  have g4 := key _ (by simp [uniChecks, friVerifyChecks] :
    must (s.fri.commitCaps.length != 0) ∈ uniChecks e s)
  have g5 := key _ (by simp [uniChecks, friVerifyChecks] :
    must (isPow2 s.fri.finalPolyLen && log2 s.fri.finalPolyLen == e.logFinalPolyLen) ∈ uniChecks e s)
  have g6 := key _ (by simp [uniChecks, friVerifyChecks] :
    must (decide (logMaxHeight e s.fri ≤ e.valBits)) ∈ uniChecks e s)
  have g5' : s.fri.finalPolyLen = 2 ^ e.logFinalPolyLen := by
    simp only [isPow2, Bool.and_eq_true, bne_iff_ne, ne_eq, beq_iff_eq] at g5
    rw [← g5.2, g5.1.2]
  refine ⟨⟨by simpa using g1, by simpa using g2, ?_, ?_, ?_, ?_, g5', by simpa using g6⟩, ?_⟩
  · intro la hla
    have := (List.all_eq_true.mp g2') la hla
    simp only [bne_iff_ne, ne_eq] at this
    omega
  · intro hn; simp [hn] at g4
  · intro hn; simp [hn] at g3
  · intro q hq
    have := key (q.steps == s.fri.logArities) (by
      simp only [uniChecks, friVerifyChecks, List.mem_append, List.mem_map]
      exact Or.inr (Or.inl (Or.inl (Or.inr ⟨q, hq, rfl⟩))))
    simpa using this
  · intro q hq
    have := key ((uniRounds e s).length == q.inputProof.length) (by
      simp only [uniChecks, friVerifyChecks, openInputChecks, List.mem_append, List.mem_flatMap]
      refine Or.inr (Or.inr ⟨q, hq, Or.inl (Or.inl (Or.inl (Or.inr ?_)))⟩)
      simp)
    simp only [beq_iff_eq] at this
    exact this.symm

/-- Under the guard hypothesis a shape violating any validated component is rejected with an
error (`malformed_rejected` restricted to what validation covers, minus the panics). -/
theorem uni_malformed_rejected_partial (e : Env) (s : UniShape)
    (hg : PanicGuards e s = true)
    (hbad : ¬ (Validated e s ∧ FriValidated e s.fri ∧
      ∀ q ∈ s.fri.queries, q.inputProof.length = (uniRounds e s).length)) :
    verifyUni e s = .err := by
  rcases run_trichotomy (uniChecks e s) with h | h | h
  · exact absurd ⟨uni_ok_validated e s h, (uni_ok_fri_validated e s h).1,
      (uni_ok_fri_validated e s h).2⟩ hbad
  · exact h
  · exact absurd h (uni_no_panic_partial e s hg)

/-! ## Repaired findings (fixes C15-1 and C15-3): proved for every shape, no guard hypothesis -/

theorem run_append (a b : List Check) :
    run (a ++ b) = match run a with | .ok => run b | o => o := by
  induction a with
  | nil => simp [run]
  | cons c a ih =>
    simp only [List.cons_append, run]
    by_cases h : c.holds = true
    · simp [h, ih]
    · simp only [h]
      cases c.kind <;> simp [FailKind.out]

/-- A list of explicit checks (no partial step) one of which fails returns an error, whatever
follows it. -/
theorem run_err_of_must_prefix (a b : List Check) (hk : ∀ c ∈ a, c.kind = .err)
    (hf : ∃ c ∈ a, c.holds = false) : run (a ++ b) = .err := by
  induction a with
  | nil => obtain ⟨c, hc, _⟩ := hf; simp at hc
  | cons c a ih =>
    simp only [List.cons_append, run]
    by_cases h : c.holds = true
    · simp only [h, if_true]
      apply ih (fun d hd => hk d (List.mem_cons_of_mem _ hd))
      obtain ⟨d, hd, hdf⟩ := hf
      rcases List.mem_cons.mp hd with rfl | hd
      · simp [h] at hdf
      · exact ⟨d, hd, hdf⟩
    · simp [h, hk c (List.mem_cons_self ..), FailKind.out]

/-- F9b / F9c repaired: a FRI proof whose commit-phase commitments and PoW witnesses differ in
number is rejected with an error by `verify_circuit` — for every environment, every shape and
every set of commitment rounds (before the fix: a slice panic, hypothesis of `PanicGuards`). -/
theorem fri_pow_mismatch_err (e : Env) (f : FriShape) (rounds : List Round)
    (h : f.commitCaps.length ≠ f.powWitnesses) : run (friVerifyChecks e f rounds) = .err := by
  simp [friVerifyChecks, run, must, h, FailKind.out]

/-- F9i (overflow part) repaired: FRI parameters whose sum with the folding schedule does not fit
a machine word are rejected with an error (before the fix: an arithmetic-overflow panic). -/
theorem fri_height_overflow_err (e : Env) (f : FriShape) (rounds : List Round)
    (h1 : f.commitCaps.length = f.powWitnesses) (h2 : sum f.logArities < 2 ^ e.wordBits)
    (h3 : ¬ logMaxHeight e f < 2 ^ e.wordBits) : run (friVerifyChecks e f rounds) = .err := by
  simp [friVerifyChecks, run, must, partialStep, h1, h2, h3, FailKind.out]

/-- F9o repaired: a committed matrix taller than the height the folding schedule reaches is
rejected with an error by `open_input` (before the fix: `log_global_max_height - height`
underflowed). -/
theorem open_input_height_err (e : Env) (f : FriShape) (rounds : List Round) (q : QueryShape)
    (h : ∃ r ∈ rounds, ∃ m ∈ r.mats, logMaxHeight e f < m.1 + e.logBlowup) :
    run (openInputChecks e f rounds q) = .err := by
  unfold openInputChecks
  simp only [List.append_assoc]
  apply run_err_of_must_prefix
  · intro c hc
    simp only [List.mem_flatMap, List.mem_map] at hc
    obtain ⟨r, _, m, _, rfl⟩ := hc
    rfl
  · obtain ⟨r, hr, m, hm, hlt⟩ := h
    refine ⟨must (decide (m.1 + e.logBlowup ≤ logMaxHeight e f)), ?_, ?_⟩
    · simp only [List.mem_flatMap, List.mem_map]
      exact ⟨r, hr, m, hm, rfl⟩
    · simp only [must, decide_eq_false_iff_not]; omega

/-- Uni-STARK level: once the steps before the PCS go through, a commitments / PoW-witnesses
mismatch is an error (never a panic, never accepted). -/
theorem uni_pow_mismatch_err (e : Env) (s : UniShape) (hp : run (uniPrefix e s) = .ok)
    (h : s.fri.commitCaps.length ≠ s.fri.powWitnesses) : verifyUni e s = .err := by
  unfold verifyUni uniChecks
  rw [run_append, hp]
  exact fri_pow_mismatch_err e s.fri _ h

/-- … and it is never accepted nor a panic of the PCS part, whatever the prefix does: the outcome
is the prefix's own failure or an error. -/
theorem uni_pow_mismatch_outcome (e : Env) (s : UniShape)
    (h : s.fri.commitCaps.length ≠ s.fri.powWitnesses) :
    verifyUni e s = .err ∨ verifyUni e s = run (uniPrefix e s) := by
  unfold verifyUni uniChecks
  rw [run_append]
  cases hp : run (uniPrefix e s)
  · exact Or.inl (fri_pow_mismatch_err e s.fri _ h)
  · exact Or.inr rfl
  · exact Or.inr rfl

/-! ## Non-vacuity: the honest shapes of the correspondence bases -/

def envFib (capLog : Nat) : Env :=
  { airWidth := 2, airPrepWidth := 0, logQd := 0, dim := 4, prepCommit := none, logBlowup := 2,
    logFinalPolyLen := 0, commitPowBits := 1, queryPowBits := 1, mmcs := true, valBits := 31,
    twoAdicity := 27, wordBits := 64, maxAlloc := 2 ^ 26 + capLog * 0 }

def honestQuery : QueryShape := { inputProof := [[2], [4]], steps := [1, 1, 1] }

/-- Fibonacci, 8 rows, blow-up 2², final polynomial of length 1, two queries, `cap` roots per cap. -/
def honestFib (cap : Nat) : UniShape :=
  { traceCap := cap, quotientCap := cap, randomCap := none, traceLocal := 2, traceNext := 2,
    prepLocal := none, prepNext := none, quotientChunks := [4], random := none, degreeBits := 3,
    fri := { commitCaps := [cap, cap, cap], powWitnesses := 3,
             queries := [honestQuery, honestQuery], finalPolyLen := 1 } }

def envMul : Env :=
  { airWidth := 2, airPrepWidth := 4, logQd := 1, dim := 4, prepCommit := some 1, logBlowup := 2,
    logFinalPolyLen := 0, commitPowBits := 1, queryPowBits := 1, mmcs := false, valBits := 31,
    twoAdicity := 27, wordBits := 64, maxAlloc := 2 ^ 26 }

def honestMul : UniShape :=
  { traceCap := 1, quotientCap := 1, randomCap := none, traceLocal := 2, traceNext := 2,
    prepLocal := some 4, prepNext := some 4, quotientChunks := [4, 4], random := none,
    degreeBits := 3,
    fri := { commitCaps := [1, 1, 1], powWitnesses := 3,
             queries := [{ inputProof := [[2], [4, 4], [4]], steps := [1, 1, 1] },
                         { inputProof := [[2], [4, 4], [4]], steps := [1, 1, 1] }],
             finalPolyLen := 1 } }

theorem honest_shapes_ok :
    verifyUni (envFib 0) (honestFib 1) = .ok ∧ PanicGuards (envFib 0) (honestFib 1) = true ∧
    verifyUni (envFib 1) (honestFib 2) = .ok ∧ PanicGuards (envFib 1) (honestFib 2) = true ∧
    verifyUni envMul honestMul = .ok ∧ PanicGuards envMul honestMul = true := by
  decide

end P3R.C15

#print axioms P3R.C15.run_ok_iff
#print axioms P3R.C15.run_panic_iff
#print axioms P3R.C15.run_no_panic
#print axioms P3R.C15.uni_ok_validated
#print axioms P3R.C15.uni_ok_fri_validated
#print axioms P3R.C15.uni_no_panic_partial
#print axioms P3R.C15.panicGuards_necessary
#print axioms P3R.C15.uni_malformed_rejected_partial
#print axioms P3R.C15.honest_shapes_ok
#print axioms P3R.C15.run_append
#print axioms P3R.C15.run_err_of_must_prefix
#print axioms P3R.C15.fri_pow_mismatch_err
#print axioms P3R.C15.fri_height_overflow_err
#print axioms P3R.C15.open_input_height_err
#print axioms P3R.C15.uni_pow_mismatch_err
#print axioms P3R.C15.uni_pow_mismatch_outcome
