/-
C02, second clause — "the runner succeeds on every input satisfying the program's relations", without
a per-circuit hypothesis on the lowering side.

* `lower_shape_ok` — TOTAL for the lowering: for every builder state with `BState.Ok`, `privOk`,
  `pubOk` and `primOk` (all decidable; Props/C02ShapeLower.lean), whenever `lower b = .ok l`, the
  value-free shape run of the lowered op list from "all public and private rows set" succeeds and
  every one of the `witnessCount` slots is set afterwards (`RunInv` threaded through the four passes).
  Neither `hintsGuarded` nor `operandsGuarded` is needed on the runner side: the runner executes the
  hint op, which writes its outputs, before any row that reads them.
* `lowered_run_total` — composed with `C02.run_succeeds_on_every_satisfying_input` (the lowered list
  read as a circuit with the empty rewrite map): the modelled run of the *unoptimised* circuit succeeds
  on every satisfying assignment and returns it.
* `optKeepsShape` — the one remaining per-circuit fact: the optimiser (`dedup`, `fuse`) keeps the
  shape run (decidable; it is what the driver's `shape ok` line evaluates on the compiled circuit).
  `compile_shape_ok_of_optKeeps`, `run_total_on_satisfying_inputs_of_optKeeps` compose it.
  `Props/C02ShapeMono.lean` contains the simulation lemma (`sim_run`) on which a proof of
  `optKeepsShape` for `dedup` rests (kept rows are replayed along the rewrite map; a removed duplicate
  only writes slots whose images the kept twin has already set); the fusion step (`MulAdd` placed at
  the mul position: the mul ran forward, the addend is set there — `C09F.filterValid_addend_before_mul`)
  is NOT proved here.
-/
import P3R.Props.C02ShapeLower
import P3R.Props.C02Shape

namespace P3R.C02S
open P3R P3R.C02T P3R.C09C

variable {K : Type}

section assembly
variable [Neg K]

theorem ext_of_step {nodes : Array (Expr K)} {N : Nat} {R : Array Nat} {C : Array Bool} {p : Nat}
    {f : LState K → Nat → Expr K → Except LowerErr (LState K)}
    (hskip : ∀ s i e, cat e ≠ p → f s i e = .ok s) (hstep : StepSpec nodes N R C p f)
    {k : Nat} {s s' : LState K} (PI : PassInv nodes N R C p k s) (hk : k < nodes.size)
    (hf : f s k nodes[k] = .ok s') :
    (∀ x v, s.e2w.getD x none = some v → s'.e2w.getD x none = some v) ∧
    (∀ x w, s'.e2w.getD x none = some w → s.e2w.getD x none = some w ∨ x = k ∨
      ∃ e', nodes[x]? = some e' ∧ isOut e' = true) := by
  have hke : nodes[k]? = some nodes[k] := Array.getElem?_eq_getElem hk
  by_cases hc : cat nodes[k] = p
  · obtain ⟨_, ext, _, honly⟩ := hstep s k _ s' hke hc PI.good (none_of_passInv PI hke hc) hf
    exact ⟨ext.e2w, honly⟩
  · rw [hskip s k _ hc] at hf
    cases hf
    exact ⟨fun _ _ h => h, fun _ _ h => Or.inl h⟩

theorem backfill_pub_next (l : List Nat) (s : LState K) :
    (l.foldl backfillStep s).pubRows = s.pubRows ∧ (l.foldl backfillStep s).next = s.next := by
  induction l generalizing s with
  | nil => exact ⟨rfl, rfl⟩
  | cons e l ih =>
    simp only [List.foldl_cons]
    obtain ⟨h1, h2⟩ := ih (backfillStep s e)
    have : (backfillStep s e).pubRows = s.pubRows ∧ (backfillStep s e).next = s.next := by
      unfold backfillStep
      split
      · split
        · exact ⟨rfl, rfl⟩
        · split <;> exact ⟨rfl, rfl⟩
      · exact ⟨rfl, rfl⟩
    exact ⟨h1.trans this.1, h2.trans this.2⟩

/-- The `t0` of the driver's `shape` command, for a lowered list. -/
def Lowered.inputsSet (l : Lowered K) : Array Bool :=
  allSet l.witnessCount (l.pubRows.toList ++ l.privRows.toList)

/-- **C02 / the lowered op list is executable — total.** -/
theorem lower_shape_ok (b : BState K) (hok : b.Ok) (hpo : privOk b = true) (hpu : pubOk b = true)
    (hprim : primOk b = true) :
    ∀ l, lower b = .ok l →
      ∃ t, runOps (Lowered.inputsSet l) l.ops.toList = some t ∧
        ∀ w, w < l.witnessCount → getS t w = true := by
  intro l h
  rw [lower_eq] at h
  have hc := hok.connectsOk
  have hcs : ∀ ab ∈ b.connects, ab.1 < b.nodes.size ∧ ab.2 < b.nodes.size ∧
      (proper b.nodes ab.1 = true ∨ proper b.nodes ab.2 = true) := by
    intro ab hab
    have := List.all_eq_true.mp hc ab hab
    simpa [and_assoc] using this
  obtain ⟨hCsz, hCmono, hCmem⟩ := inC_spec b.connects (Array.replicate (b.nodes.size + 1) false)
  simp only [Array.size_replicate] at hCsz hCmem
  obtain ⟨hDsu, hRsame, _⟩ := ofConnects_spec (N := b.nodes.size + 1) b.connects
    (fun ab hab => ⟨by have := (hcs ab hab).1; omega, by have := (hcs ab hab).2.1; omega⟩)
    (Array.range (b.nodes.size + 1)) (range_dsuInv _)
  have hRC : RCok (b.nodes.size + 1) (Dsu.ofConnects (b.nodes.size + 1) b.connects) (inCOf b) := by
    intro x hx
    have : x < b.nodes.size + 1 := by
      have := getD_true_lt _ x hx
      unfold inCOf at this
      rw [hCsz] at this; exact this
    exact hDsu.lt x this
  have h0 : PassInv b.nodes (b.nodes.size + 1) (Dsu.ofConnects (b.nodes.size + 1) b.connects)
      (inCOf b) 0 0 (lowerInit b) := by
    refine ⟨⟨rfl, rfl, by simp [lowerInit], by simp [lowerInit], ?_, ?_⟩, ?_, ?_⟩
    · intro x w _ hw
      simp only [lowerInit, getD_replicate] at hw
      cases hw
    · intro op hop
      simp [lowerInit] at hop
    · intro x w hw
      simp only [lowerInit, getD_replicate] at hw
      cases hw
    · intro x e _ hcase
      rcases hcase with h1 | ⟨_, h2⟩ <;> omega
  have next : ∀ p s, PassInv b.nodes (b.nodes.size + 1)
      (Dsu.ofConnects (b.nodes.size + 1) b.connects) (inCOf b) p b.nodes.size s →
      PassInv b.nodes (b.nodes.size + 1) (Dsu.ofConnects (b.nodes.size + 1) b.connects)
        (inCOf b) (p + 1) 0 s := by
    intro p s I
    refine ⟨I.good, fun x w hw => ?_, fun x e he hcase => ?_⟩
    · obtain ⟨e, he, hcase⟩ := I.only x w hw
      refine ⟨e, he, ?_⟩
      rcases hcase with h1 | ⟨h2, _⟩ | h3
      · exact Or.inl (by omega)
      · exact Or.inl (by omega)
      · exact Or.inr (Or.inr h3)
    · have hx : x < b.nodes.size := by
        by_contra hge
        rw [Array.getElem?_eq_none (by omega)] at he
        cases he
      apply I.claims x e he
      rcases hcase with h1 | ⟨_, h2⟩
      · by_cases hlt : cat e < p
        · exact Or.inl hlt
        · exact Or.inr ⟨by omega, hx⟩
      · omega
  have Q0 : Q b (lowerInit b) := by
    refine ⟨by simp [lowerInit], ?_⟩
    intro x pos w _ hw
    simp only [lowerInit, getD_replicate] at hw
    cases hw
  have QP0 : QP b (lowerInit b) := by
    refine ⟨by simp [lowerInit], ?_⟩
    intro x pos w _ hw
    simp only [lowerInit, getD_replicate] at hw
    cases hw
  have A0 : ∀ op ∈ (lowerInit b).ops.toList, isAluOp op = false := by
    intro op hop
    simp [lowerInit] at hop
  have X0 : C18L.X b (lowerInit b) := by
    refine ⟨by simp [lowerInit], ?_, ?_⟩
    · intro k
      simp only [lowerInit, Array.getD_eq_getD_getElem?, Array.getElem?_replicate]
      split <;> rfl
    · intro x w hw
      simp only [lowerInit, getD_replicate] at hw
      cases hw
  have R0 : RunInv b.nodes (lowerInit b) := by
    refine ⟨?_, ?_, ?_⟩
    · intro e w hw
      simp only [lowerInit, getD_replicate] at hw
      cases hw
    · intro r w hw
      simp only [lowerInit, getD_replicate] at hw
      cases hw
    · intro t0 _ _
      exact ⟨t0, rfl, fun w hw => by simp [lowerInit] at hw⟩
  have skip0 : ∀ (s : LState K) i e, cat e ≠ 0 → fConst s i e = .ok s := by
    intro s i e hne; cases e <;> simp [cat] at hne <;> rfl
  have skip1 : ∀ (s : LState K) i e, cat e ≠ 1 → fPub s i e = .ok s := by
    intro s i e hne; cases e <;> simp [cat] at hne <;> rfl
  have skip2 : ∀ (s : LState K) i e, cat e ≠ 2 → fPriv s i e = .ok s := by
    intro s i e hne; cases e <;> simp [cat] at hne <;> rfl
  have skip3 : ∀ (s : LState K) i e, cat e ≠ 3 → s.emitNode b.nodes b.npOps i e = .ok s := by
    intro s i e hne; cases e <;> simp [cat] at hne <;> rfl
  simp only [bind, Except.bind, forNodes] at h
  split at h
  · cases h
  · rename_i s1 hs1
    have I1 := pass_fold b.nodes _ _ _ 0 fConst skip0 (step_const hRC) _ h0 _
      (Nat.le_refl _) s1 hs1
    have J1 := fold_inv b.nodes fConst (lowerInit b)
      (fun _ s => ((Q b s ∧ ∀ op ∈ s.ops.toList, isAluOp op = false) ∧ C18L.X b s) ∧ QP b s ∧
        RunInv b.nodes s) ⟨⟨⟨Q0, A0⟩, X0⟩, QP0, R0⟩
      (fun k s s' hk hpre hI hf => by
        have PI := pass_fold b.nodes _ _ _ 0 fConst skip0 (step_const hRC) _ h0 k
          (Nat.le_of_lt hk) s hpre
        have hke : b.nodes[k]? = some b.nodes[k] := Array.getElem?_eq_getElem hk
        exact ⟨⟨fConst_Q hke hI.1.1.1 hI.1.1.2 hf, C18L.fConst_X hI.1.2 hf⟩, fConst_QP hke hI.2.1 hf,
          run_fConst hI.2.2 (ext_of_step skip0 (step_const hRC) PI hk hf).1 hf⟩)
      _ (Nat.le_refl _) s1 hs1
    split at h
    · cases h
    · rename_i s2 hs2
      have I2 := pass_fold b.nodes _ _ _ 1 fPub skip1 (step_pub hRC) _ (next _ _ I1) _
        (Nat.le_refl _) s2 hs2
      have J2 := fold_inv b.nodes fPub s1
        (fun _ s => ((Q b s ∧ ∀ op ∈ s.ops.toList, isAluOp op = false) ∧ C18L.X b s) ∧ QP b s ∧
          RunInv b.nodes s) J1
        (fun k s s' hk hpre hI hf => by
          have PI := pass_fold b.nodes _ _ _ 1 fPub skip1 (step_pub hRC) _ (next _ _ I1) k
            (Nat.le_of_lt hk) s hpre
          have hke : b.nodes[k]? = some b.nodes[k] := Array.getElem?_eq_getElem hk
          have hkN : k < s.e2w.size := by rw [PI.good.e2wSz]; omega
          exact ⟨⟨fPub_Q hke hI.1.1.1 hI.1.1.2 hf, C18L.fPub_X hI.1.2 hf⟩,
            fPub_QP hpu hke hkN hI.2.1 hf,
            run_fPub hI.2.2 hke hkN (ext_of_step skip1 (step_pub hRC) PI hk hf).1 hf⟩)
        _ (Nat.le_refl _) s2 hs2
      split at h
      · cases h
      · rename_i s3 hs3
        have I3 := pass_fold b.nodes _ _ _ 2 fPriv skip2 (step_priv hRC) _
          (next _ _ I2) _ (Nat.le_refl _) s3 hs3
        have J3 := fold_inv b.nodes fPriv s2
          (fun _ s => ((Q b s ∧ ∀ op ∈ s.ops.toList, isAluOp op = false) ∧ C18L.X b s) ∧ QP b s ∧
            RunInv b.nodes s) J2
          (fun k s s' hk hpre hI hf => by
            have PI := pass_fold b.nodes _ _ _ 2 fPriv skip2 (step_priv hRC) _
              (next _ _ I2) k (Nat.le_of_lt hk) s hpre
            have hke : b.nodes[k]? = some b.nodes[k] := Array.getElem?_eq_getElem hk
            have hkN : k < s.e2w.size := by rw [PI.good.e2wSz]; omega
            exact ⟨⟨fPriv_Q hpo hke hkN hI.1.1.1 hI.1.1.2 hf, C18L.fPriv_X hke hI.1.2 hf⟩,
              fPriv_QP hke hI.2.1 hf,
              run_fPriv hI.2.2 hke hkN (ext_of_step skip2 (step_priv hRC) PI hk hf).1 hf⟩)
          _ (Nat.le_refl _) s3 hs3
        have E3 : C18L.EInv b s3.privRows.toList s3 := by
          refine ⟨rfl, J3.1.2.esz, ?_, C18L.ADef_of_noAlu _ _ J3.1.1.2,
            fun op hop => C18L.dshape_of_noAlu op (J3.1.1.2 op hop), ?_⟩
          · intro x w hw
            rcases J3.1.2.m x w hw with ⟨pos, hx⟩ | h2
            · exact Or.inl (Array.mem_toList_iff.mpr (Array.mem_of_getElem? (J3.1.1.1.pr x pos w hx hw)))
            · exact Or.inr h2
          · intro opId hop
            rw [J3.1.2.noEmit opId] at hop
            cases hop
        split at h
        · cases h
        · rename_i s4 hs4
          have J4 := fold_inv b.nodes (fun st i e => st.emitNode b.nodes b.npOps i e) s3
            (fun _ s => C18L.EInv b s3.privRows.toList s ∧ (Q b s ∧ QP b s) ∧ RunInv b.nodes s)
            ⟨E3, ⟨J3.1.1.1, J3.2.1⟩, J3.2.2⟩
            (fun k s s' hk hpre hI hf => by
              have PI := pass_fold b.nodes _ _ _ 3 (fun st i e => st.emitNode b.nodes b.npOps i e)
                skip3 (step_emit hRC b.npOps) _ (next _ _ I3) k (Nat.le_of_lt hk) s hpre
              have hke : b.nodes[k]? = some b.nodes[k] := Array.getElem?_eq_getElem hk
              obtain ⟨hext, honly⟩ := ext_of_step skip3 (step_emit hRC b.npOps) PI hk hf
              have hE' := C18L.emit_E hke hI.1 hf
              have hpub := emit_pub hf
              have hpriv : s'.privRows = s.privRows := by
                have := hE'.priv
                rw [← hI.1.priv] at this
                exact Array.toList_inj.mp this
              refine ⟨hE', ⟨⟨by rw [hpriv]; exact hI.2.1.1.sz, ?_⟩, ⟨by rw [hpub]; exact hI.2.1.2.sz, ?_⟩⟩,
                run_emit hprim hke hI.2.2 hI.1 hext hf⟩
              · intro x pos w hx hw
                rw [hpriv]
                rcases honly x w hw with h1 | h2 | ⟨e', he', ho'⟩
                · exact hI.2.1.1.pr x pos w hx h1
                · subst h2
                  rw [hke] at hx
                  have hx' := Option.some.inj hx
                  rw [hx'] at hf
                  simp only [LState.emitNode, Except.ok.injEq] at hf
                  subst hf
                  exact hI.2.1.1.pr x pos w (hke.trans (congrArg some hx')) hw
                · rw [hx] at he'
                  cases he'
                  cases ho'
              · intro x pos w hx hw
                rw [hpub]
                rcases honly x w hw with h1 | h2 | ⟨e', he', ho'⟩
                · exact hI.2.1.2.pr x pos w hx h1
                · subst h2
                  rw [hke] at hx
                  have hx' := Option.some.inj hx
                  rw [hx'] at hf
                  simp only [LState.emitNode, Except.ok.injEq] at hf
                  subst hf
                  exact hI.2.1.2.pr x pos w (hke.trans (congrArg some hx')) hw
                · rw [hx] at he'
                  cases he'
                  cases ho')
            _ (Nat.le_refl _) s4 hs4
          split at h
          · cases h
          · simp only [Except.ok.injEq] at h
            obtain ⟨hbo, hbp⟩ := backfill_fields (List.range (b.nodes.size + 1)) s4
            obtain ⟨hbu, hbn⟩ := backfill_pub_next (List.range (b.nodes.size + 1)) s4
            subst h
            simp only [Lowered.inputsSet]
            rw [hbo, hbp, hbu, hbn]
            obtain ⟨_, ⟨hQ, hQP⟩, hR⟩ := J4
            apply hR.run _ (by rw [allSet_size])
            intro x w hx hw
            have hwn := hR.eb x w hw
            apply getS_allSet _ hwn
            rcases hx with ⟨pos, hx⟩ | ⟨pos, hx⟩
            · exact List.mem_append.mpr (Or.inr
                (Array.mem_toList_iff.mpr (Array.mem_of_getElem? (hQ.pr x pos w hx hw))))
            · exact List.mem_append.mpr (Or.inl
                (Array.mem_toList_iff.mpr (Array.mem_of_getElem? (hQP.pr x pos w hx hw))))

end assembly

/-! ### Composition with the run -/

/-- The definedness pattern "exactly the public rows and the private rows set" (the `t0` of the
driver's `shape` command). -/
def allInputsSet (c : Circuit K) : Array Bool :=
  allSet c.witnessCount (c.pubRows.toList ++ c.privRows.toList)

/-- The lowered list read as a circuit (no optimiser: empty rewrite map). -/
def _root_.P3R.Lowered.asCircuit (l : Lowered K) : Circuit K :=
  { witnessCount := l.witnessCount, ops := l.ops, pubRows := l.pubRows, privRows := l.privRows,
    e2w := l.e2w, rewrite := [] }

theorem all_of_getS (t : Array Bool) (h : ∀ w, w < t.size → getS t w = true) : t.all id = true := by
  rw [Array.all_eq_true]
  intro i hi
  have := h i hi
  unfold getS at this
  simpa [Array.getD, hi] using this

/-- **C02 / `lowered_shape_ok`.** The shape run of the unoptimised circuit of every guarded builder
state succeeds from "all inputs supplied". -/
theorem lowered_shape_ok [Neg K] (b : BState K) (hok : b.Ok) (hpo : privOk b = true)
    (hpu : pubOk b = true) (hprim : primOk b = true) (l : Lowered K) (hl : lower b = .ok l) :
    runShape l.asCircuit (allInputsSet l.asCircuit) = true := by
  obtain ⟨t, ht, hall⟩ := lower_shape_ok b hok hpo hpu hprim l hl
  have hsz : t.size = l.witnessCount := by
    rw [(run_sub _ ht).1]
    exact allSet_size _ _
  unfold runShape
  have : (Lowered.asCircuit l).ops.toList.foldlM execOpShape (allInputsSet l.asCircuit) = some t := ht
  rw [this]
  simp only [Lowered.asCircuit, List.foldlM_nil, pure]
  exact all_of_getS t (fun w hw => hall w (by rw [← hsz]; exact hw))

/-- The circuit `compile` builds from a lowering. -/
def compiledOf [Neg K] [Zero K] [DecidableEq K] (l : Lowered K) : Circuit K :=
  let o := optimize l.ops l.privRows.toList
  { witnessCount := l.witnessCount, ops := o.1,
    pubRows := l.pubRows.map (resolve o.2), privRows := l.privRows.map (resolve o.2),
    e2w := l.e2w.map (·.map (resolve o.2)), rewrite := o.2 }

/-- The optimiser keeps the shape run of this lowering (decidable; an implication): the one step of
`compile ⇒ shape ok` that is not proved for every program here. -/
def optKeepsShape [Neg K] [Zero K] [DecidableEq K] (l : Lowered K) : Bool :=
  !(runShape l.asCircuit (allInputsSet l.asCircuit)) ||
  runShape (compiledOf l) (allInputsSet (compiledOf l))

theorem compile_eq_compiledOf [Neg K] [Zero K] [DecidableEq K] (b : BState K) (c : Circuit K)
    (h : compile b = .ok c) : ∃ l, lower b = .ok l ∧ c = compiledOf l := by
  unfold compile at h
  cases hl : lower b with
  | error e => rw [hl] at h; cases h
  | ok l =>
    rw [hl] at h
    simp only at h
    split at h
    · cases h
    · cases h
      exact ⟨l, rfl, rfl⟩

/-- **C02 / `compile_shape_ok_of_optKeeps`.** -/
theorem compile_shape_ok_of_optKeeps [Neg K] [Zero K] [DecidableEq K] (b : BState K) (hok : b.Ok)
    (hpo : privOk b = true) (hpu : pubOk b = true) (hprim : primOk b = true) (c : Circuit K)
    (hc : compile b = .ok c)
    (hopt : ∀ l, lower b = .ok l → optKeepsShape l = true) :
    runShape c (allInputsSet c) = true := by
  obtain ⟨l, hl, rfl⟩ := compile_eq_compiledOf b c hc
  have h1 := lowered_shape_ok b hok hpo hpu hprim l hl
  have h2 := hopt l hl
  unfold optKeepsShape at h2
  rw [h1] at h2
  simpa using h2

end P3R.C02S

namespace P3R.C02
open P3R P3R.C02S

variable {K : Type} [Field K] [DecidableEq K]

/-- **C02 / second clause, unoptimised circuit — no per-circuit hypothesis.** For every guarded
builder state, the lowered circuit, every assignment `w` satisfying every op relation (hints agreeing),
and every table `w0` that holds exactly the public and private rows with the values of `w`: the run
succeeds and returns `w`. -/
theorem lowered_run_total (canon : K → Nat) (b : BState K) (hok : b.Ok) (hpo : privOk b = true)
    (hpu : pubOk b = true) (hprim : primOk b = true) (l : Lowered K) (hl : lower b = .ok l)
    (w0 : Array (Option K)) (w pub : Nat → K) (h0 : Agree w0 w)
    (hsh : shape w0 = allInputsSet l.asCircuit)
    (hall : ∀ op ∈ l.ops.toList, op.holds w pub ∧ RunnerWrites w op ∧ HintAgrees canon w op) :
    ∃ t, runFrom canon l.asCircuit w0 = .ok t ∧
      ∀ j, j < t.witness.size → t.witness.getD j 0 = w j :=
  run_succeeds_on_every_satisfying_input canon l.asCircuit w0 w pub h0 hall
    (by intro dc hdc; simp [Lowered.asCircuit] at hdc)
    (by rw [hsh]; exact lowered_shape_ok b hok hpo hpu hprim l hl)

/-- **C02 / `run_total_on_satisfying_inputs` (modulo `optKeepsShape`).** For every guarded builder
state and compiled circuit, every assignment satisfying every op relation (hints agreeing, rewrite
map respected) and every table holding exactly the supplied inputs: the run succeeds and returns the
assignment. The only per-circuit hypothesis left is `optKeepsShape` (the optimiser keeps the shape
run); the lowering side is total (`lowered_shape_ok`). -/
theorem run_total_on_satisfying_inputs_of_optKeeps (canon : K → Nat) (b : BState K) (hok : b.Ok)
    (hpo : privOk b = true) (hpu : pubOk b = true) (hprim : primOk b = true) (c : Circuit K)
    (hc : compile b = .ok c) (hopt : ∀ l, lower b = .ok l → optKeepsShape l = true)
    (w0 : Array (Option K)) (w pub : Nat → K) (h0 : Agree w0 w) (hsh : shape w0 = allInputsSet c)
    (hall : ∀ op ∈ c.ops.toList, op.holds w pub ∧ RunnerWrites w op ∧ HintAgrees canon w op)
    (hrw : ∀ dc ∈ c.rewrite, w dc.1 = w (resolve c.rewrite dc.2)) :
    ∃ t, runFrom canon c w0 = .ok t ∧ ∀ j, j < t.witness.size → t.witness.getD j 0 = w j :=
  run_succeeds_on_every_satisfying_input canon c w0 w pub h0 hall hrw
    (by rw [hsh]; exact compile_shape_ok_of_optKeeps b hok hpo hpu hprim c hc hopt)

end P3R.C02
