//! C02 / C03: compile generated programs with the real builder, dump the compiled circuit in
//! the driver's text form, run it on several input vectors, and judge the implementation
//! against the independent oracles (call-level semantics; ops-only propagation).

use std::collections::BTreeMap;
use std::io::Write;
use std::panic::{AssertUnwindSafe, catch_unwind};

use p3_baby_bear::BabyBear;
use p3_circuit::ops::Op;
use p3_circuit::{Circuit, WitnessId};
use p3_field::{ExtensionField, Field, PrimeField64};
use p3_goldilocks::Goldilocks;
use p3_koala_bear::KoalaBear;
use serde_json::{Value, json};

use crate::prog::*;
use crate::rng::Rng;

pub struct Report {
    pub programs: usize,
    pub runs: usize,
    pub distinct: std::collections::HashSet<u64>,
    pub hist: BTreeMap<String, u64>,
    pub violations: Vec<Value>,
    pub samples: Vec<Value>,
}

fn bump(h: &mut BTreeMap<String, u64>, k: &str, n: u64) {
    *h.entry(k.to_string()).or_default() += n;
}

fn hash_str(s: &str) -> u64 {
    let mut h = 0xcbf29ce484222325u64;
    for b in s.bytes() {
        h ^= b as u64;
        h = h.wrapping_mul(0x100000001b3);
    }
    h
}

/// Source relations at call level under `v(e) = w[e2w[e]]`; returns the first failing call.
fn source_violation<F: Field + PrimeField64>(
    prog: &[Call],
    rets: &[Vec<u32>],
    c: &Circuit<F>,
    w: &[F],
    pubs: &[F],
    privs: &[F],
) -> Option<(usize, String)> {
    let v = |e: u32| -> Option<F> {
        c.expr_to_widx.get(&p3_circuit::ExprId(e)).and_then(|s| w.get(s.0 as usize).copied())
    };
    let (mut np, mut npr) = (0usize, 0usize);
    for (i, (call, r)) in prog.iter().zip(rets).enumerate() {
        let r0 = r.first().copied();
        let ok: Option<bool> = (|| {
            Some(match call {
                Call::Const(x) => v(r0?)? == F::from_u64(*x),
                Call::Pub => {
                    np += 1;
                    v(r0?)? == *pubs.get(np - 1)?
                }
                Call::Priv => {
                    npr += 1;
                    v(r0?)? == *privs.get(npr - 1)?
                }
                Call::Add(a, b) => v(r0?)? == v(*a)? + v(*b)?,
                Call::Sub(a, b) => v(r0?)? == v(*a)? - v(*b)?,
                Call::Mul(a, b) => v(r0?)? == v(*a)? * v(*b)?,
                Call::Div(a, b) => v(*b)? == F::ZERO || v(r0?)? * v(*b)? == v(*a)?,
                Call::MulAdd(a, b, cc) => v(r0?)? == v(*a)? * v(*b)? + v(*cc)?,
                Call::Horner(acc, al, pz, px) => v(r0?)? == v(*acc)? * v(*al)? + v(*pz)? - v(*px)?,
                Call::ABool(a) => {
                    let x = v(*a)?;
                    x == F::ZERO || x == F::ONE
                }
                Call::AZero(a) => v(*a)? == F::ZERO,
                Call::Conn(a, b) => v(*a)? == v(*b)?,
                Call::Sel(b, t, s) => v(r0?)? == v(*s)? + v(*b)? * (v(*t)? - v(*s)?),
                Call::MulMany(xs) => {
                    let mut acc = F::ONE;
                    for x in xs {
                        acc *= v(*x)?;
                    }
                    v(r0?)? == acc
                }
                Call::Inner(xs, ys) => {
                    let mut acc = F::ZERO;
                    for (x, y) in xs.iter().zip(ys) {
                        acc += v(*x)? * v(*y)?;
                    }
                    v(r0?)? == acc
                }
                Call::Exp2(x, k) => {
                    let mut b = v(*x)?;
                    for _ in 0..*k {
                        b = b * b;
                    }
                    v(r0?)? == b
                }
                Call::Bits(x, _) => {
                    let mut acc = F::ZERO;
                    for (j, bit) in r.iter().enumerate() {
                        let bv = v(*bit)?;
                        if !(bv == F::ZERO || bv == F::ONE) {
                            return Some(false);
                        }
                        acc += bv * F::from_u64(1u64 << j);
                    }
                    v(*x)? == acc
                }
            })
        })();
        match ok {
            Some(true) => {}
            Some(false) => return Some((i, call.line())),
            // an operand without a witness slot: not a statement about w
            None => {}
        }
    }
    None
}

fn field_tag<F: PrimeField64>() -> &'static str {
    match F::ORDER_U64 {
        2013265921 => "bb",
        2130706433 => "kb",
        _ => "gl",
    }
}

/// Process one program: emit driver commands + implementation lines, judge oracles.
#[allow(clippy::too_many_arguments)]
pub fn one_program<F>(
    rng: &mut Rng,
    calls_in: Option<Vec<Call>>,
    base_inputs: Option<(Vec<u64>, Vec<u64>)>,
    max_calls: usize,
    n_inputs: usize,
    cases: &mut dyn Write,
    implo: &mut dyn Write,
    rep: &mut Report,
    id: &str,
) where
    F: Field + PrimeField64 + ExtensionField<F>,
{
    let p = F::ORDER_U64;
    let (prog, builder) = match calls_in {
        Some(calls) => {
            let (rets, b) = rebuild::<F>(&calls);
            let npub = calls.iter().filter(|c| matches!(c, Call::Pub)).count();
            let npriv = calls.iter().filter(|c| matches!(c, Call::Priv)).count();
            let (p0, q0) = base_inputs.unwrap_or((vec![0; npub], vec![0; npriv]));
            (Program { calls, rets, npub, npriv, pubs0: p0, privs0: q0 }, b)
        }
        None => match generate::<F>(rng, &GenCfg { max_calls, allow_zero_div: true }) {
            Some(x) => x,
            None => {
                bump(&mut rep.hist, "generator.builder_debug_assert", 1);
                return;
            }
        },
    };
    rep.programs += 1;
    let text: String = prog.calls.iter().map(|c| c.line()).collect::<Vec<_>>().join("\n");
    rep.distinct.insert(hash_str(&text));
    for c in &prog.calls {
        bump(&mut rep.hist, &format!("call.{}", c.kind()), 1);
    }
    bump(&mut rep.hist, &format!("size.{}", (prog.calls.len() / 10) * 10), 1);

    writeln!(cases, "prog {}", field_tag::<F>()).unwrap();
    writeln!(implo, "prog {}", field_tag::<F>()).unwrap();
    for (c, r) in prog.calls.iter().zip(&prog.rets) {
        writeln!(cases, "{}", c.line()).unwrap();
        let rs = r.iter().map(|x| x.to_string()).collect::<Vec<_>>().join(" ");
        writeln!(implo, "{}", format!("r {rs}").trim_end()).unwrap();
    }
    writeln!(cases, "build").unwrap();
    let built = catch_unwind(AssertUnwindSafe(|| builder.build()));
    let circuit = match built {
        Ok(Ok(c)) => c,
        Ok(Err(_)) => {
            writeln!(implo, "build err").unwrap();
            bump(&mut rep.hist, "build.err", 1);
            return;
        }
        Err(_) => {
            writeln!(implo, "build panic").unwrap();
            rep.violations.push(json!({"property":"C02","kind":"build-panic","id":id,"program":text}));
            return;
        }
    };
    writeln!(implo, "build ok").unwrap();
    for l in circuit_lines(&circuit) {
        writeln!(implo, "{}", l.trim_end()).unwrap();
    }
    bump(&mut rep.hist, "ops.total", circuit.ops.len() as u64);
    if let Some(rw) = &circuit.witness_rewrite {
        bump(&mut rep.hist, "dedup.rewrites", rw.len() as u64);
    }
    let fused = circuit
        .ops
        .iter()
        .filter(|o| matches!(o, Op::Alu { kind: p3_circuit::AluOpKind::MulAdd, intermediate_out: Some(_), .. }))
        .count();
    bump(&mut rep.hist, "fusion.hits", fused as u64);
    // the Lean driver re-checks the fusion pass of this program with its verified certificate
    // checker and must answer `ok` with the same number of fused sites
    writeln!(cases, "fcheck").unwrap();
    writeln!(implo, "fcheck ok {fused}").unwrap();
    writeln!(cases, "lcheck").unwrap();
    writeln!(implo, "lcheck ok").unwrap();
    // the model's value-free shape run; the check cross-examines the answer with the real runs below
    writeln!(cases, "shape").unwrap();
    writeln!(implo, "shape ?").unwrap();

    // input vectors: the base (satisfying by construction unless a zero divisor was allowed),
    // then single-input perturbations
    let mut vectors: Vec<(Vec<u64>, Vec<u64>, &'static str)> =
        vec![(prog.pubs0.clone(), prog.privs0.clone(), "base")];
    let ntot = prog.npub + prog.npriv;
    for k in 0..n_inputs.saturating_sub(1) {
        if ntot == 0 {
            break;
        }
        let (mut pu, mut pr) = (prog.pubs0.clone(), prog.privs0.clone());
        let j = rng.usize(ntot);
        let slot = if j < prog.npub { &mut pu[j] } else { &mut pr[j - prog.npub] };
        *slot = match k % 3 {
            0 => (*slot + 1) % p,
            1 => rng.below(p),
            _ => {
                if *slot == 0 {
                    1
                } else {
                    0
                }
            }
        };
        vectors.push((pu, pr, "perturbed"));
    }

    for (pu, pr, vkind) in vectors {
        rep.runs += 1;
        writeln!(cases, "{}", run_line(pu.len(), &pu, &pr)).unwrap();
        let pubs: Vec<F> = pu.iter().map(|x| F::from_u64(*x)).collect();
        let privs: Vec<F> = pr.iter().map(|x| F::from_u64(*x)).collect();
        // oracle
        let mut sem = Sem::<F>::new(pubs.clone(), privs.clone());
        for (i, (c, r)) in prog.calls.iter().zip(&prog.rets).enumerate() {
            sem.apply(i, c, r);
        }
        let viol = sem.first_violation();
        // implementation
        let res = catch_unwind(AssertUnwindSafe(|| {
            let mut runner = circuit.runner();
            runner.set_public_inputs(&pubs)?;
            runner.set_private_inputs(&privs)?;
            runner.run()
        }));
        let replay = json!({"field": field_tag::<F>(), "program": prog.calls.iter().map(|c| c.line()).collect::<Vec<_>>(),
                            "pubs": pu, "privs": pr, "id": id});
        match res {
            Err(_) => {
                writeln!(implo, "run panic").unwrap();
                rep.violations.push(json!({"property":"C02","kind":"run-panic","replay":replay}));
            }
            Ok(Err(e)) => {
                writeln!(implo, "run err {}", err_name(&e)).unwrap();
                bump(&mut rep.hist, &format!("run.err.{}", err_name(&e)), 1);
                if viol.is_none() && !sem.zero_div && sem.inconsistent.is_empty() {
                    rep.violations.push(json!({"property":"C02","kind":"run-fails-on-satisfying-input",
                        "error": format!("{e:?}"), "replay":replay}));
                }
            }
            Ok(Ok(traces)) => {
                let wvals: Vec<F> = (0..circuit.witness_count)
                    .map(|i| *traces.witness_trace.get_value(WitnessId(i)).unwrap())
                    .collect();
                writeln!(
                    implo,
                    "run ok {}",
                    wvals.iter().map(|x| x.as_canonical_u64().to_string()).collect::<Vec<_>>().join(" ")
                )
                .unwrap();
                // (a circuit without ALU ops gets one dummy `0 + 0 = 0` row from the runner: not an op's record)
                let n_alu = circuit.ops.iter().filter(|o| matches!(o, Op::Alu { .. })).count();
                writeln!(
                    implo,
                    "recs {}",
                    traces
                        .alu_trace
                        .op_kind
                        .iter()
                        .zip(&traces.alu_trace.values)
                        .take(n_alu)
                        .map(|(k, v)| format!("{}:{},{},{},{}", kind_str(*k), v[0].as_canonical_u64(), v[1].as_canonical_u64(), v[2].as_canonical_u64(), v[3].as_canonical_u64()))
                        .collect::<Vec<_>>()
                        .join(" ")
                )
                .unwrap();
                bump(&mut rep.hist, "run.ok", 1);
                if sem.zero_div {
                    // a divisor is zero: the property promises nothing for this input
                } else if let Some(vi) = viol {
                    // a violated relation must make the trace unprovable: some ALU record
                    // breaks its row relation
                    let any_bad = traces
                        .alu_trace
                        .op_kind
                        .iter()
                        .zip(&traces.alu_trace.values)
                        .any(|(k, v)| !alu_record_ok(*k, v, None));
                    if !any_bad {
                        rep.violations.push(json!({"property":"C02","kind":"run-ok-on-violating-input",
                            "relation": format!("{:?}", sem.rels[vi]), "replay":replay}));
                    } else {
                        bump(&mut rep.hist, "run.ok.unprovable", 1);
                    }
                } else {
                    // value clause
                    for (e, val) in &sem.val {
                        let Some(val) = val else { continue };
                        let Some(slot) = circuit.expr_to_widx.get(&p3_circuit::ExprId(*e)) else { continue };
                        if wvals[slot.0 as usize] != *val {
                            rep.violations.push(json!({"property":"C02","kind":"wrong-value",
                                "expr": e, "expected": val.as_canonical_u64(),
                                "got": wvals[slot.0 as usize].as_canonical_u64(), "replay":replay}));
                            break;
                        }
                    }
                }
            }
        }
        if !sem.inconsistent.is_empty() && !sem.zero_div {
            rep.violations.push(json!({"property":"C02","kind":"builder-returned-id-with-different-value",
                "calls": sem.inconsistent, "replay": replay}));
        }
        bump(&mut rep.hist, &format!("input.{}.{}", vkind, if viol.is_some() { "violating" } else if sem.zero_div { "zerodiv" } else { "satisfying" }), 1);

        // C03: ops-only propagation on this input vector
        let priv_slots: Vec<(u32, F)> =
            circuit.private_input_rows.iter().zip(&privs).map(|(s, v)| (s.0, *v)).collect();
        // private slots through e2w would be circular with the runner mapping only for the
        // rewritten rows; the rows are what the prover is told, so use them.
        if let Some(w) = ops_only_assignment(&circuit, &pubs, &priv_slots) {
            bump(&mut rep.hist, "c03.ops_accept", 1);
            if let Some((ci, line)) = source_violation(&prog.calls, &prog.rets, &circuit, &w, &pubs, &privs) {
                rep.violations.push(json!({"property":"C03","kind":"ops-accept-assignment-violating-source",
                    "call_index": ci, "call": line, "replay": replay}));
            }
        } else {
            bump(&mut rep.hist, "c03.ops_reject", 1);
        }
        // adversarial variant: an operand slot that no op (and no input) defines is the prover's to
        // choose. If the emitted ops accept such an assignment and it violates a source relation,
        // the compiled ops do not imply the source (e.g. a stale, un-rewritten slot reference).
        if let Some(w_free) = crate::prog::ops_only_assignment_full(&circuit, &pubs, &priv_slots, false, false, true) {
            if ops_sat_full(&circuit, &w_free, &pubs) {
                if let Some((ci, line)) = source_violation(&prog.calls, &prog.rets, &circuit, &w_free, &pubs, &privs) {
                    rep.violations.push(json!({"property":"C03","kind":"ops-accept-assignment-violating-source",
                        "class":"unconstrained-operand", "call_index": ci, "call": line, "replay": replay}));
                }
            }
        }
        // adversarial variant: the product slot of a fused MulAdd is constrained by no row. Give
        // it a wrong value; if the emitted ops still accept, *repair* the product slots (the
        // `w'` of theorem `fusion_check_sound`): if the repaired assignment is rejected by an
        // emitted op or violates the source, something observed the product slot.
        if fused > 0 {
            if let Some(w_adv) = ops_only_assignment_adv(&circuit, &pubs, &priv_slots, true) {
                bump(&mut rep.hist, "c03.ops_accept_adv", 1);
                let mut w_rep = w_adv.clone();
                for op in &circuit.ops {
                    if let Op::Alu { kind: p3_circuit::AluOpKind::MulAdd, a, b, intermediate_out: Some(io), .. } = op {
                        w_rep[io.0 as usize] = w_rep[a.0 as usize] * w_rep[b.0 as usize];
                    }
                }
                let ops_ok = ops_sat_full(&circuit, &w_rep, &pubs);
                let src = source_violation(&prog.calls, &prog.rets, &circuit, &w_rep, &pubs, &privs);
                if !ops_ok || src.is_some() {
                    rep.violations.push(json!({"property":"C03","kind":"ops-accept-assignment-violating-source",
                        "class":"fused-product-observable", "repaired_ops_hold": ops_ok,
                        "call": src.map(|x| x.1), "replay": replay}));
                }
            }
        }
    }
    if rep.samples.len() < 3 {
        rep.samples.push(json!({"program": prog.calls.iter().map(|c| c.line()).collect::<Vec<_>>(),
            "pubs": prog.pubs0, "privs": prog.privs0, "ops": circuit.ops.len()}));
    }
}

pub fn parse_call(l: &str) -> Option<Call> {
    let t: Vec<&str> = l.split_whitespace().collect();
    let n = |i: usize| -> Option<u32> { t.get(i)?.parse().ok() };
    let rest = || -> Option<Vec<u32>> { t[1..].iter().map(|x| x.parse().ok()).collect() };
    Some(match *t.first()? {
        "const" => Call::Const(t.get(1)?.parse().ok()?),
        "pub" => Call::Pub,
        "priv" => Call::Priv,
        "add" => Call::Add(n(1)?, n(2)?),
        "sub" => Call::Sub(n(1)?, n(2)?),
        "mul" => Call::Mul(n(1)?, n(2)?),
        "div" => Call::Div(n(1)?, n(2)?),
        "muladd" => Call::MulAdd(n(1)?, n(2)?, n(3)?),
        "horner" => Call::Horner(n(1)?, n(2)?, n(3)?, n(4)?),
        "abool" => Call::ABool(n(1)?),
        "azero" => Call::AZero(n(1)?),
        "conn" => Call::Conn(n(1)?, n(2)?),
        "sel" => Call::Sel(n(1)?, n(2)?, n(3)?),
        "mulmany" => Call::MulMany(rest()?),
        "inner" => {
            let r = rest()?;
            let h = r.len() / 2;
            Call::Inner(r[..h].to_vec(), r[h..].to_vec())
        }
        "exp2" => Call::Exp2(n(1)?, n(2)?),
        "bits" => Call::Bits(n(1)?, n(2)?),
        _ => return None,
    })
}

/// Entry point: `compile --seed S --programs N --max-calls M --inputs K --out DIR [--corpus DIR]`
pub fn main(args: &crate::Args) {
    let seed = args.u64("seed", 1);
    let nprog = args.u64("programs", 200) as usize;
    let max_calls = args.u64("max-calls", 40) as usize;
    let n_inputs = args.u64("inputs", 4) as usize;
    let out = args.str("out", "/tmp/p3r");
    std::fs::create_dir_all(&out).unwrap();
    let mut cases = std::io::BufWriter::new(std::fs::File::create(format!("{out}/compile.cases")).unwrap());
    let mut implo = std::io::BufWriter::new(std::fs::File::create(format!("{out}/compile.impl")).unwrap());
    let mut rep = Report {
        programs: 0,
        runs: 0,
        distinct: Default::default(),
        hist: Default::default(),
        violations: vec![],
        samples: vec![],
    };
    let mut rng = Rng::new(seed);
    // corpus first: each file is {"field","program":[lines],"pubs":[],"privs":[]}
    if let Some(dir) = args.opt("corpus") {
        let mut files: Vec<_> = std::fs::read_dir(&dir)
            .map(|d| d.filter_map(|e| e.ok()).map(|e| e.path()).collect())
            .unwrap_or_default();
        files.sort();
        for f in files {
            if f.extension().and_then(|e| e.to_str()) != Some("json") {
                continue;
            }
            let Ok(txt) = std::fs::read_to_string(&f) else { continue };
            let Ok(v) = serde_json::from_str::<Value>(&txt) else { continue };
            let calls: Option<Vec<Call>> = v["program"]
                .as_array()
                .map(|a| a.iter().filter_map(|l| parse_call(l.as_str()?)).collect());
            let Some(calls) = calls else { continue };
            let pu: Vec<u64> = v["pubs"].as_array().map(|a| a.iter().filter_map(|x| x.as_u64()).collect()).unwrap_or_default();
            let pr: Vec<u64> = v["privs"].as_array().map(|a| a.iter().filter_map(|x| x.as_u64()).collect()).unwrap_or_default();
            let id = format!("corpus:{}", f.file_name().unwrap().to_string_lossy());
            bump(&mut rep.hist, "corpus.files", 1);
            match v["field"].as_str().unwrap_or("bb") {
                "kb" => one_program::<KoalaBear>(&mut rng, Some(calls), Some((pu, pr)), max_calls, n_inputs, &mut cases, &mut implo, &mut rep, &id),
                "gl" => one_program::<Goldilocks>(&mut rng, Some(calls), Some((pu, pr)), max_calls, n_inputs, &mut cases, &mut implo, &mut rep, &id),
                _ => one_program::<BabyBear>(&mut rng, Some(calls), Some((pu, pr)), max_calls, n_inputs, &mut cases, &mut implo, &mut rep, &id),
            }
        }
    }
    for i in 0..nprog {
        let id = format!("gen:{seed}:{i}");
        let mut r = rng.fork();
        match i % 8 {
            6 => one_program::<KoalaBear>(&mut r, None, None, max_calls, n_inputs, &mut cases, &mut implo, &mut rep, &id),
            7 => one_program::<Goldilocks>(&mut r, None, None, max_calls, n_inputs, &mut cases, &mut implo, &mut rep, &id),
            _ => one_program::<BabyBear>(&mut r, None, None, max_calls, n_inputs, &mut cases, &mut implo, &mut rep, &id),
        }
    }
    cases.flush().unwrap();
    implo.flush().unwrap();
    let report = json!({
        "programs": rep.programs, "runs": rep.runs, "distinct_programs": rep.distinct.len(),
        "hist": rep.hist, "violations": rep.violations, "samples": rep.samples, "seed": seed,
    });
    std::fs::write(format!("{out}/compile.report.json"), serde_json::to_string_pretty(&report).unwrap()).unwrap();
    println!("compile: programs={} runs={} violations={}", rep.programs, rep.runs, rep.violations.len());
}

// ---------------------------------------------------------------------------------------
// Shrinking: delta-debug the call list of a failing replay. References are made symbolic
// (call index, return position) so that expression ids can be recomputed after removals.

#[derive(Clone, Copy, Debug, PartialEq)]
enum Ref {
    Zero,
    Ret(usize, usize),
    Raw(u32),
}

fn call_operands(c: &mut Call) -> Vec<&mut u32> {
    match c {
        Call::Const(_) | Call::Pub | Call::Priv => vec![],
        Call::Add(a, b) | Call::Sub(a, b) | Call::Mul(a, b) | Call::Div(a, b) | Call::Conn(a, b) => vec![a, b],
        Call::MulAdd(a, b, c) | Call::Sel(a, b, c) => vec![a, b, c],
        Call::Horner(a, b, c, d) => vec![a, b, c, d],
        Call::ABool(a) | Call::AZero(a) => vec![a],
        Call::MulMany(v) => v.iter_mut().collect(),
        Call::Inner(a, b) => a.iter_mut().chain(b.iter_mut()).collect(),
        Call::Exp2(x, _) | Call::Bits(x, _) => vec![x],
    }
}

fn violates<F>(calls: &[Call], pubs: &[u64], privs: &[u64], prop: &str, kind: &str) -> bool
where
    F: Field + PrimeField64 + ExtensionField<F>,
{
    let mut rep = Report {
        programs: 0,
        runs: 0,
        distinct: Default::default(),
        hist: Default::default(),
        violations: vec![],
        samples: vec![],
    };
    let mut sink1 = std::io::sink();
    let mut sink2 = std::io::sink();
    let mut rng = Rng::new(0);
    let r = catch_unwind(AssertUnwindSafe(|| {
        one_program::<F>(&mut rng, Some(calls.to_vec()), Some((pubs.to_vec(), privs.to_vec())), 0, 1, &mut sink1, &mut sink2, &mut rep, "shrink")
    }));
    r.is_ok() && rep.violations.iter().any(|v| v["property"] == prop && v["kind"] == kind)
}

fn shrink_generic<F>(calls: Vec<Call>, pubs: Vec<u64>, privs: Vec<u64>, prop: &str, kind: &str) -> (Vec<Call>, Vec<u64>, Vec<u64>)
where
    F: Field + PrimeField64 + ExtensionField<F>,
{
    let prop = prop.to_string();
    let kind = kind.to_string();
    shrink_with::<F>(calls, pubs, privs, &move |c, pu, pr| violates::<F>(c, pu, pr, &prop, &kind))
}

/// Delta-debugging of a call list under an arbitrary failure predicate.
pub fn shrink_with<F>(
    calls: Vec<Call>,
    pubs: Vec<u64>,
    privs: Vec<u64>,
    pred: &dyn Fn(&[Call], &[u64], &[u64]) -> bool,
) -> (Vec<Call>, Vec<u64>, Vec<u64>)
where
    F: Field + PrimeField64 + ExtensionField<F>,
{
    let violates = |c: &[Call], pu: &[u64], pr: &[u64]| -> bool { pred(c, pu, pr) };
    // symbolic form
    let (rets, _) = rebuild::<F>(&calls);
    let mut first: std::collections::HashMap<u32, (usize, usize)> = Default::default();
    for (i, r) in rets.iter().enumerate() {
        for (j, id) in r.iter().enumerate() {
            first.entry(*id).or_insert((i, j));
        }
    }
    let sym: Vec<(Call, Vec<Ref>)> = calls
        .iter()
        .map(|c| {
            let mut c2 = c.clone();
            let refs = call_operands(&mut c2)
                .into_iter()
                .map(|x| {
                    if *x == 0 {
                        Ref::Zero
                    } else {
                        first.get(x).map_or(Ref::Raw(*x), |(i, j)| Ref::Ret(*i, *j))
                    }
                })
                .collect();
            (c2, refs)
        })
        .collect();
    // pub / priv value per call index
    let mut pv: Vec<Option<u64>> = vec![None; calls.len()];
    let (mut a, mut b) = (0, 0);
    for (i, c) in calls.iter().enumerate() {
        match c {
            Call::Pub => {
                pv[i] = pubs.get(a).copied();
                a += 1;
            }
            Call::Priv => {
                pv[i] = privs.get(b).copied();
                b += 1;
            }
            _ => {}
        }
    }
    let materialise = |keep: &[bool]| -> Option<(Vec<Call>, Vec<u64>, Vec<u64>)> {
        let mut bld = CircuitBuilderShim::<F>::new();
        let mut new_rets: Vec<Option<Vec<u32>>> = vec![None; sym.len()];
        let (mut out, mut pu, mut pr) = (vec![], vec![], vec![]);
        for (i, (c, refs)) in sym.iter().enumerate() {
            if !keep[i] {
                continue;
            }
            let mut c2 = c.clone();
            for (slot, r) in call_operands(&mut c2).into_iter().zip(refs) {
                *slot = match r {
                    Ref::Zero => 0,
                    Ref::Raw(_) => return None,
                    Ref::Ret(ci, j) => *new_rets[*ci].as_ref()?.get(*j)?,
                };
            }
            match c2 {
                Call::Pub => pu.push(pv[i].unwrap_or(0)),
                Call::Priv => pr.push(pv[i].unwrap_or(0)),
                _ => {}
            }
            let r = catch_unwind(AssertUnwindSafe(|| apply_real(&mut bld.0, &c2))).ok()?;
            new_rets[i] = Some(r);
            out.push(c2);
        }
        Some((out, pu, pr))
    };
    let mut keep = vec![true; sym.len()];
    let mut progress = true;
    while progress {
        progress = false;
        for i in (0..sym.len()).rev() {
            if !keep[i] {
                continue;
            }
            keep[i] = false;
            let ok = materialise(&keep).is_some_and(|(c, pu, pr)| violates(&c, &pu, &pr));
            if ok {
                progress = true;
            } else {
                keep[i] = true;
            }
        }
    }
    let (mut c, mut pu, mut pr) = materialise(&keep).unwrap_or((calls, pubs, privs));
    // shrink values towards small numbers
    for k in 0..pu.len() + pr.len() {
        for cand in [0u64, 1, 2, 3] {
            let (mut pu2, mut pr2) = (pu.clone(), pr.clone());
            let slot = if k < pu.len() { &mut pu2[k] } else { &mut pr2[k - pu.len()] };
            if *slot <= cand {
                break;
            }
            *slot = cand;
            if violates(&c, &pu2, &pr2) {
                pu = pu2;
                pr = pr2;
                break;
            }
        }
    }
    for i in 0..c.len() {
        if let Call::Const(v) = c[i] {
            for cand in [2u64, 3, 5, 7] {
                if v <= cand {
                    break;
                }
                let mut c2 = c.clone();
                c2[i] = Call::Const(cand);
                // constants may merge and shift ids; only accept if ids stay valid
                let fine = catch_unwind(AssertUnwindSafe(|| violates(&c2, &pu, &pr))).unwrap_or(false);
                if fine {
                    c = c2;
                    break;
                }
            }
        }
    }
    (c, pu, pr)
}

struct CircuitBuilderShim<F: Field>(p3_circuit::CircuitBuilder<F>);
impl<F: Field + PrimeField64> CircuitBuilderShim<F> {
    fn new() -> Self {
        Self(p3_circuit::CircuitBuilder::new())
    }
}

/// `shrink --in replay.json --prop C02 --kind wrong-value --out min.json`
pub fn shrink_main(args: &crate::Args) {
    let txt = std::fs::read_to_string(args.str("in", "")).expect("replay file");
    let v: Value = serde_json::from_str(&txt).unwrap();
    let v = if v.get("program").is_some() { v } else { v["replay"].clone() };
    let calls: Vec<Call> = v["program"].as_array().unwrap().iter().filter_map(|l| parse_call(l.as_str()?)).collect();
    let pu: Vec<u64> = v["pubs"].as_array().unwrap().iter().filter_map(|x| x.as_u64()).collect();
    let pr: Vec<u64> = v["privs"].as_array().unwrap().iter().filter_map(|x| x.as_u64()).collect();
    let prop = args.str("prop", "C02");
    let kind = args.str("kind", "");
    let field = v["field"].as_str().unwrap_or("bb").to_string();
    let (c, pu, pr) = match field.as_str() {
        _ if prop == "C09" => shrink_with::<BabyBear>(calls, pu, pr, &|c, _, _| crate::c09::unbalanced_class(c).as_deref() == Some(kind.as_str())),
        "kb" => shrink_generic::<KoalaBear>(calls, pu, pr, &prop, &kind),
        "gl" => shrink_generic::<Goldilocks>(calls, pu, pr, &prop, &kind),
        _ => shrink_generic::<BabyBear>(calls, pu, pr, &prop, &kind),
    };
    let out = json!({"field": field, "program": c.iter().map(|c| c.line()).collect::<Vec<_>>(), "pubs": pu, "privs": pr,
                     "shrunk_from": v["program"].as_array().map(|a| a.len())});
    let s = serde_json::to_string_pretty(&out).unwrap();
    match args.opt("out") {
        Some(p) => std::fs::write(p, s).unwrap(),
        None => println!("{s}"),
    }
}
