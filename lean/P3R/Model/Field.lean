/-
Executable prime fields used by the line-protocol driver. Import-free (core only).

These instances are *not* proved to satisfy the field axioms; the theorems in `P3R.Props`
are stated for an arbitrary Mathlib `Field` (or commutative ring) and the model functions are
polymorphic in the arithmetic instances, so the same definitions run here with `PF p`.
The arithmetic of `PF p` is validated against p3-field by the correspondence checks.
-/
namespace P3R

/-- Residues modulo `p`, kept canonical (`val < p`) by every operation. -/
structure PF (p : Nat) where
  val : Nat
deriving DecidableEq, Repr, Hashable

namespace PF
variable {p : Nat}

@[inline] def ofNat (n : Nat) : PF p := ⟨n % p⟩
instance : Zero (PF p) := ⟨⟨0⟩⟩
instance : One (PF p) := ⟨ofNat 1⟩
instance : Add (PF p) := ⟨fun a b => ofNat (a.val + b.val)⟩
instance : Sub (PF p) := ⟨fun a b => ofNat (a.val + p - b.val % p)⟩
instance : Neg (PF p) := ⟨fun a => ofNat (p - a.val % p)⟩
instance : Mul (PF p) := ⟨fun a b => ofNat (a.val * b.val)⟩

def pow (a : PF p) (n : Nat) : PF p := Id.run do
  let mut r : PF p := 1
  let mut b := a
  let mut e := n
  for _ in [0:64] do
    if e % 2 == 1 then r := r * b
    b := b * b
    e := e / 2
  return r

/-- Inverse by Fermat (`p` prime, `p < 2^64`); `0⁻¹ = 0` as in Mathlib. -/
instance : Inv (PF p) := ⟨fun a => pow a (p - 2)⟩
instance : ToString (PF p) := ⟨fun a => toString a.val⟩

end PF

def babyBearP : Nat := 2013265921
def koalaBearP : Nat := 2130706433
def goldilocksP : Nat := 18446744069414584321

abbrev BabyBear := PF babyBearP
abbrev KoalaBear := PF koalaBearP
abbrev Goldilocks := PF goldilocksP

end P3R
